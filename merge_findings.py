#!/usr/bin/env python3
"""Development-time helper: folds findings.d/<ID>.json fragments (written by whoever built a check) into the single
committed known-findings.json and removes the fragments. Never run by a check."""
import glob, json, os
V = os.path.dirname(os.path.abspath(__file__))
kf = json.load(open(os.path.join(V, "known-findings.json")))
have = {(f["property"], f["signature"]): f for f in kf["findings"]}
for p in sorted(glob.glob(os.path.join(V, "findings.d", "*.json"))):
    for f in json.load(open(p))["findings"]:
        f = {k: f[k] for k in ("property", "signature", "status", "commit", "what", "suggested_repair") if k in f}
        have[(f["property"], f["signature"])] = f
    os.remove(p)
kf["findings"] = sorted(have.values(), key=lambda f: (f["property"], f["status"] != "open", f["signature"]))
json.dump(kf, open(os.path.join(V, "known-findings.json"), "w"), indent=1)
print("findings:", len(kf["findings"]), "open:", sum(1 for f in kf["findings"] if f["status"] == "open"), "fixed:", sum(1 for f in kf["findings"] if f["status"] == "fixed"))
