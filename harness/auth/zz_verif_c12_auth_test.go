package auth

// C12 — only valid credentials and live sessions authenticate.
// Injected into package auth by the /verif driver (build overlay); never part of /repo.

import (
	"context"
	"fmt"
	"net/http"
	"net/http/httptest"
	"strings"
	"sync"
	"sync/atomic"
	"testing"
	"time"
	"unicode"

	sgbucket "github.com/couchbase/sg-bucket"
	"github.com/couchbase/sync_gateway/base"
	kit "github.com/couchbase/sync_gateway/verifkit"
	"golang.org/x/crypto/bcrypt"
	"pgregory.net/rapid"
)

// Known finding (statement: "disabled ... users ... never authenticate"): the cookie path checks that
// the user exists and that the session belongs to the current credential epoch, but not the disabled
// flag, and disabling a user does not end the sessions issued before.
const vfC12SigDisabledSession = "disabled-user-authenticates-with-earlier-session"

var vfC12CaseSeq atomic.Int64

// ---------------------------------------------------------------------------------------------
// a data store whose Delete has Couchbase Server semantics

// vfC12Store embeds the rosmar data store and overrides only Delete: a missing *or already deleted*
// key answers key-not-found (rosmar lets a second Delete of a tombstone succeed), decided atomically
// with the delete. hook, when set, runs before the delete — the window between a session's read and
// its consumption.
type vfC12Store struct {
	sgbucket.DataStore
	mu   sync.Mutex
	hook func(key string)
	// writeHook, when set, runs once before the next WriteCas of writeKey: the window between a
	// request's read of a principal document and its CAS write.
	writeKey  string
	writeHook func()
}

func (s *vfC12Store) WriteCas(ctx context.Context, k string, exp uint32, cas uint64, v interface{}, opt sgbucket.WriteOptions) (uint64, error) {
	if h := s.writeHook; h != nil && k == s.writeKey {
		s.writeHook = nil // one shot
		h()
	}
	return s.DataStore.WriteCas(ctx, k, exp, cas, v, opt)
}

func (s *vfC12Store) Delete(ctx context.Context, key string) error {
	if h := s.hook; h != nil {
		h(key)
	}
	s.mu.Lock()
	defer s.mu.Unlock()
	exists, err := s.DataStore.Exists(ctx, key)
	if err != nil {
		return err
	}
	if !exists {
		return sgbucket.MissingError{Key: key}
	}
	return s.DataStore.Delete(ctx, key)
}

// ---------------------------------------------------------------------------------------------
// model

type vfC12User struct {
	name        string // real (per-case unique) name in the bucket
	label       string // canonical name used in the rendered case
	exists      bool
	disabled    bool
	pw          string
	prev        []string // every earlier password of this name, all incarnations
	prevOldInc  []string // passwords of deleted incarnations
	hashCost    int      // bcrypt cost of the stored hash (0: no hash)
	epoch       int      // bumped by every SetPassword and every (re-)creation: the code's session UUID
	change      int      // bumped when the credential really changed: new password value or re-creation
	incarnation int
}

type vfC12Session struct {
	id          string
	user        int
	epoch       int
	change      int
	incarnation int
	oneTime     bool
	alive       bool // the session document exists
}

type vfC12World struct {
	rt                                          *rapid.T
	test                                        string
	ctx                                         context.Context
	auth                                        *Authenticator
	ds                                          sgbucket.DataStore
	store                                       *vfC12Store
	allowEmpty                                  bool // configuration dimension: the database allows empty passwords (allow_empty_password)
	users                                       []*vfC12User
	sessions                                    []*vfC12Session
	ops                                         []string
	classes                                     map[string]int
	excluded                                    map[string]int
	oldSessionAfterChange, oldCredAfterRecreate bool
}

func (w *vfC12World) render() string { return strings.Join(w.ops, "; ") }

func (w *vfC12World) logf(format string, args ...any) {
	w.ops = append(w.ops, fmt.Sprintf(format, args...))
}

func (w *vfC12World) violation(format string, args ...any) {
	kit.Violation(w.rt, "C12", w.test, w.render(), format, args...)
}

func (w *vfC12World) harness(err error, what string) {
	if err != nil {
		w.rt.Fatalf("harness: %s: %v (case: %s)", what, err, w.render())
	}
}

func vfC12GenPassword() *rapid.Generator[string] {
	return rapid.OneOf(
		rapid.SampledFrom([]string{"password", "Password", "pass word", "pässword", "pässword", "letmein", "x", "pw1", "pw2", "ＰＷ１", "ǆ", "0", " ", "p\tw"}),
		rapid.StringMatching(`[a-zA-Z0-9 !@#éßİı]{1,10}`),
		rapid.StringN(1, 20, 60).Filter(func(s string) bool { return !strings.ContainsRune(s, 0) && len(s) <= 60 && len(s) > 0 }),
	)
}

// vfC12Variants: strings that a sloppy comparison would confuse with pw.
func vfC12Variants(pw string) []string {
	swap := strings.Map(func(r rune) rune {
		if unicode.IsUpper(r) {
			return unicode.ToLower(r)
		}
		return unicode.ToUpper(r)
	}, pw)
	out := []string{swap, strings.ToLower(pw), strings.ToUpper(pw), " " + pw, pw + " ", pw + "\n", "\t" + pw, strings.TrimSpace(pw), pw + pw, pw + "x",
		// composed <-> decomposed forms, look-alike spaces and letters
		strings.ReplaceAll(pw, "\u00e4", "a\u0308"), strings.ReplaceAll(pw, "a\u0308", "\u00e4"),
		strings.ReplaceAll(pw, "\u00e9", "e\u0301"), strings.ReplaceAll(pw, "e\u0301", "\u00e9"),
		strings.ReplaceAll(pw, " ", "\u00a0"), strings.ReplaceAll(pw, "\u0130", "i"), strings.ReplaceAll(pw, "\u0131", "i"), strings.ReplaceAll(pw, "\u00df", "ss"),
		strings.ReplaceAll(pw, "a", "\u0430")}
	if len(pw) > 1 {
		r := []rune(pw)
		out = append(out, string(r[:len(r)-1]), string(r[1:]))
	}
	res := out[:0]
	for _, v := range out {
		if !strings.ContainsRune(v, 0) && v != pw {
			res = append(res, v)
		}
	}
	return res
}

// drawPassword: a new password as the admin API would accept it; the empty one only when the
// configuration allows empty passwords.
func (w *vfC12World) drawPassword(label string) string {
	if w.allowEmpty && rapid.IntRange(0, 3).Draw(w.rt, label+"Empty") == 0 {
		return ""
	}
	return vfC12GenPassword().Draw(w.rt, label)
}

func (w *vfC12World) costOf(pw string) int {
	if pw == "" {
		return 0
	}
	return w.auth.BcryptCost
}

func (w *vfC12World) getUser(u *vfC12User) User {
	user, err := w.auth.GetUser(u.name)
	w.harness(err, "GetUser")
	if (user != nil) != u.exists {
		w.violation("GetUser(%s) found=%v, model exists=%v", u.name, user != nil, u.exists)
	}
	return user
}

func (w *vfC12World) pickUser(wantExisting int) *vfC12User {
	// wantExisting: 1 existing, 0 missing, -1 any
	var cands []*vfC12User
	for _, u := range w.users {
		if wantExisting < 0 || (wantExisting == 1) == u.exists {
			cands = append(cands, u)
		}
	}
	if len(cands) == 0 {
		w.rt.Skip("no such user")
	}
	return rapid.SampledFrom(cands).Draw(w.rt, "user")
}

func (w *vfC12World) createUser() {
	u := w.pickUser(0)
	pw := w.drawPassword("pw")
	if len(u.prev) > 0 && rapid.Bool().Draw(w.rt, "reuseOld") {
		pw = rapid.SampledFrom(u.prev).Draw(w.rt, "oldpw")
	}
	user, err := w.auth.NewUser(u.name, pw, base.Set{})
	w.harness(err, "NewUser")
	w.harness(w.auth.Save(user), "Save new user")
	u.exists, u.disabled, u.pw, u.hashCost = true, false, pw, w.costOf(pw)
	u.epoch++
	u.change++
	u.incarnation++
	w.logf("create(%s,%q)", u.label, pw)
}

func (w *vfC12World) deleteUser() {
	u := w.pickUser(1)
	user := w.getUser(u)
	w.harness(w.auth.DeleteUser(user), "DeleteUser")
	u.exists = false
	u.prev = append(u.prev, u.pw)
	u.prevOldInc = append(u.prevOldInc, u.pw)
	w.logf("delete(%s)", u.label)
}

func (w *vfC12World) setPassword() {
	u := w.pickUser(1)
	user := w.getUser(u)
	pw := u.pw
	if rapid.IntRange(0, 3).Draw(w.rt, "same") > 0 {
		pw = w.drawPassword("pw")
		if len(u.prev) > 0 && rapid.IntRange(0, 3).Draw(w.rt, "backToOld") == 0 {
			pw = rapid.SampledFrom(u.prev).Draw(w.rt, "oldpw")
		}
	}
	w.harness(user.SetPassword(pw), "SetPassword")
	w.harness(w.auth.Save(user), "Save after SetPassword")
	u.epoch++
	u.hashCost = w.costOf(pw)
	if pw != u.pw {
		u.change++
		u.prev = append(u.prev, u.pw)
		u.pw = pw
		w.logf("setPassword(%s,%q)", u.label, pw)
	} else {
		w.logf("setSamePassword(%s)", u.label)
	}
}

func (w *vfC12World) setDisabled() {
	u := w.pickUser(1)
	user := w.getUser(u)
	d := !u.disabled
	if rapid.IntRange(0, 4).Draw(w.rt, "noop") == 0 {
		d = u.disabled
	}
	user.SetDisabled(d)
	w.harness(w.auth.Save(user), "Save after SetDisabled")
	u.disabled = d
	w.logf("setDisabled(%s,%v)", u.label, d)
}

func (w *vfC12World) createSession() {
	u := w.pickUser(1)
	user := w.getUser(u)
	oneTime := rapid.Bool().Draw(w.rt, "oneTime")
	ttl := time.Duration(rapid.IntRange(1, 24).Draw(w.rt, "ttlHours")) * time.Hour
	s, err := w.auth.CreateSession(w.ctx, user, ttl, oneTime)
	if err != nil {
		// refusing to open a session (e.g. for a disabled user) is always allowed by the statement
		w.logf("createSession(%s)=refused", u.label)
		w.classes["session_refused"]++
		return
	}
	idx := -1
	for i := range w.users {
		if w.users[i] == u {
			idx = i
		}
	}
	w.sessions = append(w.sessions, &vfC12Session{id: s.ID, user: idx, epoch: u.epoch, change: u.change, incarnation: u.incarnation, oneTime: oneTime, alive: true})
	w.logf("createSession(%s,oneTime=%v)=s%d", u.label, oneTime, len(w.sessions)-1)
}

func (w *vfC12World) pickSession() (int, *vfC12Session) {
	if len(w.sessions) == 0 {
		w.rt.Skip("no session yet")
	}
	i := rapid.IntRange(0, len(w.sessions)-1).Draw(w.rt, "session")
	return i, w.sessions[i]
}

func (w *vfC12World) deleteSession() {
	i, s := w.pickSession()
	if rapid.Bool().Draw(w.rt, "expire") {
		// expiry as the code observes it: the document is gone
		err := w.ds.Delete(w.ctx, w.auth.DocIDForSession(s.id))
		if err != nil && !base.IsDocNotFoundError(err) {
			w.harness(err, "expire session")
		}
		w.logf("expire(s%d)", i)
	} else {
		err := w.auth.DeleteSession(w.ctx, s.id, "")
		if err != nil && !base.IsDocNotFoundError(err) {
			w.harness(err, "DeleteSession")
		}
		w.logf("deleteSession(s%d)", i)
	}
	s.alive = false
}

// checkPassword authenticates u with attempt and applies the model. With an empty current password
// (only reachable when empty passwords are allowed) the outcome of the empty attempt is left open: the
// statement says both "only with the current password" and "empty passwords never authenticate".
func (w *vfC12World) checkPassword(u *vfC12User, attempt string) bool {
	user, err := w.auth.AuthenticateUser(u.name, attempt)
	w.harness(err, "AuthenticateUser")
	ok := user != nil
	open := u.exists && !u.disabled && u.pw == "" && attempt == ""
	want := u.exists && !u.disabled && u.pw != "" && attempt == u.pw
	w.logf("authPassword(%s,%q)=%v", u.label, attempt, ok)
	if ok && !want && !open {
		why := "it is not the current password"
		switch {
		case !u.exists:
			why = "the user does not exist"
		case u.disabled:
			why = "the user is disabled"
		}
		w.violation("user %s authenticated with password %q although %s (current password %q)", u.name, attempt, why, u.pw)
	}
	if !ok && want {
		w.violation("user %s exists, is enabled and presented the current password %q but was not authenticated", u.name, attempt)
	}
	if ok && user.Name() != u.name {
		w.violation("authenticating as %s returned user %q", u.name, user.Name())
	}
	if u.exists && attempt != u.pw {
		for _, p := range u.prevOldInc {
			if p == attempt {
				w.oldCredAfterRecreate = true
			}
		}
	}
	if ok && w.auth.bcryptCostChanged && u.hashCost != 0 && u.hashCost != w.auth.BcryptCost {
		// the login re-hashed the password at the configured cost: same password, new session UUID
		u.epoch++
		u.hashCost = w.auth.BcryptCost
		w.classes["login_rehashed"]++
	}
	return ok
}

// reconfigureCost: the operator changes the configured bcrypt cost (kept at the cheap end).
func (w *vfC12World) reconfigureCost() {
	if w.auth.BcryptCost == bcrypt.MinCost {
		w.auth.BcryptCost = bcrypt.MinCost + 1
	} else {
		w.auth.BcryptCost = bcrypt.MinCost
	}
	w.auth.bcryptCostChanged = true // what SetBcryptCost records
	w.logf("bcryptCost=%d", w.auth.BcryptCost)
}

// loginDuringAdminChange: a correct password login whose stored hash has another cost than configured
// (so the login writes an upgraded hash) while an administrator's password change of the same user
// commits between the login's read of the user document and its CAS write.
func (w *vfC12World) loginDuringAdminChange() {
	var cands []*vfC12User
	for _, u := range w.users {
		if u.exists && !u.disabled && u.pw != "" {
			cands = append(cands, u)
		}
	}
	if len(cands) == 0 {
		w.rt.Skip("no user that can log in")
	}
	u := rapid.SampledFrom(cands).Draw(w.rt, "user")
	if !w.auth.bcryptCostChanged || u.hashCost == w.auth.BcryptCost {
		w.reconfigureCost()
	}
	newPw := w.drawPassword("adminPw")
	if rapid.IntRange(0, 4).Draw(w.rt, "adminSame") == 0 {
		newPw = u.pw
	}
	old := u.pw
	fired := false
	w.store.writeKey = w.auth.DocIDForUser(u.name)
	w.store.writeHook = func() {
		fired = true
		user, err := w.auth.GetUser(u.name)
		if err != nil || user == nil {
			panic(fmt.Sprintf("harness: admin GetUser in the window: %v", err))
		}
		if err := user.SetPassword(newPw); err != nil {
			panic(fmt.Sprintf("harness: admin SetPassword in the window: %v", err))
		}
		if err := w.auth.Save(user); err != nil {
			panic(fmt.Sprintf("harness: admin Save in the window: %v", err))
		}
	}
	w.logf("login(%s,%q) with adminSetPassword(%q) before its hash upgrade is written", u.label, old, newPw)
	user, err := w.auth.AuthenticateUser(u.name, old)
	w.store.writeHook = nil
	w.harness(err, "AuthenticateUser")
	if user == nil {
		w.violation("user %s presented the password that was current when the request read the user (%q) and was refused", u.name, old)
	}
	if !fired {
		w.rt.Fatalf("harness: the login did not write an upgraded hash (case: %s)", w.render())
	}
	// the administrator's change is the last committed credential change
	u.epoch += 2 // the admin's SetPassword, and possibly the login's own re-hash before or after it
	u.hashCost = w.costOf(newPw)
	if newPw != old {
		u.change++
		u.prev = append(u.prev, old)
		u.pw = newPw
	}
	w.classes["login_during_admin_change"]++
	w.checkPassword(u, newPw)
	if newPw != old {
		w.checkPassword(u, old)
	}
}

func (w *vfC12World) authPassword() {
	u := w.pickUser(-1)
	if !u.exists && rapid.IntRange(0, 4).Draw(w.rt, "insistMissing") > 0 {
		u = w.pickUser(1) // mostly address users that exist; missing ones stay in the domain
	}
	kinds := []string{"current", "current", "previous", "previous", "wrong", "empty", "variant", "variant", "arbitrary", "otherUser"}
	kind := rapid.SampledFrom(kinds).Draw(w.rt, "attemptKind")
	attempt := ""
	switch kind {
	case "current":
		attempt = u.pw
	case "previous":
		if len(u.prev) == 0 {
			attempt = "never-a-password"
		} else {
			attempt = rapid.SampledFrom(u.prev).Draw(w.rt, "prev")
		}
	case "wrong":
		attempt = u.pw + "-wrong"
	case "variant":
		if v := vfC12Variants(u.pw); len(v) > 0 && u.pw != "" {
			attempt = rapid.SampledFrom(v).Draw(w.rt, "variant")
		}
	case "arbitrary":
		attempt = rapid.String().Filter(func(s string) bool { return !strings.ContainsRune(s, 0) }).Draw(w.rt, "arbitrary")
	case "otherUser":
		o := rapid.SampledFrom(w.users).Draw(w.rt, "other")
		attempt = o.pw
	}
	ok := w.checkPassword(u, attempt)
	w.classes["pw_"+kind+map[bool]string{true: "_accepted", false: "_refused"}[ok]]++
}

func (w *vfC12World) present(id string, viaCookie bool) (User, bool) {
	if viaCookie {
		rq, err := http.NewRequest(http.MethodGet, "http://localhost/db/", nil)
		w.harness(err, "NewRequest")
		rq.AddCookie(&http.Cookie{Name: w.auth.SessionCookieName, Value: id})
		user, err := w.auth.AuthenticateCookie(rq, httptest.NewRecorder())
		return user, err == nil && user != nil
	}
	user, err := w.auth.AuthenticateOneTimeSession(w.ctx, id)
	return user, err == nil && user != nil
}

func (w *vfC12World) authSession() {
	viaCookie := rapid.Bool().Draw(w.rt, "viaCookie")
	if rapid.IntRange(0, 14).Draw(w.rt, "bogus") == 0 {
		id := rapid.StringMatching(`[0-9a-f]{1,40}`).Draw(w.rt, "bogusID")
		for _, s := range w.sessions {
			if s.id == id {
				w.rt.Skip("collision")
			}
		}
		_, ok := w.present(id, viaCookie)
		w.logf("authSession(bogus %s)=%v", id, ok)
		if ok {
			w.violation("a session id that was never issued (%q) authenticated", id)
		}
		w.classes["session_bogus"]++
		return
	}
	i, s := w.pickSession()
	u := w.users[s.user]
	user, ok := w.present(s.id, viaCookie)
	w.logf("authSession(s%d,cookie=%v)=%v", i, viaCookie, ok)
	current := s.alive && u.exists && s.epoch == u.epoch
	mustFail := !s.alive || !u.exists || s.change != u.change
	switch {
	case ok && mustFail:
		why := ""
		switch {
		case !s.alive:
			why = "the session was deleted, expired or (one-time) already used"
		case !u.exists:
			why = "its user was deleted"
		case s.incarnation != u.incarnation:
			why = "it was issued to a deleted user of the same name"
		default:
			why = "the password was changed after it was issued"
		}
		w.violation("session s%d of %s authenticated although %s", i, u.name, why)
	case ok && current && u.disabled:
		if !kit.Known("C12", vfC12SigDisabledSession) {
			w.violation("session s%d authenticated its user %s although the user is disabled", i, u.name)
		}
		w.excluded[vfC12SigDisabledSession]++
	case !ok && current && !u.disabled:
		w.violation("session s%d of %s is live, its user exists, is enabled and has not changed credentials, but it did not authenticate", i, u.name)
	}
	if ok && user.Name() != u.name {
		w.violation("session s%d was issued to %s but authenticated as %q", i, u.name, user.Name())
	}
	if u.exists && s.alive && s.change != u.change {
		if s.incarnation != u.incarnation {
			w.oldCredAfterRecreate = true
		} else {
			w.oldSessionAfterChange = true
		}
	}
	if ok && s.oneTime {
		s.alive = false
	}
	cls := "session_refused"
	if ok {
		cls = "session_accepted"
	}
	if s.oneTime {
		cls += "_onetime"
	}
	w.classes[cls]++
}

func vfC12Flush(rec *kit.Rec, render string, nontrivial bool, classes map[string]int, excluded map[string]int, extra ...string) {
	for sig, n := range excluded {
		for ; n > 0; n-- {
			rec.Excluded(sig)
		}
	}
	cl := append([]string{}, extra...)
	for k, v := range classes {
		for ; v > 0; v-- {
			cl = append(cl, k)
		}
	}
	rec.Case(render, nontrivial, cl...)
}

// TestVerif_C12_Model: credential and session histories against the exact authentication model.
func TestVerif_C12_Model(t *testing.T) {
	rec := kit.New("C12", "Model")
	defer rec.Flush()
	ctx := base.TestCtx(t)
	bucket := base.GetTestBucket(t)
	defer bucket.Close(ctx)
	store := &vfC12Store{DataStore: bucket.GetSingleDataStore()}
	var ds sgbucket.DataStore = store
	opts := DefaultAuthenticatorOptions(ctx)
	opts.BcryptCost = bcrypt.MinCost
	auth := NewAuthenticator(ds, nil, opts)

	// regression of the listed finding: executed directly, never a violation
	func() {
		user, err := auth.NewUser("vfc12_regress", "pw", base.Set{})
		if err != nil || auth.Save(user) != nil {
			return
		}
		s, err := auth.CreateSession(ctx, user, time.Hour, false)
		if err != nil {
			return
		}
		user.SetDisabled(true)
		if auth.Save(user) != nil {
			return
		}
		rq, _ := http.NewRequest(http.MethodGet, "http://localhost/db/", nil)
		rq.AddCookie(&http.Cookie{Name: auth.SessionCookieName, Value: s.ID})
		u, err := auth.AuthenticateCookie(rq, httptest.NewRecorder())
		if err == nil && u != nil && kit.Known("C12", vfC12SigDisabledSession) {
			kit.KnownFinding("C12", vfC12SigDisabledSession, "create user, create session, disable user: AuthenticateCookie with the session still returns the user")
		}
	}()

	rapid.Check(t, func(rt *rapid.T) {
		n := vfC12CaseSeq.Add(1)
		// one authenticator per case: the bcrypt cost is reconfigured by generated actions
		auth := NewAuthenticator(ds, nil, opts)
		store.writeHook = nil
		w := &vfC12World{rt: rt, test: "Model", ctx: ctx, auth: auth, ds: ds, store: store, classes: map[string]int{}, excluded: map[string]int{}}
		w.allowEmpty = rapid.Bool().Draw(rt, "allowEmptyPassword")
		w.logf("allow_empty_password=%v", w.allowEmpty)
		// three names that a sloppy lookup would confuse
		for _, label := range []string{"alice", "Alice", "bob"} {
			w.users = append(w.users, &vfC12User{name: fmt.Sprintf("c%d_%s", n, label), label: label})
		}
		kit.Guard(rt, "C12", "Model", w.render, func() {
			for i, k := 0, rapid.IntRange(1, 3).Draw(rt, "initialUsers"); i < k; i++ {
				w.createUser()
			}
			rt.Repeat(map[string]func(*rapid.T){
				"createUser":             func(*rapid.T) { w.createUser() },
				"deleteUser":             func(*rapid.T) { w.deleteUser() },
				"setPassword":            func(*rapid.T) { w.setPassword() },
				"setDisabled":            func(*rapid.T) { w.setDisabled() },
				"createSession":          func(*rapid.T) { w.createSession() },
				"createSession2":         func(*rapid.T) { w.createSession() },
				"setPassword2":           func(*rapid.T) { w.setPassword() },
				"deleteSession":          func(*rapid.T) { w.deleteSession() },
				"authPassword":           func(*rapid.T) { w.authPassword() },
				"authPassword2":          func(*rapid.T) { w.authPassword() },
				"authSession":            func(*rapid.T) { w.authSession() },
				"authSession2":           func(*rapid.T) { w.authSession() },
				"reconfigureCost":        func(*rapid.T) { w.reconfigureCost() },
				"loginDuringAdminChange": func(*rapid.T) { w.loginDuringAdminChange() },
			})
		})
		var extra []string
		if w.oldSessionAfterChange {
			extra = append(extra, "old_session_after_password_change")
		}
		if w.oldCredAfterRecreate {
			extra = append(extra, "old_credential_after_recreate")
		}
		vfC12Flush(rec, w.render(), w.oldSessionAfterChange || w.oldCredAfterRecreate, w.classes, w.excluded, extra...)
	})
}

// ---------------------------------------------------------------------------------------------
// fast path vs bcrypt

// TestVerif_C12_FastPath: the caching comparison must agree with plain bcrypt on every call, whatever
// related entries the cache already holds (small caches, so eviction happens too).
func TestVerif_C12_FastPath(t *testing.T) {
	rec := kit.New("C12", "FastPath")
	defer rec.Flush()
	rapid.Check(t, func(rt *rapid.T) {
		base0 := vfC12GenPassword().Draw(rt, "base")
		pws := []string{base0}
		vs := vfC12Variants(base0)
		for i, n := 0, rapid.IntRange(1, 3).Draw(rt, "nVariants"); i < n && len(vs) > 0; i++ {
			pws = append(pws, rapid.SampledFrom(vs).Draw(rt, "variant"))
		}
		pws = append(pws, vfC12GenPassword().Draw(rt, "other"), "")
		if rapid.Bool().Draw(rt, "long") {
			pws = append(pws, strings.Repeat(base0+"0123456789", 8)) // longer than bcrypt's 72 bytes
		}
		var hashes [][]byte
		var hashOf []int
		for i, n := 0, rapid.IntRange(1, 3).Draw(rt, "nHashes"); i < n; i++ {
			pi := rapid.IntRange(0, len(pws)-1).Draw(rt, "hashOf")
			if len(pws[pi]) > 72 {
				continue
			}
			h, err := bcrypt.GenerateFromPassword([]byte(pws[pi]), bcrypt.MinCost)
			if err != nil {
				rt.Fatalf("harness: bcrypt: %v", err)
			}
			hashes = append(hashes, h)
			hashOf = append(hashOf, pi)
		}
		if len(hashes) == 0 {
			rt.Skip("no hash")
		}
		// malformed relatives of the first hash
		h0 := hashes[0]
		bad := append([]byte{}, h0...)
		bad[len(bad)-1] ^= 1
		hashes = append(hashes, bad, h0[:len(h0)-1], h0[:7], nil, []byte("not a hash"))
		cache := NewRandReplKeyCache(rapid.IntRange(1, 4).Draw(rt, "cacheSize"))
		var ops []string
		accepted := map[string]bool{}
		related := false
		for q, n := 0, rapid.IntRange(3, 12).Draw(rt, "queries"); q < n; q++ {
			hi := rapid.IntRange(0, len(hashes)-1).Draw(rt, "hash")
			pi := rapid.IntRange(0, len(pws)-1).Draw(rt, "pw")
			var got bool
			kit.Guard(rt, "C12", "FastPath", func() string { return strings.Join(ops, "; ") }, func() {
				got = compareHashAndPassword(cache, hashes[hi], []byte(pws[pi]))
			})
			want := bcrypt.CompareHashAndPassword(hashes[hi], []byte(pws[pi])) == nil
			hof := "malformed"
			if hi < len(hashOf) {
				hof = fmt.Sprintf("hash(%q)", pws[hashOf[hi]])
			}
			ops = append(ops, fmt.Sprintf("compare(h%d=%s,%q)=%v", hi, hof, pws[pi], got))
			if got != want {
				kit.Violation(rt, "C12", "FastPath", strings.Join(ops, "; "), "cached comparison of (h%d, %q) says %v, bcrypt says %v (cache holds %d entries)", hi, pws[pi], got, want, cache.Len())
			}
			if !want && (accepted[fmt.Sprintf("p%d", pi)] || accepted[fmt.Sprintf("h%d", hi)]) {
				related = true // a pair bcrypt rejects, queried after an accepted pair with the same password or the same hash
			}
			if want {
				accepted[fmt.Sprintf("p%d", pi)] = true
				accepted[fmt.Sprintf("h%d", hi)] = true
			}
		}
		rec.Case(strings.Join(ops, "; "), related, fmt.Sprintf("related=%v", related))
	})
}

// ---------------------------------------------------------------------------------------------
// one-time sessions under concurrency

type vfC12Presentation struct {
	viaCookie bool
}

func vfC12Present(ctx context.Context, auth *Authenticator, id string, viaCookie bool) (string, bool) {
	if viaCookie {
		rq, err := http.NewRequest(http.MethodGet, "http://localhost/db/", nil)
		if err != nil {
			return "", false
		}
		rq.AddCookie(&http.Cookie{Name: auth.SessionCookieName, Value: id})
		user, err := auth.AuthenticateCookie(rq, httptest.NewRecorder())
		if err != nil || user == nil {
			return "", false
		}
		return user.Name(), true
	}
	user, err := auth.AuthenticateOneTimeSession(ctx, id)
	if err != nil || user == nil {
		return "", false
	}
	return user.Name(), true
}

// TestVerif_C12_OneTime: K presentations of one one-time session — free-running goroutines, and the
// deterministic twin in which presentation i+1 runs completely inside the window between the session
// read and the consuming delete of presentation i.
func TestVerif_C12_OneTime(t *testing.T) {
	rec := kit.New("C12", "OneTime")
	defer rec.Flush()
	ctx := base.TestCtx(t)
	bucket := base.GetTestBucket(t)
	defer bucket.Close(ctx)
	store := &vfC12Store{DataStore: bucket.GetSingleDataStore()}
	opts := DefaultAuthenticatorOptions(ctx)
	opts.BcryptCost = bcrypt.MinCost
	auth := NewAuthenticator(store, nil, opts)
	rapid.Check(t, func(rt *rapid.T) {
		n := vfC12CaseSeq.Add(1)
		name := fmt.Sprintf("o%d_user", n)
		user, err := auth.NewUser(name, "pw", base.Set{})
		if err != nil {
			rt.Fatalf("harness: NewUser: %v", err)
		}
		if err := auth.Save(user); err != nil {
			rt.Fatalf("harness: Save: %v", err)
		}
		oneTime := rapid.IntRange(0, 5).Draw(rt, "normalSession") > 0
		s, err := auth.CreateSession(ctx, user, time.Hour, oneTime)
		if err != nil {
			rt.Fatalf("harness: CreateSession: %v", err)
		}
		k := rapid.IntRange(2, 6).Draw(rt, "presentations")
		paths := make([]bool, k)
		for i := range paths {
			paths[i] = rapid.Bool().Draw(rt, "viaCookie")
		}
		mode := rapid.SampledFrom([]string{"goroutines", "nested", "nested"}).Draw(rt, "mode")
		results := make([]bool, k)
		names := make([]string, k)
		render := fmt.Sprintf("session(oneTime=%v) presented %d times (cookie path: %v), %s", oneTime, k, paths, mode)
		kit.Guard(rt, "C12", "OneTime", func() string { return render }, func() {
			switch mode {
			case "goroutines":
				var wg sync.WaitGroup
				start := make(chan struct{})
				for i := 0; i < k; i++ {
					wg.Add(1)
					go func(i int) {
						defer wg.Done()
						<-start
						names[i], results[i] = vfC12Present(ctx, auth, s.ID, paths[i])
					}(i)
				}
				close(start)
				wg.Wait()
			case "nested":
				// presentation i+1 runs entirely between the session read and the delete of presentation i
				next := 1
				key := auth.DocIDForSession(s.ID)
				store.hook = func(k2 string) {
					if k2 != key || next >= k {
						return
					}
					i := next
					next++
					names[i], results[i] = vfC12Present(ctx, auth, s.ID, paths[i])
				}
				names[0], results[0] = vfC12Present(ctx, auth, s.ID, paths[0])
				store.hook = nil
				for next < k { // (a normal session never reaches the delete: present the rest plainly)
					names[next], results[next] = vfC12Present(ctx, auth, s.ID, paths[next])
					next++
				}
			}
		})
		succ := 0
		for i, ok := range results {
			if ok {
				succ++
				if names[i] != name {
					kit.Violation(rt, "C12", "OneTime", render, "session of %s authenticated as %q", name, names[i])
				}
			}
		}
		render += fmt.Sprintf(" -> %v", results)
		if oneTime && succ > 1 {
			kit.Violation(rt, "C12", "OneTime", render, "a one-time session authenticated %d times", succ)
		}
		if !oneTime && succ != k {
			kit.Violation(rt, "C12", "OneTime", render, "a live normal session was refused in %d of %d presentations", k-succ, k)
		}
		// afterwards a used one-time session is dead
		if oneTime && succ == 1 {
			if _, ok := vfC12Present(ctx, auth, s.ID, true); ok {
				kit.Violation(rt, "C12", "OneTime", render, "a one-time session authenticated again after it had been used")
			}
		}
		rec.Case(render, oneTime, "mode="+mode, fmt.Sprintf("oneTime=%v", oneTime), fmt.Sprintf("successes=%d", succ))
	})
}
