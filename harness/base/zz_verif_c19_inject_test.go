package base

// C19 — byte-level property injection: InjectJSONProperties(b, kv…) on an arbitrary valid JSON
// object b decodes to b ∪ kv (exact-rational number comparison, no duplicate keys), for every
// textual form of b (whitespace, key order, escapes).
// Injected into package base by the /verif driver; never part of /repo.

import (
	"bytes"
	"encoding/json"
	"fmt"
	"io"
	"math/big"
	"strconv"
	"strings"
	"testing"
	"unicode/utf8"

	kit "github.com/couchbase/sync_gateway/verifkit"
	"pgregory.net/rapid"
)

// Signature of the listed finding (see /verif/findings.d/C19.json).
const vfC19SigInjectBlankObject = "inject-into-whitespace-only-object-invalid-json"

type vfC19bVal struct {
	Kind byte // 'o','a','s','n','t','f','z'
	Str  string
	Keys []string
	Vals []*vfC19bVal
}

func vfC19bDecode(raw []byte) (*vfC19bVal, error) {
	if !json.Valid(raw) {
		return nil, fmt.Errorf("not valid JSON")
	}
	dec := json.NewDecoder(bytes.NewReader(raw))
	dec.UseNumber()
	v, err := vfC19bValue(dec)
	if err != nil {
		return nil, err
	}
	if _, err := dec.Token(); err != io.EOF {
		return nil, fmt.Errorf("trailing data")
	}
	return v, nil
}

func vfC19bValue(dec *json.Decoder) (*vfC19bVal, error) {
	tok, err := dec.Token()
	if err != nil {
		return nil, err
	}
	switch t := tok.(type) {
	case json.Delim:
		if t == '{' {
			o := &vfC19bVal{Kind: 'o'}
			for dec.More() {
				kt, err := dec.Token()
				if err != nil {
					return nil, err
				}
				k, ok := kt.(string)
				if !ok {
					return nil, fmt.Errorf("key is %T", kt)
				}
				x, err := vfC19bValue(dec)
				if err != nil {
					return nil, err
				}
				o.Keys, o.Vals = append(o.Keys, k), append(o.Vals, x)
			}
			_, err := dec.Token()
			return o, err
		}
		if t == '[' {
			a := &vfC19bVal{Kind: 'a'}
			for dec.More() {
				x, err := vfC19bValue(dec)
				if err != nil {
					return nil, err
				}
				a.Vals = append(a.Vals, x)
			}
			_, err := dec.Token()
			return a, err
		}
		return nil, fmt.Errorf("unexpected delimiter %v", t)
	case string:
		return &vfC19bVal{Kind: 's', Str: t}, nil
	case json.Number:
		return &vfC19bVal{Kind: 'n', Str: string(t)}, nil
	case bool:
		if t {
			return &vfC19bVal{Kind: 't'}, nil
		}
		return &vfC19bVal{Kind: 'f'}, nil
	case nil:
		return &vfC19bVal{Kind: 'z'}, nil
	}
	return nil, fmt.Errorf("unexpected token %T", tok)
}

func vfC19bRat(lit string) (*big.Rat, bool) {
	if i := strings.IndexAny(lit, "eE"); i >= 0 {
		e, err := strconv.Atoi(strings.TrimPrefix(lit[i+1:], "+"))
		if err != nil || e > 5000 || e < -5000 {
			return nil, false
		}
	}
	if len(lit) > 5000 {
		return nil, false
	}
	return new(big.Rat).SetString(lit)
}

func vfC19bDiff(path string, a, b *vfC19bVal) string {
	if a.Kind != b.Kind {
		return fmt.Sprintf("%s: kind %c vs %c", path, a.Kind, b.Kind)
	}
	switch a.Kind {
	case 's':
		if a.Str != b.Str {
			return fmt.Sprintf("%s: %q vs %q", path, a.Str, b.Str)
		}
	case 'n':
		ra, oka := vfC19bRat(a.Str)
		rb, okb := vfC19bRat(b.Str)
		if !oka || !okb {
			if a.Str != b.Str {
				return fmt.Sprintf("%s: number %s vs %s", path, a.Str, b.Str)
			}
			return ""
		}
		if ra.Cmp(rb) != 0 {
			return fmt.Sprintf("%s: number %s vs %s", path, a.Str, b.Str)
		}
	case 'a':
		if len(a.Vals) != len(b.Vals) {
			return fmt.Sprintf("%s: length %d vs %d", path, len(a.Vals), len(b.Vals))
		}
		for i := range a.Vals {
			if d := vfC19bDiff(fmt.Sprintf("%s[%d]", path, i), a.Vals[i], b.Vals[i]); d != "" {
				return d
			}
		}
	case 'o':
		am, bm := map[string]*vfC19bVal{}, map[string]*vfC19bVal{}
		for i, k := range a.Keys {
			if _, dup := am[k]; dup {
				return fmt.Sprintf("%s: key %q twice (left)", path, k)
			}
			am[k] = a.Vals[i]
		}
		for i, k := range b.Keys {
			if _, dup := bm[k]; dup {
				return fmt.Sprintf("%s: key %q twice (right)", path, k)
			}
			bm[k] = b.Vals[i]
		}
		for _, k := range a.Keys {
			if _, ok := bm[k]; !ok {
				return fmt.Sprintf("%s: key %q missing on the right", path, k)
			}
		}
		for _, k := range b.Keys {
			if _, ok := am[k]; !ok {
				return fmt.Sprintf("%s: extra key %q on the right", path, k)
			}
		}
		for _, k := range a.Keys {
			if d := vfC19bDiff(path+"."+strconv.Quote(k), am[k], bm[k]); d != "" {
				return d
			}
		}
	}
	return ""
}

func vfC19bHasDup(v *vfC19bVal) bool {
	switch v.Kind {
	case 'a':
		for _, x := range v.Vals {
			if vfC19bHasDup(x) {
				return true
			}
		}
	case 'o':
		seen := map[string]bool{}
		for i, k := range v.Keys {
			if seen[k] || vfC19bHasDup(v.Vals[i]) {
				return true
			}
			seen[k] = true
		}
	}
	return false
}

// keys the code injects (constant identifiers; the function writes them unescaped)
var vfC19bKeys = []string{"_id", "_rev", "_cv", "_attachments", "_deleted", "_revisions", "_exp", "_sync", "cv", "_xattrs"}

type vfC19bKV struct {
	Key  string
	Kind int // which Go type the value is handed over as
	S    string
	I    int64
	B    bool
}

func (kv vfC19bKV) pair() (KVPair, *vfC19bVal) {
	switch kv.Kind % 6 {
	case 0:
		return KVPair{Key: kv.Key, Val: kv.S}, &vfC19bVal{Kind: 's', Str: kv.S}
	case 1:
		return KVPair{Key: kv.Key, Val: kv.I}, &vfC19bVal{Kind: 'n', Str: strconv.FormatInt(kv.I, 10)}
	case 2:
		k := byte('f')
		if kv.B {
			k = 't'
		}
		return KVPair{Key: kv.Key, Val: kv.B}, &vfC19bVal{Kind: k}
	case 3:
		return KVPair{Key: kv.Key, Val: int(int32(kv.I))}, &vfC19bVal{Kind: 'n', Str: strconv.FormatInt(int64(int32(kv.I)), 10)}
	case 4:
		return KVPair{Key: kv.Key, Val: map[string]any{"start": uint64(kv.I) >> 1, "ids": []string{kv.S}}},
			&vfC19bVal{Kind: 'o', Keys: []string{"start", "ids"}, Vals: []*vfC19bVal{{Kind: 'n', Str: strconv.FormatUint(uint64(kv.I)>>1, 10)}, {Kind: 'a', Vals: []*vfC19bVal{{Kind: 's', Str: kv.S}}}}}
	default:
		return KVPair{Key: kv.Key, Val: uint64(kv.I)}, &vfC19bVal{Kind: 'n', Str: strconv.FormatUint(uint64(kv.I), 10)}
	}
}

// vfC19bCheck is the oracle shared by the rapid test and the fuzz target. It returns whether the
// input was inside the domain (a valid JSON object without duplicate keys that does not already
// hold an injected key).
func vfC19bCheck(t kit.TB, test string, b []byte, kvs []vfC19bKV, known bool, rec *kit.Rec) (inDomain bool) {
	render := fmt.Sprintf("InjectJSONProperties(%q, %v)", b, kvs)
	trimmed := bytes.TrimSpace(b)
	if len(trimmed) == 0 || trimmed[0] != '{' || !utf8.Valid(b) {
		return false
	}
	before, err := vfC19bDecode(b)
	if err != nil || before.Kind != 'o' || vfC19bHasDup(before) {
		return false
	}
	want := &vfC19bVal{Kind: 'o', Keys: append([]string{}, before.Keys...), Vals: append([]*vfC19bVal{}, before.Vals...)}
	var pairs []KVPair
	for _, kv := range kvs {
		if !utf8.ValidString(kv.S) {
			return false
		}
	}
	seen := map[string]bool{}
	for _, k := range before.Keys {
		seen[k] = true
	}
	for _, kv := range kvs {
		if seen[kv.Key] {
			return false
		}
		seen[kv.Key] = true
		p, v := kv.pair()
		pairs = append(pairs, p)
		want.Keys, want.Vals = append(want.Keys, kv.Key), append(want.Vals, v)
	}
	if len(before.Keys) == 0 && len(trimmed) > 2 && len(pairs) > 0 && known {
		// `{ }`: listed finding, left out by construction while it is open
		if rec != nil {
			rec.Excluded(vfC19SigInjectBlankObject)
		}
		return false
	}
	orig := append([]byte{}, b...)
	var out []byte
	func() {
		defer func() {
			if p := recover(); p != nil {
				if strings.HasPrefix(fmt.Sprintf("%T", p), "rapid.") || strings.HasPrefix(fmt.Sprintf("%T", p), "*rapid.") {
					panic(p)
				}
				kit.Violation(t, "C19", test, render, "InjectJSONProperties panicked: %v", p)
			}
		}()
		out, err = InjectJSONProperties(b, pairs...)
	}()
	if err != nil {
		kit.Violation(t, "C19", test, render, "valid JSON object rejected: %v", err)
	}
	if !bytes.Equal(orig, b) {
		kit.Violation(t, "C19", test, render, "the input slice was modified: %q", b)
	}
	after, err := vfC19bDecode(out)
	if err != nil {
		kit.Violation(t, "C19", test, render, "result is not valid JSON (%v): %q", err, out)
	}
	if d := vfC19bDiff("$", want, after); d != "" {
		kit.Violation(t, "C19", test, render, "result does not decode to b ∪ kv: %s\nresult: %q", d, out)
	}
	return true
}

var vfC19bWS = []string{"", "", " ", "\n", "\t", "\r\n", "  "}

// vfC19bGenObject writes a random JSON object text (with whitespace in every legal position).
func vfC19bGenObject(t *rapid.T, depth int) string {
	ws := func() string { return rapid.SampledFrom(vfC19bWS).Draw(t, "ws") }
	var val func(d int) string
	val = func(d int) string {
		max := 7
		if d >= depth {
			max = 5
		}
		switch rapid.IntRange(0, max).Draw(t, "kind") {
		case 0:
			return rapid.SampledFrom([]string{"0", "-0", "1.0", "9007199254740993", "18446744073709551617", "1e400", "123456789012345678901234567890", "1E-3"}).Draw(t, "num")
		case 1:
			return strconv.Quote(rapid.SampledFrom([]string{"", "a", "}", "{", " ", "\"", "\\", "é", "}\n", ",\"_id\":1}"}).Draw(t, "str"))
		case 2:
			return rapid.SampledFrom([]string{"true", "false", "null"}).Draw(t, "lit")
		case 3:
			return "{" + ws() + "}"
		case 4:
			return "[" + ws() + "]"
		case 5:
			return `"}😀"`
		case 6:
			n := rapid.IntRange(1, 3).Draw(t, "alen")
			parts := make([]string, n)
			for i := range parts {
				parts[i] = ws() + val(d+1) + ws()
			}
			return "[" + strings.Join(parts, ",") + "]"
		default:
			return vfC19bObjectAt(t, d+1, depth, ws, val)
		}
	}
	return ws() + vfC19bObjectAt(t, 0, depth, ws, val) + ws()
}

func vfC19bObjectAt(t *rapid.T, d, depth int, ws func() string, val func(int) string) string {
	n := rapid.SampledFrom([]int{0, 1, 1, 1, 2, 2, 3, 3}).Draw(t, "okeys")
	seen := map[string]bool{}
	var parts []string
	for i := 0; i < n; i++ {
		k := rapid.SampledFrom([]string{"", "a", "b", "k}", "ü", "_foo", "id", "\"q", " "}).Draw(t, "okey")
		if seen[k] {
			continue
		}
		seen[k] = true
		parts = append(parts, ws()+strconv.Quote(k)+ws()+":"+ws()+val(d)+ws())
	}
	if len(parts) == 0 {
		return "{" + ws() + "}"
	}
	return "{" + strings.Join(parts, ",") + "}"
}

func vfC19bGenKVs(t *rapid.T) []vfC19bKV {
	n := rapid.IntRange(1, 4).Draw(t, "nkv")
	var out []vfC19bKV
	seen := map[string]bool{}
	for i := 0; i < n; i++ {
		k := rapid.SampledFrom(vfC19bKeys).Draw(t, "kvkey")
		if seen[k] {
			continue
		}
		seen[k] = true
		out = append(out, vfC19bKV{Key: k, Kind: rapid.IntRange(0, 5).Draw(t, "kvkind"),
			S: rapid.SampledFrom([]string{"", "doc", "1-abc", "q\"uote", "back\\", "é😀", " ", "\x00", "}"}).Draw(t, "kvs"),
			I: rapid.Int64().Draw(t, "kvi"), B: rapid.Bool().Draw(t, "kvb")})
	}
	return out
}

// TestVerif_C19_Inject: generated object texts × generated key/value lists.
func TestVerif_C19_Inject(t *testing.T) {
	rec := kit.New("C19", "Inject")
	defer rec.Flush()
	known := kit.Known("C19", vfC19SigInjectBlankObject)
	rapid.Check(t, func(rt *rapid.T) {
		text := vfC19bGenObject(rt, 4)
		kvs := vfC19bGenKVs(rt)
		in := vfC19bCheck(rt, "Inject", []byte(text), kvs, known, rec)
		trimmed := strings.TrimSpace(text)
		cls := []string{fmt.Sprintf("kvs=%d", len(kvs)), fmt.Sprintf("in-domain=%v", in)}
		if strings.HasSuffix(trimmed[:len(trimmed)-1], " ") || strings.HasSuffix(trimmed[:len(trimmed)-1], "\n") || strings.HasSuffix(trimmed[:len(trimmed)-1], "\t") {
			cls = append(cls, "space-before-closing-brace")
		}
		if text != trimmed {
			cls = append(cls, "outer-whitespace")
		}
		// non-trivial: the text differs from its compact form (whitespace somewhere) or holds a
		// number a float64 does not hold exactly
		var compact bytes.Buffer
		_ = json.Compact(&compact, []byte(text))
		rec.Case(fmt.Sprintf("%q %v", text, kvs), in && (compact.String() != text || strings.Contains(text, "9007199254740993") || strings.Contains(text, "1e400")), cls...)
	})
	// the listed finding, as a plain regression: still reproduces -> KNOWN-FINDING, never a violation
	if known {
		out, err := InjectJSONProperties([]byte("{ }"), KVPair{Key: "_id", Val: "doc"})
		if err != nil || !json.Valid(out) {
			kit.KnownFinding("C19", vfC19SigInjectBlankObject, fmt.Sprintf("InjectJSONProperties(`{ }`, _id) = %q, %v: not valid JSON", out, err))
		}
	}
}

// FuzzVerif_C19_Inject: coverage-guided search over arbitrary bytes with the same oracle
// (thorough tier only). Inputs that are not a duplicate-free JSON object are outside the domain.
func FuzzVerif_C19_Inject(f *testing.F) {
	known := kit.Known("C19", vfC19SigInjectBlankObject)
	for _, s := range []string{`{}`, `{"a":1}`, ` {"a":1 } `, `{"a":{"b":[1,2,{"c":null}]}}`, `{"a":"}"}`, "{\n\"k\" : 1e400\n}", `{"":""}`, `{"a":9007199254740993}`, `{"}":"😀"}`, `{ }`} {
		f.Add([]byte(s), uint8(0), uint8(1), "doc", int64(7), true)
	}
	f.Fuzz(func(t *testing.T, b []byte, k1, k2 uint8, s string, i int64, bv bool) {
		if len(b) > 1<<16 {
			return
		}
		kvs := []vfC19bKV{{Key: vfC19bKeys[int(k1)%len(vfC19bKeys)], Kind: int(k1 / 16), S: s, I: i, B: bv}}
		if k2%3 != 0 && vfC19bKeys[int(k2)%len(vfC19bKeys)] != kvs[0].Key {
			kvs = append(kvs, vfC19bKV{Key: vfC19bKeys[int(k2)%len(vfC19bKeys)], Kind: int(k2 / 16), S: s + "2", I: -i, B: !bv})
		}
		vfC19bCheck(t, "FuzzInject", b, kvs, known, nil)
	})
}
