package db

// C16 — the revision cache returns what the bucket holds and accounts for itself exactly.
// Injected into package db by the /verif driver (build overlay); never part of /repo.
//
// Deterministic state machine (TestVerif_C16_SM): the cache built by the product constructor
// NewRevisionCache (orchestrator / sharded / bypass) sits on a stub RevisionCacheBackingStore whose
// loaders park on gates the generator releases (and may fail). Reads run in goroutines; the
// scheduler only continues once the read has either returned or is parked inside the loader, so
// every run is a deterministic function of the rapid draws.
// Free-running mode (TestVerif_C16_Concurrent): the same stub without gates, several goroutines,
// meant for the race detector.

import (
	"bytes"
	"context"
	"errors"
	"fmt"
	"os"
	"os/exec"
	"reflect"
	"runtime"
	"sort"
	"strings"
	"sync"
	"testing"
	"time"

	sgbucket "github.com/couchbase/sg-bucket"
	"github.com/couchbase/sync_gateway/base"
	kit "github.com/couchbase/sync_gateway/verifkit"
	"pgregory.net/rapid"
)

const vfC16Coll = uint32(0)
const vfC16Src = "vfsrc"

// signature of the one shape set aside while it is a listed open finding (see findings.d/C16.json)
const vfC16SigGetActive = "getactive-caches-document-read-before-invalidation"
const vfC16SigFailedLoadPut = "failed-load-after-put-on-same-value-leaks-bytes"
const vfC16SigPeekRace = "peek-reads-value-without-its-lock"
const vfC16SigErrHitRace = "cached-load-error-read-after-unlock-races-put-store"

// ---------------------------------------------------------------------------------------------
// backing-store stub = the "bucket"

type vfC16Ver struct {
	revID   string
	gen     int
	cv      Version
	body    []byte
	chans   []string // never mutated in place; replaced on a metadata-only change
	deleted bool
	atts    AttachmentsMeta
}

type vfC16Doc struct {
	id   string
	vers []*vfC16Ver // every version ever written (old bodies are retained: backups never expire in the stub)
}

func (d *vfC16Doc) cur() *vfC16Ver { return d.vers[len(d.vers)-1] }

type vfC16Snap struct {
	id   string
	vers []vfC16Ver
}

type vfC16InjErr struct{ n int }

func (e *vfC16InjErr) Error() string { return fmt.Sprintf("vf injected storage error #%d", e.n) }

type vfC16CtxKey struct{}

// vfC16Load travels in the context of one cache read and tells the stub where to park / fail.
type vfC16Load struct {
	gateAt   int // 0 none, 1 in GetDocument (after the bucket read), 2 in getRevision / getCurrentVersion
	failAt   int // ungated immediate failure: 1 GetDocument, 2 getRevision / getCurrentVersion
	yields   int // free-running mode: scheduler yields inside the loader
	entered  chan struct{}
	release  chan bool
	injErr   *vfC16InjErr
	docCalls int
	revCalls int
}

type vfC16Store struct {
	mu       sync.Mutex
	docs     map[string]*vfC16Doc
	snaps    map[*Document]*vfC16Snap
	chanHist map[string][][]string // cache key -> every channel set that version ever had, in order
	floor    map[string]int        // cache key -> index into chanHist below which a value must no longer be served from the cache
	nextCV   uint64
	nInj     int
}

func vfC16NewStore() *vfC16Store {
	return &vfC16Store{docs: map[string]*vfC16Doc{}, snaps: map[*Document]*vfC16Snap{}, chanHist: map[string][][]string{}, floor: map[string]int{}, nextCV: 100}
}

func vfC16Key(docID, version string) string { return docID + "|" + version }

func (s *vfC16Store) gen(key string) int { return len(s.chanHist[key]) - 1 }

func vfC16Digest(docID string, gen int, salt int) string {
	return fmt.Sprintf("%08x", kit.Hash(fmt.Sprintf("%s/%d/%d", docID, gen, salt))&0xffffffff)
}

// newRevision appends a new revision (a new body, revision id and version) to the document.
func (s *vfC16Store) newRevision(docID string, chans []string, deleted bool, atts AttachmentsMeta, bodyPad int) *vfC16Ver {
	s.mu.Lock()
	defer s.mu.Unlock()
	d := s.docs[docID]
	if d == nil {
		d = &vfC16Doc{id: docID}
		s.docs[docID] = d
	}
	gen := 1
	if len(d.vers) > 0 {
		gen = d.cur().gen + 1
	}
	s.nextCV++
	v := &vfC16Ver{revID: fmt.Sprintf("%d-%s", gen, vfC16Digest(docID, gen, 0)), gen: gen, cv: Version{SourceID: vfC16Src, Value: s.nextCV},
		body: []byte(fmt.Sprintf(`{"d":%q,"g":%d,"p":%q}`, docID, gen, strings.Repeat("x", bodyPad))), chans: chans, deleted: deleted, atts: atts}
	d.vers = append(d.vers, v)
	s.chanHist[vfC16Key(docID, v.revID)] = [][]string{chans}
	s.chanHist[vfC16Key(docID, v.cv.String())] = [][]string{chans}
	return v
}

// metaChange changes the channels of the current revision without creating a new revision.
// newCV=true models the user-xattr import (revision id kept, new current version; the feed then
// removes the revision-id key); newCV=false models an update that keeps both identifiers (the feed
// removes both keys). Returns the cache keys the mutation feed will remove and the channel
// generation each must have reached afterwards.
func (s *vfC16Store) metaChange(docID string, chans []string, newCV bool) (keys []string, gens []int) {
	s.mu.Lock()
	defer s.mu.Unlock()
	d := s.docs[docID]
	c := d.cur()
	rk := vfC16Key(docID, c.revID)
	if newCV {
		s.nextCV++
		nv := *c
		nv.cv = Version{SourceID: vfC16Src, Value: s.nextCV}
		nv.chans = chans
		d.vers = append(d.vers, &nv)
		s.chanHist[rk] = append(s.chanHist[rk], chans)
		s.chanHist[vfC16Key(docID, nv.cv.String())] = [][]string{chans}
		return []string{c.revID}, []int{s.gen(rk)}
	}
	nv := *c
	nv.chans = chans
	d.vers[len(d.vers)-1] = &nv
	ck := vfC16Key(docID, c.cv.String())
	s.chanHist[rk] = append(s.chanHist[rk], chans)
	s.chanHist[ck] = append(s.chanHist[ck], chans)
	return []string{c.revID, c.cv.String()}, []int{s.gen(rk), s.gen(ck)}
}

func (s *vfC16Store) snapshot(docID string) *vfC16Snap {
	d := s.docs[docID]
	if d == nil {
		return nil
	}
	sn := &vfC16Snap{id: docID, vers: make([]vfC16Ver, len(d.vers))}
	for i, v := range d.vers {
		sn.vers[i] = *v
	}
	return sn
}

func vfC16LoadOf(ctx context.Context) *vfC16Load {
	ld, _ := ctx.Value(vfC16CtxKey{}).(*vfC16Load)
	return ld
}

func (ld *vfC16Load) park(at int) (ok bool) {
	if ld == nil {
		return true
	}
	for i := 0; i < ld.yields; i++ {
		runtime.Gosched()
	}
	if ld.failAt == at {
		ld.failAt = 0
		return false
	}
	if ld.gateAt != at {
		return true
	}
	ld.gateAt = 0
	ld.entered <- struct{}{}
	return <-ld.release
}

func (s *vfC16Store) GetDocument(ctx context.Context, docid string, unmarshalLevel DocumentUnmarshalLevel) (*Document, error) {
	ld := vfC16LoadOf(ctx)
	s.mu.Lock()
	if ld != nil {
		ld.docCalls++
	}
	sn := s.snapshot(docid) // the bucket read happens here
	s.mu.Unlock()
	if !ld.park(1) {
		return nil, ld.injErr
	}
	if sn == nil {
		return nil, ErrMissing
	}
	doc := NewDocument(docid)
	cur := sn.vers[len(sn.vers)-1]
	doc.SetRevTreeID(cur.revID)
	parent := ""
	for _, v := range sn.vers {
		if _, ok := doc.History[v.revID]; ok {
			continue
		}
		doc.History[v.revID] = &RevInfo{ID: v.revID, Parent: parent, Deleted: v.deleted}
		parent = v.revID
	}
	doc.HLV = &HybridLogicalVector{SourceID: cur.cv.SourceID, Version: cur.cv.Value}
	doc.Deleted = cur.deleted
	s.mu.Lock()
	s.snaps[doc] = sn
	s.mu.Unlock()
	return doc, nil
}

func (s *vfC16Store) snapOf(doc *Document) *vfC16Snap {
	s.mu.Lock()
	defer s.mu.Unlock()
	return s.snaps[doc]
}

func vfC16CopyAtts(a AttachmentsMeta) AttachmentsMeta {
	if a == nil {
		return nil
	}
	out := AttachmentsMeta{}
	for k, v := range a {
		if m, ok := v.(map[string]any); ok {
			c := map[string]any{}
			for kk, vv := range m {
				c[kk] = vv
			}
			out[k] = c
		} else {
			out[k] = v
		}
	}
	return out
}

func (s *vfC16Store) getRevision(ctx context.Context, doc *Document, revid string) ([]byte, AttachmentsMeta, base.Set, error) {
	ld := vfC16LoadOf(ctx)
	if ld != nil {
		s.mu.Lock()
		ld.revCalls++
		s.mu.Unlock()
	}
	if !ld.park(2) {
		return nil, nil, nil, ld.injErr
	}
	sn := s.snapOf(doc)
	if sn == nil {
		return nil, nil, nil, ErrMissing
	}
	for i := len(sn.vers) - 1; i >= 0; i-- {
		if v := sn.vers[i]; v.revID == revid {
			return append([]byte(nil), v.body...), vfC16CopyAtts(v.atts), base.SetOf(v.chans...), nil
		}
	}
	return nil, nil, nil, ErrMissing
}

func (s *vfC16Store) getCurrentVersion(ctx context.Context, doc *Document, cv Version, loadBackup bool) ([]byte, AttachmentsMeta, base.Set, bool, error) {
	ld := vfC16LoadOf(ctx)
	if ld != nil {
		s.mu.Lock()
		ld.revCalls++
		s.mu.Unlock()
	}
	if !ld.park(2) {
		return nil, nil, nil, false, ld.injErr
	}
	sn := s.snapOf(doc)
	if sn == nil {
		return nil, nil, nil, false, ErrMissing
	}
	cur := sn.vers[len(sn.vers)-1]
	if cur.cv.Equal(cv) {
		return append([]byte(nil), cur.body...), vfC16CopyAtts(cur.atts), base.SetOf(cur.chans...), cur.deleted, nil
	}
	if !loadBackup {
		return nil, nil, nil, false, ErrMissing
	}
	for i := len(sn.vers) - 1; i >= 0; i-- {
		if v := sn.vers[i]; v.cv.Equal(cv) {
			return append([]byte(nil), v.body...), vfC16CopyAtts(v.atts), base.SetOf(v.chans...), v.deleted, nil
		}
	}
	return nil, nil, nil, false, ErrMissing
}

// ---------------------------------------------------------------------------------------------
// cache under test + observation

type vfC16Cache struct {
	cache    RevisionCache
	stats    *base.CacheStats
	shards   []*RevisionCacheOrchestrator
	perShard int // configured per-shard item capacity (0 = bypass)
	nShards  int
	maxBytes int64
	stores   map[uint32]RevisionCacheBackingStore
	bypass   *BypassRevisionCache // reference "fresh load" over the same stub
}

func vfC16NewCache(store *vfC16Store, nShards, perShard int, maxBytes int64) (*vfC16Cache, error) {
	c := &vfC16Cache{perShard: perShard, nShards: nShards, maxBytes: maxBytes}
	c.stats = &base.CacheStats{RevisionCacheNumItems: &base.SgwIntStat{}, RevisionCacheBypass: &base.SgwIntStat{}, RevisionCacheHits: &base.SgwIntStat{},
		RevisionCacheMisses: &base.SgwIntStat{}, RevisionCacheTotalMemory: &base.SgwIntStat{}}
	c.stores = map[uint32]RevisionCacheBackingStore{vfC16Coll: store}
	opts := &RevisionCacheOptions{MaxItemCount: uint32(perShard * nShards), MaxBytes: maxBytes, ShardCount: uint16(nShards)}
	c.cache = NewRevisionCache(opts, c.stores, c.stats, nil, false)
	switch x := c.cache.(type) {
	case *ShardedLRURevisionCache:
		c.shards = x.caches
	case *RevisionCacheOrchestrator:
		c.shards = []*RevisionCacheOrchestrator{x}
	case *BypassRevisionCache:
	default:
		return nil, fmt.Errorf("unexpected cache type %T", c.cache)
	}
	if perShard > 0 && len(c.shards) != nShards {
		return nil, fmt.Errorf("expected %d shards, constructor built %d", nShards, len(c.shards))
	}
	c.bypass = NewBypassRevisionCache(c.stores, &base.SgwIntStat{})
	return c, nil
}

// account recounts the cache contents and compares them with the reported gauges. Must only be
// called when no cache operation is running (operations parked inside a loader are fine: their
// value is not loaded yet and must not be accounted).
func (c *vfC16Cache) account() (items int, problem string) {
	var totalItems int
	var totalBytes int64
	for i, o := range c.shards {
		rc := o.revisionCache
		rc.lock.Lock()
		n := len(rc.cache)
		ln := rc.lruList.Len()
		var shardBytes int64
		inList := 0
		for e := rc.lruList.Front(); e != nil; e = e.Next() {
			v := e.Value.(*revCacheValue)
			if rc.cache[v.itemKey] != e {
				problem = fmt.Sprintf("shard %d: list element %v is not the map's element for its key", i, v.itemKey)
			}
			inList++
			if v.bodyBytes != nil {
				dr, _ := v.asDocumentRevision(nil)
				dr.CalculateBytes()
				shardBytes += dr.MemoryBytes
			}
		}
		inUse := o.memoryController.bytesInUseForShard.Load()
		capacity := int(rc.capacity)
		rc.lock.Unlock()
		if problem != "" {
			return 0, problem
		}
		if n != ln || inList != ln {
			return 0, fmt.Sprintf("shard %d: map has %d entries, recency list %d", i, n, ln)
		}
		if n > c.perShard || capacity > c.perShard {
			return 0, fmt.Sprintf("shard %d holds %d items, configured capacity %d (cache's own limit %d)", i, n, c.perShard, capacity)
		}
		if inUse != shardBytes {
			return 0, fmt.Sprintf("shard %d: byte total in use %d, recount of the loaded values %d", i, inUse, shardBytes)
		}
		totalItems += n
		totalBytes += shardBytes
	}
	if g := c.stats.RevisionCacheNumItems.Value(); g != int64(totalItems) {
		return 0, fmt.Sprintf("item gauge %d, recount %d", g, totalItems)
	}
	if g := c.stats.RevisionCacheTotalMemory.Value(); g != totalBytes {
		return 0, fmt.Sprintf("byte gauge %d, recount %d", g, totalBytes)
	}
	return totalItems, ""
}

func (c *vfC16Cache) shardOf(docID string) *LRURevisionCache {
	if len(c.shards) == 0 {
		return nil
	}
	if len(c.shards) == 1 {
		return c.shards[0].revisionCache
	}
	return c.shards[sgbucket.VBHash(docID, uint16(len(c.shards)))].revisionCache
}

// holds reports whether the map currently has an entry for the key (observation for the
// non-trivial rule only, never an oracle).
func (c *vfC16Cache) valueOf(docID, version string) *revCacheValue {
	rc := c.shardOf(docID)
	if rc == nil {
		return nil
	}
	rc.lock.Lock()
	defer rc.lock.Unlock()
	if e := rc.cache[CreateRevisionCacheKey(docID, version, vfC16Coll)]; e != nil {
		return e.Value.(*revCacheValue)
	}
	return nil
}

type vfC16Result struct {
	rev DocumentRevision
	err error
	ok  bool // Peek's found
}

func vfC16SameAtts(a, b AttachmentsMeta) bool {
	if len(a) == 0 && len(b) == 0 {
		return true
	}
	return reflect.DeepEqual(map[string]any(a), map[string]any(b))
}

func vfC16SameHistory(a, b Revisions) bool {
	if len(a) == 0 && len(b) == 0 {
		return true
	}
	return reflect.DeepEqual(map[string]any(a), map[string]any(b))
}

func vfC16SameChans(a base.Set, b []string) bool {
	if len(a) != len(b) {
		return false
	}
	for _, c := range b {
		if !a.Contains(c) {
			return false
		}
	}
	return true
}

func vfC16Chans(s base.Set) string {
	out := s.ToArray()
	sort.Strings(out)
	return vfJoin(out)
}

// vfC16DiffFresh compares the five stated fields of a served revision with a fresh load.
func vfC16DiffFresh(got, fresh DocumentRevision) string {
	switch {
	case !bytes.Equal(got.BodyBytes, fresh.BodyBytes):
		return fmt.Sprintf("body %q, fresh load %q", got.BodyBytes, fresh.BodyBytes)
	case !vfC16SameHistory(got.History, fresh.History):
		return fmt.Sprintf("history %v, fresh load %v", got.History, fresh.History)
	case !got.Channels.Equals(fresh.Channels):
		return fmt.Sprintf("channels %s, fresh load %s", vfC16Chans(got.Channels), vfC16Chans(fresh.Channels))
	case got.Deleted != fresh.Deleted:
		return fmt.Sprintf("deleted %v, fresh load %v", got.Deleted, fresh.Deleted)
	case !vfC16SameAtts(got.Attachments, fresh.Attachments):
		return fmt.Sprintf("attachments %v, fresh load %v", got.Attachments, fresh.Attachments)
	case got.DocID != fresh.DocID:
		return fmt.Sprintf("doc id %q, fresh load %q", got.DocID, fresh.DocID)
	}
	return ""
}

// vfC16CheckModel checks a served revision against the model of the bucket: body, deletion flag and
// attachments of a (document, version) never change; the channel set must be one the version had
// at or after generation lo and at or before generation hi.
func (s *vfC16Store) checkModel(docID, version string, got DocumentRevision, lo, hi int) string {
	s.mu.Lock()
	defer s.mu.Unlock()
	d := s.docs[docID]
	if d == nil {
		return fmt.Sprintf("a value was served for document %q which does not exist", docID)
	}
	var ver *vfC16Ver
	for _, v := range d.vers {
		if v.revID == version || v.cv.String() == version {
			ver = v
		}
	}
	if ver == nil {
		return fmt.Sprintf("a value was served for version %q which the document never had", version)
	}
	if got.DocID != docID {
		return fmt.Sprintf("doc id %q", got.DocID)
	}
	if !bytes.Equal(got.BodyBytes, ver.body) {
		return fmt.Sprintf("body %q, bucket holds %q", got.BodyBytes, ver.body)
	}
	if got.Deleted != ver.deleted {
		return fmt.Sprintf("deleted=%v, bucket holds %v", got.Deleted, ver.deleted)
	}
	if !vfC16SameAtts(got.Attachments, ver.atts) {
		return fmt.Sprintf("attachments %v, bucket holds %v", got.Attachments, ver.atts)
	}
	if got.RevID != "" && got.RevID != ver.revID {
		return fmt.Sprintf("revision id %q, bucket holds %q", got.RevID, ver.revID)
	}
	gotIDs, _ := GetStringArrayProperty(got.History, RevisionsIds)
	if len(gotIDs) > 0 {
		// history of a revision id is the fixed linear chain up to it
		want := make([]string, 0, ver.gen)
		seen := map[string]bool{}
		for i := len(d.vers) - 1; i >= 0; i-- {
			if v := d.vers[i]; v.gen <= ver.gen && !seen[v.revID] {
				seen[v.revID] = true
				_, dg := ParseRevID(context.Background(), v.revID)
				want = append(want, dg)
			}
		}
		if !reflect.DeepEqual(gotIDs, want) || got.History[RevisionsStart] != ver.gen {
			return fmt.Sprintf("history %v, bucket holds start=%d ids=%v", got.History, ver.gen, want)
		}
	} else if base.IsRevTreeID(version) {
		return "no history on a revision requested by revision id"
	}
	hist := s.chanHist[vfC16Key(docID, version)]
	if hi >= len(hist) {
		hi = len(hist) - 1
	}
	for g := lo; g <= hi; g++ {
		if g >= 0 && vfC16SameChans(got.Channels, hist[g]) {
			return ""
		}
	}
	var allowed []string
	for g := lo; g <= hi; g++ {
		if g >= 0 {
			allowed = append(allowed, vfJoin(hist[g]))
		}
	}
	return fmt.Sprintf("channels %s; the bucket held %s for this version in the admissible interval (channel generations %d..%d of %d)", vfC16Chans(got.Channels), strings.Join(allowed, " then "), lo, hi, len(hist))
}

// ---------------------------------------------------------------------------------------------
// generators shared by both modes

var vfC16DocIDs = []string{"a", "b", "c", "d", "e"}

func vfC16GenChans(rt *rapid.T, tag int) []string {
	n := rapid.IntRange(0, 2).Draw(rt, "nchan")
	// the tag makes every channel set of a version distinct from its earlier ones, with varying byte length
	out := []string{fmt.Sprintf("g%d%s", tag, strings.Repeat("_", rapid.IntRange(0, 6).Draw(rt, "chanpad")))}
	for i := 0; i < n; i++ {
		out = append(out, rapid.SampledFrom([]string{"A", "BB", "CCC", "DDDDDDDD"}).Draw(rt, "chan"))
	}
	sort.Strings(out)
	dedup := out[:0]
	for i, c := range out {
		if i == 0 || c != out[i-1] {
			dedup = append(dedup, c)
		}
	}
	return dedup
}

func vfC16GenAtts(rt *rapid.T) AttachmentsMeta {
	if !rapid.Bool().Draw(rt, "hasAtt") {
		return nil
	}
	n := rapid.IntRange(1, 9).Draw(rt, "attlen")
	return AttachmentsMeta{"f.txt": map[string]any{"digest": fmt.Sprintf("sha1-%d", n), "length": n, "revpos": 1, "stub": true}}
}

// ---------------------------------------------------------------------------------------------
// deterministic state machine

type vfC16Pending struct {
	id       int
	ld       *vfC16Load
	what     string // "get" / "getactive" / "delta"
	docID    string
	version  string // key version string ("" while unknown for a get-active parked before the read result is used)
	parkedAt int
	busyKey  string
	done     chan vfC16Result
	floor    int
	genStart int
	fresh    vfC16Result
	val      *revCacheValue // the map's value for the key when the load parked (observation only)
	raced    bool           // a remove / upsert / eviction hit the value while parked
	upserted bool
	put      chan error // a Put of the same key that has done its accounting and now waits for the value lock
}

// vfC16WaitSized spins until the value has been accounted as sized (a state predicate, not a
// delay): a Put on a value whose load is parked does its accounting and then waits for the lock.
func vfC16WaitSized(v *revCacheValue) bool {
	deadline := time.Now().Add(vfWaitBound)
	for i := 0; v.memState.Load() != memStateSized; i++ {
		runtime.Gosched()
		if i%1000 == 999 {
			if time.Now().After(deadline) {
				return false
			}
			time.Sleep(50 * time.Microsecond)
		}
	}
	return true
}

type vfC16Feed struct {
	docID string
	vers  []string
	gens  []int
}

type vfC16SM struct {
	rt      *rapid.T
	ctx     context.Context
	store   *vfC16Store
	c       *vfC16Cache
	ops     []string
	parked  []*vfC16Pending
	busy    map[string]int
	feed    []vfC16Feed
	nextID  int
	chanTag int
	classes map[string]int
	nontriv bool
	known   bool
	excl    int
	knownFP bool
	exclFP  int
}

func (sm *vfC16SM) putsParked() bool {
	for _, p := range sm.parked {
		if p.put != nil {
			return true
		}
	}
	return false
}

// sameCVChangePending: a metadata-only change that kept the current version is still in the feed,
// so the cache may hold the version with its previous channel set (a different byte size).
func (sm *vfC16SM) sameCVChangePending(docID string) bool {
	for _, f := range sm.feed {
		if f.docID == docID && len(f.vers) == 2 {
			return true
		}
	}
	return false
}

func (sm *vfC16SM) render() string { return strings.Join(sm.ops, "; ") }

func (sm *vfC16SM) fail(format string, args ...any) {
	kit.Violation(sm.rt, "C16", "SM", sm.render(), format, args...)
}

func (sm *vfC16SM) op(format string, args ...any) {
	sm.ops = append(sm.ops, fmt.Sprintf(format, args...))
}

func (sm *vfC16SM) inconclusive(msg string) {
	kit.InconclusiveLine("C16", "%s", msg)
	panic(kit.InconclusiveErr{Msg: msg})
}

func (sm *vfC16SM) doc() string {
	ids := vfSortedKeys(sm.store.docs)
	return rapid.SampledFrom(ids).Draw(sm.rt, "doc")
}

// version string of an existing version of the document (revision id or current-version form),
// rarely one that does not exist.
func (sm *vfC16SM) versionOf(docID string) string {
	d := sm.store.docs[docID]
	if rapid.IntRange(0, 19).Draw(sm.rt, "bogus") == 0 {
		return rapid.SampledFrom([]string{"9-ffffffff", Version{SourceID: vfC16Src, Value: 7}.String()}).Draw(sm.rt, "bogusver")
	}
	// bias towards recent versions
	i := len(d.vers) - 1 - rapid.IntRange(0, min(2, len(d.vers)-1)).Draw(sm.rt, "back")
	if rapid.Bool().Draw(sm.rt, "byCV") {
		return d.vers[i].cv.String()
	}
	return d.vers[i].revID
}

func (sm *vfC16SM) freshGet(docID, version string, loadBackup bool) vfC16Result {
	var r vfC16Result
	kit.Guard(sm.rt, "C16", "SM", sm.render, func() {
		r.rev, _, r.err = sm.c.bypass.Get(sm.ctx, docID, version, vfC16Coll, loadBackup)
	})
	return r
}

func (sm *vfC16SM) freshActive(docID string) vfC16Result {
	var r vfC16Result
	kit.Guard(sm.rt, "C16", "SM", sm.render, func() {
		r.rev, _, r.err = sm.c.bypass.GetActive(sm.ctx, docID, vfC16Coll)
	})
	return r
}

// startRead launches a read; returns after it has either finished or parked in the loader.
func (sm *vfC16SM) startRead(what, docID, version string, loadBackup bool, gateAt, failAt int) {
	sm.nextID++
	p := &vfC16Pending{id: sm.nextID, what: what, docID: docID, version: version, done: make(chan vfC16Result, 1)}
	sm.store.nInj++
	p.ld = &vfC16Load{gateAt: gateAt, failAt: failAt, entered: make(chan struct{}, 1), release: make(chan bool, 1), injErr: &vfC16InjErr{n: sm.store.nInj}}
	if what == "getactive" {
		p.version = sm.store.docs[docID].cur().revID
		p.fresh = sm.freshActive(docID)
	} else {
		p.fresh = sm.freshGet(docID, version, loadBackup || what == "delta")
	}
	key := vfC16Key(docID, p.version)
	p.floor = sm.store.floor[key]
	p.genStart = sm.store.gen(key)
	ctx := context.WithValue(sm.ctx, vfC16CtxKey{}, p.ld)
	go func() {
		var r vfC16Result
		defer func() {
			if x := recover(); x != nil {
				r.err = fmt.Errorf("PANIC in cache read: %v", x)
			}
			p.done <- r
		}()
		switch what {
		case "getactive":
			r.rev, _, r.err = sm.c.cache.GetActive(ctx, docID, vfC16Coll)
		case "delta":
			r.rev, r.err = sm.c.cache.GetWithDelta(ctx, docID, version, "1-nonexistent", vfC16Coll)
		default:
			r.rev, _, r.err = sm.c.cache.Get(ctx, docID, version, vfC16Coll, loadBackup)
		}
	}()
	select {
	case <-p.ld.entered:
		p.parkedAt = gateAt
		if !(what == "getactive" && gateAt == 1) && sm.c.perShard > 0 {
			// the cache value exists and its lock is held by the parked loader
			p.busyKey = key
			sm.busy[key]++
			p.val = sm.c.valueOf(docID, p.version)
		}
		sm.parked = append(sm.parked, p)
	case r := <-p.done:
		sm.settle(p, r, false)
	case <-time.After(vfWaitBound):
		sm.inconclusive("a cache read neither returned nor reached the loader")
	}
}

// settle applies the oracle to a finished read.
func (sm *vfC16SM) settle(p *vfC16Pending, r vfC16Result, injected bool) {
	desc := fmt.Sprintf("%s#%d(%s,%s)", p.what, p.id, p.docID, p.version)
	if r.err != nil && strings.HasPrefix(r.err.Error(), "PANIC") {
		sm.fail("%s: %v", desc, r.err)
	}
	s := sm.store
	s.mu.Lock()
	miss := p.ld.revCalls > 0 || (p.what != "getactive" && p.ld.docCalls > 0)
	s.mu.Unlock()
	if sm.c.perShard == 0 {
		miss = true
	}
	if r.err != nil {
		var ie *vfC16InjErr
		if errors.As(r.err, &ie) {
			if !injected && p.ld.injErr != ie {
				sm.fail("%s returned the storage error of another load: %v", desc, r.err)
			}
			sm.classes["read-failed-injected"]++
			return
		}
		if p.fresh.err == nil {
			sm.fail("%s failed with %v although a fresh load of that version succeeds", desc, r.err)
		}
		sm.classes["read-failed-as-fresh"]++
		return
	}
	if injected {
		sm.fail("%s: the load failed with a storage error but the read returned a value (body %q)", desc, r.rev.BodyBytes)
	}
	if miss {
		sm.classes["read-miss"]++
		if p.fresh.err != nil {
			sm.fail("%s returned a value (body %q) although a fresh load at that time fails with %v", desc, r.rev.BodyBytes, p.fresh.err)
		}
		if d := vfC16DiffFresh(r.rev, p.fresh.rev); d != "" {
			sm.fail("%s (loaded from the bucket) differs from a fresh load made when the load started: %s", desc, d)
		}
		if m := s.checkModel(p.docID, p.version, r.rev, p.genStart, p.genStart); m != "" {
			sm.fail("%s (loaded from the bucket): %s", desc, m)
		}
		return
	}
	sm.classes["read-hit"]++
	// a hit may serve any value loaded since the feed last removed this key (the read may have been
	// parked in between, so the upper end is "now")
	if m := s.checkModel(p.docID, p.version, r.rev, p.floor, s.gen(vfC16Key(p.docID, p.version))); m != "" {
		if strings.HasPrefix(m, "channels") && p.floor > 0 {
			m = "served from the cache after the mutation feed delivered a metadata-only channel change for this revision: " + m
		}
		sm.fail("%s (cache hit): %s", desc, m)
	}
}

func (sm *vfC16SM) clearBusy(key string, upsert bool) {
	if sm.busy[key] > 0 {
		sm.nontriv = true
		sm.classes["remove-or-upsert-while-load-parked"]++
	}
	for _, p := range sm.parked {
		if p.busyKey == key {
			p.raced = true
			p.upserted = p.upserted || upsert
			p.busyKey = ""
		}
	}
	delete(sm.busy, key)
}

// noteEvictions records (for the non-trivial rule) parked loads whose value left the map.
func (sm *vfC16SM) noteEvictions() {
	for _, p := range sm.parked {
		if p.val != nil && !p.raced && sm.c.valueOf(p.docID, p.version) != p.val {
			p.raced = true
			sm.nontriv = true
			sm.classes["eviction-while-load-parked"]++
		}
	}
}

func (sm *vfC16SM) invariant() {
	if sm.c.perShard == 0 {
		if sm.c.stats.RevisionCacheNumItems.Value() != 0 || sm.c.stats.RevisionCacheTotalMemory.Value() != 0 {
			sm.fail("bypass cache reports %d items / %d bytes", sm.c.stats.RevisionCacheNumItems.Value(), sm.c.stats.RevisionCacheTotalMemory.Value())
		}
		return
	}
	if sm.putsParked() {
		// a parked Put has accounted its bytes but not stored its content yet: not a quiescent point for bytes
		return
	}
	if _, problem := sm.c.account(); problem != "" {
		sm.fail("accounting: %s", problem)
	}
}

func (sm *vfC16SM) freshCurrent(docID string) (DocumentRevision, bool) {
	cur := sm.store.docs[docID].cur()
	r := sm.freshGet(docID, cur.cv.String(), false)
	if r.err != nil {
		sm.fail("harness: fresh load of the current version of %s failed: %v", docID, r.err)
	}
	return r.rev, true
}

func (sm *vfC16SM) doPut(docID string, upsert bool) {
	cur := sm.store.docs[docID].cur()
	key := vfC16Key(docID, cur.cv.String())
	rev, _ := sm.freshCurrent(docID)
	var err error
	name := "put"
	kit.Guard(sm.rt, "C16", "SM", sm.render, func() {
		if upsert {
			name = "upsert"
			err = sm.c.cache.Upsert(sm.ctx, rev, vfC16Coll)
		} else {
			err = sm.c.cache.Put(sm.ctx, rev, vfC16Coll)
		}
	})
	sm.op("%s(%s,%s)", name, docID, cur.cv.String())
	if err != nil {
		sm.fail("%s of a complete revision failed: %v", name, err)
	}
	if upsert {
		sm.clearBusy(key, true)
	}
	sm.classes[name]++
}

func (sm *vfC16SM) actions() map[string]func(*rapid.T) {
	get := func(rt *rapid.T) {
		docID := sm.doc()
		version := sm.versionOf(docID)
		if sm.busy[vfC16Key(docID, version)] > 0 {
			rt.Skip()
		}
		what := "get"
		if rapid.IntRange(0, 7).Draw(rt, "viaDelta") == 0 {
			what = "delta"
		}
		loadBackup := rapid.Bool().Draw(rt, "loadBackup")
		gateAt, failAt := 0, 0
		switch rapid.IntRange(0, 9).Draw(rt, "gate") {
		case 0, 1, 2:
			gateAt = 1
		case 3, 4, 5:
			gateAt = 2
		case 6:
			failAt = rapid.IntRange(1, 2).Draw(rt, "failAt")
		}
		if gateAt > 0 && len(sm.parked) >= 3 {
			gateAt = 0
		}
		sm.op("%s#%d(%s,%s,backup=%v,gate=%d,fail=%d)", what, sm.nextID+1, docID, version, loadBackup, gateAt, failAt)
		sm.startRead(what, docID, version, loadBackup, gateAt, failAt)
	}
	getActive := func(rt *rapid.T) {
		docID := sm.doc()
		cur := sm.store.docs[docID].cur()
		if sm.busy[vfC16Key(docID, cur.revID)] > 0 {
			rt.Skip()
		}
		gateAt, failAt := 0, 0
		switch rapid.IntRange(0, 9).Draw(rt, "gate") {
		case 0, 1, 2:
			gateAt = 1
		case 3, 4, 5:
			gateAt = 2
		case 6:
			failAt = rapid.IntRange(1, 2).Draw(rt, "failAt")
		}
		if gateAt > 0 && len(sm.parked) >= 3 {
			gateAt = 0
		}
		sm.op("getactive#%d(%s,gate=%d,fail=%d)", sm.nextID+1, docID, gateAt, failAt)
		sm.startRead("getactive", docID, "", false, gateAt, failAt)
	}
	finish := func(rt *rapid.T) {
		if len(sm.parked) == 0 {
			rt.Skip()
		}
		i := rapid.IntRange(0, len(sm.parked)-1).Draw(rt, "which")
		if sm.wouldBlock(sm.parked[i]) {
			rt.Skip()
		}
		ok := rapid.IntRange(0, 3).Draw(rt, "ok") != 0
		if !ok && sm.parked[i].put != nil {
			if sm.knownFP {
				sm.exclFP++
				ok = true
			} else {
				sm.classes["failed-load-raced-put"]++
			}
		}
		sm.finishOne(i, ok)
	}
	return map[string]func(*rapid.T){
		"get": get, "get2": get, "get3": get,
		"getactive": getActive,
		"finish":    finish, "finish2": finish, "finish3": finish,
		"put": func(rt *rapid.T) {
			docID := sm.doc()
			if sm.busy[vfC16Key(docID, sm.store.docs[docID].cur().cv.String())] > 0 {
				rt.Skip()
			}
			if sm.sameCVChangePending(docID) {
				// Out of domain: the product's only Put (insert-on-write) is keyed by the version of the write
				// just made, so an entry already cached under that key was loaded from that same write and
				// carries the same content. A Put while the cache may still hold the version with an older
				// channel set (same-version channel change not yet through the feed) has no real caller.
				rt.Skip()
			}
			sm.doPut(docID, false)
		},
		"putbusy": func(rt *rapid.T) {
			// Put of the current version while a read of that same key is parked in the loader: the Put
			// accounts its bytes on the shared value and then waits for the value lock.
			var cands []*vfC16Pending
			for _, p := range sm.parked {
				if p.put == nil && p.busyKey != "" && p.val != nil && p.busyKey == vfC16Key(p.docID, sm.store.docs[p.docID].cur().cv.String()) && !sm.sameCVChangePending(p.docID) && sm.c.valueOf(p.docID, p.version) == p.val {
					cands = append(cands, p) // the parked load's value is still the map's value for the key
				}
			}
			if len(cands) == 0 {
				rt.Skip()
			}
			p := cands[rapid.IntRange(0, len(cands)-1).Draw(rt, "whichLoad")]
			rev, _ := sm.freshCurrent(p.docID)
			p.put = make(chan error, 1)
			go func() {
				defer func() {
					if x := recover(); x != nil {
						p.put <- fmt.Errorf("PANIC in Put: %v", x)
					}
				}()
				p.put <- sm.c.cache.Put(sm.ctx, rev, vfC16Coll)
			}()
			sm.op("put-while-load#%d-parked(%s,%s)", p.id, p.docID, p.version)
			if !vfC16WaitSized(p.val) {
				sm.inconclusive("a Put on a value whose load is parked did not reach its accounting")
			}
			sm.classes["put-while-load-parked"]++
			sm.nontriv = true
		},
		"upsert": func(rt *rapid.T) { sm.doPut(sm.doc(), true) },
		"remove": func(rt *rapid.T) {
			docID := sm.doc()
			version := sm.versionOf(docID)
			kit.Guard(rt, "C16", "SM", sm.render, func() { sm.c.cache.Remove(sm.ctx, docID, version, vfC16Coll) })
			sm.op("remove(%s,%s)", docID, version)
			sm.clearBusy(vfC16Key(docID, version), false)
			sm.classes["remove"]++
		},
		"peek": func(rt *rapid.T) {
			docID := sm.doc()
			version := sm.versionOf(docID)
			var rev DocumentRevision
			var found bool
			kit.Guard(rt, "C16", "SM", sm.render, func() { rev, found = sm.c.cache.Peek(sm.ctx, docID, version, vfC16Coll) })
			sm.op("peek(%s,%s)", docID, version)
			if found {
				key := vfC16Key(docID, version)
				if m := sm.store.checkModel(docID, version, rev, sm.store.floor[key], sm.store.gen(key)); m != "" {
					sm.fail("peek(%s,%s): %s", docID, version, m)
				}
				sm.classes["peek-found"]++
			}
		},
		"newrev": func(rt *rapid.T) {
			docID := rapid.SampledFrom(vfC16DocIDs).Draw(rt, "doc")
			sm.chanTag++
			v := sm.store.newRevision(docID, vfC16GenChans(rt, sm.chanTag), rapid.IntRange(0, 5).Draw(rt, "deleted") == 0, vfC16GenAtts(rt), rapid.IntRange(0, 40).Draw(rt, "pad"))
			sm.op("newrev(%s)=%s/%s chans=%s del=%v", docID, v.revID, v.cv.String(), vfJoin(v.chans), v.deleted)
			sm.classes["newrev"]++
			if rapid.Bool().Draw(rt, "insertOnWrite") && sm.busy[vfC16Key(docID, v.cv.String())] == 0 {
				sm.doPut(docID, false)
			}
		},
		"meta": func(rt *rapid.T) {
			docID := sm.doc()
			if sm.known {
				for _, p := range sm.parked {
					if p.what == "getactive" && p.parkedAt == 1 && p.docID == docID {
						sm.excl++
						rt.Skip()
					}
				}
			}
			newCV := rapid.Bool().Draw(rt, "newCV")
			sm.chanTag++
			chans := vfC16GenChans(rt, sm.chanTag)
			vers, gens := sm.store.metaChange(docID, chans, newCV)
			sm.feed = append(sm.feed, vfC16Feed{docID: docID, vers: vers, gens: gens})
			sm.op("metachange(%s,newCV=%v) chans=%s", docID, newCV, vfJoin(chans))
			sm.classes["meta-change"]++
			for _, p := range sm.parked {
				if p.what == "getactive" && p.parkedAt == 1 && p.docID == docID {
					sm.classes["meta-change-while-getactive-holds-older-read"]++
				}
			}
			if rapid.Bool().Draw(rt, "deliverNow") {
				sm.deliver()
			}
		},
		"feed": func(rt *rapid.T) {
			if len(sm.feed) == 0 {
				rt.Skip()
			}
			sm.deliver()
		},
		"": func(rt *rapid.T) {
			sm.noteEvictions()
			sm.invariant()
		},
	}
}

// deliver: the mutation feed reports the oldest pending metadata-only change; DocChanged removes
// the revision from the cache.
func (sm *vfC16SM) deliver() {
	f := sm.feed[0]
	sm.feed = sm.feed[1:]
	for i, version := range f.vers {
		kit.Guard(sm.rt, "C16", "SM", sm.render, func() { sm.c.cache.Remove(sm.ctx, f.docID, version, vfC16Coll) })
		key := vfC16Key(f.docID, version)
		if f.gens[i] > sm.store.floor[key] {
			sm.store.floor[key] = f.gens[i]
		}
		sm.clearBusy(key, false)
	}
	sm.op("feed-remove(%s,%s)", f.docID, strings.Join(f.vers, "+"))
	sm.classes["feed-remove"]++
}

// wouldBlock: a get-active parked after its document read has no cache value yet; once released it
// looks its revision up and, if another load of that key is parked, waits for that load (by design).
func (sm *vfC16SM) wouldBlock(p *vfC16Pending) bool {
	return p.what == "getactive" && p.parkedAt == 1 && sm.busy[vfC16Key(p.docID, p.version)] > 0
}

func (sm *vfC16SM) finishOne(i int, ok bool) {
	p := sm.parked[i]
	sm.parked = append(sm.parked[:i:i], sm.parked[i+1:]...)
	sm.op("finish#%d(ok=%v)", p.id, ok)
	p.ld.release <- ok
	var r vfC16Result
	select {
	case r = <-p.done:
	case <-time.After(vfWaitBound):
		sm.inconclusive("a released load did not return")
	}
	if p.busyKey != "" {
		if sm.busy[p.busyKey]--; sm.busy[p.busyKey] <= 0 {
			delete(sm.busy, p.busyKey)
		}
	}
	if p.put != nil {
		select {
		case err := <-p.put:
			if err != nil {
				sm.fail("Put of a complete revision on a key whose load was parked: %v", err)
			}
		case <-time.After(vfWaitBound):
			sm.inconclusive("a Put waiting for a finished load did not return")
		}
		p.put = nil
	}
	if p.raced {
		sm.classes["load-finished-after-its-value-left-the-map"]++
	}
	if !ok {
		sm.classes["load-failed-at-gate"]++
		if p.upserted {
			sm.classes["failed-load-raced-upsert"]++
		}
	}
	sm.settle(p, r, !ok)
}

// drain releases every parked load (used at the end of a case and on the failure path so that no
// goroutine outlives the case).
func (sm *vfC16SM) drain(check bool) {
	for len(sm.parked) > 0 {
		i := 0
		for k, p := range sm.parked {
			if !sm.wouldBlock(p) {
				i = k
				break
			}
		}
		if check {
			sm.finishOne(i, true)
			sm.noteEvictions()
			sm.invariant()
			continue
		}
		p := sm.parked[i]
		sm.parked = append(sm.parked[:i:i], sm.parked[i+1:]...)
		if p.busyKey != "" {
			sm.busy[p.busyKey]--
		}
		if p.put != nil {
			defer func(ch chan error) {
				select {
				case <-ch:
				case <-time.After(5 * time.Second):
				}
			}(p.put)
		}
		p.ld.release <- true
		select {
		case <-p.done:
		case <-time.After(5 * time.Second):
		}
	}
}

func vfC16GenConfig(rt *rapid.T) (nShards, perShard int, maxBytes int64) {
	nShards = rapid.SampledFrom([]int{1, 1, 3}).Draw(rt, "shards")
	perShard = rapid.SampledFrom([]int{1, 1, 2, 2, 3, 4, 1, 2, 3, 4, 2, 3, 0}).Draw(rt, "capacity")
	maxBytes = int64(rapid.SampledFrom([]int{0, 0, 0, 60, 120, 250, 500}).Draw(rt, "maxBytesPerShard")) * int64(nShards)
	return
}

// TestVerif_C16_SM: deterministic schedules with generator-released loaders.
func TestVerif_C16_SM(t *testing.T) {
	rec := kit.New("C16", "SM")
	defer rec.Flush()
	ctx := base.TestCtx(t)
	known := kit.Known("C16", vfC16SigGetActive)
	knownFP := kit.Known("C16", vfC16SigFailedLoadPut)
	rapid.Check(t, func(rt *rapid.T) {
		nShards, perShard, maxBytes := vfC16GenConfig(rt)
		store := vfC16NewStore()
		c, err := vfC16NewCache(store, nShards, perShard, maxBytes)
		if err != nil {
			rt.Fatalf("harness: %v", err)
		}
		sm := &vfC16SM{rt: rt, ctx: ctx, store: store, c: c, busy: map[string]int{}, classes: map[string]int{}, known: known, knownFP: knownFP}
		sm.op("config(shards=%d,capacity/shard=%d,maxBytes=%d)", nShards, perShard, maxBytes)
		defer func() {
			sm.drain(false)
			if x := recover(); x != nil {
				if _, ok := x.(kit.InconclusiveErr); ok {
					rec.Inconclusive()
					rt.Skip()
				}
				panic(x)
			}
		}()
		nDocs := rapid.IntRange(1, 3).Draw(rt, "ndocs")
		for i := 0; i < nDocs; i++ {
			sm.chanTag++
			store.newRevision(vfC16DocIDs[i], vfC16GenChans(rt, sm.chanTag), false, vfC16GenAtts(rt), rapid.IntRange(0, 40).Draw(rt, "pad"))
		}
		rt.Repeat(sm.actions())

		// quiescence: let every load finish, deliver the feed, recount
		sm.drain(true)
		for len(sm.feed) > 0 {
			sm.deliver()
		}
		sm.invariant()
		// after the feed caught up: every version still served from the cache must carry its current channels
		for _, docID := range vfSortedKeys(store.docs) {
			d := store.docs[docID]
			for _, v := range d.vers {
				for _, version := range []string{v.revID, v.cv.String()} {
					rev, found := c.cache.Peek(ctx, docID, version, vfC16Coll)
					if !found {
						continue
					}
					key := vfC16Key(docID, version)
					if m := store.checkModel(docID, version, rev, store.floor[key], store.gen(key)); m != "" {
						sm.op("final-peek(%s,%s)", docID, version)
						sm.fail("final peek(%s,%s) after the feed caught up: %s", docID, version, m)
					}
				}
			}
		}
		// empty the cache through the API: both gauges must return to zero
		for _, docID := range vfSortedKeys(store.docs) {
			for _, v := range store.docs[docID].vers {
				c.cache.Remove(ctx, docID, v.revID, vfC16Coll)
				c.cache.Remove(ctx, docID, v.cv.String(), vfC16Coll)
			}
		}
		c.cache.Remove(ctx, "a", "9-ffffffff", vfC16Coll)
		sm.op("remove-everything")
		if perShard > 0 {
			items, problem := c.account()
			if problem != "" {
				sm.fail("accounting after emptying the cache: %s", problem)
			}
			if items != 0 {
				// bogus keys of documents are the only ones not removed above; remove what is left by key
				sm.fail("cache still holds %d items after every known key was removed", items)
			}
		}
		if g, b := c.stats.RevisionCacheNumItems.Value(), c.stats.RevisionCacheTotalMemory.Value(); g != 0 || b != 0 {
			sm.fail("emptied cache reports %d items and %d bytes", g, b)
		}
		for k := 0; k < sm.excl; k++ {
			rec.Excluded(vfC16SigGetActive)
		}
		for k := 0; k < sm.exclFP; k++ {
			rec.Excluded(vfC16SigFailedLoadPut)
		}
		cls := []string{fmt.Sprintf("shards=%d", nShards), fmt.Sprintf("capacity=%d", perShard), fmt.Sprintf("bytelimit=%v", maxBytes > 0)}
		for _, k := range vfSortedKeys(sm.classes) {
			rec.Class(k, int64(sm.classes[k]))
			cls = append(cls, "case-with:"+k)
		}
		nontrivial := sm.nontriv || sm.classes["failed-load-raced-upsert"] > 0 || sm.classes["failed-load-raced-put"] > 0
		rec.Case(sm.render(), nontrivial, cls...)
	})
}

// TestVerif_C16_KnownFindings replays the minimal reproduction of each listed finding against the
// real cache; prints KNOWN-FINDING while it still reproduces (never a violation).
func TestVerif_C16_KnownFindings(t *testing.T) {
	ctx := base.TestCtx(t)
	rec := kit.New("C16", "KnownFindings")
	defer rec.Flush()
	vfC16ReplayFailedLoadPut(t, ctx, rec)
	store := vfC16NewStore()
	c, err := vfC16NewCache(store, 1, 4, 0)
	if err != nil {
		t.Fatalf("harness: %v", err)
	}
	v := store.newRevision("a", []string{"old"}, false, nil, 0)
	// 1. a get-active reads the document ...
	ld := &vfC16Load{gateAt: 1, entered: make(chan struct{}, 1), release: make(chan bool, 1), injErr: &vfC16InjErr{}}
	done := make(chan vfC16Result, 1)
	go func() {
		var r vfC16Result
		r.rev, _, r.err = c.cache.GetActive(context.WithValue(ctx, vfC16CtxKey{}, ld), "a", vfC16Coll)
		done <- r
	}()
	select {
	case <-ld.entered:
	case <-time.After(vfWaitBound):
		t.Skip("inconclusive: get-active did not reach the loader")
	}
	// 2. ... a metadata-only update changes the revision's channels and comes through the feed ...
	vers, _ := store.metaChange("a", []string{"new"}, true)
	for _, version := range vers {
		c.cache.Remove(ctx, "a", version, vfC16Coll)
	}
	// 3. ... the get-active continues and caches what it read before the update.
	ld.release <- true
	select {
	case <-done:
	case <-time.After(vfWaitBound):
		t.Skip("inconclusive: get-active did not return")
	}
	rev, _, err := c.cache.Get(ctx, "a", v.revID, vfC16Coll, false)
	if err != nil {
		t.Fatalf("harness: %v", err)
	}
	rec.Case("getactive(a) parked after the document read; metachange(a); feed-remove; finish; get(a)", false, "regression-replays")
	if rev.Channels.Contains("old") {
		if kit.Known("C16", vfC16SigGetActive) {
			kit.KnownFinding("C16", vfC16SigGetActive, fmt.Sprintf("Get(a,%s) after metadata-only change [old]->[new] + feed Remove still serves channels %s: GetActive read the document before the update and populated the cache after the Remove", v.revID, vfC16Chans(rev.Channels)))
			return
		}
		kit.Violation(t, "C16", "KnownFindings", "getactive(a) parked after the document read; metachange(a) [old]->[new]; feed-remove; finish; get(a,"+v.revID+")",
			"the cache serves channels %s after the mutation feed delivered the metadata-only change to [new]", vfC16Chans(rev.Channels))
	}
}

// vfC16ReplayFailedLoadPut: a read of (doc, current version) is parked in the loader; the writer
// puts that version (accounts its bytes on the shared value, waits for the lock); the load fails.
func vfC16ReplayFailedLoadPut(t *testing.T, ctx context.Context, rec *kit.Rec) {
	store := vfC16NewStore()
	c, err := vfC16NewCache(store, 1, 4, 0)
	if err != nil {
		t.Fatalf("harness: %v", err)
	}
	v := store.newRevision("a", []string{"x"}, false, nil, 0)
	ld := &vfC16Load{gateAt: 2, entered: make(chan struct{}, 1), release: make(chan bool, 1), injErr: &vfC16InjErr{}}
	done := make(chan vfC16Result, 1)
	go func() {
		var r vfC16Result
		r.rev, _, r.err = c.cache.Get(context.WithValue(ctx, vfC16CtxKey{}, ld), "a", v.cv.String(), vfC16Coll, false)
		done <- r
	}()
	select {
	case <-ld.entered:
	case <-time.After(vfWaitBound):
		t.Skip("inconclusive: read did not reach the loader")
	}
	val := c.valueOf("a", v.cv.String())
	rev, _, err := c.bypass.Get(ctx, "a", v.cv.String(), vfC16Coll, false)
	if err != nil || val == nil {
		t.Fatalf("harness: %v %v", err, val)
	}
	putDone := make(chan error, 1)
	go func() { putDone <- c.cache.Put(ctx, rev, vfC16Coll) }()
	if !vfC16WaitSized(val) {
		t.Skip("inconclusive: Put did not reach its accounting")
	}
	ld.release <- false
	for _, ch := range []func() bool{func() bool {
		select {
		case <-done:
			return true
		case <-time.After(vfWaitBound):
			return false
		}
	}, func() bool {
		select {
		case <-putDone:
			return true
		case <-time.After(vfWaitBound):
			return false
		}
	}} {
		if !ch() {
			t.Skip("inconclusive: operation did not return")
		}
	}
	c.cache.Remove(ctx, "a", v.cv.String(), vfC16Coll)
	c.cache.Remove(ctx, "a", v.revID, vfC16Coll)
	render := "get(a,cv) parked in the loader; put(a,cv) accounted, waits for the value; load fails; remove(a,cv)"
	rec.Case(render, false, "regression-replays")
	items, bytesNow := c.stats.RevisionCacheNumItems.Value(), c.stats.RevisionCacheTotalMemory.Value()
	if items != 0 || bytesNow != 0 {
		if kit.Known("C16", vfC16SigFailedLoadPut) {
			kit.KnownFinding("C16", vfC16SigFailedLoadPut, fmt.Sprintf("emptied cache reports %d items and %d bytes after %s: removeValueForFailedLoad discards a value a concurrent Put already accounted as sized without decrementing", items, bytesNow, render))
			return
		}
		kit.Violation(t, "C16", "KnownFindings", render, "emptied cache reports %d items and %d bytes", items, bytesNow)
	}
}

// ---------------------------------------------------------------------------------------------
// free-running mode

type vfC16COp struct {
	kind       string
	docID      string
	back       int
	byCV       bool
	loadBackup bool
	fail       int
	yields     int
	chans      []string
	newCV      bool
	deleted    bool
	atts       AttachmentsMeta
	pad        int
	put        bool
}

func (o vfC16COp) String() string {
	switch o.kind {
	case "get", "peek", "remove":
		return fmt.Sprintf("%s(%s,back=%d,cv=%v,backup=%v,fail=%d,y=%d)", o.kind, o.docID, o.back, o.byCV, o.loadBackup, o.fail, o.yields)
	case "getactive":
		return fmt.Sprintf("getactive(%s,fail=%d,y=%d)", o.docID, o.fail, o.yields)
	case "newrev":
		return fmt.Sprintf("newrev(%s,%s,del=%v,put=%v)", o.docID, vfJoin(o.chans), o.deleted, o.put)
	case "meta":
		return fmt.Sprintf("meta(%s,%s,newCV=%v)", o.docID, vfJoin(o.chans), o.newCV)
	}
	return fmt.Sprintf("%s(%s)", o.kind, o.docID)
}

// TestVerif_C16_Concurrent: goroutines run generated operation lists against one cache without
// gates (run under the race detector in the thorough tier). Oracle: per returned value the model
// check with the admissible channel interval observed around the call; exact accounting and
// zero gauges at the end.
func TestVerif_C16_Concurrent(t *testing.T) {
	rec := kit.New("C16", "Concurrent")
	defer rec.Flush()
	ctx := base.TestCtx(t)
	known := kit.Known("C16", vfC16SigGetActive)
	knownFP := kit.Known("C16", vfC16SigFailedLoadPut)
	knownPeek := kit.Known("C16", vfC16SigPeekRace)
	knownEH := kit.Known("C16", vfC16SigErrHitRace)
	rapid.Check(t, func(rt *rapid.T) {
		racesBefore := vfC16RaceErrors()
		nShards, perShard, maxBytes := vfC16GenConfig(rt)
		store := vfC16NewStore()
		c, err := vfC16NewCache(store, nShards, perShard, maxBytes)
		if err != nil {
			rt.Fatalf("harness: %v", err)
		}
		nDocs := rapid.IntRange(1, 3).Draw(rt, "ndocs")
		tag := 0
		docLocks := map[string]*sync.RWMutex{}
		for i := 0; i < nDocs; i++ {
			tag++
			store.newRevision(vfC16DocIDs[i], vfC16GenChans(rt, tag), false, nil, 3)
			docLocks[vfC16DocIDs[i]] = &sync.RWMutex{}
		}
		nG := rapid.IntRange(2, 4).Draw(rt, "goroutines")
		plans := make([][]vfC16COp, nG)
		var render []string
		render = append(render, fmt.Sprintf("config(shards=%d,capacity/shard=%d,maxBytes=%d,docs=%d)", nShards, perShard, maxBytes, nDocs))
		for g := range plans {
			n := rapid.IntRange(5, 25).Draw(rt, "nops")
			var names []string
			for k := 0; k < n; k++ {
				o := vfC16COp{docID: vfC16DocIDs[rapid.IntRange(0, nDocs-1).Draw(rt, "doc")]}
				o.kind = rapid.SampledFrom([]string{"get", "get", "get", "getactive", "getactive", "peek", "remove", "put", "upsert", "newrev", "meta", "meta"}).Draw(rt, "kind")
				o.back = rapid.IntRange(0, 2).Draw(rt, "back")
				o.byCV = rapid.Bool().Draw(rt, "byCV")
				o.loadBackup = true
				if rapid.IntRange(0, 5).Draw(rt, "fail") == 0 {
					o.fail = rapid.IntRange(1, 2).Draw(rt, "failAt")
				}
				o.yields = rapid.IntRange(0, 3).Draw(rt, "yields")
				if knownPeek && o.kind == "peek" {
					// Peek reads the value's fields without the value lock; racing a load of the same key is the listed finding
					o.kind = "get"
					rec.Excluded(vfC16SigPeekRace)
				}
				if knownFP && o.kind == "get" && o.byCV && o.fail != 0 {
					// a failing load of the current version's key may share its value with a writer's Put
					o.fail = 0
					rec.Excluded(vfC16SigFailedLoadPut)
				}
				if knownEH && o.kind == "get" && o.byCV && o.fail != 0 {
					// a reader that hits the cached error of a failed load reads the value after dropping its
					// read lock, while a writer's Put stores into that same value: the listed data race
					o.fail = 0
					rec.Excluded(vfC16SigErrHitRace)
				}
				if o.kind == "newrev" || o.kind == "meta" {
					tag++
					o.chans = vfC16GenChans(rt, tag)
					o.newCV = rapid.Bool().Draw(rt, "newCV")
					o.deleted = rapid.IntRange(0, 5).Draw(rt, "deleted") == 0
					o.atts = vfC16GenAtts(rt)
					o.pad = rapid.IntRange(0, 40).Draw(rt, "pad")
					o.put = rapid.Bool().Draw(rt, "put")
				}
				plans[g] = append(plans[g], o)
				names = append(names, o.String())
			}
			render = append(render, fmt.Sprintf("G%d[%s]", g, strings.Join(names, " ")))
		}
		caseRender := strings.Join(render, "; ")

		var mu sync.Mutex
		var problems []string
		report := func(format string, args ...any) {
			mu.Lock()
			problems = append(problems, fmt.Sprintf(format, args...))
			mu.Unlock()
		}
		pickVersion := func(o vfC16COp) string {
			store.mu.Lock()
			defer store.mu.Unlock()
			d := store.docs[o.docID]
			i := len(d.vers) - 1 - min(o.back, len(d.vers)-1)
			if o.byCV {
				return d.vers[i].cv.String()
			}
			return d.vers[i].revID
		}
		window := func(key string) (int, int) {
			store.mu.Lock()
			defer store.mu.Unlock()
			return store.floor[key], store.gen(key)
		}
		check := func(o vfC16COp, version string, lo int, rev DocumentRevision, err error) {
			if err != nil {
				var ie *vfC16InjErr
				if !errors.As(err, &ie) {
					report("%s version %s failed with %v although the bucket holds that version and no storage error was injected", o, version, err)
				}
				return
			}
			_, hi := window(vfC16Key(o.docID, version))
			if m := store.checkModel(o.docID, version, rev, lo, hi); m != "" {
				report("%s version %s: %s", o, version, m)
			}
		}
		var wg sync.WaitGroup
		doneAll := make(chan struct{})
		for g := range plans {
			wg.Add(1)
			go func(plan []vfC16COp) {
				defer wg.Done()
				defer func() {
					if x := recover(); x != nil {
						report("panic in cache operation: %v", x)
					}
				}()
				for _, o := range plan {
					lk := docLocks[o.docID]
					newLoad := func() context.Context {
						store.mu.Lock()
						store.nInj++
						n := store.nInj
						store.mu.Unlock()
						return context.WithValue(ctx, vfC16CtxKey{}, &vfC16Load{failAt: o.fail, yields: o.yields, injErr: &vfC16InjErr{n: n}})
					}
					switch o.kind {
					case "get":
						version := pickVersion(o)
						lo, _ := window(vfC16Key(o.docID, version))
						rev, _, err := c.cache.Get(newLoad(), o.docID, version, vfC16Coll, o.loadBackup)
						check(o, version, lo, rev, err)
					case "getactive":
						if known {
							// the listed finding needs a metadata-only change between get-active's read and its
							// cache insert; keep the two apart while it is open
							lk.RLock()
						}
						store.mu.Lock()
						version := store.docs[o.docID].cur().revID
						store.mu.Unlock()
						lo, _ := window(vfC16Key(o.docID, version))
						rev, _, err := c.cache.GetActive(newLoad(), o.docID, vfC16Coll)
						if known {
							lk.RUnlock()
						}
						if err == nil && rev.RevID != version {
							// a newer revision became current in between; judge the value as that revision
							version = rev.RevID
							lo, _ = window(vfC16Key(o.docID, version))
							if lo > 0 {
								lo = 0
							}
						}
						check(o, version, lo, rev, err)
					case "peek":
						version := pickVersion(o)
						lo, _ := window(vfC16Key(o.docID, version))
						if rev, found := c.cache.Peek(ctx, o.docID, version, vfC16Coll); found {
							check(o, version, lo, rev, nil)
						}
					case "remove":
						c.cache.Remove(ctx, o.docID, pickVersion(o), vfC16Coll)
					case "put", "upsert":
						// a writer inserts the revision it has just written; writers of one document are serialised
						lk.Lock()
						store.mu.Lock()
						cv := store.docs[o.docID].cur().cv.String()
						store.mu.Unlock()
						rev, _, err := c.bypass.Get(ctx, o.docID, cv, vfC16Coll, false)
						if err != nil {
							report("harness: fresh load failed: %v", err)
						} else if o.kind == "put" {
							err = c.cache.Put(ctx, rev, vfC16Coll)
						} else {
							err = c.cache.Upsert(ctx, rev, vfC16Coll)
						}
						if err != nil {
							report("%s failed: %v", o, err)
						}
						lk.Unlock()
					case "newrev":
						lk.Lock()
						v := store.newRevision(o.docID, o.chans, o.deleted, o.atts, o.pad)
						if o.put {
							if rev, _, err := c.bypass.Get(ctx, o.docID, v.cv.String(), vfC16Coll, false); err == nil {
								_ = c.cache.Put(ctx, rev, vfC16Coll)
							}
						}
						lk.Unlock()
					case "meta":
						lk.Lock()
						vers, gens := store.metaChange(o.docID, o.chans, o.newCV)
						for i, version := range vers {
							c.cache.Remove(ctx, o.docID, version, vfC16Coll)
							store.mu.Lock()
							if key := vfC16Key(o.docID, version); gens[i] > store.floor[key] {
								store.floor[key] = gens[i]
							}
							store.mu.Unlock()
						}
						lk.Unlock()
					}
				}
			}(plans[g])
		}
		go func() { wg.Wait(); close(doneAll) }()
		select {
		case <-doneAll:
		case <-time.After(vfWaitBound):
			rec.Inconclusive()
			kit.InconclusiveLine("C16", "free-running goroutines did not finish within %v", vfWaitBound)
			rt.Skip()
		}
		if n := vfC16RaceErrors() - racesBefore; n > 0 {
			kit.Violation(rt, "C16", "Concurrent", caseRender, "the race detector reported %d data race(s) while this case ran (reports are in the job log)", n)
		}
		if len(problems) > 0 {
			sort.Strings(problems)
			kit.Violation(rt, "C16", "Concurrent", caseRender, "%s", problems[0])
		}
		if perShard > 0 {
			if _, problem := c.account(); problem != "" {
				kit.Violation(rt, "C16", "Concurrent", caseRender, "accounting at quiescence: %s", problem)
			}
		}
		for _, docID := range vfSortedKeys(store.docs) {
			for _, v := range store.docs[docID].vers {
				for _, version := range []string{v.revID, v.cv.String()} {
					key := vfC16Key(docID, version)
					if rev, found := c.cache.Peek(ctx, docID, version, vfC16Coll); found {
						if m := store.checkModel(docID, version, rev, store.floor[key], store.gen(key)); m != "" {
							kit.Violation(rt, "C16", "Concurrent", caseRender, "at quiescence peek(%s,%s): %s", docID, version, m)
						}
					}
					c.cache.Remove(ctx, docID, version, vfC16Coll)
				}
			}
		}
		if perShard > 0 {
			if items, problem := c.account(); problem != "" || items != 0 {
				kit.Violation(rt, "C16", "Concurrent", caseRender, "after emptying the cache: %d items left; %s", items, problem)
			}
		}
		if g, b := c.stats.RevisionCacheNumItems.Value(), c.stats.RevisionCacheTotalMemory.Value(); g != 0 || b != 0 {
			kit.Violation(rt, "C16", "Concurrent", caseRender, "emptied cache reports %d items and %d bytes", g, b)
		}
		if known {
			rec.Excluded(vfC16SigGetActive)
		}
		rec.Case(caseRender, nG >= 2 && perShard > 0, fmt.Sprintf("goroutines=%d", nG), fmt.Sprintf("shards=%d", nShards), fmt.Sprintf("capacity=%d", perShard))
	})
}

// TestVerif_C16_PeekRaceChild is the body of the race replay; it only runs in the child process
// started by TestVerif_C16_PeekRaceReplay (race-detector builds).
func TestVerif_C16_PeekRaceChild(t *testing.T) {
	if os.Getenv("VERIF_C16_CHILD") != "1" {
		t.Skip("child of TestVerif_C16_PeekRaceReplay")
	}
	ctx := base.TestCtx(t)
	store := vfC16NewStore()
	c, err := vfC16NewCache(store, 1, 2, 0)
	if err != nil {
		t.Fatalf("harness: %v", err)
	}
	v := store.newRevision("a", []string{"x"}, false, nil, 0)
	for i := 0; i < 3000 && vfC16RaceErrors() == 0; i++ {
		var wg sync.WaitGroup
		wg.Add(2)
		go func() {
			defer wg.Done()
			ld := &vfC16Load{yields: i % 4, injErr: &vfC16InjErr{}}
			_, _, _ = c.cache.Get(context.WithValue(ctx, vfC16CtxKey{}, ld), "a", v.revID, vfC16Coll, false)
		}()
		go func() {
			defer wg.Done()
			for k := 0; k < 20; k++ {
				_, _ = c.cache.Peek(ctx, "a", v.revID, vfC16Coll)
				runtime.Gosched()
			}
		}()
		wg.Wait()
		c.cache.Remove(ctx, "a", v.revID, vfC16Coll)
	}
}

// TestVerif_C16_PeekRaceReplay (race-detector builds only): replays "Peek while the same key is
// being loaded" in a child process and reads the race detector's verdict from its output.
func TestVerif_C16_PeekRaceReplay(t *testing.T) {
	rec := kit.New("C16", "PeekRaceReplay")
	defer rec.Flush()
	if !vfC16RaceBuild {
		t.Skip("needs a race-detector build")
	}
	vfC16RaceReplay(t, rec, "^TestVerif_C16_PeekRaceChild$", vfC16SigPeekRace, []string{"LRURevisionCache).Peek"},
		"goroutine 1: get(a,rev) loads from the bucket; goroutine 2: peek(a,rev) repeatedly; remove(a,rev); repeat",
		"the race detector reports LRURevisionCache.Peek -> revCacheValue.asDocumentRevision reading a value's fields while revCacheValue.load writes them (Peek does not take the value lock)")
	vfC16RaceReplay(t, rec, "^TestVerif_C16_ErrHitRaceChild$", vfC16SigErrHitRace, []string{"revCacheValue).store", "revCacheValue).load"},
		"goroutine 1: get(a,cv) whose load fails; goroutine 2: put(a,cv); goroutine 3: get(a,cv); remove(a,cv); repeat",
		"the race detector reports revCacheValue.load's fast path (cached value or cached error: fields read by asDocumentRevision after the read lock was dropped) racing revCacheValue.store called by Put on the same value")
}

// vfC16RaceReplay runs a child test of this binary under the race detector and reads its verdict.
func vfC16RaceReplay(t *testing.T, rec *kit.Rec, child, sig string, mustContain []string, render, what string) {
	cmd := exec.Command(os.Args[0], "-test.run", child, "-test.count=1", "-test.timeout", "300s")
	cmd.Env = append(os.Environ(), "VERIF_C16_CHILD=1", "VERIF_STATS_OUT=")
	out, _ := cmd.CombinedOutput()
	rec.Case(render, false, "regression-replays")
	text := string(out)
	hit := strings.Contains(text, "WARNING: DATA RACE")
	for _, m := range mustContain {
		hit = hit && strings.Contains(text, m)
	}
	if hit {
		if kit.Known("C16", sig) {
			kit.KnownFinding("C16", sig, what)
			return
		}
		kit.Violation(t, "C16", "PeekRaceReplay", render, "%s", what)
	}
	if !strings.Contains(text, "PASS") && !strings.Contains(text, "DATA RACE") {
		kit.Note("C16", "race replay child %s did not run cleanly: %s", child, strings.ReplaceAll(vfC16ClipTail(text, 400), "\n", " | "))
	}
}

// TestVerif_C16_ErrHitRaceChild: body of the second race replay (child process only).
func TestVerif_C16_ErrHitRaceChild(t *testing.T) {
	if os.Getenv("VERIF_C16_CHILD") != "1" {
		t.Skip("child of TestVerif_C16_PeekRaceReplay")
	}
	ctx := base.TestCtx(t)
	store := vfC16NewStore()
	c, err := vfC16NewCache(store, 1, 2, 0)
	if err != nil {
		t.Fatalf("harness: %v", err)
	}
	v := store.newRevision("a", []string{"x"}, false, nil, 0)
	cv := v.cv.String()
	rev, _, err := c.bypass.Get(ctx, "a", cv, vfC16Coll, false)
	if err != nil {
		t.Fatalf("harness: %v", err)
	}
	for i := 0; i < 20000 && vfC16RaceErrors() == 0; i++ {
		var wg sync.WaitGroup
		wg.Add(3)
		go func() {
			defer wg.Done()
			ld := &vfC16Load{failAt: 1 + i%2, yields: i % 4, injErr: &vfC16InjErr{}}
			_, _, _ = c.cache.Get(context.WithValue(ctx, vfC16CtxKey{}, ld), "a", cv, vfC16Coll, false)
		}()
		go func() {
			defer wg.Done()
			for k := 0; k < i%3; k++ {
				runtime.Gosched()
			}
			_ = c.cache.Put(ctx, rev, vfC16Coll)
		}()
		go func() {
			defer wg.Done()
			for k := 0; k < i%5; k++ {
				runtime.Gosched()
			}
			_, _, _ = c.cache.Get(ctx, "a", cv, vfC16Coll, false)
		}()
		wg.Wait()
		c.cache.Remove(ctx, "a", cv, vfC16Coll)
	}
}

func vfC16ClipTail(s string, n int) string {
	if len(s) > n {
		return s[len(s)-n:]
	}
	return s
}
