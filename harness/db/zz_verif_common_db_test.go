package db

// Shared helpers for the injected db-package harnesses (overlay only; never part of /repo).
// Everything here returns errors instead of asserting, so that a property-deciding path never
// runs through one of the repository's own asserting helpers (DESIGN §3.4).

import (
	"context"
	"fmt"
	"sort"
	"strings"
	"testing"
	"time"

	"github.com/couchbase/sync_gateway/auth"
	"github.com/couchbase/sync_gateway/base"
	kit "github.com/couchbase/sync_gateway/verifkit"
	"golang.org/x/crypto/bcrypt"
)

// vfProductOptions returns the options the REST layer hands to the db package for an empty database
// config (dbcOptionsFromConfig), with RestTester's bcrypt cost. Generated configurations start here
// and vary individual fields; zero values here would give an empty changes feed / no revocations.
func vfProductOptions() DatabaseContextOptions {
	cache := DefaultCacheOptions()
	cache.ChannelQueryLimit = DefaultQueryPaginationLimit
	return DatabaseContextOptions{
		CacheOptions:           &cache,
		RevisionCacheOptions:   DefaultRevisionCacheOptions(),
		OldRevExpirySeconds:    base.DefaultOldRevExpirySeconds,
		LocalDocExpirySecs:     base.DefaultLocalDocExpirySecs,
		AllowConflicts:         base.Ptr(false),
		CompactInterval:        uint32(DefaultCompactInterval.Seconds()),
		QueryPaginationLimit:   DefaultQueryPaginationLimit,
		ClientPartitionWindow:  base.DefaultClientPartitionWindow,
		BcryptCost:             bcrypt.MinCost,
		JavascriptTimeout:      time.Duration(base.DefaultJavascriptTimeoutSecs) * time.Second,
		StoreLegacyRevTreeData: base.Ptr(DefaultStoreLegacyRevTreeData),
	}
}

type vfDBConfig struct {
	Mutate            func(o *DatabaseContextOptions) // vary the product defaults
	DefaultCollection bool                            // default collection vs one named collection
	SyncFn            string                          // always set explicitly ("" = the repository default channel(doc.channels))
	WrapBucket        func(b base.Bucket) base.Bucket // e.g. a fault store around the pool bucket
	AutoImport        bool
	DBName            string
}

type vfEnv struct {
	T      testing.TB
	Bucket *base.TestBucket
	Ctx    context.Context
	DBC    *DatabaseContext
	DB     *Database
	Coll   *DatabaseCollectionWithUser // admin handle (no user) on the single collection
	closed bool
}

const vfDefaultSyncFn = `function(doc, oldDoc, meta) { channel(doc.channels); }`

// vfOpen builds a fresh rosmar-backed database. t must be the outer *testing.T (the bucket pool
// needs it); the returned error is an infrastructure problem, never a property verdict.
func vfOpen(t testing.TB, cfg vfDBConfig) (env *vfEnv, err error) {
	defer func() {
		if p := recover(); p != nil {
			err = fmt.Errorf("panic while opening database: %v", p)
		}
	}()
	opts := vfProductOptions()
	AddOptionsFromEnvironmentVariables(&opts)
	tb := base.GetTestBucket(t)
	var bucket base.Bucket = tb
	if cfg.WrapBucket != nil {
		bucket = cfg.WrapBucket(tb)
	}
	if cfg.DefaultCollection {
		opts.Scopes = GetScopesOptionsDefaultCollectionOnly(t)
	} else {
		opts.Scopes = GetScopesOptions(t, tb, 1)
	}
	if cfg.Mutate != nil {
		cfg.Mutate(&opts)
	}
	name := cfg.DBName
	if name == "" {
		name = "db"
	}
	ctx := base.TestCtx(t)
	dbc, err := NewDatabaseContext(ctx, name, bucket, cfg.AutoImport, opts)
	if err != nil {
		tb.Close(ctx)
		return nil, fmt.Errorf("NewDatabaseContext: %w", err)
	}
	ctx = dbc.AddDatabaseLogContext(ctx)
	if err := dbc.StartOnlineProcesses(ctx); err != nil {
		dbc.Close(ctx)
		tb.Close(ctx)
		return nil, fmt.Errorf("StartOnlineProcesses: %w", err)
	}
	database, _ := CreateDatabase(dbc)
	ctx = addDatabaseAndTestUserContext(ctx, database)
	if len(dbc.CollectionByID) != 1 {
		dbc.Close(ctx)
		tb.Close(ctx)
		return nil, fmt.Errorf("expected one collection, have %d", len(dbc.CollectionByID))
	}
	var dc *DatabaseCollection
	for _, c := range dbc.CollectionByID {
		dc = c
	}
	coll := &DatabaseCollectionWithUser{DatabaseCollection: dc}
	ctx = coll.AddCollectionContext(ctx)
	fn := cfg.SyncFn
	if fn == "" {
		fn = vfDefaultSyncFn
	}
	if _, err := dc.UpdateSyncFun(ctx, fn); err != nil {
		dbc.Close(ctx)
		tb.Close(ctx)
		return nil, fmt.Errorf("UpdateSyncFun: %w", err)
	}
	return &vfEnv{T: t, Bucket: tb, Ctx: ctx, DBC: dbc, DB: database, Coll: coll}, nil
}

func (e *vfEnv) Close() {
	if e == nil || e.closed {
		return
	}
	e.closed = true
	e.DBC.Close(e.Ctx)
	e.Bucket.Close(e.Ctx)
}

// vfWaitBound is the wall-clock bound of every harness wait. Expiry is INCONCLUSIVE, never a
// violation; it is generous so that it does not fire on a loaded machine.
const vfWaitBound = 45 * time.Second

// WaitCache blocks until the caching feed has processed every sequence allocated so far.
func (e *vfEnv) WaitCache() error {
	last, err := e.DBC.sequences.lastSequence(e.Ctx)
	if err != nil {
		return kit.InconclusiveErr{Msg: "lastSequence: " + err.Error()}
	}
	return e.WaitSeq(last)
}

func (e *vfEnv) WaitSeq(seq uint64) error {
	deadline := time.Now().Add(vfWaitBound)
	for {
		if e.DBC.changeCache.getNextSequence() >= seq+1 {
			return nil
		}
		if time.Now().After(deadline) {
			return kit.InconclusiveErr{Msg: fmt.Sprintf("change cache did not reach sequence %d within %v (next=%d)", seq, vfWaitBound, e.DBC.changeCache.getNextSequence())}
		}
		time.Sleep(time.Millisecond)
	}
}

// AsUser returns a collection handle that acts as the named user, loaded freshly (as a new request
// would). name == "" gives the admin handle.
func (e *vfEnv) AsUser(name string) (*DatabaseCollectionWithUser, auth.User, error) {
	if name == "" {
		return e.Coll, nil, nil
	}
	u, err := e.DBC.Authenticator(e.Ctx).GetUser(name)
	if err != nil {
		return nil, nil, err
	}
	if u == nil {
		return nil, nil, fmt.Errorf("user %q does not exist", name)
	}
	return &DatabaseCollectionWithUser{DatabaseCollection: e.Coll.DatabaseCollection, user: u}, u, nil
}

// vfIsInconclusive unwraps the harness sentinel.
func vfIsInconclusive(err error) bool {
	_, ok := err.(kit.InconclusiveErr)
	return ok
}

func vfSortedKeys[V any](m map[string]V) []string {
	out := make([]string, 0, len(m))
	for k := range m {
		out = append(out, k)
	}
	sort.Strings(out)
	return out
}

func vfJoin(ss []string) string { return "[" + strings.Join(ss, " ") + "]" }

// vfChanges runs a one-shot changes request synchronously and returns the rows (including the
// `_user/<name>` pseudo-row). channels nil/empty means "*".
func vfChanges(ctx context.Context, coll *DatabaseCollectionWithUser, chans []string, opts ChangesOptions) ([]*ChangeEntry, error) {
	set := base.SetOf(chans...)
	if len(chans) == 0 {
		set = base.SetOf("*")
	}
	cctx, cancel := context.WithCancel(ctx)
	defer cancel()
	opts.ChangesCtx = cctx
	feed, err := coll.MultiChangesFeed(ctx, set, opts)
	if err != nil {
		return nil, err
	}
	if feed == nil {
		return nil, fmt.Errorf("nil feed")
	}
	var rows []*ChangeEntry
	timeout := time.After(vfWaitBound)
	for {
		select {
		case e, ok := <-feed:
			if !ok {
				return rows, nil
			}
			if e == nil {
				continue
			}
			if e.Err != nil {
				return rows, e.Err
			}
			rows = append(rows, e)
		case <-timeout:
			return rows, kit.InconclusiveErr{Msg: "one-shot changes feed did not terminate"}
		}
	}
}
