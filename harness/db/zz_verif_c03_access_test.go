package db

// C03 — a user's effective access equals what admin grants and current documents confer.
// Injected into package db by the /verif driver (build overlay); never part of /repo.
//
// A rapid state machine edits principals and granting documents on a fresh database; after every
// action a native Go model of the body-driven sync-function family (DESIGN §3.1) says which
// channels and roles each existing user must have, and the real database is asked through a freshly
// loaded user (the "next request"): InheritedCollectionChannels, RoleNames, and a dependent read of
// one probe document per channel.

import (
	"fmt"
	"sort"
	"strconv"
	"strings"
	"testing"

	"github.com/couchbase/sync_gateway/auth"
	"github.com/couchbase/sync_gateway/base"
	kit "github.com/couchbase/sync_gateway/verifkit"
	"pgregory.net/rapid"
)

// The one sync function the database runs: everything it does is driven by the body.
//   chan : channel(s) of the document itself
//   acc  : [{u:[names], c:[channels]}]  -> access(u, c)   (a name "role:x" addresses role x)
//   rol  : [{u:[users], r:["role:x"]}]  -> role(u, r)
//   fail : after the grant calls the function refuses the write (forbidden) or dies
//          with a JavaScript exception: nothing is stored, so nothing may be granted
const vfC03SyncFn = `function(doc, oldDoc, meta) {
	channel(doc.chan);
	var a = doc.acc || [];
	for (var i = 0; i < a.length; i++) { access(a[i].u, a[i].c); }
	var r = doc.rol || [];
	for (var j = 0; j < r.length; j++) { role(r[j].u, r[j].r); }
	if (doc.fail == "forbidden") { throw({forbidden: "verif: refused after the grant calls"}); }
	if (doc.fail == "typeerror") { var nothing = null; nothing.boom(); }
	if (doc.fail == "throwstring") { throw("verif: plain exception after the grant calls"); }
}`

var (
	vfC03Users    = []string{"u1", "u2", "u3"}
	vfC03Roles    = []string{"r1", "r2", "r3"}
	vfC03Channels = []string{"A", "B", "C", "D"}
	vfC03Docs     = []string{"g1", "g2", "g3", "g4"}
)

const vfC03Public = "!"

type vfC03Set map[string]bool

func vfC03SetOf(ss ...string) vfC03Set {
	s := vfC03Set{}
	for _, x := range ss {
		s[x] = true
	}
	return s
}

func (s vfC03Set) sorted() []string {
	out := make([]string, 0, len(s))
	for k, v := range s {
		if v {
			out = append(out, k)
		}
	}
	sort.Strings(out)
	return out
}

func (s vfC03Set) String() string { return vfJoin(s.sorted()) }

func (s vfC03Set) addAll(o vfC03Set) {
	for k, v := range o {
		if v {
			s[k] = true
		}
	}
}

func vfC03Equal(a, b []string) bool {
	if len(a) != len(b) {
		return false
	}
	for i := range a {
		if a[i] != b[i] {
			return false
		}
	}
	return true
}

// ---------------------------------------------------------------------------------------------
// model (written from the property statement; no code from /repo)

type vfC03Grant struct {
	Who  []string // user names or "role:<name>"
	What []string // channels (acc) or role names without prefix (rol)
}

type vfC03Rev struct {
	id      string
	parent  string
	gen     int
	digest  string
	deleted bool
	acc     []vfC03Grant
	rol     []vfC03Grant
	kids    int
}

type vfC03Doc struct {
	revs map[string]*vfC03Rev
}

func vfC03ParseRev(id string) (int, string) {
	i := strings.IndexByte(id, '-')
	if i < 0 {
		return 0, id
	}
	g, _ := strconv.Atoi(id[:i])
	return g, id[i+1:]
}

func (d *vfC03Doc) add(id, parent string, deleted bool, acc, rol []vfC03Grant) {
	g, dig := vfC03ParseRev(id)
	d.revs[id] = &vfC03Rev{id: id, parent: parent, gen: g, digest: dig, deleted: deleted, acc: acc, rol: rol}
	if parent != "" {
		d.revs[parent].kids++
	}
}

func (d *vfC03Doc) ids() []string {
	out := make([]string, 0, len(d.revs))
	for id := range d.revs {
		out = append(out, id)
	}
	sort.Strings(out)
	return out
}

func (d *vfC03Doc) leaves() []*vfC03Rev {
	var out []*vfC03Rev
	for _, id := range d.ids() {
		if r := d.revs[id]; r.kids == 0 {
			out = append(out, r)
		}
	}
	return out
}

func (d *vfC03Doc) liveLeaves() []*vfC03Rev {
	var out []*vfC03Rev
	for _, r := range d.leaves() {
		if !r.deleted {
			out = append(out, r)
		}
	}
	return out
}

// winner: the leaf that is live before deleted, then of the highest generation, then of the
// greatest digest (the CouchDB rule the property's "current winning revision" refers to).
func (d *vfC03Doc) winner() *vfC03Rev {
	var w *vfC03Rev
	for _, r := range d.leaves() {
		if w == nil {
			w = r
			continue
		}
		better := false
		switch {
		case r.deleted != w.deleted:
			better = !r.deleted
		case r.gen != w.gen:
			better = r.gen > w.gen
		default:
			better = r.digest > w.digest
		}
		if better {
			w = r
		}
	}
	return w
}

func (d *vfC03Doc) history(id string) []string {
	var out []string
	for id != "" {
		out = append(out, id)
		id = d.revs[id].parent
	}
	return out
}

type vfC03User struct {
	chans    vfC03Set // admin channels in the collection under test
	roles    vfC03Set // admin roles
	disabled bool
}

type vfC03Role struct {
	chans vfC03Set
}

type vfC03Model struct {
	users map[string]*vfC03User // existing users only
	roles map[string]*vfC03Role // existing roles only
	docs  map[string]*vfC03Doc
}

func vfC03NewModel() *vfC03Model {
	return &vfC03Model{users: map[string]*vfC03User{}, roles: map[string]*vfC03Role{}, docs: map[string]*vfC03Doc{}}
}

// syncChans: channels granted to the access name (user name or "role:<name>") by the winning
// revisions of live documents.
func (m *vfC03Model) syncChans(accessName string) vfC03Set {
	out := vfC03Set{}
	for _, id := range vfSortedKeys(m.docs) {
		w := m.docs[id].winner()
		if w == nil || w.deleted {
			continue
		}
		for _, g := range w.acc {
			for _, who := range g.Who {
				if who == accessName {
					for _, c := range g.What {
						out[c] = true
					}
				}
			}
		}
	}
	return out
}

func (m *vfC03Model) syncRoles(user string) vfC03Set {
	out := vfC03Set{}
	for _, id := range vfSortedKeys(m.docs) {
		w := m.docs[id].winner()
		if w == nil || w.deleted {
			continue
		}
		for _, g := range w.rol {
			for _, who := range g.Who {
				if who == user {
					for _, r := range g.What {
						out[r] = true
					}
				}
			}
		}
	}
	return out
}

// rolesOf: roles the user holds by admin assignment or sync-function grant (existing or not).
func (m *vfC03Model) rolesOf(user string) vfC03Set {
	out := vfC03Set{}
	out.addAll(m.users[user].roles)
	out.addAll(m.syncRoles(user))
	return out
}

// effective: admin ∪ sync grants ∪ public, and the same three for every *existing* role held.
func (m *vfC03Model) effective(user string) vfC03Set {
	out := vfC03SetOf(vfC03Public)
	out.addAll(m.users[user].chans)
	out.addAll(m.syncChans(user))
	for _, r := range m.rolesOf(user).sorted() {
		ro, ok := m.roles[r]
		if !ok {
			continue
		}
		out.addAll(ro.chans)
		out.addAll(m.syncChans("role:" + r))
	}
	return out
}

// hasLiveGrantFor: some live winning revision names the principal (used by the non-trivial rule).
func (m *vfC03Model) hasLiveGrantFor(accessName string) bool {
	if len(m.syncChans(accessName)) > 0 {
		return true
	}
	if !strings.HasPrefix(accessName, "role:") && len(m.syncRoles(accessName)) > 0 {
		return true
	}
	return false
}

// ---------------------------------------------------------------------------------------------
// generators

func vfC03Subset(rt *rapid.T, label string, from []string, maxLen int) []string {
	n := rapid.IntRange(0, maxLen).Draw(rt, label+"_n")
	seen := map[string]bool{}
	var out []string
	for i := 0; i < n; i++ {
		x := rapid.SampledFrom(from).Draw(rt, label)
		if !seen[x] {
			seen[x] = true
			out = append(out, x)
		}
	}
	sort.Strings(out)
	return out
}

func vfC03GenGrants(rt *rapid.T) (acc, rol []vfC03Grant) {
	names := append(append([]string{}, vfC03Users...), "role:r1", "role:r2", "role:r3")
	na := rapid.IntRange(0, 2).Draw(rt, "nacc")
	for i := 0; i < na; i++ {
		who := vfC03Subset(rt, "acc_who", names, 2)
		what := vfC03Subset(rt, "acc_chan", vfC03Channels, 2)
		acc = append(acc, vfC03Grant{Who: who, What: what})
	}
	nr := rapid.IntRange(0, 1).Draw(rt, "nrol")
	for i := 0; i < nr; i++ {
		who := vfC03Subset(rt, "rol_who", vfC03Users, 2)
		what := vfC03Subset(rt, "rol_role", vfC03Roles, 2)
		rol = append(rol, vfC03Grant{Who: who, What: what})
	}
	return acc, rol
}

func vfC03StrArr(ss []string) []any {
	out := make([]any, 0, len(ss))
	for _, s := range ss {
		out = append(out, s)
	}
	return out
}

func vfC03Body(n int, acc, rol []vfC03Grant) Body {
	b := Body{"n": n, "chan": "G"}
	if len(acc) > 0 {
		var arr []any
		for _, g := range acc {
			arr = append(arr, map[string]any{"u": vfC03StrArr(g.Who), "c": vfC03StrArr(g.What)})
		}
		b["acc"] = arr
	}
	if len(rol) > 0 {
		var arr []any
		for _, g := range rol {
			var rs []string
			for _, r := range g.What {
				rs = append(rs, "role:"+r)
			}
			arr = append(arr, map[string]any{"u": vfC03StrArr(g.Who), "r": vfC03StrArr(rs)})
		}
		b["rol"] = arr
	}
	return b
}

func vfC03RenderGrants(acc, rol []vfC03Grant) string {
	var sb strings.Builder
	for _, g := range acc {
		fmt.Fprintf(&sb, " access(%s,%s)", vfJoin(g.Who), vfJoin(g.What))
	}
	for _, g := range rol {
		fmt.Fprintf(&sb, " role(%s,%s)", vfJoin(g.Who), vfJoin(g.What))
	}
	if sb.Len() == 0 {
		return " no-grants"
	}
	return sb.String()
}

// ---------------------------------------------------------------------------------------------
// the state machine

type vfC03Case struct {
	t     *testing.T
	rt    *rapid.T
	env   *vfEnv
	m     *vfC03Model
	ops   []string
	scope string
	coll  string
	deflt bool
	n     int

	// non-trivial bookkeeping
	prevChans      map[string]vfC03Set // effective channels observed at the previous check, per existing user
	prevRoles      map[string]vfC03Set
	revokeSeen     bool
	lateSeen       bool
	classes        map[string]bool
	pendingRevoker string // kind of the action just executed (for classifying revokes)
	refusedPending bool   // a refused/crashed write happened and no successful document write since
}

func (c *vfC03Case) render() string { return strings.Join(c.ops, "; ") }

func (c *vfC03Case) harnessErr(format string, args ...any) {
	// Not a verdict on the property: the harness's own expectation about a request failed.
	c.rt.Fatalf("HARNESS C03: %s\ncase: %s", fmt.Sprintf(format, args...), c.render())
}

func (c *vfC03Case) guard(f func()) {
	kit.Guard(c.rt, "C03", "Access", c.render, f)
}

func (c *vfC03Case) principalConfig(name string, chans []string, setChans bool) *auth.PrincipalConfig {
	cfg := &auth.PrincipalConfig{Name: base.Ptr(name)}
	if setChans {
		set := base.SetFromArray(chans)
		if c.deflt {
			cfg.ExplicitChannels = set
		} else {
			cfg.CollectionAccess = map[string]map[string]*auth.CollectionAccessConfig{
				c.scope: {c.coll: {ExplicitChannels_: set}},
			}
		}
	}
	return cfg
}

func (c *vfC03Case) actUserPut(rt *rapid.T) {
	name := rapid.SampledFrom(vfC03Users).Draw(rt, "user")
	u, exists := c.m.users[name]
	setChans := !exists || rapid.Bool().Draw(rt, "setChans")
	setRoles := !exists || rapid.Bool().Draw(rt, "setRoles")
	var chans, roles []string
	if setChans {
		chans = vfC03Subset(rt, "chans", vfC03Channels, 2)
	}
	if setRoles {
		roles = vfC03Subset(rt, "roles", vfC03Roles, 2)
	}
	cfg := c.principalConfig(name, chans, setChans)
	if setRoles {
		cfg.ExplicitRoleNames = base.SetFromArray(roles)
	}
	op := fmt.Sprintf("userPut(%s", name)
	if !exists {
		cfg.Password = base.Ptr("letmein-" + name)
		op = fmt.Sprintf("userCreate(%s", name)
	}
	if setChans {
		op += " chans=" + vfJoin(chans)
	}
	if setRoles {
		op += " roles=" + vfJoin(roles)
	}
	if rapid.IntRange(0, 3).Draw(rt, "setDisabled") == 0 {
		d := rapid.Bool().Draw(rt, "disabled")
		cfg.Disabled = base.Ptr(d)
		op += fmt.Sprintf(" disabled=%v", d)
	}
	// noise: in named-collection mode the default collection's admin channels are a different
	// keyspace and must not leak into the collection under test
	if !c.deflt && rapid.IntRange(0, 4).Draw(rt, "dfltNoise") == 0 {
		noise := vfC03Subset(rt, "dfltChans", vfC03Channels, 2)
		cfg.ExplicitChannels = base.SetFromArray(noise)
		op += " default_collection_chans=" + vfJoin(noise)
		c.classes["default-collection-noise"] = true
	}
	op += ")"
	c.ops = append(c.ops, op)
	if !exists && c.m.hasLiveGrantFor(name) {
		c.lateSeen = true
		c.classes["user-created-after-grant"] = true
	}
	var err error
	c.guard(func() { _, _, err = c.env.DBC.UpdatePrincipal(c.env.Ctx, cfg, true, true) })
	if err != nil {
		c.harnessErr("UpdatePrincipal(user %s) failed: %v", name, err)
	}
	if !exists {
		u = &vfC03User{chans: vfC03Set{}, roles: vfC03Set{}}
		c.m.users[name] = u
		c.classes["act:userCreate"] = true
	} else {
		c.classes["act:userUpdate"] = true
	}
	if setChans {
		u.chans = vfC03SetOf(chans...)
	}
	if setRoles {
		u.roles = vfC03SetOf(roles...)
	}
	if cfg.Disabled != nil {
		u.disabled = *cfg.Disabled
	}
	c.pendingRevoker = "admin-user-edit"
}

func (c *vfC03Case) actUserDelete(rt *rapid.T) {
	existing := vfSortedKeys(c.m.users)
	if len(existing) == 0 {
		c.actUserPut(rt)
		return
	}
	name := rapid.SampledFrom(existing).Draw(rt, "user")
	c.ops = append(c.ops, fmt.Sprintf("userDelete(%s)", name))
	var err error
	c.guard(func() {
		a := c.env.DBC.Authenticator(c.env.Ctx)
		var u auth.User
		u, err = a.GetUser(name)
		if err == nil && u == nil {
			err = fmt.Errorf("user missing")
		}
		if err == nil {
			err = a.DeleteUser(u)
		}
	})
	if err != nil {
		c.harnessErr("DeleteUser(%s) failed: %v", name, err)
	}
	delete(c.m.users, name)
	delete(c.prevChans, name)
	delete(c.prevRoles, name)
	c.classes["act:userDelete"] = true
	c.pendingRevoker = "user-delete"
}

func (c *vfC03Case) actRolePut(rt *rapid.T) {
	name := rapid.SampledFrom(vfC03Roles).Draw(rt, "role")
	r, exists := c.m.roles[name]
	setChans := !exists || rapid.IntRange(0, 3).Draw(rt, "setChans") > 0
	var chans []string
	if setChans {
		chans = vfC03Subset(rt, "chans", vfC03Channels, 2)
	}
	cfg := c.principalConfig(name, chans, setChans)
	verb := "rolePut"
	if !exists {
		verb = "roleCreate"
	}
	op := fmt.Sprintf("%s(%s", verb, name)
	if setChans {
		op += " chans=" + vfJoin(chans)
	}
	c.ops = append(c.ops, op+")")
	if !exists && c.m.hasLiveGrantFor("role:"+name) {
		c.lateSeen = true
		c.classes["role-created-after-grant"] = true
	}
	var err error
	c.guard(func() { _, _, err = c.env.DBC.UpdatePrincipal(c.env.Ctx, cfg, false, true) })
	if err != nil {
		c.harnessErr("UpdatePrincipal(role %s) failed: %v", name, err)
	}
	if !exists {
		r = &vfC03Role{chans: vfC03Set{}}
		c.m.roles[name] = r
		c.classes["act:roleCreate"] = true
	} else {
		c.classes["act:roleUpdate"] = true
	}
	if setChans {
		r.chans = vfC03SetOf(chans...)
	}
	c.pendingRevoker = "admin-role-edit"
}

func (c *vfC03Case) actRoleDelete(rt *rapid.T) {
	existing := vfSortedKeys(c.m.roles)
	if len(existing) == 0 {
		c.actRolePut(rt)
		return
	}
	name := rapid.SampledFrom(existing).Draw(rt, "role")
	purge := rapid.Bool().Draw(rt, "purge")
	c.ops = append(c.ops, fmt.Sprintf("roleDelete(%s purge=%v)", name, purge))
	var err error
	c.guard(func() { err = c.env.DBC.DeleteRole(c.env.Ctx, name, purge) })
	if err != nil {
		c.harnessErr("DeleteRole(%s, purge=%v) failed: %v", name, purge, err)
	}
	delete(c.m.roles, name)
	c.classes[fmt.Sprintf("act:roleDelete-purge=%v", purge)] = true
	c.pendingRevoker = "role-delete"
}

func (c *vfC03Case) doc(id string) *vfC03Doc {
	d, ok := c.m.docs[id]
	if !ok {
		d = &vfC03Doc{revs: map[string]*vfC03Rev{}}
		c.m.docs[id] = d
	}
	return d
}

func (c *vfC03Case) actDocWrite(rt *rapid.T) {
	id := rapid.SampledFrom(vfC03Docs).Draw(rt, "doc")
	d := c.doc(id)
	acc, rol := vfC03GenGrants(rt)
	c.n++
	body := vfC03Body(c.n, acc, rol)
	parent := ""
	kind := "create"
	if w := d.winner(); w != nil {
		if w.deleted {
			// all leaves are tombstones: a PUT without a revision resurrects the document
			kind = "resurrect"
			parent = w.id
		} else {
			live := d.liveLeaves()
			target := w
			if len(live) > 1 && rapid.IntRange(0, 2).Draw(rt, "nonWinnerLeaf") == 0 {
				target = rapid.SampledFrom(live).Draw(rt, "leaf")
			}
			kind = "update"
			if target != w {
				kind = "update-nonwinner"
			}
			parent = target.id
			body[BodyRev] = parent
		}
	}
	c.ops = append(c.ops, fmt.Sprintf("docWrite(%s %s parent=%q n=%d%s)", id, kind, parent, c.n, vfC03RenderGrants(acc, rol)))
	var rev string
	var err error
	c.guard(func() { rev, _, err = c.env.Coll.Put(c.env.Ctx, id, body) })
	if err != nil {
		c.harnessErr("Put(%s) failed: %v", id, err)
	}
	if _, dup := d.revs[rev]; dup {
		c.harnessErr("Put(%s) returned an existing revision id %s", id, rev)
	}
	d.add(rev, parent, false, acc, rol)
	c.ops[len(c.ops)-1] += "=>" + rev
	c.classes["act:doc-"+kind] = true
	c.pendingRevoker = "doc-" + kind
}

// actDocWriteRefused: a write whose sync function calls access()/role() and is then refused or
// dies with an exception. No revision is stored, so the model does not change; whatever the
// function collected before failing must not reach any principal, now or with a later write.
func (c *vfC03Case) actDocWriteRefused(rt *rapid.T) {
	id := rapid.SampledFrom(vfC03Docs).Draw(rt, "doc")
	d := c.doc(id)
	acc, rol := vfC03GenGrants(rt)
	if len(acc) == 0 && len(rol) == 0 {
		acc = []vfC03Grant{{Who: []string{rapid.SampledFrom(append(append([]string{}, vfC03Users...), "role:"+vfC03Roles[0])).Draw(rt, "who")}, What: []string{rapid.SampledFrom(vfC03Channels).Draw(rt, "what")}}}
	}
	fail := rapid.SampledFrom([]string{"forbidden", "typeerror", "typeerror", "throwstring"}).Draw(rt, "fail")
	c.n++
	body := vfC03Body(c.n, acc, rol)
	body["fail"] = fail
	parent := ""
	if w := d.winner(); w != nil && !w.deleted {
		parent = w.id
		body[BodyRev] = parent
	}
	c.ops = append(c.ops, fmt.Sprintf("docWriteRefused(%s %s parent=%q n=%d%s)", id, fail, parent, c.n, vfC03RenderGrants(acc, rol)))
	var rev string
	var err error
	c.guard(func() { rev, _, err = c.env.Coll.Put(c.env.Ctx, id, body) })
	if err == nil {
		c.harnessErr("Put(%s) with a sync function that fails (%s) was accepted as %s", id, fail, rev)
	}
	c.classes["act:doc-refused-"+fail] = true
	c.refusedPending = true
}

func (c *vfC03Case) actDocDelete(rt *rapid.T) {
	var cands []string
	for _, id := range vfC03Docs {
		if d, ok := c.m.docs[id]; ok && len(d.liveLeaves()) > 0 {
			cands = append(cands, id)
		}
	}
	if len(cands) == 0 {
		c.actDocWrite(rt)
		return
	}
	id := rapid.SampledFrom(cands).Draw(rt, "doc")
	d := c.m.docs[id]
	live := d.liveLeaves()
	target := d.winner()
	if len(live) > 1 && rapid.IntRange(0, 2).Draw(rt, "nonWinnerLeaf") == 0 {
		target = rapid.SampledFrom(live).Draw(rt, "leaf")
	}
	kind := "delete"
	if len(live) > 1 {
		kind = "delete-branch"
	}
	c.ops = append(c.ops, fmt.Sprintf("docDelete(%s rev=%s %s)", id, target.id, kind))
	var rev string
	var err error
	c.guard(func() { rev, _, err = c.env.Coll.DeleteDoc(c.env.Ctx, id, DocVersion{RevTreeID: target.id}) })
	if err != nil {
		c.harnessErr("DeleteDoc(%s, %s) failed: %v", id, target.id, err)
	}
	d.add(rev, target.id, true, nil, nil)
	c.ops[len(c.ops)-1] += "=>" + rev
	c.classes["act:doc-"+kind] = true
	c.pendingRevoker = "doc-" + kind
}

// actDocConflict pushes a revision with a chosen id as a sibling of existing revisions (what a
// replicating peer does), so that the winner may or may not change.
func (c *vfC03Case) actDocConflict(rt *rapid.T) {
	var cands []string
	for _, id := range vfC03Docs {
		if d, ok := c.m.docs[id]; ok {
			for _, r := range d.revs {
				if r.kids > 0 {
					cands = append(cands, id)
					break
				}
			}
		}
	}
	if len(cands) == 0 {
		c.actDocWrite(rt)
		return
	}
	id := rapid.SampledFrom(cands).Draw(rt, "doc")
	d := c.m.docs[id]
	var inner []string
	for _, rid := range d.ids() {
		if d.revs[rid].kids > 0 {
			inner = append(inner, rid)
		}
	}
	parent := d.revs[rapid.SampledFrom(inner).Draw(rt, "parent")]
	acc, rol := vfC03GenGrants(rt)
	c.n++
	// md5 digests are lower-case hex: "0000…" sorts below and "zzzz…" above every generated one
	prefix := rapid.SampledFrom([]string{"0000conf", "zzzzconf"}).Draw(rt, "digestClass")
	rev := fmt.Sprintf("%d-%s%d", parent.gen+1, prefix, c.n)
	body := vfC03Body(c.n, acc, rol)
	body[BodyRev] = rev
	before := d.winner().id
	c.ops = append(c.ops, fmt.Sprintf("docConflict(%s rev=%s parent=%s n=%d%s)", id, rev, parent.id, c.n, vfC03RenderGrants(acc, rol)))
	hist := append([]string{rev}, d.history(parent.id)...)
	var err error
	var got string
	c.guard(func() {
		_, got, err = c.env.Coll.PutExistingRevWithBody(c.env.Ctx, id, body, hist, false, ExistingVersionWithUpdateToHLV)
	})
	if err != nil {
		c.harnessErr("PutExistingRevWithBody(%s, %v) failed: %v", id, hist, err)
	}
	if got != rev {
		c.harnessErr("PutExistingRevWithBody(%s) stored %q, wanted %q", id, got, rev)
	}
	d.add(rev, parent.id, false, acc, rol)
	kind := "conflict-loses"
	if d.winner().id != before {
		kind = "conflict-wins"
	}
	c.ops[len(c.ops)-1] += "=>" + kind
	c.classes["act:doc-"+kind] = true
	c.pendingRevoker = "doc-" + kind
}

// check is the oracle, run after every action.
func (c *vfC03Case) check(rt *rapid.T) { c.checkUsers(rt, false) }

// checkUsers loads users and compares them with the model. Unless all is set, each user is left
// unloaded with probability 1/4, so that channel and/or role invalidations stay pending across the
// following grant changes (a user that makes no request for a while).
func (c *vfC03Case) checkUsers(rt *rapid.T, all bool) {
	for _, name := range vfSortedKeys(c.m.users) {
		if !all && rapid.IntRange(0, 3).Draw(rt, "skipLoad_"+name) == 0 {
			c.classes["user-left-unloaded-for-a-step"] = true
			c.ops = append(c.ops, "noLoad("+name+")")
			continue
		}
		wantChans := c.m.effective(name)
		wantRoles := c.m.rolesOf(name)
		var gotChans, gotRoles []string
		var user auth.User
		var err error
		c.guard(func() {
			user, err = c.env.DBC.Authenticator(c.env.Ctx).GetUser(name)
			if err != nil || user == nil {
				return
			}
			set, e := user.InheritedCollectionChannels(c.scope, c.coll)
			if e != nil {
				err = e
				return
			}
			gotChans = set.AllKeys()
			gotRoles = user.RoleNames().AllKeys()
		})
		if err != nil {
			kit.Violation(rt, "C03", "Access", c.render(), "loading user %s failed: %v", name, err)
		}
		if user == nil {
			kit.Violation(rt, "C03", "Access", c.render(), "user %s does not exist although it was created and not deleted", name)
		}
		sort.Strings(gotChans)
		sort.Strings(gotRoles)
		if !vfC03Equal(gotChans, wantChans.sorted()) {
			kit.Violation(rt, "C03", "Access", c.render(), "user %s (%s.%s): effective channels %s, model %s (admin %s, sync %s, roles held %s, existing roles %s)",
				name, c.scope, c.coll, vfJoin(gotChans), wantChans, c.m.users[name].chans, c.m.syncChans(name), wantRoles, vfJoin(vfSortedKeys(c.m.roles)))
		}
		if !vfC03Equal(gotRoles, wantRoles.sorted()) {
			kit.Violation(rt, "C03", "Access", c.render(), "user %s: roles %s, model %s (admin %s, sync %s)",
				name, vfJoin(gotRoles), wantRoles, c.m.users[name].roles, c.m.syncRoles(name))
		}
		// dependent reads, as that user, of one probe document per channel
		h := &DatabaseCollectionWithUser{DatabaseCollection: c.env.Coll.DatabaseCollection, user: user}
		for _, ch := range append([]string{vfC03Public}, vfC03Channels...) {
			var rerr error
			var body Body
			c.guard(func() { body, rerr = h.Get1xBody(c.env.Ctx, "probe_"+ch) })
			allowed := wantChans[ch]
			switch {
			case allowed && rerr != nil:
				kit.Violation(rt, "C03", "Access", c.render(), "user %s must be able to read the probe document of channel %s (model channels %s) but got: %v", name, ch, wantChans, rerr)
			case allowed && body["chan"] != ch:
				kit.Violation(rt, "C03", "Access", c.render(), "user %s read probe of channel %s and got body %v", name, ch, body)
			case !allowed && rerr == nil:
				kit.Violation(rt, "C03", "Access", c.render(), "user %s read the probe document of channel %s without access (model channels %s)", name, ch, wantChans)
			}
		}
		// non-trivial rule: access (channel or role) observed effective at the previous check is gone
		if prev, ok := c.prevChans[name]; ok {
			for _, ch := range prev.sorted() {
				if !wantChans[ch] {
					c.revokeSeen = true
					c.classes["revoke-channel-by:"+c.pendingRevoker] = true
				}
			}
			for _, r := range c.prevRoles[name].sorted() {
				if !wantRoles[r] {
					c.revokeSeen = true
					c.classes["revoke-role-by:"+c.pendingRevoker] = true
				}
			}
		}
		c.prevChans[name] = wantChans
		c.prevRoles[name] = wantRoles
	}
}

func vfC03Run(t *testing.T, rec *kit.Rec, rt *rapid.T) {
	deflt := rapid.Bool().Draw(rt, "defaultCollection")
	env, err := vfOpen(t, vfDBConfig{
		DefaultCollection: deflt,
		SyncFn:            vfC03SyncFn,
		Mutate:            func(o *DatabaseContextOptions) { o.AllowConflicts = base.Ptr(true) },
	})
	if err != nil {
		rec.Inconclusive()
		kit.InconclusiveLine("C03", "cannot open database: %v", err)
		rt.Skip("no database")
	}
	defer env.Close()
	c := &vfC03Case{t: t, rt: rt, env: env, m: vfC03NewModel(), deflt: deflt,
		scope: env.Coll.ScopeName, coll: env.Coll.Name,
		prevChans: map[string]vfC03Set{}, prevRoles: map[string]vfC03Set{}, classes: map[string]bool{}}
	c.ops = append(c.ops, fmt.Sprintf("open(defaultCollection=%v)", deflt))
	if deflt != base.IsDefaultCollection(c.scope, c.coll) {
		c.harnessErr("asked for defaultCollection=%v, got keyspace %s.%s", deflt, c.scope, c.coll)
	}
	for _, ch := range append([]string{vfC03Public}, vfC03Channels...) {
		if _, _, err := env.Coll.Put(env.Ctx, "probe_"+ch, Body{"chan": ch}); err != nil {
			c.harnessErr("cannot write probe document for %s: %v", ch, err)
		}
	}
	rt.Repeat(map[string]func(*rapid.T){
		"userPut":     c.actUserPut,
		"userPut2":    c.actUserPut,
		"userDelete":  c.actUserDelete,
		"rolePut":     c.actRolePut,
		"rolePut2":    c.actRolePut,
		"roleDelete":  c.actRoleDelete,
		"docWrite":    c.actDocWrite,
		"docWrite2":   c.actDocWrite,
		"docWrite3":   c.actDocWrite,
		"docDelete":   c.actDocDelete,
		"docRefused":  c.actDocWriteRefused,
		"docConflict": c.actDocConflict,
		"":            c.check,
	})
	c.checkUsers(rt, true)
	classes := []string{fmt.Sprintf("defaultCollection=%v", deflt)}
	for _, k := range vfSortedKeys(c.classes) {
		classes = append(classes, k)
	}
	if c.revokeSeen {
		classes = append(classes, "nontrivial:revoke-of-observed-access")
	}
	if c.lateSeen {
		classes = append(classes, "nontrivial:principal-created-after-grant")
	}
	rec.Case(c.render(), c.revokeSeen || c.lateSeen, classes...)
}

// TestVerif_C03_Access: the state machine.
func TestVerif_C03_Access(t *testing.T) {
	rec := kit.New("C03", "Access")
	defer rec.Flush()
	rapid.Check(t, func(rt *rapid.T) { vfC03Run(t, rec, rt) })
}
