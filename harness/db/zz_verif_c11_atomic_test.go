package db

// C11 — writes are all-or-nothing; success is only reported when durable (fault enumeration).
// Injected into package db by the /verif driver (build overlay); never part of /repo.
//
// For a generated (operation kind, configuration, pre-state, operation arguments) the operation is
// executed in a freshly built world once without faults (the reference run, whose storage-operation
// trace also tells what the request does) and then once per fault position k = 1, 2, ... until a run
// finishes without reaching position k, per failure kind applicable to the operation found at k
// (thorough tier: also every pair k1 < k2). Every run is judged on its own world:
//
//	result error, no timeout injected  => bucket listing after == listing before (documents, all
//	                                      xattrs, principals, sessions, attachments byte for byte;
//	                                      allowed residue listed below) and every sequence number
//	                                      reserved meanwhile is published in an unused-sequence document
//	result success                     => read-back through an un-faulted handle shows the new state
//	                                      completely (revision, body, channels, attachment bytes,
//	                                      grants effective, principal fields, session usable)
//	a timeout was injected, result error => listing equals "before" or the read-back shows the
//	                                      complete new state

import (
	"bytes"
	"context"
	"encoding/binary"
	"fmt"
	"sort"
	"strconv"
	"strings"
	"testing"
	"time"

	"github.com/couchbase/sync_gateway/auth"
	"github.com/couchbase/sync_gateway/base"
	kit "github.com/couchbase/sync_gateway/verifkit"
	vs "github.com/couchbase/sync_gateway/verifstore"
	"pgregory.net/rapid"
)

// The sync function is one fixed member of the body-driven family of DESIGN §3.1.
const vfC11SyncFn = `function(doc, oldDoc, meta) {
	if (doc.reject == "forbidden") { throw({forbidden: "rejected by sync function"}); }
	if (doc.reject == "unauthorized") { throw({unauthorized: "login required"}); }
	if (doc.reject == "exception") { var o = null; o.x = 1; }
	if (doc.reject == "admin") { requireAdmin(); }
	if (doc.reqUser) { requireUser(doc.reqUser); }
	if (doc.reqRole) { requireRole(doc.reqRole); }
	if (doc.reqAccess) { requireAccess(doc.reqAccess); }
	channel(doc.channels);
	if (doc.gUsers) { access(doc.gUsers, doc.gChans); }
	if (doc.rUsers) { role(doc.rUsers, doc.rRoles); }
}`

// ---------------------------------------------------------------------------------------------
// scenario = everything that is drawn

type vfC11DocState struct {
	V       int
	Chans   []string
	Grant   string            // "", "user", "role", "ghost", "roleOf"
	Atts    map[string]string // attachment name -> content
	Deleted bool
	Big     bool // body larger than the inline limit for non-winning revision bodies
}

func (s vfC11DocState) String() string {
	var atts []string
	for _, n := range vfSortedKeys(s.Atts) {
		atts = append(atts, n+"="+strconv.Itoa(len(s.Atts[n])))
	}
	if s.Deleted {
		return "del"
	}
	big := ""
	if s.Big {
		big = " big"
	}
	return fmt.Sprintf("{v%d %v g=%s att=%v%s}", s.V, s.Chans, s.Grant, atts, big)
}

type vfC11Scenario struct {
	Kind           string
	DefaultColl    bool
	AllowConflicts bool
	CCVOff         bool
	AsUser         string // "" = admin
	AliceEmail     bool
	Pre            []vfC11DocState // history of d1 before the operation
	New            vfC11DocState   // what the operation writes
	Branch         bool            // pre-state has a second, conflicting leaf (sibling of the last revision)
	BranchState    vfC11DocState   // what that leaf holds
	PushParent     int             // for push: index into the revision list of d1 (clamped)
	External       string          // for import: "set" or "delete"
	ImportVia      string          // "get" or "put"
	PUpd           vfC11PrincUpd
	Purge          bool
	OneTime        bool
}

type vfC11PrincUpd struct {
	Chans    []string
	Roles    []string
	Password string
	Disabled int // -1 leave, 0 false, 1 true
	Email    string
}

// String renders only the dimensions that matter for the operation kind, so that two cases that differ
// only in draws the kind never looks at count as the same case in the evidence.
func (s vfC11Scenario) String() string {
	var pre []string
	for _, p := range s.Pre {
		pre = append(pre, p.String())
	}
	out := fmt.Sprintf("kind=%s defaultColl=%v", s.Kind, s.DefaultColl)
	isDoc := false
	for _, k := range vfC11DocKinds {
		if s.Kind == k {
			isDoc = true
		}
	}
	if isDoc || strings.HasPrefix(s.Kind, "reject:") {
		out += fmt.Sprintf(" allowConflicts=%v ccvOff=%v as=%q pre=[%s] new=%s", s.AllowConflicts, s.CCVOff, s.AsUser, strings.Join(pre, " "), s.New)
		if s.Branch {
			out += " branch=" + s.BranchState.String()
		}
		if s.Kind == "push" {
			out += fmt.Sprintf(" pushParent=%d", s.PushParent)
		}
		if s.Kind == "import" {
			out += fmt.Sprintf(" ext=%s via=%s", s.External, s.ImportVia)
		}
	}
	if !isDoc {
		out += fmt.Sprintf(" aliceEmail=%v", s.AliceEmail)
		switch s.Kind {
		case "user-create", "user-update", "role-create", "role-update", "user-register":
			out += fmt.Sprintf(" pupd=%+v", s.PUpd)
		case "role-delete":
			out += fmt.Sprintf(" purge=%v", s.Purge)
		case "session-create", "session-delete":
			out += fmt.Sprintf(" oneTime=%v", s.OneTime)
		}
		if strings.HasPrefix(s.Kind, "reject:") {
			out += fmt.Sprintf(" pupd=%+v purge=%v oneTime=%v", s.PUpd, s.Purge, s.OneTime)
		}
	}
	return out
}

var vfC11DocKinds = []string{"create", "update", "delete", "attach-new", "attach-drop", "push", "import", "branch-update", "branch-delete"}
var vfC11PrincKinds = []string{"user-create", "user-update", "user-delete", "role-create", "role-update", "role-delete", "session-create", "session-delete", "user-email", "user-register"}

var vfC11AttPool = []string{"hello attachment", "\x00\x01binary\xff\xfe", "a somewhat longer attachment body 0123456789", "x"}

func vfC11GenDocState(rt *rapid.T, label string, allowDelete bool) vfC11DocState {
	s := vfC11DocState{
		V:     rapid.IntRange(0, 99).Draw(rt, label+".v"),
		Chans: rapid.SampledFrom([][]string{{"A"}, {"B"}, {"A", "B"}, {}}).Draw(rt, label+".chans"),
		Grant: rapid.SampledFrom([]string{"", "", "user", "role", "ghost", "roleOf"}).Draw(rt, label+".grant"),
		Big:   rapid.IntRange(0, 2).Draw(rt, label+".big") == 0,
	}
	switch rapid.IntRange(0, 4).Draw(rt, label+".atts") {
	case 0:
		s.Atts = map[string]string{"a": rapid.SampledFrom(vfC11AttPool).Draw(rt, label+".att.a")}
	case 1:
		s.Atts = map[string]string{"a": rapid.SampledFrom(vfC11AttPool).Draw(rt, label+".att.a"), "b": rapid.SampledFrom(vfC11AttPool).Draw(rt, label+".att.b")}
	}
	if allowDelete && rapid.IntRange(0, 5).Draw(rt, label+".del") == 0 {
		s.Deleted = true
	}
	return s
}

func vfC11GenScenario(rt *rapid.T, kinds []string) vfC11Scenario {
	sc := vfC11Scenario{
		Kind:           rapid.SampledFrom(kinds).Draw(rt, "kind"),
		DefaultColl:    rapid.Bool().Draw(rt, "defaultColl"),
		AllowConflicts: rapid.Bool().Draw(rt, "allowConflicts"),
		CCVOff:         rapid.Bool().Draw(rt, "ccvOff"),
		AsUser:         rapid.SampledFrom([]string{"", "", "alice"}).Draw(rt, "asUser"),
		AliceEmail:     rapid.IntRange(0, 3).Draw(rt, "aliceEmail") == 0,
	}
	nPre := rapid.IntRange(0, 3).Draw(rt, "nPre")
	for i := 0; i < nPre; i++ {
		sc.Pre = append(sc.Pre, vfC11GenDocState(rt, fmt.Sprintf("pre%d", i), true))
	}
	sc.New = vfC11GenDocState(rt, "new", false)
	sc.PushParent = rapid.IntRange(0, 3).Draw(rt, "pushParent")
	sc.External = rapid.SampledFrom([]string{"set", "set", "delete"}).Draw(rt, "external")
	sc.ImportVia = rapid.SampledFrom([]string{"get", "put"}).Draw(rt, "importVia")
	sc.PUpd = vfC11PrincUpd{
		Chans:    rapid.SampledFrom([][]string{{"A"}, {"B"}, {"A", "C"}, {}}).Draw(rt, "pupd.chans"),
		Roles:    rapid.SampledFrom([][]string{nil, {"r1"}, {"r1", "r2"}, {}}).Draw(rt, "pupd.roles"),
		Password: rapid.SampledFrom([]string{"", "new-password"}).Draw(rt, "pupd.pw"),
		Disabled: rapid.IntRange(-1, 1).Draw(rt, "pupd.disabled"),
		Email:    rapid.SampledFrom([]string{"", "", "x@example.com"}).Draw(rt, "pupd.email"),
	}
	sc.Purge = rapid.Bool().Draw(rt, "purge")
	sc.OneTime = rapid.Bool().Draw(rt, "oneTime")

	// normalise to what the operation kind needs (keeps every drawn case valid)
	last := func() *vfC11DocState {
		if len(sc.Pre) == 0 {
			return nil
		}
		return &sc.Pre[len(sc.Pre)-1]
	}
	switch sc.Kind {
	case "update", "delete", "attach-new", "attach-drop", "push", "import", "branch-update", "branch-delete":
		if len(sc.Pre) == 0 {
			sc.Pre = []vfC11DocState{vfC11GenDocState(rt, "pre0", false)}
		}
	}
	// a conflicting, non-winning leaf next to the current revision; bodies above the inline limit live
	// in their own _sync:rb: documents, which the operation under test may retire (child on / tombstone
	// of that leaf, tombstone of the winner that promotes it)
	sc.BranchState = vfC11DocState{V: 700 + rapid.IntRange(0, 9).Draw(rt, "branch.v"), Chans: rapid.SampledFrom([][]string{{"A"}, {"B"}, {}}).Draw(rt, "branch.chans"),
		Big: rapid.IntRange(0, 3).Draw(rt, "branch.big") != 0}
	wantBranch := rapid.IntRange(0, 2).Draw(rt, "branch") == 0
	switch sc.Kind {
	case "branch-update", "branch-delete":
		sc.Branch = true
	case "update", "delete", "push":
		sc.Branch = wantBranch
	}
	if sc.Branch {
		sc.AllowConflicts = true
		for len(sc.Pre) < 2 {
			sc.Pre = append(sc.Pre, vfC11GenDocState(rt, fmt.Sprintf("preX%d", len(sc.Pre)), false))
		}
		for i := range sc.Pre {
			sc.Pre[i].Atts = nil // attachments on conflicting branches are C14's subject
		}
		sc.Pre[len(sc.Pre)-1].Deleted = false
		sc.Pre[len(sc.Pre)-2].Deleted = false
		sc.Pre[len(sc.Pre)-1].Big = sc.Pre[len(sc.Pre)-1].Big || sc.BranchState.Big
		sc.New.Atts = nil
	}
	switch sc.Kind {
	case "delete", "branch-delete":
		last().Deleted = false
		sc.New = vfC11DocState{Deleted: true}
	case "attach-new":
		if len(sc.New.Atts) == 0 {
			sc.New.Atts = map[string]string{"a": vfC11AttPool[sc.New.V%len(vfC11AttPool)]}
		}
		// make sure at least one attachment is new data
		sc.New.Atts["n"] = fmt.Sprintf("new attachment %d", sc.New.V)
	case "attach-drop":
		l := last()
		l.Deleted = false
		if len(l.Atts) == 0 {
			l.Atts = map[string]string{"a": vfC11AttPool[0], "b": vfC11AttPool[2]}
		}
		// keep at most one of the previous attachments (as a stub), drop the rest
		sc.New.Atts = nil
		if len(l.Atts) > 1 && sc.New.V%2 == 0 {
			k := vfSortedKeys(l.Atts)[0]
			sc.New.Atts = map[string]string{k: l.Atts[k]}
		}
	case "import":
		last().Deleted = false
		sc.New.Atts = nil
	case "push":
		sc.New.Atts = nil
	}
	if sc.AsUser != "" {
		// a disabled or deleted acting user is a different story (C12); keep alice usable
	}
	return sc
}

// ---------------------------------------------------------------------------------------------
// world

type vfC11World struct {
	t     testing.TB
	sc    vfC11Scenario
	env   *vfEnv
	w     *vs.Bucket
	mctx  context.Context             // marked request context
	h     *DatabaseCollectionWithUser // handle the operation uses (admin or user), loaded before the pre snapshot
	scope string
	coll  string
	store string // "scope.collection" of the data collection
	revs  []string // revision ids of d1 in creation order
	cur   vfC11DocState
	curRev string
	sessionID string
	excluded  []string // known-finding signatures met while checking
	skipLeaves bool    // leave out the "every leaf readable" clause (known finding)
	anyNewRev  bool    // timeout class: the new revision's id is not known in advance
	otherRev   string          // the non-winning leaf (Branch scenarios)
	otherState vfC11DocState
	targetRev  string          // revision the operation builds on
	knownRevs  map[string]bool // revisions of d1 in the pre-state
	preLeaves  map[string]string // "docid rev" -> body as served before the operation
}

func (wd *vfC11World) close() {
	if wd != nil && wd.env != nil {
		wd.env.Close()
	}
}

func vfC11Body(s vfC11DocState) Body {
	b := Body{"v": s.V, "channels": s.Chans}
	if s.Big {
		b["pad"] = strings.Repeat("p", MaximumInlineBodySize+50)
	}
	switch s.Grant {
	case "user":
		b["gUsers"] = []string{"alice"}
		b["gChans"] = []string{"G"}
	case "role":
		b["gUsers"] = []string{"role:r1"}
		b["gChans"] = []string{"G"}
	case "ghost":
		b["gUsers"] = []string{"zed"}
		b["gChans"] = []string{"G"}
	case "roleOf":
		b["rUsers"] = []string{"alice"}
		b["rRoles"] = []string{"role:r2"}
	}
	if len(s.Atts) > 0 {
		atts := map[string]any{}
		for n, c := range s.Atts {
			atts[n] = map[string]any{"data": []byte(c)}
		}
		b[BodyAttachments] = atts
	}
	return b
}

// vfC11BodyOnto builds the body of an update of the current revision: attachments whose content is
// unchanged are sent as stubs (as a client would), changed or new ones with data.
func (wd *vfC11World) bodyOnto(s vfC11DocState) (Body, error) {
	b := vfC11Body(s)
	if len(s.Atts) == 0 || len(wd.cur.Atts) == 0 || wd.cur.Deleted {
		return b, nil
	}
	prev, err := wd.env.Coll.Get1xRevBody(wd.env.Ctx, "d1", wd.curRev, false, nil)
	if err != nil {
		return nil, err
	}
	prevAtts := GetBodyAttachments(prev)
	atts := b[BodyAttachments].(map[string]any)
	for n, c := range s.Atts {
		if old, ok := wd.cur.Atts[n]; ok && old == c {
			if meta, ok := prevAtts[n].(map[string]any); ok {
				atts[n] = map[string]any{"stub": true, "digest": meta["digest"], "revpos": meta["revpos"]}
			}
		}
	}
	return b, nil
}

func vfC11PrincCfg(wd *vfC11World, name string, chans []string, roles []string, password *string) *auth.PrincipalConfig {
	cfg := &auth.PrincipalConfig{Name: &name, Password: password}
	if wd.sc.DefaultColl {
		cfg.ExplicitChannels = base.SetFromArray(chans)
	} else {
		cfg.CollectionAccess = map[string]map[string]*auth.CollectionAccessConfig{wd.scope: {wd.coll: {ExplicitChannels_: base.SetFromArray(chans)}}}
	}
	if roles != nil {
		cfg.ExplicitRoleNames = base.SetFromArray(roles)
	}
	return cfg
}

// vfC11Build creates the world and its pre-state from the scenario (no draws here: the same
// scenario always gives the same world, up to CAS values and timestamps).
func vfC11Build(t testing.TB, sc vfC11Scenario) (wd *vfC11World, err error) {
	env, w, err := vfC11Open(t, vfDBConfig{DefaultCollection: sc.DefaultColl, SyncFn: vfC11SyncFn, Mutate: func(o *DatabaseContextOptions) {
		o.AllowConflicts = base.Ptr(sc.AllowConflicts)
	}})
	if err != nil {
		return nil, err
	}
	wd = &vfC11World{t: t, sc: sc, env: env, w: w}
	defer func() {
		if err != nil {
			wd.close()
			wd = nil
		}
	}()
	if sc.CCVOff {
		env.DBC.CachedCCVEnabled.Store(false)
	}
	wd.scope, wd.coll = env.Coll.ScopeName, env.Coll.Name
	wd.store = wd.scope + "." + wd.coll
	ctx := env.Ctx
	// principals
	pw := "pw-alice"
	aliceCfg := vfC11PrincCfg(wd, "alice", []string{"A"}, nil, &pw)
	if sc.AliceEmail {
		aliceCfg.Email = base.Ptr("alice@example.com")
	}
	if _, _, err = env.DBC.UpdatePrincipal(ctx, aliceCfg, true, true); err != nil {
		return wd, fmt.Errorf("create alice: %w", err)
	}
	pwb := "pw-bob"
	if _, _, err = env.DBC.UpdatePrincipal(ctx, vfC11PrincCfg(wd, "bob", []string{"B"}, []string{"r1"}, &pwb), true, true); err != nil {
		return wd, fmt.Errorf("create bob: %w", err)
	}
	if _, _, err = env.DBC.UpdatePrincipal(ctx, vfC11PrincCfg(wd, "r1", []string{"R"}, nil, nil), false, true); err != nil {
		return wd, fmt.Errorf("create r1: %w", err)
	}
	// another document
	if _, _, err = env.Coll.Put(ctx, "d2", Body{"v": 0, "channels": []string{"A"}}); err != nil {
		return wd, fmt.Errorf("put d2: %w", err)
	}
	// history of d1
	for i, st := range sc.Pre {
		var rev string
		switch {
		case st.Deleted && (wd.curRev == "" || wd.cur.Deleted):
			// nothing to delete: write a live revision instead
			st.Deleted = false
			fallthrough
		case !st.Deleted:
			var body Body
			if body, err = wd.bodyOnto(st); err != nil {
				return wd, fmt.Errorf("pre %d body: %w", i, err)
			}
			if wd.curRev != "" {
				body[BodyRev] = wd.curRev
			}
			rev, _, err = env.Coll.Put(ctx, "d1", body)
		default:
			rev, _, err = env.Coll.DeleteDoc(ctx, "d1", DocVersion{RevTreeID: wd.curRev})
		}
		if err != nil {
			return wd, fmt.Errorf("pre %d (%s): %w", i, st, err)
		}
		wd.revs = append(wd.revs, rev)
		wd.cur, wd.curRev = st, rev
	}
	if sc.Branch && len(wd.revs) >= 2 {
		pi := len(wd.revs) - 2
		gen, _ := ParseRevID(ctx, wd.revs[pi])
		branchRev := fmt.Sprintf("%d-%s", gen+1, "00c11branch")
		hist := []string{branchRev}
		for i := pi; i >= 0; i-- {
			hist = append(hist, wd.revs[i])
		}
		if _, _, err = env.Coll.PutExistingRevWithBody(ctx, "d1", vfC11Body(sc.BranchState), hist, false, ExistingVersionWithUpdateToHLV); err != nil {
			return wd, fmt.Errorf("pre branch: %w", err)
		}
		var doc *Document
		if doc, err = env.Coll.GetDocument(ctx, "d1", DocUnmarshalAll); err != nil {
			return wd, fmt.Errorf("pre branch read: %w", err)
		}
		if doc.GetRevTreeID() == branchRev {
			wd.otherRev, wd.otherState = wd.curRev, wd.cur
			wd.curRev, wd.cur = branchRev, sc.BranchState
		} else {
			wd.otherRev, wd.otherState = branchRev, sc.BranchState
		}
	}
	wd.targetRev = wd.curRev
	if sc.Kind == "create" {
		wd.targetRev = ""
	}
	if sc.Kind == "branch-update" || sc.Kind == "branch-delete" {
		wd.targetRev = wd.otherRev
	}
	return wd, nil
}

// recordLeaves remembers what every leaf revision of the existing documents serves (cold read), so
// that a failed operation can be shown to have left each of them readable with the same content.
func (wd *vfC11World) recordLeaves() error {
	wd.preLeaves = map[string]string{}
	wd.knownRevs = map[string]bool{}
	ids := []string{"d2"}
	if len(wd.sc.Pre) > 0 && wd.sc.Kind != "import" && !strings.HasPrefix(wd.sc.Kind, "reject:import") {
		ids = append(ids, "d1") // (an externally changed d1 would be imported by this very read)
	}
	for _, id := range ids {
		doc, err := wd.env.Coll.GetDocument(wd.env.Ctx, id, DocUnmarshalAll)
		if err != nil {
			return fmt.Errorf("pre-state read of %s: %w", id, err)
		}
		for rev := range doc.History {
			if id == "d1" {
				wd.knownRevs[rev] = true
			}
		}
		for _, leaf := range doc.History.GetLeaves() {
			wd.preLeaves[id+" "+leaf] = wd.serveRev(id, leaf)
		}
	}
	wd.env.DBC.FlushRevisionCacheForTest()
	return nil
}

func (wd *vfC11World) serveRev(id, rev string) string {
	body, err := wd.env.Coll.Get1xRevBody(wd.env.Ctx, id, rev, false, []string{})
	if err != nil {
		return "error: " + err.Error()
	}
	b, err := base.JSONMarshalCanonical(body)
	if err != nil {
		return "error: " + err.Error()
	}
	return string(b)
}

// checkLeaves: every leaf revision of the pre-state is still served, cold, with the same content.
func (wd *vfC11World) checkLeaves() string {
	wd.env.DBC.FlushRevisionCacheForTest()
	for _, key := range vfSortedKeys(wd.preLeaves) {
		parts := strings.SplitN(key, " ", 2)
		if now := wd.serveRev(parts[0], parts[1]); now != wd.preLeaves[key] {
			return fmt.Sprintf("leaf revision %s of %s was served as %s before the failed operation and is served as %s after it", parts[1], parts[0], vfC11Clip(wd.preLeaves[key]), vfC11Clip(now))
		}
	}
	return ""
}

func vfC11Clip(s string) string {
	if len(s) > 160 {
		return s[:160] + "..."
	}
	return s
}

// settle loads every principal once through an un-marked handle so that computed channels and roles
// are stored before the pre-state snapshot, loads the acting user, and waits for the caching feed.
func (wd *vfC11World) settle() error {
	a := wd.env.DBC.Authenticator(wd.env.Ctx)
	for _, n := range []string{"alice", "bob", "carol", "dora"} {
		if _, err := a.GetUser(n); err != nil {
			return fmt.Errorf("settle user %s: %w", n, err)
		}
	}
	for _, n := range []string{"r1", "r2", "r3"} {
		if _, err := a.GetRole(n); err != nil {
			return fmt.Errorf("settle role %s: %w", n, err)
		}
	}
	h, _, err := wd.env.AsUser(wd.sc.AsUser)
	if err != nil {
		return err
	}
	// a private copy: the operation may replace h.user after a successful write
	wd.h = &DatabaseCollectionWithUser{DatabaseCollection: h.DatabaseCollection, user: h.user}
	if err := wd.recordLeaves(); err != nil {
		return err
	}
	if err := wd.env.WaitCache(); err != nil {
		return err
	}
	wd.mctx = vs.Mark(wd.env.Ctx)
	return nil
}

// ---------------------------------------------------------------------------------------------
// operations

type vfC11Op struct {
	prep  func(wd *vfC11World) error                    // extra un-marked pre-state, before the snapshot
	run   func(wd *vfC11World) (any, error)             // the request under test (marked context)
	check func(wd *vfC11World, res any, grants bool) string // complete new state visible? "" = yes
	grant string                                        // grant the new revision confers ("" none)
}

func vfC11MakeOp(sc vfC11Scenario) vfC11Op {
	switch sc.Kind {
	case "create":
		st := sc.New
		return vfC11Op{grant: st.Grant,
			run: func(wd *vfC11World) (any, error) {
				rev, _, err := wd.h.Put(wd.mctx, "n1", vfC11Body(st))
				return rev, err
			},
			check: func(wd *vfC11World, res any, grants bool) string {
				return wd.checkDoc("n1", res.(string), st, true, grants)
			}}
	case "update", "attach-new", "attach-drop":
		st := sc.New
		return vfC11Op{grant: st.Grant,
			run: func(wd *vfC11World) (any, error) {
				body, err := wd.bodyOnto(st)
				if err != nil {
					return nil, kit.InconclusiveErr{Msg: "building update body: " + err.Error()}
				}
				body[BodyRev] = wd.curRev
				rev, _, err := wd.h.Put(wd.mctx, "d1", body)
				return rev, err
			},
			check: func(wd *vfC11World, res any, grants bool) string {
				return wd.checkDoc("d1", res.(string), st, true, grants)
			}}
	case "delete":
		return vfC11Op{
			run: func(wd *vfC11World) (any, error) {
				rev, _, err := wd.h.DeleteDoc(wd.mctx, "d1", DocVersion{RevTreeID: wd.curRev})
				return rev, err
			},
			check: func(wd *vfC11World, res any, grants bool) string {
				// with a second live leaf the tombstoned winner hands over to that leaf
				return wd.checkDoc("d1", res.(string), vfC11DocState{Deleted: true}, !sc.Branch, grants)
			}}
	case "branch-delete":
		// tombstone the non-winning leaf
		return vfC11Op{
			run: func(wd *vfC11World) (any, error) {
				rev, _, err := wd.h.DeleteDoc(wd.mctx, "d1", DocVersion{RevTreeID: wd.otherRev})
				return rev, err
			},
			check: func(wd *vfC11World, res any, grants bool) string {
				return wd.checkDoc("d1", res.(string), vfC11DocState{Deleted: true}, false, false)
			}}
	case "branch-update":
		// a child on the non-winning leaf
		st := sc.New
		return vfC11Op{grant: st.Grant,
			run: func(wd *vfC11World) (any, error) {
				body := vfC11Body(st)
				body[BodyRev] = wd.otherRev
				rev, _, err := wd.h.Put(wd.mctx, "d1", body)
				return rev, err
			},
			check: func(wd *vfC11World, res any, grants bool) string {
				return wd.checkDoc("d1", res.(string), st, false, grants)
			}}
	case "push":
		st := sc.New
		return vfC11Op{grant: st.Grant,
			run: func(wd *vfC11World) (any, error) {
				pi := sc.PushParent
				if pi >= len(wd.revs) || !sc.AllowConflicts {
					pi = len(wd.revs) - 1 // extend the current leaf
				}
				parent := wd.revs[pi]
				gen, _ := ParseRevID(wd.env.Ctx, parent)
				newRev := fmt.Sprintf("%d-%s", gen+1, "c11push")
				hist := []string{newRev}
				for i := pi; i >= 0; i-- {
					hist = append(hist, wd.revs[i])
				}
				body := vfC11Body(st)
				_, rev, err := wd.h.PutExistingRevWithBody(wd.mctx, "d1", body, hist, false, ExistingVersionWithUpdateToHLV)
				return rev, err
			},
			check: func(wd *vfC11World, res any, grants bool) string {
				return wd.checkDoc("d1", res.(string), st, false, false)
			}}
	case "import":
		st := sc.New
		return vfC11Op{
			prep: func(wd *vfC11World) error {
				raw, err := wd.w.Store(wd.env.Ctx, wd.scope, wd.coll)
				if err != nil {
					return err
				}
				if sc.External == "delete" {
					return raw.Raw().Delete(wd.env.Ctx, "d1")
				}
				b, _ := base.JSONMarshal(map[string]any{"v": st.V, "channels": st.Chans, "ext": true})
				return raw.Raw().SetRaw(wd.env.Ctx, "d1", 0, nil, b)
			},
			run: func(wd *vfC11World) (any, error) {
				if sc.ImportVia == "get" {
					doc, err := wd.h.GetDocument(wd.mctx, "d1", DocUnmarshalAll)
					if err != nil {
						return nil, err
					}
					return doc.GetRevTreeID(), nil
				}
				// a gateway write on top of the externally written document: the stale revision is refused
				// (409) after the external change has been imported; a write without revision likewise
				body := Body{"v": st.V + 1000, "channels": st.Chans, BodyRev: wd.curRev}
				rev, _, err := wd.h.Put(wd.mctx, "d1", body)
				return rev, err
			},
			check: func(wd *vfC11World, res any, grants bool) string {
				return wd.checkImported(st)
			}}
	case "user-create", "role-create":
		isUser := sc.Kind == "user-create"
		name := "carol"
		if !isUser {
			name = "r3"
		}
		return vfC11Op{
			run: func(wd *vfC11World) (any, error) {
				pw := "pw-" + name
				var cfg *auth.PrincipalConfig
				if isUser {
					cfg = vfC11PrincCfg(wd, name, sc.PUpd.Chans, sc.PUpd.Roles, &pw)
					if sc.PUpd.Email != "" {
						cfg.Email = base.Ptr(sc.PUpd.Email)
					}
				} else {
					cfg = vfC11PrincCfg(wd, name, sc.PUpd.Chans, nil, nil)
				}
				_, _, err := wd.env.DBC.UpdatePrincipal(wd.mctx, cfg, isUser, false)
				return nil, err
			},
			check: func(wd *vfC11World, res any, grants bool) string {
				pw := "pw-" + name
				return wd.checkPrincipal(name, isUser, true, sc.PUpd.Chans, sc.PUpd.Roles, &pw, -1, sc.PUpd.Email)
			}}
	case "user-update", "role-update":
		isUser := sc.Kind == "user-update"
		name := "alice"
		if !isUser {
			name = "r1"
		}
		return vfC11Op{
			run: func(wd *vfC11World) (any, error) {
				var cfg *auth.PrincipalConfig
				if isUser {
					var pw *string
					if sc.PUpd.Password != "" {
						pw = base.Ptr(sc.PUpd.Password)
					}
					cfg = vfC11PrincCfg(wd, name, sc.PUpd.Chans, sc.PUpd.Roles, pw)
					if sc.PUpd.Disabled >= 0 {
						cfg.Disabled = base.Ptr(sc.PUpd.Disabled == 1)
					}
					if sc.PUpd.Email != "" {
						cfg.Email = base.Ptr(sc.PUpd.Email)
					}
				} else {
					cfg = vfC11PrincCfg(wd, name, sc.PUpd.Chans, nil, nil)
				}
				_, _, err := wd.env.DBC.UpdatePrincipal(wd.mctx, cfg, isUser, true)
				return nil, err
			},
			check: func(wd *vfC11World, res any, grants bool) string {
				var pw *string
				if isUser {
					pw = base.Ptr("pw-alice")
					if sc.PUpd.Password != "" {
						pw = base.Ptr(sc.PUpd.Password)
					}
				}
				email := sc.PUpd.Email
				if email == "" && sc.AliceEmail && isUser {
					email = "alice@example.com"
				}
				return wd.checkPrincipal(name, isUser, true, sc.PUpd.Chans, sc.PUpd.Roles, pw, sc.PUpd.Disabled, email)
			}}
	case "user-email":
		// Authenticator.UpdateUserEmail (used by the OIDC / JWT login path)
		return vfC11Op{
			run: func(wd *vfC11World) (any, error) {
				a := wd.env.DBC.Authenticator(wd.mctx)
				u, err := a.GetUser("alice")
				if err != nil {
					return nil, err
				}
				if u == nil {
					return nil, base.ErrNotFound
				}
				return nil, a.UpdateUserEmail(u, "changed@example.com")
			},
			check: func(wd *vfC11World, res any, grants bool) string {
				return wd.checkPrincipal("alice", true, true, []string{"A"}, nil, base.Ptr("pw-alice"), -1, "changed@example.com")
			}}
	case "user-register":
		// Authenticator.RegisterNewUser (auto-registration of a verified identity)
		email := sc.PUpd.Email
		return vfC11Op{
			run: func(wd *vfC11World) (any, error) {
				u, err := wd.env.DBC.Authenticator(wd.mctx).RegisterNewUser("dora", email)
				if err == nil && u == nil {
					err = fmt.Errorf("RegisterNewUser returned no user and no error")
				}
				return nil, err
			},
			check: func(wd *vfC11World, res any, grants bool) string {
				return wd.checkPrincipal("dora", true, true, nil, nil, nil, -1, email)
			}}
	case "user-delete":
		return vfC11Op{
			run: func(wd *vfC11World) (any, error) {
				// as the REST handler does: load, then delete
				a := wd.env.DBC.Authenticator(wd.mctx)
				u, err := a.GetUser("alice")
				if err != nil {
					return nil, err
				}
				if u == nil {
					return nil, base.ErrNotFound
				}
				return nil, a.DeleteUser(u)
			},
			check: func(wd *vfC11World, res any, grants bool) string {
				return wd.checkPrincipal("alice", true, false, nil, nil, nil, -1, "")
			}}
	case "role-delete":
		return vfC11Op{
			run: func(wd *vfC11World) (any, error) {
				return nil, wd.env.DBC.DeleteRole(wd.mctx, "r1", sc.Purge)
			},
			check: func(wd *vfC11World, res any, grants bool) string {
				return wd.checkPrincipal("r1", false, false, nil, nil, nil, -1, "")
			}}
	case "session-create":
		return vfC11Op{
			run: func(wd *vfC11World) (any, error) {
				a := wd.env.DBC.Authenticator(wd.mctx)
				u, err := a.GetUser("alice")
				if err != nil {
					return nil, err
				}
				if u == nil {
					return nil, base.ErrNotFound
				}
				s, err := a.CreateSession(wd.mctx, u, time.Hour, sc.OneTime)
				if err != nil {
					return nil, err
				}
				return s.ID, nil
			},
			check: func(wd *vfC11World, res any, grants bool) string {
				id, _ := res.(string)
				return wd.checkSession(id, true)
			}}
	case "session-delete":
		return vfC11Op{
			prep: func(wd *vfC11World) error {
				a := wd.env.DBC.Authenticator(wd.env.Ctx)
				u, err := a.GetUser("alice")
				if err != nil || u == nil {
					return fmt.Errorf("load alice: %v", err)
				}
				s, err := a.CreateSession(wd.env.Ctx, u, time.Hour, sc.OneTime)
				if err != nil {
					return err
				}
				wd.sessionID = s.ID
				return nil
			},
			run: func(wd *vfC11World) (any, error) {
				return wd.sessionID, wd.env.DBC.Authenticator(wd.mctx).DeleteSession(wd.mctx, wd.sessionID, "alice")
			},
			check: func(wd *vfC11World, res any, grants bool) string {
				return wd.checkSession(wd.sessionID, false)
			}}
	}
	panic("unknown kind " + sc.Kind)
}

// ---------------------------------------------------------------------------------------------
// read-back (success direction), always through the un-marked admin handle of the same database

func (wd *vfC11World) checkDoc(id, rev string, st vfC11DocState, mustBeCurrent bool, grants bool) string {
	ctx := wd.env.Ctx
	skipLeaves := wd.skipLeaves
	// a cold read: what a later request on any node would see
	wd.env.DBC.FlushRevisionCacheForTest()
	doc, err := wd.env.Coll.GetDocument(ctx, id, DocUnmarshalAll)
	if err != nil {
		return fmt.Sprintf("document %s cannot be read back: %v", id, err)
	}
	if rev == "" {
		if !wd.anyNewRev {
			return "operation returned no revision id"
		}
		// outcome-unknown write: accept whatever new child of the previous current revision is there
		// (the revision id of a retried write is not always the id of the un-retried one)
		for _, r := range vfSortedKeys(doc.History) {
			if !wd.knownRevs[r] && doc.History[r].Parent == wd.targetRev {
				rev = r
			}
		}
		if rev == "" {
			return fmt.Sprintf("%s (current %s) has no new child of %q", id, doc.GetRevTreeID(), wd.targetRev)
		}
	}
	info, ok := doc.History[rev]
	if !ok {
		return fmt.Sprintf("revision %s is not in the revision tree of %s (current %s)", rev, id, doc.GetRevTreeID())
	}
	if info.Deleted != st.Deleted {
		return fmt.Sprintf("revision %s deleted=%v, written deleted=%v", rev, info.Deleted, st.Deleted)
	}
	if mustBeCurrent && doc.GetRevTreeID() != rev {
		return fmt.Sprintf("current revision of %s is %s, the acknowledged write is %s", id, doc.GetRevTreeID(), rev)
	}
	body, err := wd.env.Coll.Get1xRevBody(ctx, id, rev, false, []string{})
	if err != nil {
		if skipLeaves && doc.GetRevTreeID() != rev {
			return "" // known finding: the body document of a non-winning revision was not stored
		}
		return fmt.Sprintf("revision %s of %s cannot be read back: %v", rev, id, err)
	}
	if st.Deleted {
		if del, _ := body[BodyDeleted].(bool); !del {
			return fmt.Sprintf("deleted revision %s reads back without _deleted: %v", rev, body)
		}
		return ""
	}
	if fmt.Sprint(body["v"]) != fmt.Sprint(st.V) {
		return fmt.Sprintf("revision %s reads back v=%v, written v=%d", rev, body["v"], st.V)
	}
	got := GetBodyAttachments(body)
	if len(got) != len(st.Atts) {
		return fmt.Sprintf("revision %s reads back attachments %v, written %v", rev, vfSortedKeys(got), vfSortedKeys(st.Atts))
	}
	for n, content := range st.Atts {
		meta, ok := got[n].(map[string]any)
		if !ok {
			return fmt.Sprintf("revision %s: attachment %q missing in read-back (%v)", rev, n, vfSortedKeys(got))
		}
		data, err := DecodeAttachment(meta["data"])
		if err != nil || !bytes.Equal(data, []byte(content)) {
			return fmt.Sprintf("revision %s: attachment %q reads back %q (%v), written %q", rev, n, data, err, content)
		}
	}
	if !skipLeaves {
		for _, leaf := range doc.History.GetLeaves() {
			if li := doc.History[leaf]; li == nil || li.Deleted {
				continue
			}
			if _, err := wd.env.Coll.Get1xRevBody(ctx, id, leaf, false, nil); err != nil {
				return fmt.Sprintf("leaf revision %s of %s (current %s) cannot be read any more: %v", leaf, id, doc.GetRevTreeID(), err)
			}
		}
	}
	if doc.GetRevTreeID() == rev {
		want := base.SetFromArray(st.Chans)
		have := base.Set{}
		for name, rem := range doc.Channels {
			if rem == nil {
				have.Add(name)
			}
		}
		if !have.Equals(want) {
			return fmt.Sprintf("document %s is in channels %v, the sync function assigns %v", id, have.ToArray(), want.ToArray())
		}
		if grants {
			if msg := wd.checkGrant(st.Grant); msg != "" {
				return msg
			}
		}
	}
	return ""
}

// checkGrant: the access the new current revision confers is effective for a freshly loaded principal.
func (wd *vfC11World) checkGrant(grant string) string {
	a := wd.env.DBC.Authenticator(wd.env.Ctx)
	switch grant {
	case "user":
		u, err := a.GetUser("alice")
		if err != nil || u == nil {
			return fmt.Sprintf("cannot load alice: %v", err)
		}
		if !u.CollectionChannels(wd.scope, wd.coll).Contains("G") {
			return fmt.Sprintf("the acknowledged revision grants channel G to alice, but a freshly loaded alice has channels %v", u.CollectionChannels(wd.scope, wd.coll))
		}
	case "role":
		r, err := a.GetRole("r1")
		if err != nil || r == nil {
			return fmt.Sprintf("cannot load role r1: %v", err)
		}
		if !r.CollectionChannels(wd.scope, wd.coll).Contains("G") {
			return fmt.Sprintf("the acknowledged revision grants channel G to role r1, but a freshly loaded r1 has channels %v", r.CollectionChannels(wd.scope, wd.coll))
		}
	case "roleOf":
		u, err := a.GetUser("alice")
		if err != nil || u == nil {
			return fmt.Sprintf("cannot load alice: %v", err)
		}
		if !u.RoleNames().Contains("r2") {
			return fmt.Sprintf("the acknowledged revision grants role r2 to alice, but a freshly loaded alice has roles %v", u.RoleNames())
		}
	}
	return ""
}

func (wd *vfC11World) checkImported(st vfC11DocState) string {
	ctx := wd.env.Ctx
	snap, err := wd.w.Snapshot(ctx)
	if err != nil {
		return "snapshot: " + err.Error()
	}
	d, ok := snap.Get(wd.store, "d1")
	if !ok || d.Xattrs[base.SyncXattrName] == nil {
		return "after a successful on-demand import the document has no sync metadata"
	}
	doc, err := wd.env.Coll.GetDocument(ctx, "d1", DocUnmarshalAll)
	if err != nil {
		return fmt.Sprintf("imported document cannot be read back: %v", err)
	}
	if wd.sc.External == "delete" {
		if !doc.IsDeleted() {
			if wd.sc.ImportVia == "put" && !vfC11NoGate && kit.Known("C11", vfC11SigExtDel) {
				wd.excluded = append(wd.excluded, vfC11SigExtDel)
				return ""
			}
			return fmt.Sprintf("external delete imported as live revision %s", doc.GetRevTreeID())
		}
		return ""
	}
	if doc.IsDeleted() {
		return "external write imported as a deleted revision"
	}
	body, err := wd.env.Coll.Get1xRevBody(ctx, "d1", doc.GetRevTreeID(), false, nil)
	if err != nil {
		return fmt.Sprintf("imported revision cannot be read: %v", err)
	}
	if body["ext"] != true || fmt.Sprint(body["v"]) != fmt.Sprint(st.V) {
		return fmt.Sprintf("imported revision reads back %v, the external write was v=%d", body, st.V)
	}
	if parent := doc.History[doc.GetRevTreeID()].Parent; parent != wd.curRev {
		return fmt.Sprintf("imported revision %s has parent %q, previous current revision was %s", doc.GetRevTreeID(), parent, wd.curRev)
	}
	return ""
}

func (wd *vfC11World) checkPrincipal(name string, isUser bool, wantExists bool, chans, roles []string, password *string, disabled int, email string) string {
	a := wd.env.DBC.Authenticator(wd.env.Ctx)
	var p auth.Principal
	var err error
	if isUser {
		var u auth.User
		u, err = a.GetUser(name)
		if u != nil {
			p = u
		}
	} else {
		var r auth.Role
		r, err = a.GetRole(name)
		if r != nil {
			p = r
		}
	}
	if err != nil {
		return fmt.Sprintf("principal %s cannot be loaded: %v", name, err)
	}
	if !wantExists {
		if p != nil {
			return fmt.Sprintf("principal %s still exists after an acknowledged delete", name)
		}
		return ""
	}
	if p == nil {
		return fmt.Sprintf("principal %s does not exist after an acknowledged create/update", name)
	}
	have := p.CollectionExplicitChannels(wd.scope, wd.coll)
	if !have.AsSet().Equals(base.SetFromArray(chans)) {
		return fmt.Sprintf("principal %s has admin channels %v, acknowledged %v", name, have.AsSet().ToArray(), chans)
	}
	if u, ok := p.(auth.User); ok {
		if roles != nil && !u.ExplicitRoles().AsSet().Equals(base.SetFromArray(roles)) {
			return fmt.Sprintf("user %s has admin roles %v, acknowledged %v", name, u.ExplicitRoles().AsSet().ToArray(), roles)
		}
		if disabled >= 0 && u.Disabled() != (disabled == 1) {
			return fmt.Sprintf("user %s disabled=%v, acknowledged %v", name, u.Disabled(), disabled == 1)
		}
		if password != nil && !u.Authenticate(*password) && !u.Disabled() {
			return fmt.Sprintf("user %s does not authenticate with the acknowledged password", name)
		}
		if email != "" {
			if u.Email() != email {
				return fmt.Sprintf("user %s has email %q, acknowledged %q", name, u.Email(), email)
			}
			byMail, err := a.GetUserByEmail(email)
			if err != nil || byMail == nil || byMail.Name() != name {
				return fmt.Sprintf("user %s cannot be found by its acknowledged email %q (%v, %v)", name, email, byMail, err)
			}
		}
	}
	return ""
}

func (wd *vfC11World) checkSession(id string, wantExists bool) string {
	a := wd.env.DBC.Authenticator(wd.env.Ctx)
	s, u, err := a.GetSession(id)
	if wantExists {
		if err != nil || s == nil || u == nil || u.Name() != "alice" {
			return fmt.Sprintf("acknowledged session %q cannot be used: %v", id, err)
		}
		return ""
	}
	if err == nil {
		return fmt.Sprintf("session %q still usable after an acknowledged delete", id)
	}
	return ""
}

// ---------------------------------------------------------------------------------------------
// bucket listing comparison

func vfC11IsSeqKey(d vs.Doc) bool {
	return d.Store == "_default._default" && d.Key == base.DefaultMetadataKeys.SyncSeqKey()
}

func vfC11IsUnusedSeq(d vs.Doc) bool {
	return d.Store == "_default._default" && (strings.HasPrefix(d.Key, base.DefaultMetadataKeys.UnusedSeqPrefix()) || strings.HasPrefix(d.Key, base.DefaultMetadataKeys.UnusedSeqRangePrefix()))
}

var vfC11ResiduePrefixes = []string{base.RevPrefix, base.RevBodyPrefix, base.Att2Prefix, base.AttPrefix}

func vfC11ResidueClass(key string) string {
	for _, p := range vfC11ResiduePrefixes {
		if strings.HasPrefix(key, p) {
			return p
		}
	}
	return ""
}

// vfC11StateDiff compares two listings. Returned: real differences, and the allowed residue that was
// seen (side effects the mechanism orders before its commit point: unreferenced attachment data,
// revision backups and revision bodies that were ADDED, or a backup whose expiry was refreshed).
func vfC11StateDiff(pre, post *vs.BucketSnapshot) (diff []string, residue []string) {
	pm, am := pre.Map(), post.Map()
	ids := map[string]struct{}{}
	for id := range pm {
		ids[id] = struct{}{}
	}
	for id := range am {
		ids[id] = struct{}{}
	}
	for _, id := range vfSortedKeys(ids) {
		b, inB := pm[id]
		a, inA := am[id]
		ref := a
		if !inA {
			ref = b
		}
		if vfC11IsSeqKey(ref) || vfC11IsUnusedSeq(ref) {
			continue // sequence accounting is checked separately
		}
		rc := vfC11ResidueClass(ref.Key)
		switch {
		case inA && !inB:
			if rc != "" {
				residue = append(residue, "added "+rc)
				continue
			}
			diff = append(diff, "+ "+a.String())
		case inB && !inA:
			diff = append(diff, "- "+b.String())
		case !a.Same(b):
			if rc != "" && !b.HasBody && a.HasBody {
				residue = append(residue, "re-added "+rc)
				continue
			}
			if rc == base.RevPrefix {
				a2 := a
				a2.Exp = b.Exp
				if a2.Same(b) {
					residue = append(residue, "touched "+rc)
					continue
				}
			}
			diff = append(diff, "~ "+b.String()+"  =>  "+a.String())
		}
	}
	return diff, residue
}

func vfC11Counter(s *vs.BucketSnapshot) uint64 {
	d, ok := s.Get("_default._default", base.DefaultMetadataKeys.SyncSeqKey())
	if !ok || !d.HasBody {
		return 0
	}
	n, _ := strconv.ParseUint(strings.TrimSpace(string(d.Body)), 10, 64)
	return n
}

// vfC11Unaccounted returns the sequence numbers in (from, to] that are not published in an
// unused-sequence document of the listing.
func vfC11Unaccounted(post *vs.BucketSnapshot, from, to uint64) []uint64 {
	released := map[uint64]bool{}
	for _, d := range post.Docs {
		if !vfC11IsUnusedSeq(d) || !d.HasBody {
			continue
		}
		switch len(d.Body) {
		case 8:
			released[binary.LittleEndian.Uint64(d.Body)] = true
		case 16:
			lo, hi := binary.LittleEndian.Uint64(d.Body[:8]), binary.LittleEndian.Uint64(d.Body[8:])
			for s := lo; s <= hi && hi-lo < 1000; s++ {
				released[s] = true
			}
		}
	}
	var missing []uint64
	for s := from + 1; s <= to; s++ {
		if !released[s] {
			missing = append(missing, s)
		}
	}
	return missing
}

// ---------------------------------------------------------------------------------------------
// one run

type vfC11Run struct {
	faults  map[int]vs.Action
	trace   []vs.Op
	res     any
	err     error
	reached bool // every planned fault position was reached
}

func vfC11FaultStr(f map[int]vs.Action) string {
	if len(f) == 0 {
		return "no fault"
	}
	ks := make([]int, 0, len(f))
	for k := range f {
		ks = append(ks, k)
	}
	sort.Ints(ks)
	var parts []string
	for _, k := range ks {
		parts = append(parts, fmt.Sprintf("op%d:%s", k, f[k]))
	}
	return strings.Join(parts, "+")
}

type vfC11Stats struct {
	runs, interior                        int
	classes                               map[string]int
	residue                               map[string]int
	excluded                              map[string]int
	swallowed                             map[string]int
}

// known candidate defects: structural signature of the run + the oracle clause it relaxes
const (
	vfC11SigInval    = "swallowed-principal-invalidation-failure"
	vfC11SigPrincSeq = "principal-update-sequence-not-released"
	vfC11SigRoleSeq  = "delete-role-sequence-not-released"
	vfC11SigCasSave  = "swallowed-save-failure-in-casUpdatePrincipal"
	vfC11SigEmail    = "principal-and-email-index-written-non-atomically"
	vfC11SigRevBody  = "swallowed-revision-body-persist-failure"
	vfC11SigExtDel   = "external-delete-imported-as-live-revision-by-write"
)

// vfC11NoGate switches the known-finding exclusions off (used by the regression test, which wants to
// see whether the listed shapes still fail).
var vfC11NoGate bool

func vfC11InjectedOps(tr []vs.Op) []vs.Op {
	var out []vs.Op
	for _, o := range tr {
		if o.Action != vs.Pass {
			out = append(out, o)
		}
	}
	return out
}

func vfC11IsPrincKey(k string) bool {
	return strings.HasPrefix(k, base.DefaultMetadataKeys.UserKeyPrefix()) || strings.HasPrefix(k, base.DefaultMetadataKeys.RoleKeyPrefix())
}

// vfC11Execute builds a world, runs the operation under the given faults and judges the run.
// It returns the run (for the enumeration) and a violation text ("" = fine).
func vfC11Execute(t testing.TB, sc vfC11Scenario, op vfC11Op, faults map[int]vs.Action, baseRes any, st *vfC11Stats, rec *kit.Rec) (run vfC11Run, violation string, err error) {
	wd, err := vfC11Build(t, sc)
	if err != nil {
		return run, "", err
	}
	defer wd.close()
	if op.prep != nil {
		if err := op.prep(wd); err != nil {
			return run, "", fmt.Errorf("prep: %w", err)
		}
	}
	if err := wd.settle(); err != nil {
		return run, "", err
	}
	pre, err := wd.w.Snapshot(wd.env.Ctx)
	if err != nil {
		return run, "", err
	}
	plan := &vs.Plan{At: map[int]vs.Fault{}}
	for k, a := range faults {
		plan.At[k] = vs.Fault{Action: a}
	}
	wd.w.Arm(plan)
	run.faults = faults
	run.res, run.err = op.run(wd)
	wd.w.Disarm()
	run.trace = wd.w.MarkedTrace()
	if ie, ok := run.err.(kit.InconclusiveErr); ok {
		return run, "", ie
	}
	run.reached = true
	for k := range faults {
		if k > len(run.trace) {
			run.reached = false
		}
	}
	if !run.reached {
		return run, "", nil
	}
	post, err := wd.w.Snapshot(wd.env.Ctx)
	if err != nil {
		return run, "", err
	}
	injected := vfC11InjectedOps(run.trace)
	timeoutInjected := false
	for _, o := range injected {
		if o.Action == vs.TimeoutBefore || o.Action == vs.TimeoutAfter {
			timeoutInjected = true
		}
	}
	diff, residue := vfC11StateDiff(pre, post)
	for _, r := range residue {
		st.residue[r]++
	}
	s0, s1 := vfC11Counter(pre), vfC11Counter(post)

	// structural signatures of the listed candidate defects
	relaxGrant, relaxSeq, relaxVisible, relaxState, relaxLeaves := "", "", "", "", ""
	for _, o := range injected {
		if o.Type == vs.OpSubdocInsert && vfC11IsPrincKey(o.Key) && !o.Applied {
			relaxGrant = vfC11SigInval
		}
		if strings.HasPrefix(sc.Kind, "user-") || strings.HasPrefix(sc.Kind, "role-") {
			if o.Type == vs.OpWriteCas && vfC11IsPrincKey(o.Key) && o.Action == vs.FailBefore && (sc.Kind == "user-create" || sc.Kind == "user-update" || sc.Kind == "role-create" || sc.Kind == "role-update") {
				relaxSeq = vfC11SigPrincSeq
			}
			if o.Type == vs.OpSet && strings.HasPrefix(o.Key, base.DefaultMetadataKeys.UserEmailKey("")) && !o.Applied {
				relaxState = vfC11SigEmail
				relaxSeq = vfC11SigEmail
			}
			// the same two-step save under "applied, then timeout": the principal document is written,
			// the email index document is never attempted
			hasEmail := (sc.Kind != "user-delete" && sc.Kind != "user-email" && sc.PUpd.Email != "") || (sc.Kind != "user-create" && sc.Kind != "user-register" && sc.AliceEmail) || sc.Kind == "user-email"
			if hasEmail && o.Type == vs.OpWriteCas && vfC11IsPrincKey(o.Key) && o.Action == vs.TimeoutAfter {
				relaxState = vfC11SigEmail
			}
			// ... and deleting a user removes the email index document before the user document
			if hasEmail && sc.Kind == "user-delete" && o.Type == vs.OpDelete && vfC11IsPrincKey(o.Key) && !o.Applied {
				relaxState = vfC11SigEmail
			}
		}
		if o.Type == vs.OpAddRaw && strings.HasPrefix(o.Key, base.RevBodyPrefix) && !o.Applied {
			relaxLeaves = vfC11SigRevBody
		}
		if sc.Kind == "role-delete" {
			relaxSeq = vfC11SigRoleSeq
		}
		if (sc.Kind == "role-delete" && !sc.Purge) || sc.Kind == "user-email" {
			savePart := (o.Type == vs.OpWriteCas && vfC11IsPrincKey(o.Key)) || (o.Type == vs.OpSet && strings.HasPrefix(o.Key, base.DefaultMetadataKeys.UserEmailKey("")))
			// (for the two-step save of user-email, an applied-then-timed-out first step is swallowed too
			// and the email index is never attempted)
			if savePart && (!o.Applied || sc.Kind == "user-email") && o.Action != vs.FailCas {
				relaxVisible = vfC11SigCasSave
			}
		}
	}
	gate := func(sig string) bool { // true = clause is to be skipped for this run
		if sig == "" || vfC11NoGate {
			return false
		}
		if kit.Known("C11", sig) {
			st.excluded[sig]++
			rec.Excluded(sig)
			return true
		}
		return false
	}

	desc := fmt.Sprintf("%s; result=%v; trace: %s", vfC11FaultStr(faults), run.err, vs.Render(run.trace))
	importThenRefuse := sc.Kind == "import" && sc.ImportVia == "put"
	switch {
	case importThenRefuse && run.err != nil && len(diff) > 0:
		// A gateway write on top of an external change is refused with a conflict AFTER the external
		// change has been imported: the only permitted change is the complete import.
		st.classes["outcome=refused-after-import"]++
		if msg := op.check(wd, nil, false); msg != "" {
			return run, fmt.Sprintf("write on an externally changed document was refused (%v) and left something other than the imported external change: %s\ndifferences:\n%s\n[%s]", run.err, msg, strings.Join(diff, "\n"), desc), nil
		}
	case importThenRefuse && run.err != nil && len(injected) == 0:
		return run, fmt.Sprintf("write on an externally changed document was refused (%v) without importing the external change [%s]", run.err, desc), nil
	case run.err == nil:
		st.classes["outcome=success"]++
		if len(injected) > 0 {
			st.classes["outcome=success-despite-fault"]++
			for _, o := range injected {
				if !o.Applied && o.Action != vs.FailCas {
					st.swallowed[string(o.Type)+" "+vfC11KeyClass(o.Key)]++
				}
			}
		}
		if gate(relaxVisible) {
			break
		}
		grants := !gate(relaxGrant)
		wd.skipLeaves = gate(relaxLeaves)
		if msg := op.check(wd, run.res, grants); msg != "" {
			return run, "operation reported success but " + msg + " [" + desc + "]", nil
		}
	case timeoutInjected:
		st.classes["outcome=timeout"]++
		if len(diff) == 0 {
			st.classes["timeout=pre"]++
			if msg := wd.checkLeaves(); msg != "" {
				return run, fmt.Sprintf("after a timeout the bucket is unchanged but %s [%s]", msg, desc), nil
			}
			break
		}
		res := baseRes
		switch sc.Kind {
		case "session-create":
			res = vfC11NewSessionID(pre, post)
		case "create", "update", "delete", "attach-new", "attach-drop", "branch-update", "branch-delete":
			res, wd.anyNewRev = "", true
		}
		if msg := op.check(wd, res, false); msg != "" && !gate(relaxState) {
			return run, fmt.Sprintf("after a timeout the state is neither the old one nor the complete new one: differences to the old state:\n%s\nnew state incomplete: %s [%s]", strings.Join(diff, "\n"), msg, desc), nil
		}
		st.classes["timeout=post"]++
	default:
		st.classes["outcome=error"]++
		if len(diff) > 0 && !gate(relaxState) {
			return run, fmt.Sprintf("operation failed (%v) but left the bucket changed:\n%s\n[%s]", run.err, strings.Join(diff, "\n"), desc), nil
		}
		if msg := wd.checkLeaves(); msg != "" {
			return run, fmt.Sprintf("operation failed (%v) but %s [%s]", run.err, msg, desc), nil
		}
		if s1 > s0 {
			st.classes["error-after-reserving-sequence"]++
			missing := vfC11Unaccounted(post, s0, s1)
			// a failed give-back is itself an injected storage failure (pairs): not the write's doing
			for _, o := range injected {
				if o.Type == vs.OpAddRaw && vfC11IsUnusedSeq(vs.Doc{Store: "_default._default", Key: o.Key}) {
					missing = nil
				}
			}
			if len(missing) > 0 && !gate(relaxSeq) {
				return run, fmt.Sprintf("operation failed (%v) after reserving sequence(s) %v (counter %d -> %d) and did not publish them as unused [%s]", run.err, missing, s0, s1, desc), nil
			}
		}
	}
	for _, sig := range wd.excluded {
		st.excluded[sig]++
		rec.Excluded(sig)
	}
	return run, "", nil
}

func vfC11KeyClass(k string) string {
	for _, p := range []string{base.RevPrefix, base.RevBodyPrefix, base.Att2Prefix, base.AttPrefix, base.DefaultMetadataKeys.UserKeyPrefix(), base.DefaultMetadataKeys.RoleKeyPrefix(),
		base.DefaultMetadataKeys.UnusedSeqPrefix(), base.DefaultMetadataKeys.SessionKey(""), base.DefaultMetadataKeys.UserEmailKey("")} {
		if strings.HasPrefix(k, p) {
			return p + "*"
		}
	}
	if strings.HasPrefix(k, "_sync:") {
		return k
	}
	return "<doc>"
}

func vfC11NewSessionID(pre, post *vs.BucketSnapshot) string {
	pm := pre.Map()
	prefix := base.DefaultMetadataKeys.SessionKey("")
	for _, d := range post.Docs {
		if _, ok := pm[d.ID()]; !ok && strings.HasPrefix(d.Key, prefix) {
			return strings.TrimPrefix(d.Key, prefix)
		}
	}
	return ""
}

// ---------------------------------------------------------------------------------------------
// enumeration

type vfC11Enum struct {
	t      *testing.T
	rt     *rapid.T
	test   string
	sc     vfC11Scenario
	op     vfC11Op
	st     *vfC11Stats
	rec    *kit.Rec
	base   vfC11Run
	render string
}

func (e *vfC11Enum) exec(faults map[int]vs.Action) vfC11Run {
	var run vfC11Run
	var violation string
	var err error
	kit.Guard(e.rt, "C11", e.test, func() string { return e.render + " / " + vfC11FaultStr(faults) }, func() {
		run, violation, err = vfC11Execute(e.t, e.sc, e.op, faults, e.base.res, e.st, e.rec)
	})
	if err != nil {
		if vfIsInconclusive(err) {
			e.rec.Inconclusive()
			kit.InconclusiveLine("C11", "%v (%s)", err, e.render)
			e.rt.Skip()
		}
		e.rt.Fatalf("harness error (not a verdict): %v\nscenario: %s faults: %s", err, e.render, vfC11FaultStr(faults))
	}
	if violation != "" {
		kit.Violation(e.rt, "C11", e.test, e.render+" / "+vfC11FaultStr(faults), "%s", violation)
	}
	return run
}

// explore enumerates fault positions k >= from on top of the faults already fixed in prefix.
func (e *vfC11Enum) explore(prefix map[int]vs.Action, from int, depth int) {
	for k := from; ; k++ {
		var typ vs.Op
		reachedAny := false
		for _, a := range vs.Actions {
			if reachedAny && !vs.ApplicableOp(typ, a) {
				continue
			}
			faults := map[int]vs.Action{k: a}
			for pk, pa := range prefix {
				faults[pk] = pa
			}
			run := e.exec(faults)
			if !run.reached {
				return // the request issues fewer than k operations under this prefix: done
			}
			reachedAny = true
			typ = run.trace[k-1]
			e.st.runs++
			n := len(e.base.trace)
			interior := k > 1 && k < n
			if interior {
				e.st.interior++
			}
			outcome := "error"
			if run.err == nil {
				outcome = "success"
			}
			e.rec.Case(e.render+" / "+vfC11FaultStr(faults), interior, "kind="+e.sc.Kind, "action="+a.String(), "faulted="+string(typ.Type), "result="+outcome, fmt.Sprintf("faults=%d", len(faults)))
			if depth > 1 {
				e.explore(faults, k+1, depth-1)
			}
		}
	}
}

func vfC11RunEnumeration(t *testing.T, test string, kinds []string) {
	rec := kit.New("C11", test)
	defer rec.Flush()
	restore := SuspendSequenceBatching()
	defer restore()
	st := &vfC11Stats{classes: map[string]int{}, residue: map[string]int{}, excluded: map[string]int{}, swallowed: map[string]int{}}
	depth := kit.Param("depth", 1)
	if shard, n := kit.Shard(); n > 1 {
		m := n
		if len(kinds) < m {
			m = len(kinds)
		}
		var mine []string
		for j, k := range kinds {
			if j%m == shard%m {
				mine = append(mine, k)
			}
		}
		kinds = mine
	}
	rapid.Check(t, func(rt *rapid.T) {
		sc := vfC11GenScenario(rt, kinds)
		e := &vfC11Enum{t: t, rt: rt, test: test, sc: sc, op: vfC11MakeOp(sc), st: st, rec: rec, render: sc.String()}
		// reference run without faults: must succeed (import-via-put is the one operation that is
		// refused by design, with 409, after importing)
		e.base = e.exec(nil)
		wantErr := sc.Kind == "import" && sc.ImportVia == "put"
		if (e.base.err != nil) != wantErr {
			rt.Fatalf("harness error (not a verdict): reference run of a valid operation returned %v\nscenario: %s\ntrace: %s", e.base.err, e.render, vs.Render(e.base.trace))
		}
		rec.Class("ops-per-request="+strconv.Itoa(len(e.base.trace)), 1)
		rec.Class("shape:"+sc.Kind+": "+vfC11ShapeClass(e.base.trace), 1)
		e.explore(nil, 1, depth)
	})
	for k, v := range st.classes {
		rec.Class(k, int64(v))
	}
	for k, v := range st.residue {
		rec.Class("allowed-residue="+k, int64(v))
	}
	for k, v := range st.swallowed {
		rec.Class("failure-swallowed-into-success="+k, int64(v))
	}
	kit.Note("C11", "%s: %d faulted runs, %d at interior positions; outcomes %v; allowed residue %v; failures swallowed into success %v; excluded known shapes %v", test, st.runs, st.interior, st.classes, st.residue, st.swallowed, st.excluded)
}

func vfC11ShapeClass(tr []vs.Op) string {
	var parts []string
	for _, o := range tr {
		parts = append(parts, string(o.Type)+" "+vfC11KeyClass(o.Key))
	}
	return strings.Join(parts, ", ")
}

func TestVerif_C11_Docs(t *testing.T) { vfC11RunEnumeration(t, "Docs", vfC11DocKinds) }

func TestVerif_C11_Principals(t *testing.T) { vfC11RunEnumeration(t, "Principals", vfC11PrincKinds) }
