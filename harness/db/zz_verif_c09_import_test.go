package db

// C09 — external writes are imported exactly once; the gateway's own writes never are.
// Injected into package db by the /verif driver (build overlay); never part of /repo.
//
// TestVerif_C09_Import: database with auto-import OFF; the harness owns the feed. It subscribes to the
// bucket's mutation feed itself (so the events are exactly what rosmar's DCP producer emits), queues every
// event and lets the generator decide when - and how often - each one is handed to the import listener's
// entry point (importListener.ProcessFeedEvent -> ImportFeedEvent). Interleaved with external set / delete
// (raw rosmar collection, no interception), gateway Put / delete / read (on-demand import) and
// metadata-only rewrites (ResyncDocument after a sync-function change). Races inside a gateway operation
// are produced by the fault store's hook: an external write, a feed delivery or a read lands immediately
// before the operation's k-th storage operation - reads included, so an external write can fall between the
// first read and the re-read of an on-demand import as well as into its read -> compare-and-swap window.
// Half of the cases configure a user xattr key: the other application then also changes the user xattr alone
// (a metadata-only import: same revision, channels recomputed) or body and user xattr in one mutation (a new
// revision like any body change). The sync function names a channel after the body and one after the user
// xattr, so the stored metadata shows what each import was computed from; half of the gateway reads go
// through the revision cache (GetRev), which is what revision-based clients are served from.
//
// Oracle: every gateway operation runs under a marked context; its storage trace is linearised into the
// sequence of committed mutations of the document (external writes at the hook position, gateway CAS writes
// that were applied). The model (generation counter, body / tombstone state of the current gateway revision,
// body / tombstone state of the bucket, dirty = the two differ) replays that sequence and requires
//   - an import commit only when an external change is pending (else: own write mistaken / imported twice),
//   - a gateway revision write only when none is pending (else: external write lost),
//   - no pending change left after an undisturbed on-demand operation or delivery of the current event,
//   - each import = exactly one new revision, child of the previous current revision, one higher sequence,
//     carrying the bucket's body / tombstone state; nothing else changes; a user-xattr-only import keeps
//     the revision; the body / user-xattr channels are those of the body / xattr the commit saw,
//   - a read answers with the current revision and the latest body whenever nothing is pending after it,
// and at quiescence: body = latest write, re-delivering every event and re-reading changes nothing.
//
// TestVerif_C09_AutoImport: the real import feed on; only the end state is checked.

import (
	"context"
	"fmt"
	"strconv"
	"strings"
	"sync"
	"testing"
	"time"

	sgbucket "github.com/couchbase/sg-bucket"
	"github.com/couchbase/sync_gateway/base"
	"github.com/couchbase/sync_gateway/channels"
	kit "github.com/couchbase/sync_gateway/verifkit"
	vs "github.com/couchbase/sync_gateway/verifstore"
	"github.com/couchbaselabs/rosmar"
	"pgregory.net/rapid"
)

// Both known findings sit in OnDemandImportForWrite's decision whether the document being imported is a
// delete: it looks at doc.Body(ctx)==nil (never true for a tombstone that has gateway metadata, whose body
// is initialised to {}) and otherwise takes the INCOMING write's deleted flag.
const vfC09SigExtDel = "write-after-external-delete-imports-live-empty-revision"
const vfC09SigDelExtUpd = "delete-after-external-update-imports-tombstone"

// Same root (a tombstone with gateway metadata never has a nil body): importDoc's on-demand CAS retry
// tests body==nil to notice that the document was deleted meanwhile.
const vfC09SigDelInWindow = "external-delete-in-on-demand-import-window-imports-live-empty-revision"

const (
	vfC09Missing = 0
	vfC09Live    = 1
	vfC09Tomb    = 2
)

// vfC09Model is the reference model of one document, written from the property statement.
type vfC09Model struct {
	key      string
	known    bool   // the gateway has metadata for the document (it has a revision history)
	gen      int    // generation of the current gateway revision
	curRev   string // observed, never predicted
	revCount int    // revisions created since the history (re)started
	seq      uint64 // observed sequence of the current revision
	gwBody   string // body of the current gateway revision
	gwDel    bool   // current gateway revision is a tombstone
	bState   int    // bucket: missing / live / tombstone
	bBody    string
	bX       string // bucket: value of the user xattr ("" = none); only with the user-xattr dimension
	gwX      string // user xattr value the gateway's metadata was last computed from
	metaBody string // body the gateway's metadata (channels) of the current revision was last computed from
	extSince int    // external writes since the last import opportunity consumed them (statistics)
}

// bodyDirty: an external change of the body / tombstone state is pending (its import makes a new revision).
func (m *vfC09Model) bodyDirty() bool {
	if m.known {
		switch m.bState {
		case vfC09Live:
			return m.gwDel || m.bBody != m.gwBody
		case vfC09Tomb:
			return !m.gwDel
		}
		return false
	}
	return m.bState == vfC09Live
}

// xattrDirty: only the user xattr of a live, known document was changed externally (its import recomputes
// the metadata of the SAME revision).
func (m *vfC09Model) xattrDirty() bool {
	return m.known && m.bState == vfC09Live && !m.gwDel && m.bX != m.gwX
}

func (m *vfC09Model) dirty() bool { return m.bodyDirty() || m.xattrDirty() }

func (m *vfC09Model) extSet(body string) {
	if m.bState == vfC09Tomb {
		// re-creating a deleted document drops the tombstone's system xattrs (bucket semantics): the
		// gateway's history of the document is gone and restarts with the next import
		m.known, m.gen, m.curRev, m.revCount, m.gwBody, m.gwDel = false, 0, "", 0, "", false
		m.bX, m.gwX, m.metaBody = "", "", ""
	}
	m.bState, m.bBody = vfC09Live, body
}

// extDel: a delete removes the body and the user xattrs, the system xattrs stay
func (m *vfC09Model) extDel() { m.bState, m.bBody, m.bX = vfC09Tomb, "", "" }

func (m *vfC09Model) newRevision() {
	if m.known {
		m.gen++
	} else {
		m.gen, m.known = 1, true
	}
	m.revCount++
}

// applyImport: body change => new revision; user-xattr-only change => same revision, metadata recomputed.
func (m *vfC09Model) applyImport() (newRevision bool) {
	// either way the sync function runs on the bucket's body and user xattr
	defer func() { m.gwX, m.metaBody = m.bX, m.bBody }()
	if !m.bodyDirty() {
		return false
	}
	m.newRevision()
	newRevision = true
	if m.bState == vfC09Live {
		m.gwBody, m.gwDel = m.bBody, false
	} else {
		m.gwBody, m.gwDel = "", true
	}
	return newRevision
}

func (m *vfC09Model) applyOwn(body string, del bool) {
	m.newRevision()
	if del {
		m.bState, m.bBody, m.gwBody, m.gwDel = vfC09Tomb, "", "", true
		m.bX, m.gwX = "", "" // the tombstone write drops user xattrs
	} else {
		if m.bState != vfC09Live {
			m.bX = "" // re-creating a deleted document starts without user xattrs
		}
		m.gwX, m.metaBody = m.bX, body
		m.bState, m.bBody, m.gwBody, m.gwDel = vfC09Live, body, body, false
	}
}

func (m *vfC09Model) String() string {
	b := []string{"missing", "live", "tomb"}[m.bState]
	return fmt.Sprintf("{known=%v gen=%d rev=%s revs=%d seq=%d gw=%q gwDel=%v gwXattr=%q metaBody=%q bucket=%s %q xattr=%q dirty=%v}", m.known, m.gen, m.curRev, m.revCount, m.seq, m.gwBody, m.gwDel, m.gwX, m.metaBody, b, m.bBody, m.bX, m.dirty())
}

// vfC09Win is an action that lands inside a gateway operation's read -> CAS-write window.
type vfC09Win struct {
	kind    string // extSet | extDel | extXattr | extBoth | deliver | read
	body    int
	x       int // user xattr value of extXattr / extBoth
	pick    int // deliver: 0 = newest event, n = n-th newest
	at      int // before the at-th marked storage operation (read or write, any key) of the enclosing action
	atWrite int // scripted reproductions: before the n-th CAS write of the document instead
}

func (w *vfC09Win) String() string {
	if w == nil {
		return ""
	}
	at := fmt.Sprintf("@op%d", w.at)
	if w.atWrite > 0 {
		at = fmt.Sprintf("@write%d", w.atWrite)
	}
	switch w.kind {
	case "extSet":
		return fmt.Sprintf("[%s: extSet(x=%d)]", at, w.body)
	case "extXattr":
		return fmt.Sprintf("[%s: extXattr(u=%d)]", at, w.x)
	case "extBoth":
		return fmt.Sprintf("[%s: extBoth(x=%d,u=%d)]", at, w.body, w.x)
	case "deliver":
		return fmt.Sprintf("[%s: deliver(-%d)]", at, w.pick)
	}
	return fmt.Sprintf("[%s: %s]", at, w.kind)
}

type vfC09Lin struct {
	kind  string // extSet | extDel | extXattr | extBoth | commit
	body  string
	x     string
	label string
	typ   vs.OpType
	own   bool
	meta  bool
}

type vfC09Obs struct {
	exists  bool
	body    []byte
	hasSync bool
	sd      SyncData
	cas     uint64
}

type vfC09Case struct {
	t     *testing.T
	rt    *rapid.T
	rec   *kit.Rec
	env   *vfEnv
	w     *vs.Bucket
	ds    *vs.DataStore
	raw   *rosmar.Collection
	ilT   *importListener // delivers under the "top" marker
	ilN   *importListener // delivers under the "nested" marker
	docs  []*vfC09Model
	ops   []string
	syncN int

	mu      sync.Mutex
	events  map[string][]sgbucket.FeedEvent
	term    chan bool
	avoid   bool // vfC09SigExtDel is listed as open
	avoidB  bool // vfC09SigDelExtUpd is listed as open
	avoidC  bool // vfC09SigDelInWindow is listed as open
	uxk     bool // user-xattr dimension: the database has a UserXattrKey
	topKind string
	classes map[string]bool
	nontriv bool

	// per gateway operation
	win        *vfC09Win
	winKey     string
	writes     int
	fired      bool
	firedIndex int
	winLin     []vfC09Lin
	winNote    string
	inconcl    string
	firstFail  string
	lastTrace  string
}

func vfC09Body(n int) string { return `{"x":` + strconv.Itoa(n) + `}` }

// vfC09SyncFn routes every live revision into a channel named after its body ("b<x>") and, when the database
// has a user xattr key and the document carries that xattr, into the channel the xattr names ("u<n>"): the
// gateway metadata of the current revision then shows which body / user xattr it was computed from. n > 0
// adds the marker channel of the n-th metadata-only rewrite.
func vfC09SyncFn(n int) string {
	fn := `function(doc, oldDoc, meta) { `
	if n > 0 {
		fn += fmt.Sprintf(`channel("ch%d"); `, n)
	}
	return fn + `if (!doc._deleted) { channel("b" + doc.x); var u = meta.xattrs.` + vfC09UserXattrKey + `; if (u) { channel(u); } } }`
}

func (c *vfC09Case) render() string { return strings.Join(c.ops, "; ") }

// vfC09Abort unwinds a scripted (non-rapid) run at its first oracle failure.
type vfC09Abort struct{ inconclusive bool }

func (c *vfC09Case) fail(format string, args ...any) {
	if c.rt == nil {
		c.firstFail = fmt.Sprintf(format, args...)
		panic(vfC09Abort{})
	}
	kit.Violation(c.rt, "C09", "Import", c.render(), format, args...)
}

// harnessErr: the harness's own assumptions about the storage double do not hold - infrastructure, not a verdict.
func (c *vfC09Case) harnessErr(format string, args ...any) {
	c.rec.Inconclusive()
	kit.InconclusiveLine("C09", "harness assumption broken: %s | case: %s", fmt.Sprintf(format, args...), c.render())
	if c.rt == nil {
		c.firstFail = "harness assumption broken: " + fmt.Sprintf(format, args...)
		panic(vfC09Abort{inconclusive: true})
	}
	c.rt.Fatalf("harness assumption broken: " + fmt.Sprintf(format, args...))
}

func (c *vfC09Case) skipInconclusive(msg string) {
	c.rec.Inconclusive()
	kit.InconclusiveLine("C09", "%s", msg)
	if c.rt == nil {
		c.firstFail = msg
		panic(vfC09Abort{inconclusive: true})
	}
	c.rt.Skip(msg)
}

func vfC09IsWrite(t vs.OpType) bool {
	return t == vs.OpWriteWithXattrs || t == vs.OpWriteTombstoneWithXattrs || t == vs.OpWriteResurrectionWithXattrs
}

// observe reads the raw bucket document without going through the gateway (no import is triggered).
func (c *vfC09Case) observe(key string) (o vfC09Obs, err error) {
	body, xattrs, cas, gerr := c.raw.GetWithXattrs(c.env.Ctx, key, []string{base.SyncXattrName})
	o.cas = cas
	if gerr != nil {
		if !base.IsDocNotFoundError(gerr) {
			return o, gerr
		}
		o.exists = cas != 0
		return o, nil
	}
	o.exists = true
	o.body = body
	if raw := xattrs[base.SyncXattrName]; len(raw) > 0 {
		o.sd.History = make(RevTree)
		if err := base.JSONUnmarshal(raw, &o.sd); err != nil {
			return o, fmt.Errorf("unreadable _sync xattr %s: %w", raw, err)
		}
		o.hasSync = o.sd.HasValidSyncData()
	}
	return o, nil
}

// syncFeed waits until the harness's own feed subscription has received the event of the document's
// current state (bounded; expiry is inconclusive).
func (c *vfC09Case) syncFeed(key string) {
	_, _, cas, _ := c.raw.GetWithXattrs(c.env.Ctx, key, []string{base.SyncXattrName})
	if cas == 0 {
		return
	}
	deadline := time.Now().Add(vfWaitBound)
	for {
		c.mu.Lock()
		evs := c.events[key]
		ok := len(evs) > 0 && evs[len(evs)-1].Cas >= cas
		c.mu.Unlock()
		if ok {
			return
		}
		if time.Now().After(deadline) {
			c.inconcl = fmt.Sprintf("feed event for %s cas %d did not arrive within %v", key, cas, vfWaitBound)
			return
		}
		time.Sleep(200 * time.Microsecond)
	}
}

func (c *vfC09Case) pickEvent(key string, pick int) (ev sgbucket.FeedEvent, ok bool) {
	c.mu.Lock()
	defer c.mu.Unlock()
	evs := c.events[key]
	if len(evs) == 0 {
		return ev, false
	}
	i := len(evs) - 1 - pick
	if i < 0 {
		i = 0
	}
	return evs[i], true
}

// extWrite performs an external (SDK-style) write on the raw collection. It returns the linearisation
// entry, or ok=false when the write is not applicable (delete of something that is not live).
func vfC09X(n int) string { return `"u` + strconv.Itoa(n) + `"` }

const vfC09UserXattrKey = "uxk"

func (c *vfC09Case) extWrite(key, kind string, body int, x ...int) (lin vfC09Lin, ok bool) {
	xv := 0
	if len(x) > 0 {
		xv = x[0]
	}
	switch kind {
	case "extXattr", "extBoth":
		// one SDK mutation that changes the user xattr (and, for extBoth, the body too) of a live document
		o, err := c.observe(key)
		if err != nil || o.body == nil {
			return lin, false
		}
		var werr error
		if kind == "extXattr" {
			_, werr = c.raw.SetXattrs(c.env.Ctx, key, map[string][]byte{vfC09UserXattrKey: []byte(vfC09X(xv))})
		} else {
			_, werr = c.raw.WriteWithXattrs(c.env.Ctx, key, 0, o.cas, []byte(vfC09Body(body)), map[string][]byte{vfC09UserXattrKey: []byte(vfC09X(xv))}, nil, nil)
		}
		if werr != nil {
			c.inconcl = fmt.Sprintf("external %s failed: %v", kind, werr)
			return lin, false
		}
		c.syncFeed(key)
		return vfC09Lin{kind: kind, body: vfC09Body(body), x: vfC09X(xv)}, true
	case "extSet":
		if err := vfC09ExternalSet(c.env.Ctx, c.raw, key, vfC09Body(body)); err != nil {
			c.inconcl = fmt.Sprintf("external set failed: %v", err)
			return lin, false
		}
		c.syncFeed(key)
		return vfC09Lin{kind: "extSet", body: vfC09Body(body)}, true
	case "extDel":
		o, err := c.observe(key)
		if err != nil || o.body == nil {
			return lin, false
		}
		if err := c.raw.Delete(c.env.Ctx, key); err != nil {
			c.inconcl = fmt.Sprintf("external Delete failed: %v", err)
			return lin, false
		}
		c.syncFeed(key)
		return vfC09Lin{kind: "extDel"}, true
	}
	return lin, false
}

// vfC09ExternalSet is an SDK-style upsert. Storage-double correction: rosmar's SetRaw over a tombstone row
// replaces value and xattrs but leaves the row's tombstone flag set (Couchbase Server makes the document
// live); a deleted document is therefore re-created with an insert (WriteCas with cas 0), which clears the
// flag and, like the server, drops the tombstone's system xattrs.
func vfC09ExternalSet(ctx context.Context, raw *rosmar.Collection, key, body string) error {
	b, _, cas, err := raw.GetWithXattrs(ctx, key, []string{base.SyncXattrName})
	if cas != 0 && b == nil && (err == nil || base.IsDocNotFoundError(err)) {
		_, werr := raw.WriteCas(ctx, key, 0, 0, []byte(body), sgbucket.Raw)
		return werr
	}
	return raw.SetRaw(ctx, key, 0, nil, []byte(body))
}

// hook runs inside the enclosing gateway operation's read -> CAS-write window.
func (c *vfC09Case) hookWrite() {
	c.writes++
	if c.win == nil || c.fired || c.writes != c.win.atWrite {
		return
	}
	c.hook()
}

func (c *vfC09Case) hook() {
	if c.win == nil || c.fired {
		return
	}
	c.fired = true
	c.firedIndex = c.w.MarkedCount()
	key := c.winKey
	if c.win.kind == "extDel" && c.topKind == "read" && c.avoidC && c.win.atWrite == 0 {
		// known finding: an external delete that lands after the on-demand import's body read. Before the
		// reads of GetDocumentWithRaw it is harmless (the reload sees the tombstone).
		for _, op := range c.w.MarkedTrace() {
			if op.Type != vs.OpGetWithXattrs || op.Key != key {
				c.rec.Excluded(vfC09SigDelInWindow)
				c.winNote = "none(extDel after the import's body read: known finding)"
				return
			}
		}
	}
	if c.win.kind == "deliver" || c.win.kind == "read" {
		// A gateway action of the same node cannot run while the enclosing one sits in the sequence
		// allocator's critical section (Incr of _sync:seq under its mutex) - it would simply wait. Gateway
		// actions are therefore only placed before storage operations on the document itself.
		tr := c.w.MarkedTrace()
		if len(tr) == 0 || tr[len(tr)-1].Key != key {
			c.winNote = "none(gateway action not placed before an operation on another key)"
			return
		}
	}
	switch c.win.kind {
	case "extSet", "extDel", "extXattr", "extBoth":
		if lin, ok := c.extWrite(key, c.win.kind, c.win.body, c.win.x); ok {
			c.winLin = append(c.winLin, lin)
			c.winNote = c.win.kind
		} else {
			c.winNote = "none(" + c.win.kind + " not applicable)"
		}
	case "deliver":
		ev, ok := c.pickEvent(key, c.win.pick)
		if !ok {
			c.winNote = "none(no event)"
			return
		}
		c.ilN.ProcessFeedEvent(ev)
		c.winNote = fmt.Sprintf("deliver(cas=%d)", ev.Cas)
	case "read":
		_, err := c.env.Coll.GetDocument(vs.MarkAs(c.env.Ctx, "nested"), key, DocUnmarshalAll)
		c.winNote = fmt.Sprintf("read(err=%v)", err != nil)
	}
}

type vfC09Result struct {
	acked   bool
	rev     string
	err     error
	body    string
	del     bool
	// reads
	viaRev   bool // read through the revision cache (GetRev of the active revision) instead of GetDocument
	readRev  string
	readBody []byte
}

// doRead is a gateway read of the current revision: GetDocument (the document as the bucket holds it, after an
// on-demand import) or GetRev without a revision (the same, served through the revision cache).
func (c *vfC09Case) doRead(ctx context.Context, key string, viaRev bool) vfC09Result {
	if viaRev {
		r, err := c.env.Coll.GetRev(ctx, key, "", false, nil)
		if err != nil {
			return vfC09Result{err: err, viaRev: true}
		}
		return vfC09Result{viaRev: true, readRev: r.RevID, readBody: r.BodyBytes}
	}
	doc, err := c.env.Coll.GetDocument(ctx, key, DocUnmarshalAll)
	if err != nil {
		return vfC09Result{err: err}
	}
	bb, _ := doc.BodyBytes(ctx)
	return vfC09Result{readRev: doc.GetRevTreeID(), readBody: bb}
}

func vfC09SameJSON(a []byte, b string) bool {
	var x, y any
	if base.JSONUnmarshal(a, &x) != nil || base.JSONUnmarshal([]byte(b), &y) != nil {
		return false
	}
	return fmt.Sprint(x) == fmt.Sprint(y)
}

// gateway runs one gateway-side operation under the "top" marker with an optional window action, then
// audits its storage trace against the model.
func (c *vfC09Case) gateway(kind string, d int, win *vfC09Win, desc string, exec func(ctx context.Context) vfC09Result) {
	m := c.docs[d]
	pre := *m
	c.win, c.winKey, c.writes, c.fired, c.firedIndex, c.winLin, c.winNote, c.topKind = win, m.key, 0, false, 0, nil, "", kind
	plan := &vs.Plan{}
	if win != nil && win.atWrite > 0 {
		for _, typ := range []vs.OpType{vs.OpWriteWithXattrs, vs.OpWriteTombstoneWithXattrs, vs.OpWriteResurrectionWithXattrs} {
			for n := 1; n <= 6; n++ {
				plan.Rules = append(plan.Rules, vs.Rule{Type: typ, Key: m.key, Label: "top", Nth: n, Fault: vs.Fault{Hook: c.hookWrite}})
			}
		}
	} else if win != nil {
		// before the k-th marked storage operation of the action, whatever it is (read, counter, write)
		plan.At = map[int]vs.Fault{win.at: {Hook: c.hook}}
	}
	c.w.Arm(plan)
	var res vfC09Result
	var tb kit.TB = c.t
	if c.rt != nil {
		tb = c.rt
	}
	kit.Guard(tb, "C09", "Import", func() string { return c.render() + "; " + desc + win.String() }, func() {
		res = exec(vs.MarkAs(c.env.Ctx, "top"))
	})
	trace := c.w.MarkedTrace()
	c.w.Disarm()
	c.lastTrace = vs.Render(trace)
	c.syncFeed(m.key)
	opStr := desc + win.String()
	if win != nil {
		if c.fired {
			opStr += "->" + c.winNote
		} else {
			opStr += "->not reached"
		}
	}
	if res.err != nil {
		status, _ := base.ErrorAsHTTPStatus(res.err)
		opStr += fmt.Sprintf("=ERR%d", status)
	} else if res.acked {
		opStr += "=" + res.rev
	}
	c.ops = append(c.ops, opStr)
	if c.inconcl != "" {
		c.skipInconclusive(c.inconcl)
	}

	// linearise: gateway commits of the enclosing operation in trace order, the window's effects
	// immediately before the write whose hook fired
	var lin []vfC09Lin
	var nested []vfC09Lin
	lastOwn := -1
	for _, op := range trace {
		if op.Key != m.key || !op.Applied {
			continue
		}
		if op.Label == "nested" && vfC09IsWrite(op.Type) {
			nested = append(nested, vfC09Lin{kind: "commit", label: "nested", typ: op.Type})
		}
		if op.Label == "nested" && op.Type == vs.OpUpdateXattrs {
			nested = append(nested, vfC09Lin{kind: "commit", label: "nested", typ: op.Type, meta: true})
		}
	}
	// bodyReadAt: position (in lin) of the action's latest read of the document that carried the body. A
	// feed delivery starts from the event's snapshot, i.e. from before the action.
	bodyReadAt := 0
	for _, op := range trace {
		if op.Label != "top" {
			continue
		}
		if c.fired && op.Index == c.firedIndex {
			lin = append(lin, c.winLin...)
			lin = append(lin, nested...)
		}
		if op.Key == m.key && (op.Type == vs.OpGetWithXattrs || op.Type == vs.OpGetRaw || op.Type == vs.OpGet) {
			bodyReadAt = len(lin)
		}
		if op.Key != m.key || !op.Applied {
			continue
		}
		if vfC09IsWrite(op.Type) {
			// a CAS-guarded write must be built from the state it guards: no external write between the
			// action's last body read and a write that was applied
			for _, e := range lin[bodyReadAt:] {
				if strings.HasPrefix(e.kind, "ext") {
					c.fail("%s: a gateway write of the document (%s) was applied although the other application wrote (%s) after the action last read the body - the write is built from a superseded body, and the document now counts as imported; model before %s; trace %s", opStr, op.Type, e.kind, pre.String(), vs.Render(trace))
				}
			}
			lin = append(lin, vfC09Lin{kind: "commit", label: "top", typ: op.Type, meta: kind == "rewrite"})
			lastOwn = len(lin) - 1
		} else if op.Type == vs.OpUpdateXattrs {
			lin = append(lin, vfC09Lin{kind: "commit", label: "top", typ: op.Type, meta: true})
		}
	}
	if (kind == "put" || kind == "del") && res.acked {
		if lastOwn < 0 {
			c.fail("%s was acknowledged but no write of the document was applied; model before %s", opStr, pre.String())
		}
		lin[lastOwn].own = true
	}

	// replay
	newRevs := 0
	xattrImports := 0
	restarted := false
	for _, e := range lin {
		switch e.kind {
		case "extXattr":
			m.bX = e.x
			m.extSince++
		case "extBoth":
			m.bBody, m.bX = e.body, e.x
			m.extSince++
		case "extSet":
			if m.bState == vfC09Tomb && m.known {
				restarted = true
				newRevs = 0 // the chain check below walks the restarted history only
			}
			m.extSet(e.body)
			m.extSince++
		case "extDel":
			m.extDel()
			m.extSince++
		case "commit":
			if e.meta {
				if kind == "rewrite" && e.label == "top" && vfC09IsWrite(e.typ) {
					// resync recomputes the metadata of the current revision from the body and user xattr the
					// bucket holds (also when that body is an external write still waiting for its import)
					m.gwX, m.metaBody = m.bX, m.bBody
				}
				continue
			}
			if e.own {
				if m.dirty() {
					c.fail("%s: the gateway wrote its revision while an external write was still unimported (external write lost); model at that point %s", opStr, m.String())
				}
				m.applyOwn(res.body, res.del)
				newRevs++
				continue
			}
			if !m.dirty() {
				c.fail("%s: an import was committed (%s by %s) although no external change was pending - a gateway write was taken for an external one, or an external write was imported twice; model at that point %s", opStr, e.typ, e.label, m.String())
			}
			if m.applyImport() {
				newRevs++
			} else {
				xattrImports++
				c.classes["user-xattr-only-import"] = true
			}
			m.extSince = 0
			if e.label == "nested" || (c.fired && (c.win.kind == "deliver" || c.win.kind == "read")) {
				// both import paths ran for the same external write (one of them must have backed off)
				c.classes["feed-and-on-demand-race"] = true
			}
		}
	}

	// compare with the bucket
	o, err := c.observe(m.key)
	if err != nil {
		c.harnessErr("observe: %v", err)
	}
	if xattrImports > 0 && c.fired && o.hasSync && m.known {
		// Observation, not asserted: when an on-demand import is re-run after a CAS failure, importDoc rebuilds
		// its view of the document without the user xattr (existingDoc = {Cas}), so a user-xattr-only change is
		// then imported as a NEW revision with the unchanged body. The statement says nothing about user
		// xattrs; in a disturbed action either outcome is accepted and the model follows the bucket.
		if gen, _ := ParseRevID(c.env.Ctx, o.sd.GetRevTreeID()); gen > m.gen && gen-m.gen <= xattrImports {
			extra := gen - m.gen
			m.gen += extra
			m.revCount += extra
			newRevs += extra
			c.classes["user-xattr-only-import-made-a-revision-after-cas-retry"] = true
		}
	}
	c.checkObserved(opStr, &pre, m, o, newRevs, restarted, xattrImports)

	// completeness: an undisturbed import opportunity leaves nothing pending
	undisturbed := win == nil || !c.fired || strings.HasPrefix(c.winNote, "none")
	if undisturbed && m.dirty() {
		switch kind {
		case "read", "put", "del":
			c.fail("%s: the operation completed but the external write is still not imported; model %s", opStr, m.String())
		case "deliverCurrent":
			c.fail("%s: the current feed event was delivered but the external write is still not imported; model %s", opStr, m.String())
		}
	}
	// results
	// A read answers with the state it found or imported. Undisturbed, that is the current revision with the
	// latest body. Disturbed by a window action it still is whenever nothing is pending afterwards: every
	// external write of the window was then followed by the import (or own-write recognition) the read
	// returned from, so an answer with an older body means the import was built from a superseded read.
	if kind == "read" && (undisturbed || !m.dirty()) && !(res.viaRev && m.gwDel) {
		if m.known {
			if res.err != nil {
				c.fail("%s: document is known to the gateway (%s) but the read failed: %v", opStr, m.String(), res.err)
			}
			if res.readRev != m.curRev {
				c.fail("%s: read returned revision %s, current revision is %s", opStr, res.readRev, m.curRev)
			}
			if !m.gwDel && !vfC09SameJSON(res.readBody, m.bBody) {
				c.fail("%s: read returned body %s, the latest write is %s (model %s)", opStr, res.readBody, m.bBody, m.String())
			}
		} else if res.err == nil && undisturbed {
			c.fail("%s: nothing importable in the bucket (%s) but the read returned revision %s", opStr, m.String(), res.readRev)
		}
	}
	if undisturbed {
		switch kind {
		case "put", "del":
			if res.acked && res.rev != m.curRev {
				c.fail("%s: acknowledged revision %s is not the current revision %s", opStr, res.rev, m.curRev)
			}
		}
	}
	if c.fired && !strings.HasPrefix(c.winNote, "none") {
		c.classes["window:"+c.win.kind+"-in-"+kind] = true
		// where the window action landed: before a read-type storage operation of the action, and in particular
		// between two reads of the document by one gateway read (first read -> re-read of the on-demand import)
		readsBefore := 0
		for _, op := range trace {
			if op.Label != "top" {
				continue
			}
			if op.Index == c.firedIndex {
				if !vs.IsWrite(op.Type) {
					c.classes["window-before-a-read-operation"] = true
					if op.Key == m.key && readsBefore > 0 && strings.HasPrefix(c.win.kind, "ext") {
						c.classes["external-write-between-two-reads-of-one-action"] = true
						if kind == "read" {
							c.classes["external-write-between-read-and-re-read-of-a-gateway-read"] = true
						}
					}
				}
				break
			}
			if op.Key == m.key && !vs.IsWrite(op.Type) {
				readsBefore++
			}
		}
		if strings.HasPrefix(c.win.kind, "ext") && (kind == "put" || kind == "del") {
			c.nontriv = true
			c.classes["nontrivial:external-write-in-gateway-write-window"] = true
		}
	}
	if c.classes["feed-and-on-demand-race"] {
		c.nontriv = true
	}
}

// checkObserved compares the raw bucket document with the model after an operation.
func (c *vfC09Case) checkObserved(opStr string, pre, m *vfC09Model, o vfC09Obs, newRevs int, restarted bool, xattrImports int) {
	switch m.bState {
	case vfC09Live:
		if o.body == nil {
			c.fail("%s: the bucket document has no body, the latest write is %s; model %s", opStr, m.bBody, m.String())
		}
		if string(o.body) != m.bBody {
			c.fail("%s: the bucket body is %s, the latest write is %s", opStr, o.body, m.bBody)
		}
	case vfC09Tomb:
		if o.body != nil {
			c.fail("%s: the document was deleted (latest write) but the bucket holds a live body %s; model %s", opStr, o.body, m.String())
		}
	case vfC09Missing:
		if o.exists {
			c.fail("%s: nothing was ever written but the bucket has a row", opStr)
		}
	}
	if o.hasSync != m.known {
		if newRevs == 0 && !restarted {
			c.harnessErr("%s: gateway metadata present=%v, model known=%v without any commit (%s)", opStr, o.hasSync, m.known, m.String())
		}
		c.fail("%s: gateway metadata present=%v, model says known=%v (%s)", opStr, o.hasSync, m.known, m.String())
	}
	if !m.known {
		return
	}
	cur := o.sd.GetRevTreeID()
	gen, _ := ParseRevID(c.env.Ctx, cur)
	if gen != m.gen {
		c.fail("%s: current revision %s has generation %d; gateway writes + import episodes make it %d (model before %s, after %s)", opStr, cur, gen, m.gen, pre.String(), m.String())
	}
	if len(o.sd.History) != m.revCount {
		c.fail("%s: the history holds %d revisions, %d were created (model before %s, after %s)", opStr, len(o.sd.History), m.revCount, pre.String(), m.String())
	}
	info := o.sd.History[cur]
	deleted := o.sd.Flags&channels.Deleted != 0
	if info.Deleted != m.gwDel || deleted != m.gwDel {
		c.fail("%s: current revision %s deleted=%v (document flag %v), the latest write makes it deleted=%v; model %s", opStr, cur, info.Deleted, deleted, m.gwDel, m.String())
	}
	// the metadata of the current revision was computed from the latest body (and, with a user xattr key, from
	// the user xattr the last import / gateway write saw): the sync function names a channel after each
	if !m.gwDel {
		var gotB, gotU []string
		for _, name := range vfSortedKeys(o.sd.Channels) {
			if o.sd.Channels[name] != nil {
				continue // removed from the channel
			}
			switch name[0] {
			case 'b':
				gotB = append(gotB, name)
			case 'u':
				gotU = append(gotU, name)
			}
		}
		wantB := "b" + strings.TrimSuffix(strings.TrimPrefix(m.metaBody, `{"x":`), "}")
		if len(gotB) != 1 || gotB[0] != wantB {
			c.fail("%s: current revision %s is in body channel(s) %v; the import / gateway write / rewrite that last computed its metadata saw the body %s, which gives %s - the metadata was computed from a superseded body (model before %s, after %s)", opStr, cur, gotB, m.metaBody, wantB, pre.String(), m.String())
		}
		var wantU []string
		if c.uxk && m.gwX != "" {
			wantU = []string{strings.Trim(m.gwX, `"`)}
		}
		if strings.Join(gotU, ",") != strings.Join(wantU, ",") {
			c.fail("%s: current revision %s is in user-xattr channel(s) %v; the user xattr its metadata was last computed from (%s) gives %v (model before %s, after %s)", opStr, cur, gotU, m.gwX, wantU, pre.String(), m.String())
		}
	}
	// the new revisions are a chain on top of the previous current revision
	if newRevs > 0 {
		p := cur
		for i := 0; i < newRevs; i++ {
			ri, ok := o.sd.History[p]
			if !ok {
				c.fail("%s: revision %s is not in the history", opStr, p)
			}
			p = ri.Parent
		}
		want := pre.curRev
		if restarted || !pre.known {
			want = ""
		}
		if p != want {
			c.fail("%s: the %d new revision(s) up to %s hang off %q, the previous current revision is %q", opStr, newRevs, cur, p, want)
		}
		if o.sd.Sequence <= pre.seq {
			c.fail("%s: new revision %s has sequence %d, not greater than the previous %d", opStr, cur, o.sd.Sequence, pre.seq)
		}
	} else if !restarted {
		if cur != pre.curRev {
			c.fail("%s: no revision was created but the current revision changed from %s to %s", opStr, pre.curRev, cur)
		}
		if xattrImports > 0 {
			// a user-xattr import recomputes channels of the same revision and re-announces it: a higher
			// sequence is allowed, a new revision is not
			if o.sd.Sequence < pre.seq {
				c.fail("%s: user-xattr import moved the sequence backwards from %d to %d", opStr, pre.seq, o.sd.Sequence)
			}
		} else if o.sd.Sequence != pre.seq {
			c.fail("%s: no revision was created but the sequence changed from %d to %d", opStr, pre.seq, o.sd.Sequence)
		}
	}
	m.curRev, m.seq = cur, o.sd.Sequence
}

// ---------------------------------------------------------------------------------------------
// actions

func (c *vfC09Case) drawDoc(rt *rapid.T) int { return rapid.IntRange(0, len(c.docs)-1).Draw(rt, "doc") }

func (c *vfC09Case) drawWin(rt *rapid.T, kinds []string, ats ...int) *vfC09Win {
	if len(ats) == 0 {
		ats = []int{1, 2, 2, 3, 3, 4, 4, 5, 6, 7, 8, 10, 12}
	}
	if rapid.IntRange(0, 9).Draw(rt, "window") >= 6 {
		return nil
	}
	if c.uxk {
		kinds = append(append([]string{}, kinds...), "extXattr", "extBoth", "extBoth")
	}
	w := &vfC09Win{kind: rapid.SampledFrom(kinds).Draw(rt, "winKind"), at: rapid.SampledFrom(ats).Draw(rt, "winAt")}
	switch w.kind {
	case "extXattr":
		w.x = rapid.IntRange(0, 2).Draw(rt, "winXattr")
	case "extBoth":
		w.body = rapid.IntRange(0, 2).Draw(rt, "winBody")
		w.x = rapid.IntRange(0, 2).Draw(rt, "winXattr")
	case "extSet":
		w.body = rapid.IntRange(0, 2).Draw(rt, "winBody")
	case "deliver":
		w.pick = rapid.IntRange(0, 2).Draw(rt, "winPick")
	}
	return w
}

func (c *vfC09Case) actExt(rt *rapid.T) {
	d := c.drawDoc(rt)
	m := c.docs[d]
	kind := "extSet"
	if m.bState == vfC09Live && rapid.IntRange(0, 3).Draw(rt, "delete") == 0 {
		kind = "extDel"
	}
	xv := 0
	if c.uxk && m.bState == vfC09Live && kind == "extSet" {
		// one external mutation may change the body only, the user xattr only, or both
		kind = rapid.SampledFrom([]string{"extSet", "extXattr", "extBoth", "extBoth"}).Draw(rt, "extKind")
		xv = rapid.IntRange(0, 2).Draw(rt, "xattr")
	}
	body := rapid.IntRange(0, 2).Draw(rt, "body")
	pre := *m
	lin, ok := c.extWrite(m.key, kind, body, xv)
	if c.inconcl != "" {
		c.skipInconclusive(c.inconcl)
	}
	if !ok {
		c.harnessErr("external %s on %s not applicable although the model says %s", kind, m.key, m.String())
	}
	restarted := false
	if lin.kind == "extXattr" {
		m.bX = lin.x
		c.ops = append(c.ops, fmt.Sprintf("extXattr(d%d,u=%d)", d, xv))
		if m.known && !m.bodyDirty() && m.xattrDirty() {
			c.classes["external-user-xattr-only-change"] = true
		}
	} else if lin.kind == "extBoth" {
		wasKnownClean := m.known && !m.dirty()
		m.bBody, m.bX = lin.body, lin.x
		c.ops = append(c.ops, fmt.Sprintf("extBoth(d%d,x=%d,u=%d)", d, body, xv))
		if wasKnownClean && m.bodyDirty() && m.xattrDirty() {
			c.classes["external-body-and-user-xattr-change"] = true
		}
	} else if lin.kind == "extSet" {
		restarted = m.bState == vfC09Tomb && m.known
		m.extSet(lin.body)
		c.ops = append(c.ops, fmt.Sprintf("extSet(d%d,x=%d)", d, body))
		if m.known && !m.dirty() {
			c.classes["external-write-restores-gateway-body"] = true
		}
	} else {
		m.extDel()
		c.ops = append(c.ops, fmt.Sprintf("extDel(d%d)", d))
	}
	if restarted {
		c.classes["history-restart"] = true
	}
	m.extSince++
	if m.extSince > 1 {
		c.classes["consecutive-external-writes"] = true
	}
	o, err := c.observe(m.key)
	if err != nil {
		c.harnessErr("observe: %v", err)
	}
	// storage-double assumptions: a delete keeps the system xattrs, a re-create of a tombstone drops them
	if o.hasSync != m.known {
		c.harnessErr("after external %s: gateway metadata present=%v, model known=%v (before %s)", kind, o.hasSync, m.known, pre.String())
	}
}

func (c *vfC09Case) actPut(rt *rapid.T) {
	d := c.drawDoc(rt)
	m := c.docs[d]
	del := m.known && !m.gwDel && rapid.IntRange(0, 4).Draw(rt, "delete") == 0
	body := rapid.IntRange(0, 2).Draw(rt, "body")
	win := c.drawWin(rt, []string{"extSet", "extSet", "extDel", "deliver", "read"})
	if !del && c.avoid {
		// known finding: a (non-deleting) gateway write that meets an unimported external delete
		if m.known && m.bState == vfC09Tomb && !m.gwDel {
			c.rec.Excluded(vfC09SigExtDel)
			return
		}
		if win != nil && win.kind == "extDel" && (m.known || m.bState == vfC09Live) {
			c.rec.Excluded(vfC09SigExtDel + " (external delete inside a gateway write's window)")
			win = nil
		}
	}
	if !del && c.avoidC && win != nil && win.kind == "extDel" && m.dirty() {
		c.rec.Excluded(vfC09SigDelInWindow)
		win = nil
	}
	if del && c.avoidB {
		// known finding: a gateway delete that meets an unimported external update
		if m.dirty() && m.bState == vfC09Live {
			c.rec.Excluded(vfC09SigDelExtUpd)
			return
		}
		if win != nil && (win.kind == "extSet" || win.kind == "extXattr" || win.kind == "extBoth") {
			c.rec.Excluded(vfC09SigDelExtUpd + " (external update inside a gateway delete's window)")
			win = nil
		}
	}
	kind, desc := "put", fmt.Sprintf("gwPut(d%d,x=%d,rev=%q)", d, body, m.curRev)
	if del {
		kind, desc = "del", fmt.Sprintf("gwDel(d%d,rev=%q)", d, m.curRev)
	}
	parent := m.curRev
	known := m.known
	if m.dirty() {
		c.classes["gateway-write-on-pending-external-change"] = true
	}
	c.gateway(kind, d, win, desc, func(ctx context.Context) vfC09Result {
		b := Body{"x": body}
		if del {
			b = Body{BodyDeleted: true}
		}
		if known {
			b[BodyRev] = parent
		}
		rev, _, err := c.env.Coll.Put(ctx, m.key, b)
		return vfC09Result{acked: err == nil, rev: rev, err: err, body: vfC09Body(body), del: del}
	})
}

func (c *vfC09Case) actRead(rt *rapid.T) {
	d := c.drawDoc(rt)
	m := c.docs[d]
	viaRev := rapid.Bool().Draw(rt, "viaRevCache")
	// an importing read is: 1 read of the document, 2 re-read, 3 sequence allocation, 4 CAS write (5.. retry):
	// the window action is placed before any of them, the reads included
	win := c.drawWin(rt, []string{"extSet", "extSet", "extDel", "deliver", "deliver"}, 1, 2, 2, 2, 3, 4, 4, 5, 6, 8)
	if c.avoidC && win != nil && win.kind == "extDel" {
		// known finding: an external delete that lands inside an on-demand import's CAS window; the window is
		// kept and carries an external set instead
		c.rec.Excluded(vfC09SigDelInWindow)
		win.kind, win.body = "extSet", rapid.IntRange(0, 2).Draw(rt, "winBodyInstead")
	}
	if m.dirty() {
		c.classes["on-demand-import-by-read"] = true
	}
	name := "gwRead"
	if viaRev {
		name = "gwReadRev"
		c.classes["read-through-revision-cache"] = true
	}
	c.gateway("read", d, win, fmt.Sprintf("%s(d%d)", name, d), func(ctx context.Context) vfC09Result {
		return c.doRead(ctx, m.key, viaRev)
	})
}

func (c *vfC09Case) actDeliver(rt *rapid.T) {
	d := c.drawDoc(rt)
	m := c.docs[d]
	pick := rapid.SampledFrom([]int{0, 0, 0, 1, 2, 3}).Draw(rt, "pick")
	ev, ok := c.pickEvent(m.key, pick)
	if !ok {
		return
	}
	win := c.drawWin(rt, []string{"extSet", "extDel", "read", "read", "deliver"})
	o, err := c.observe(m.key)
	if err != nil {
		c.harnessErr("observe: %v", err)
	}
	kind, what := "deliverStale", "stale"
	if ev.Cas == o.cas {
		kind, what = "deliverCurrent", "current"
		if m.dirty() {
			c.classes["feed-import"] = true
		}
	}
	c.classes["delivery:"+what] = true
	c.gateway(kind, d, win, fmt.Sprintf("deliver(d%d,-%d,%s)", d, pick, what), func(ctx context.Context) vfC09Result {
		c.ilT.ProcessFeedEvent(ev)
		return vfC09Result{}
	})
}

func (c *vfC09Case) actRewrite(rt *rapid.T) {
	d := c.drawDoc(rt)
	m := c.docs[d]
	if !m.known || m.bState != vfC09Live {
		return // resync only rewrites live documents the gateway knows
	}
	c.syncN++
	fn := vfC09SyncFn(c.syncN)
	if _, err := c.env.Coll.UpdateSyncFun(c.env.Ctx, fn); err != nil {
		c.harnessErr("UpdateSyncFun: %v", err)
	}
	c.classes["metadata-only-rewrite"] = true
	c.gateway("rewrite", d, nil, fmt.Sprintf("rewrite(d%d,ch%d)", d, c.syncN), func(ctx context.Context) vfC09Result {
		err := c.env.Coll.ResyncDocument(ctx, m.key, nil, false)
		if err != nil {
			c.inconcl = fmt.Sprintf("ResyncDocument failed: %v", err)
		}
		return vfC09Result{err: err}
	})
}

// quiesce: every pending event is delivered, one final read, and then nothing may move any more.
func (c *vfC09Case) quiesce() {
	for d, m := range c.docs {
		if _, ok := c.pickEvent(m.key, 0); ok {
			ev, _ := c.pickEvent(m.key, 0)
			kind := "deliverStale"
			if o, err := c.observe(m.key); err == nil && o.cas == ev.Cas {
				kind = "deliverCurrent"
			}
			c.gateway(kind, d, nil, fmt.Sprintf("final-deliver(d%d)", d), func(ctx context.Context) vfC09Result {
				c.ilT.ProcessFeedEvent(ev)
				return vfC09Result{}
			})
		}
		c.gateway("read", d, nil, fmt.Sprintf("final-read(d%d)", d), func(ctx context.Context) vfC09Result {
			return c.doRead(ctx, m.key, false)
		})
		// re-deliver every event ever produced for the document, newest last, then read twice
		c.mu.Lock()
		evs := append([]sgbucket.FeedEvent{}, c.events[m.key]...)
		c.mu.Unlock()
		for i, ev := range evs {
			ev := ev
			c.gateway("redeliver", d, nil, fmt.Sprintf("redeliver(d%d,%d/%d)", d, i+1, len(evs)), func(ctx context.Context) vfC09Result {
				c.ilT.ProcessFeedEvent(ev)
				return vfC09Result{}
			})
		}
		// ... once through the revision cache (what revision-based clients are served), once from the bucket
		for i := 0; i < 2; i++ {
			viaRev := i == 0
			c.gateway("read", d, nil, fmt.Sprintf("re-read(d%d,viaRevCache=%v)", d, viaRev), func(ctx context.Context) vfC09Result {
				return c.doRead(ctx, m.key, viaRev)
			})
		}
	}
	// the changes feed announces each known document at its current sequence and revision
	if err := c.env.WaitCache(); err != nil {
		c.skipInconclusive(err.Error())
	}
	rows, err := vfChanges(c.env.Ctx, c.env.Coll, nil, ChangesOptions{})
	if err != nil {
		if vfIsInconclusive(err) {
			c.skipInconclusive(err.Error())
		}
		c.fail("changes feed failed: %v", err)
	}
	for _, m := range c.docs {
		var mine []*ChangeEntry
		for _, r := range rows {
			if r.ID == m.key {
				mine = append(mine, r)
			}
		}
		if !m.known {
			if len(mine) != 0 {
				c.fail("%s is not known to the gateway (%s) but the changes feed announces it", m.key, m.String())
			}
			continue
		}
		if len(mine) != 1 || mine[0].Seq.Seq != m.seq || len(mine[0].Changes) != 1 || mine[0].Changes[0]["rev"] != m.curRev || mine[0].Deleted != m.gwDel {
			var got []string
			for _, r := range mine {
				got = append(got, fmt.Sprintf("seq=%d changes=%v deleted=%v", r.Seq.Seq, r.Changes, r.Deleted))
			}
			c.fail("%s: changes feed rows %v, want one row seq=%d rev=%s deleted=%v", m.key, got, m.seq, m.curRev, m.gwDel)
		}
	}
}

func vfC09NewListener(ctx context.Context, env *vfEnv, label string) *importListener {
	il := NewImportListener(vs.MarkAs(ctx, label), "vfC09:"+label, env.DBC)
	for id, coll := range env.DBC.CollectionByID {
		il.collections[id] = DatabaseCollectionWithUser{DatabaseCollection: coll}
	}
	return il
}

func vfC09Open(t *testing.T, autoImport bool, userXattr bool) (*vfEnv, *vs.Bucket, *vs.DataStore, error) {
	var w *vs.Bucket
	cfg := vfDBConfig{AutoImport: autoImport, SyncFn: vfC09SyncFn(0), WrapBucket: func(b base.Bucket) base.Bucket {
		w = vs.Wrap(b)
		w.SetTraceUnmarked(false)
		return w
	}}
	if userXattr {
		// same db-package code as in EE; the REST layer gates this option to EE builds
		cfg.Mutate = func(o *DatabaseContextOptions) { o.UserXattrKey = vfC09UserXattrKey }
	}
	env, err := vfOpen(t, cfg)
	if err != nil {
		return nil, nil, nil, err
	}
	ds, err := w.Store(env.Ctx, env.Coll.ScopeName, env.Coll.Name)
	if err != nil {
		env.Close()
		return nil, nil, nil, err
	}
	return env, w, ds, nil
}

// vfC09Subscribe starts the harness's own subscription to the collection's mutation feed.
func vfC09Subscribe(env *vfEnv, w *vs.Bucket, onEvent func(ev sgbucket.FeedEvent)) (term chan bool, done chan struct{}, err error) {
	term = make(chan bool)
	done = make(chan struct{})
	args := sgbucket.FeedArguments{ID: "vfC09", Backfill: sgbucket.FeedNoBackfill, Terminator: term, DoneChan: done,
		Scopes: map[string][]string{env.Coll.ScopeName: {env.Coll.Name}}}
	err = w.Rosmar().StartDCPFeed(env.Ctx, args, func(ev sgbucket.FeedEvent) bool {
		if ev.Opcode == sgbucket.FeedOpMutation || ev.Opcode == sgbucket.FeedOpDeletion {
			onEvent(ev)
		}
		return true
	}, nil)
	return term, done, err
}

// vfC09Setup opens the database (auto-import off), the two listeners and the harness's feed subscription.
func vfC09Setup(t *testing.T, rec *kit.Rec, rt *rapid.T, nDocs int, userXattr bool) (c *vfC09Case, cleanup func(), err error) {
	env, w, ds, err := vfC09Open(t, false, userXattr)
	if err != nil {
		return nil, nil, err
	}
	c = &vfC09Case{t: t, rt: rt, rec: rec, env: env, w: w, ds: ds, raw: ds.Raw(), events: map[string][]sgbucket.FeedEvent{}, classes: map[string]bool{}, uxk: userXattr}
	c.avoid = kit.Known("C09", vfC09SigExtDel)
	c.avoidB = kit.Known("C09", vfC09SigDelExtUpd)
	c.avoidC = kit.Known("C09", vfC09SigDelInWindow)
	c.ilT = vfC09NewListener(env.Ctx, env, "top")
	c.ilN = vfC09NewListener(env.Ctx, env, "nested")
	for d := 0; d < nDocs; d++ {
		c.docs = append(c.docs, &vfC09Model{key: fmt.Sprintf("doc%d", d)})
	}
	term, done, err := vfC09Subscribe(env, w, func(ev sgbucket.FeedEvent) {
		key := string(ev.Key)
		if strings.HasPrefix(key, base.SyncDocPrefix) {
			return
		}
		c.mu.Lock()
		c.events[key] = append(c.events[key], ev)
		c.mu.Unlock()
	})
	if err != nil {
		env.Close()
		return nil, nil, err
	}
	cleanup = func() {
		close(term)
		select {
		case <-done:
		case <-time.After(vfWaitBound):
		}
		env.Close()
	}
	return c, cleanup, nil
}

func vfC09Run(t *testing.T, rec *kit.Rec, rt *rapid.T) {
	nDocs := rapid.IntRange(1, 2).Draw(rt, "docs")
	uxk := rapid.Bool().Draw(rt, "userXattrKey")
	c, cleanup, err := vfC09Setup(t, rec, rt, nDocs, uxk)
	if err != nil {
		rec.Inconclusive()
		kit.InconclusiveLine("C09", "cannot open database / feed: %v", err)
		rt.Skip("no database")
	}
	defer cleanup()
	c.ops = append(c.ops, fmt.Sprintf("open(docs=%d,userXattrKey=%v)", nDocs, uxk))
	if uxk {
		c.classes["user-xattr-dimension"] = true
	}
	rt.Repeat(map[string]func(*rapid.T){
		"ext":      c.actExt,
		"ext2":     c.actExt,
		"put":      c.actPut,
		"put2":     c.actPut,
		"read":     c.actRead,
		"deliver":  c.actDeliver,
		"deliver2": c.actDeliver,
		"rewrite":  c.actRewrite,
		"":         func(*rapid.T) {},
	})
	c.quiesce()
	var classes []string
	for _, k := range vfSortedKeys(c.classes) {
		classes = append(classes, k)
	}
	rec.Case(c.render(), c.nontriv, classes...)
}

// TestVerif_C09_Import: harness-owned feed, full audit.
func TestVerif_C09_Import(t *testing.T) {
	rec := kit.New("C09", "Import")
	defer rec.Flush()
	defer SuspendSequenceBatching()()
	rapid.Check(t, func(rt *rapid.T) { vfC09Run(t, rec, rt) })
}

// ---------------------------------------------------------------------------------------------
// known findings: deterministic reproductions (regression only, they decide nothing)

type vfC09Repro struct {
	sig    string
	name   string
	script func(c *vfC09Case)
}

func (c *vfC09Case) scriptExt(d int, kind string, body int) {
	m := c.docs[d]
	lin, ok := c.extWrite(m.key, kind, body)
	if !ok {
		c.harnessErr("scripted external %s not applicable", kind)
	}
	if lin.kind == "extSet" {
		m.extSet(lin.body)
		c.ops = append(c.ops, fmt.Sprintf("extSet(d%d,x=%d)", d, body))
	} else {
		m.extDel()
		c.ops = append(c.ops, fmt.Sprintf("extDel(d%d)", d))
	}
}

func (c *vfC09Case) scriptPut(d int, body int, del bool) {
	m := c.docs[d]
	parent, known := m.curRev, m.known
	kind, desc := "put", fmt.Sprintf("gwPut(d%d,x=%d,rev=%q)", d, body, parent)
	if del {
		kind, desc = "del", fmt.Sprintf("gwDel(d%d,rev=%q)", d, parent)
	}
	c.gateway(kind, d, nil, desc, func(ctx context.Context) vfC09Result {
		b := Body{"x": body}
		if del {
			b = Body{BodyDeleted: true}
		}
		if known {
			b[BodyRev] = parent
		}
		rev, _, err := c.env.Coll.Put(ctx, m.key, b)
		return vfC09Result{acked: err == nil, rev: rev, err: err, body: vfC09Body(body), del: del}
	})
}

var vfC09Repros = []vfC09Repro{
	{vfC09SigExtDel, "put-after-external-delete", func(c *vfC09Case) {
		c.scriptPut(0, 0, false) // Put(x,{x:0}) -> 1-..
		c.scriptExt(0, "extDel", 0)
		c.scriptPut(0, 1, false) // Put(x,{x:1,_rev:1-..}): must import the delete as a tombstone (and answer 409)
	}},
	{vfC09SigDelInWindow, "external-delete-inside-read-import-window", func(c *vfC09Case) {
		c.scriptPut(0, 0, false) // Put(x,{x:0}) -> 1-..
		c.scriptExt(0, "extSet", 1)
		// GET x imports {x:1}; immediately before the import's CAS write the other application deletes x
		m := c.docs[0]
		c.gateway("read", 0, &vfC09Win{kind: "extDel", atWrite: 1}, "gwRead(d0)", func(ctx context.Context) vfC09Result {
			return c.doRead(ctx, m.key, false)
		})
	}},
	{vfC09SigDelExtUpd, "delete-after-external-update", func(c *vfC09Case) {
		c.scriptPut(0, 0, false) // Put(x,{x:0}) -> 1-..
		c.scriptExt(0, "extSet", 1)
		c.scriptPut(0, 0, true) // DELETE x?rev=1-..: must import {x:1} as a live revision (and answer 409)
	}},
}

func TestVerif_C09_Known(t *testing.T) {
	rec := kit.New("C09", "Known")
	defer rec.Flush()
	defer SuspendSequenceBatching()()
	for _, rp := range vfC09Repros {
		c, cleanup, err := vfC09Setup(t, rec, nil, 1, false)
		if err != nil {
			rec.Inconclusive()
			kit.InconclusiveLine("C09", "cannot open database / feed: %v", err)
			continue
		}
		c.avoid, c.avoidB, c.avoidC = false, false, false
		var abort *vfC09Abort
		func() {
			defer func() {
				if p := recover(); p != nil {
					a, ok := p.(vfC09Abort)
					if !ok {
						panic(p)
					}
					abort = &a
				}
			}()
			rp.script(c)
		}()
		trace := c.lastTrace
		cleanup()
		rec.Class("reproductions", 1)
		switch {
		case abort != nil && abort.inconclusive:
			// already reported
		case abort != nil && kit.Known("C09", rp.sig):
			rec.Class("reproductions.still-failing", 1)
			kit.KnownFinding("C09", rp.sig, fmt.Sprintf("%s [reproduction %s: %s] -> %s [storage trace of the last operation: %s]", kit.KnownWhat("C09", rp.sig), rp.name, c.render(), c.firstFail, trace))
		case abort != nil:
			kit.Note("C09", "reproduction %s of %s fails but the signature is not listed as open; the generated family decides: %s -> %s [trace: %s]", rp.name, rp.sig, c.render(), c.firstFail, trace)
		default:
			kit.Note("C09", "reproduction %s of %s holds now (finding repaired?): %s", rp.name, rp.sig, c.render())
		}
	}
	rec.Sample("deterministic reproductions of the listed known findings (regression only, decide nothing)")
}

// ---------------------------------------------------------------------------------------------
// TestVerif_C09_AutoImport: the real DCP import feed is on and races freely with the generated external
// writes, gateway read-modify-writes and reads. Only the end state after quiescence is checked: the
// gateway shows the latest write, the history is one chain, nothing moves any more (no import loop), and
// there were never more imports than external writes.

func TestVerif_C09_AutoImport(t *testing.T) {
	rec := kit.New("C09", "AutoImport")
	defer rec.Flush()
	defer SuspendSequenceBatching()()
	rapid.Check(t, func(rt *rapid.T) {
		type step struct {
			kind string
			doc  int
			body int
		}
		nDocs := rapid.IntRange(1, 2).Draw(rt, "docs")
		n := rapid.IntRange(3, 14).Draw(rt, "steps")
		var steps []step
		var parts []string
		for i := 0; i < n; i++ {
			st := step{kind: rapid.SampledFrom([]string{"extSet", "extSet", "extSet", "extDel", "gwPut", "gwPut", "gwDel", "gwRead"}).Draw(rt, "kind"),
				doc: rapid.IntRange(0, nDocs-1).Draw(rt, "doc"), body: rapid.IntRange(0, 2).Draw(rt, "body")}
			steps = append(steps, st)
			parts = append(parts, fmt.Sprintf("%s(d%d,x=%d)", st.kind, st.doc, st.body))
		}
		render := fmt.Sprintf("autoimport docs=%d: %s", nDocs, strings.Join(parts, "; "))
		env, w, ds, err := vfC09Open(t, true, false)
		if err != nil {
			rec.Inconclusive()
			kit.InconclusiveLine("C09", "cannot open database: %v", err)
			rt.Skip("no database")
		}
		defer env.Close()
		raw := ds.Raw()
		var mu sync.Mutex
		seenCas := map[string]uint64{}
		counted := int64(0)
		term, done, err := vfC09Subscribe(env, w, func(ev sgbucket.FeedEvent) {
			key := string(ev.Key)
			if strings.HasPrefix(key, base.SyncDocPrefix) {
				return
			}
			mu.Lock()
			if ev.Cas > seenCas[key] {
				seenCas[key] = ev.Cas
			}
			// mirror of importListener.ProcessFeedEvent's filter in front of ImportFeedProcessedCount
			if !(ev.Opcode == sgbucket.FeedOpDeletion && len(ev.Value) == 0) && ev.DataType != base.MemcachedDataTypeRaw {
				counted++
			}
			mu.Unlock()
		})
		if err != nil {
			rec.Inconclusive()
			kit.InconclusiveLine("C09", "cannot subscribe to the mutation feed: %v", err)
			rt.Skip("no feed")
		}
		defer func() {
			close(term)
			select {
			case <-done:
			case <-time.After(vfWaitBound):
			}
		}()
		fail := func(format string, args ...any) {
			kit.Violation(rt, "C09", "AutoImport", render, format, args...)
		}
		inconclusive := func(msg string) {
			rec.Inconclusive()
			kit.InconclusiveLine("C09", "%s", msg)
			rt.Skip(msg)
		}
		stats := env.DBC.DbStats.SharedBucketImport()
		keys := make([]string, nDocs)
		type last struct {
			written bool
			del     bool
			body    string
		}
		latest := make([]last, nDocs)
		extWrites, acks := 0, 0
		var log []string
		for d := range keys {
			keys[d] = fmt.Sprintf("doc%d", d)
		}
		for _, st := range steps {
			key := keys[st.doc]
			switch st.kind {
			case "extSet":
				if err := vfC09ExternalSet(env.Ctx, raw, key, vfC09Body(st.body)); err != nil {
					inconclusive("external set: " + err.Error())
				}
				latest[st.doc] = last{written: true, body: vfC09Body(st.body)}
				extWrites++
				log = append(log, fmt.Sprintf("extSet(d%d,%d)", st.doc, st.body))
			case "extDel":
				body, _, _, gerr := raw.GetWithXattrs(env.Ctx, key, []string{base.SyncXattrName})
				if gerr != nil || body == nil {
					continue
				}
				// (the import feed only changes xattrs, so the document is still live here)
				if err := raw.Delete(env.Ctx, key); err != nil {
					inconclusive("Delete: " + err.Error())
				}
				latest[st.doc] = last{written: true, del: true}
				extWrites++
				log = append(log, fmt.Sprintf("extDel(d%d)", st.doc))
			case "gwPut", "gwDel":
				doc, gerr := env.Coll.GetDocument(env.Ctx, key, DocUnmarshalAll)
				b := Body{"x": st.body}
				del := st.kind == "gwDel"
				if del {
					if gerr != nil || doc.IsDeleted() {
						continue
					}
					b = Body{BodyDeleted: true}
				}
				if gerr == nil {
					b[BodyRev] = doc.GetRevTreeID()
				}
				rev, _, perr := env.Coll.Put(env.Ctx, key, b)
				if perr == nil {
					acks++
					latest[st.doc] = last{written: true, del: del, body: vfC09Body(st.body)}
					log = append(log, fmt.Sprintf("%s(d%d,%d)=%s", st.kind, st.doc, st.body, rev))
				} else {
					status, _ := base.ErrorAsHTTPStatus(perr)
					log = append(log, fmt.Sprintf("%s(d%d,%d)=ERR%d", st.kind, st.doc, st.body, status))
				}
			case "gwRead":
				_, _ = env.Coll.GetDocument(env.Ctx, key, DocUnmarshalAll)
				log = append(log, fmt.Sprintf("gwRead(d%d)", st.doc))
			}
			if stats.ImportCount.Value() > int64(extWrites) {
				fail("%d imports after only %d external writes (import loop / own write imported); execution %v", stats.ImportCount.Value(), extWrites, log)
			}
		}
		// quiescence: the import feed has processed every mutation of the documents, including those its own
		// imports produced
		quiesce := func() {
			deadline := time.Now().Add(vfWaitBound)
			for {
				casNow := make([]uint64, nDocs)
				ok := true
				mu.Lock()
				for d, key := range keys {
					_, _, cas, _ := raw.GetWithXattrs(env.Ctx, key, []string{base.SyncXattrName})
					casNow[d] = cas
					if cas != 0 && seenCas[key] < cas {
						ok = false
					}
				}
				n := counted
				mu.Unlock()
				if ok && stats.ImportFeedProcessedCount.Value() >= n {
					stable := true
					mu.Lock()
					if counted != n {
						stable = false
					}
					mu.Unlock()
					for d, key := range keys {
						_, _, cas, _ := raw.GetWithXattrs(env.Ctx, key, []string{base.SyncXattrName})
						if cas != casNow[d] {
							stable = false
						}
					}
					if stable {
						return
					}
				}
				if stats.ImportCount.Value() > int64(extWrites) {
					fail("%d imports after only %d external writes (import loop / own write imported); execution %v", stats.ImportCount.Value(), extWrites, log)
				}
				if time.Now().After(deadline) {
					inconclusive(fmt.Sprintf("import feed did not quiesce within %v (processed %d of %d)", vfWaitBound, stats.ImportFeedProcessedCount.Value(), n))
				}
				time.Sleep(500 * time.Microsecond)
			}
		}
		quiesce()
		type snap struct {
			rev     string
			seq     uint64
			found   bool
			imports int64
		}
		take := func(d int) snap {
			doc, gerr := env.Coll.GetDocument(env.Ctx, keys[d], DocUnmarshalAll)
			if gerr != nil {
				return snap{imports: stats.ImportCount.Value()}
			}
			return snap{rev: doc.GetRevTreeID(), seq: doc.Sequence, found: true, imports: stats.ImportCount.Value()}
		}
		sawImport := stats.ImportCount.Value() > 0
		for d := range keys {
			doc, gerr := env.Coll.GetDocument(env.Ctx, keys[d], DocUnmarshalAll)
			l := latest[d]
			switch {
			case !l.written:
				if gerr == nil {
					fail("%s was never written but the gateway returns revision %s; execution %v", keys[d], doc.GetRevTreeID(), log)
				}
				continue
			case l.del:
				if gerr == nil && !doc.IsDeleted() {
					bb, _ := doc.BodyBytes(env.Ctx)
					fail("%s: the latest write is a delete but the gateway shows live revision %s body %s; execution %v", keys[d], doc.GetRevTreeID(), bb, log)
				}
			default:
				if gerr != nil {
					fail("%s: the latest write is %s but the gateway read fails: %v; execution %v", keys[d], l.body, gerr, log)
				}
				bb, _ := doc.BodyBytes(env.Ctx)
				if doc.IsDeleted() || string(bb) != l.body {
					fail("%s: the latest write is %s but the gateway shows revision %s deleted=%v body %s; execution %v", keys[d], l.body, doc.GetRevTreeID(), doc.IsDeleted(), bb, log)
				}
			}
			if gerr == nil {
				gen, _ := ParseRevID(env.Ctx, doc.GetRevTreeID())
				if len(doc.History) != gen || len(doc.History.GetLeaves()) != 1 {
					fail("%s: history has %d revisions and %d leaves for a current revision of generation %d (imports must extend one chain); execution %v", keys[d], len(doc.History), len(doc.History.GetLeaves()), gen, log)
				}
			}
		}
		quiesce()
		before := make([]snap, nDocs)
		for d := range keys {
			before[d] = take(d)
		}
		for i := 0; i < 2; i++ {
			for d := range keys {
				_ = take(d)
			}
			quiesce()
		}
		for d := range keys {
			after := take(d)
			if after != before[d] {
				fail("%s keeps changing after quiescence: %+v -> %+v (import loop); execution %v", keys[d], before[d], after, log)
			}
		}
		if stats.ImportCount.Value() > int64(extWrites) {
			fail("%d imports after only %d external writes; execution %v", stats.ImportCount.Value(), extWrites, log)
		}
		classes := []string{}
		if sawImport {
			classes = append(classes, "imported")
		}
		if acks > 0 {
			classes = append(classes, "gateway-write-acknowledged")
		}
		rec.Case(render, sawImport && acks > 0, classes...)
	})
}
