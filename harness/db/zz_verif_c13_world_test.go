package db

// C13 — the world that runs every operation against the real gateway and the model side by side,
// the protocol-following pulling client, and the oracle evaluated after every completed pull.

import (
	"fmt"
	"os"
	"strings"
	"testing"
	"time"

	"github.com/couchbase/sync_gateway/auth"
	"github.com/couchbase/sync_gateway/base"
	kit "github.com/couchbase/sync_gateway/verifkit"
)

const vfC13SyncFn = `function(doc, oldDoc, meta) {
	channel(doc.chans);
	if (doc.gu && doc.gc) { access(doc.gu, doc.gc); }
	if (doc.ru && doc.rr) { role(doc.ru, doc.rr); }
}`

const vfC13Client = "u" // the pulling user

type vfC13Replica struct {
	Since SequenceID        // last token received (after the text round trip a real client performs)
	Held  map[string]string // document id -> revision id held
}

// Pos is the plain sequence up to which the replica has certainly been told everything: a token
// inside a back-fill (g:s) resumes the ordinary feeds from g-1.
func (r *vfC13Replica) Pos() uint64 {
	if r.Since.TriggeredBy != 0 && r.Since.Seq < r.Since.TriggeredBy {
		return r.Since.TriggeredBy - 1
	}
	if r.Since.LowSeq != 0 && r.Since.LowSeq < r.Since.Seq {
		return r.Since.LowSeq
	}
	return r.Since.Seq
}

// LowPos is the sequence above which the revocation feed consults grant history instead of revoking
// directly: the plain part of the token.
func (r *vfC13Replica) LowPos() uint64 {
	if p := r.Pos(); p < r.Since.Seq {
		return p
	}
	return r.Since.Seq
}

type vfC13PullStats struct {
	Pages, Rows, Revoked, Removed, Deleted, Backfill, Fetched, NoRev, Stubs int
	InterruptedBackfill                                                     bool // a page ended on a back-fill token
	VisibilityChanged                                                       int  // documents whose visibility or visible revision changed since the previous completed pull
	SpansLossAndRegrant                                                     bool
	UserRows                                                                int
}

type vfC13World struct {
	T   testing.TB
	Env *vfEnv
	M   *vfC13Model
	R   *vfC13Replica
	Ops []string

	lastVisible map[string]string // model-visible set at the previous completed pull
	lastEff     map[string]uint64 // model access at the previous completed pull
	lostSince   map[string]bool   // channels the user had at the previous pull and was without at some point since
	PullStart   uint64            // the replica's position when the current pull started
	AccessOps   []uint64          // sequences of the operations since the previous completed pull that changed the client user's grant sources
	Pulls       []vfC13PullStats

	// AvoidBoundary, when set, is asked after every full page whether a page boundary directly after
	// this last row is a listed known failing shape; if it says yes the page is requested again
	// without a limit (the boundary is not placed there).
	AvoidBoundary func(page []*ChangeEntry) bool

	tWait, tChanges, tDo, tFetch time.Duration // development timing (VERIF_C13_TIMING=1), never decides anything
}

var vfC13Timing = os.Getenv("VERIF_C13_TIMING") != ""
var vfC13Trace = os.Getenv("VERIF_C13_TRACE") != "" // development: print every pull's rows

type vfC13Fail struct{ What string }

func vfC13Open(t testing.TB, defaultCollection bool) (*vfC13World, error) {
	env, err := vfOpen(t, vfDBConfig{DefaultCollection: defaultCollection, SyncFn: vfC13SyncFn})
	if err != nil {
		return nil, err
	}
	w := &vfC13World{T: t, Env: env, M: vfC13NewModel(), R: &vfC13Replica{Held: map[string]string{}},
		lastVisible: map[string]string{}, lastEff: map[string]uint64{}, lostSince: map[string]bool{}}
	w.Ops = append(w.Ops, fmt.Sprintf("open defaultCollection=%v", defaultCollection))
	return w, nil
}

func (w *vfC13World) Close() {
	if vfC13Timing {
		fmt.Printf("C13-TIMING wait=%v changes=%v do=%v pulls=%d ops=%d\n", w.tWait, w.tChanges, w.tDo, len(w.Pulls), len(w.Ops))
	}
	w.Env.Close()
}

func (w *vfC13World) Render() string { return strings.Join(w.Ops, "; ") }

func (w *vfC13World) princConfig(o vfC13Op, isUser, creating bool) *auth.PrincipalConfig {
	name := o.ID
	cfg := &auth.PrincipalConfig{Name: &name}
	if o.SetChans {
		if base.IsDefaultCollection(w.Env.Coll.ScopeName, w.Env.Coll.Name) {
			cfg.ExplicitChannels = base.SetFromArray(o.PChans)
		} else {
			cfg.SetExplicitChannels(w.Env.Coll.ScopeName, w.Env.Coll.Name, o.PChans...)
		}
	}
	if isUser && o.SetRoles {
		cfg.ExplicitRoleNames = base.SetFromArray(o.PRoles)
	}
	if isUser && creating {
		pw := "letmein"
		cfg.Password = &pw
	}
	return cfg
}

// Do executes one non-pull operation against the gateway and the model. A non-nil error is an
// infrastructure problem or a gateway answer the harness did not expect (never a C13 verdict).
func (w *vfC13World) Do(o vfC13Op) error {
	ctx := w.Env.Ctx
	w.Ops = append(w.Ops, o.String())
	t0 := time.Now()
	defer func() { w.tDo += time.Since(t0) }()
	fpBefore := w.M.Fingerprint(vfC13Client)
	defer func() {
		if w.M.Fingerprint(vfC13Client) != fpBefore {
			w.AccessOps = append(w.AccessOps, w.M.Seq)
		}
	}()
	switch o.Kind {
	case "load":
		// a request of the client user that is not a pull (a document fetch): loads the user and the
		// roles assigned right now, which records pending grant-history entries
		coll, user, err := w.Env.AsUser(vfC13Client)
		if err != nil {
			return fmt.Errorf("load: %w", err)
		}
		// what every authorised request of the user does: expand the channels inherited through roles
		if _, err := user.InheritedCollectionChannels(w.Env.Coll.ScopeName, w.Env.Coll.Name); err != nil {
			return fmt.Errorf("load: %w", err)
		}
		for _, id := range vfSortedKeys(w.M.Docs) {
			_, _ = coll.GetRev(ctx, id, "", false, nil) // answered or refused, either is fine here
			break
		}
		w.M.NoteLoad(vfC13Client)
		return nil
	case "put":
		body := Body{"chans": o.Chans}
		if len(o.GU) > 0 && len(o.GC) > 0 {
			body["gu"] = o.GU
			body["gc"] = o.GC
		}
		if len(o.RU) > 0 && len(o.RR) > 0 {
			body["ru"] = o.RU
			body["rr"] = o.RR
		}
		if d := w.M.Docs[o.ID]; d != nil {
			body[BodyRev] = d.Rev
		}
		rev, doc, err := w.Env.Coll.Put(ctx, o.ID, body)
		if err != nil {
			return fmt.Errorf("%s: %w", o, err)
		}
		w.M.Apply(o, doc.Sequence, rev)
		w.Ops[len(w.Ops)-1] += fmt.Sprintf(" -> #%d", doc.Sequence)
	case "del":
		d := w.M.Docs[o.ID]
		if d == nil || d.Deleted {
			return fmt.Errorf("%s: document is not live in the model", o)
		}
		rev, doc, err := w.Env.Coll.Put(ctx, o.ID, Body{BodyDeleted: true, BodyRev: d.Rev})
		if err != nil {
			return fmt.Errorf("%s: %w", o, err)
		}
		w.M.Apply(o, doc.Sequence, rev)
		w.Ops[len(w.Ops)-1] += fmt.Sprintf(" -> #%d", doc.Sequence)
	case "user", "role":
		isUser := o.Kind == "user"
		changes := w.M.WouldChange(o)
		creating := false
		if isUser {
			u := w.M.Users[o.ID]
			creating = u == nil || !u.Exists
		}
		_, princ, err := w.Env.DBC.UpdatePrincipal(ctx, w.princConfig(o, isUser, creating), isUser, true)
		if err != nil {
			return fmt.Errorf("%s: %w", o, err)
		}
		if changes {
			w.M.Apply(o, princ.Sequence(), "")
			w.Ops[len(w.Ops)-1] += fmt.Sprintf(" -> #%d", princ.Sequence())
		} else {
			w.Ops[len(w.Ops)-1] += " -> unchanged"
		}
	case "delrole":
		changes := w.M.WouldChange(o)
		err := w.Env.DBC.DeleteRole(ctx, o.ID, false)
		if changes {
			if err != nil {
				return fmt.Errorf("%s: %w", o, err)
			}
			seq, lerr := w.Env.DBC.sequences.lastSequence(ctx)
			if lerr != nil {
				return kit.InconclusiveErr{Msg: "lastSequence: " + lerr.Error()}
			}
			w.M.Apply(o, seq, "")
			w.Ops[len(w.Ops)-1] += fmt.Sprintf(" -> #%d", seq)
		} else {
			if err == nil {
				return fmt.Errorf("%s: deleting a role that does not exist succeeded", o)
			}
			w.Ops[len(w.Ops)-1] += " -> not found"
		}
	default:
		return fmt.Errorf("Do: unexpected kind %q", o.Kind)
	}
	if o.Kind != "put" && o.Kind != "del" {
		// let the caching feed see every principal sequence before the same principal document is
		// written again (two quick writes of one principal document may reach the feed as one event,
		// and the cache then waits CachePendingSeqMaxWait for the first number)
		tw := time.Now()
		if err := w.Env.WaitCache(); err != nil {
			return err
		}
		w.tWait += time.Since(tw)
		if vfC13Timing && time.Since(tw) > time.Second {
			fmt.Printf("C13-TIMING slow wait after op %v: %s\n", time.Since(tw), w.Render())
		}
	}
	w.noteLosses()
	return nil
}

// noteLosses remembers which channels the client user held at the previous completed pull and has
// been without at some point since (for the "spans a loss and a re-grant" class).
func (w *vfC13World) noteLosses() {
	eff := w.M.Effective(vfC13Client)
	for c := range w.lastEff {
		if _, ok := eff[c]; !ok {
			w.lostSince[c] = true
		}
	}
}

// Pull performs one complete pull: pages of the given limits until a short page. fail != nil is a
// disagreement with the property; err is infrastructure (inconclusive).
func (w *vfC13World) Pull(limits []int) (fail *vfC13Fail, err error) {
	if len(limits) == 0 {
		limits = []int{0}
	}
	w.Ops = append(w.Ops, vfC13Op{Kind: "pull", Limits: limits}.String())
	t0 := time.Now()
	if err := w.Env.WaitCache(); err != nil {
		return nil, err
	}
	w.tWait += time.Since(t0)
	if vfC13Timing && time.Since(t0) > time.Second {
		fmt.Printf("C13-TIMING slow wait %v: %s\n", time.Since(t0), w.Render())
	}
	st := vfC13PullStats{}
	startSince := w.R.Since
	w.PullStart = w.R.LowPos()
	var trace []string
	for page := 0; ; page++ {
		limit := limits[len(limits)-1]
		if page < len(limits) {
			limit = limits[page]
		}
		if page > 200 {
			return &vfC13Fail{What: fmt.Sprintf("pull does not terminate: 200 pages from since=%s, now at %s; rows %s", startSince, w.R.Since, vfJoin(trace))}, nil
		}
		coll, _, uerr := w.Env.AsUser(vfC13Client)
		if uerr != nil {
			return nil, fmt.Errorf("loading user: %w", uerr)
		}
		w.M.NoteLoad(vfC13Client)
		t1 := time.Now()
		rows, cerr := vfChanges(w.Env.Ctx, coll, nil, ChangesOptions{Since: w.R.Since, Limit: limit, Revocations: true})
		w.tChanges += time.Since(t1)
		if cerr != nil {
			if vfIsInconclusive(cerr) {
				return nil, cerr
			}
			return &vfC13Fail{What: fmt.Sprintf("changes request since=%s limit=%d failed: %v", w.R.Since, limit, cerr)}, nil
		}
		st.Pages++
		trace = append(trace, fmt.Sprintf("|since=%s limit=%d:", w.R.Since, limit))
		if limit > 0 && len(rows) > limit {
			return &vfC13Fail{What: fmt.Sprintf("changes request since=%s limit=%d returned %d rows", w.R.Since, limit, len(rows))}, nil
		}
		if limit > 0 && len(rows) == limit && w.AvoidBoundary != nil && w.AvoidBoundary(rows) {
			trace = append(trace, "(boundary after "+vfC13RowString(rows[len(rows)-1])+" avoided: page requested again without limit)")
			limit = 0
			rows, cerr = vfChanges(w.Env.Ctx, coll, nil, ChangesOptions{Since: w.R.Since, Limit: 0, Revocations: true})
			if cerr != nil {
				if vfIsInconclusive(cerr) {
					return nil, cerr
				}
				return &vfC13Fail{What: fmt.Sprintf("changes request since=%s limit=0 failed: %v", w.R.Since, cerr)}, nil
			}
		}
		for i, row := range rows {
			trace = append(trace, vfC13RowString(row))
			// C20's listing-order clause on every response, back-fill and revocation rows included
			if i > 0 && !rows[i-1].Seq.Before(row.Seq) {
				return &vfC13Fail{What: fmt.Sprintf("rows of one response are not strictly increasing: %s then %s; rows %s", rows[i-1].Seq, row.Seq, vfJoin(trace))}, nil
			}
			st.Rows++
			if f := w.applyRow(coll, row, &st); f != nil {
				f.What += "; rows " + vfJoin(trace)
				return f, nil
			}
			// the client stores the token as text and sends it back as text
			tok, perr := ParsePlainSequenceID(row.Seq.String())
			if perr != nil {
				return &vfC13Fail{What: fmt.Sprintf("token %q of a row cannot be parsed back: %v", row.Seq.String(), perr)}, nil
			}
			w.R.Since = tok
		}
		if limit == 0 || len(rows) < limit {
			break
		}
		if w.R.Since.TriggeredBy != 0 && w.R.Since.Seq < w.R.Since.TriggeredBy {
			st.InterruptedBackfill = true
		}
	}
	if vfC13Trace {
		fmt.Printf("SCRIPT-TRACE pull from %s: %s\nSCRIPT-TRACE   %s\n", startSince, vfJoin(trace), w.gatewayView())
	}
	// ---- oracle: the completed pull
	want := w.M.VisibleSet(vfC13Client)
	for id, rev := range w.lastVisible {
		if want[id] != rev {
			st.VisibilityChanged++
		}
	}
	for id := range want {
		if _, ok := w.lastVisible[id]; !ok {
			st.VisibilityChanged++
		}
	}
	eff := w.M.Effective(vfC13Client)
	for c := range w.lostSince {
		if _, ok := eff[c]; ok {
			st.SpansLossAndRegrant = true
		}
	}
	w.Pulls = append(w.Pulls, st)
	var diffs []string
	for _, id := range vfSortedKeys(w.M.Docs) {
		held, isHeld := w.R.Held[id]
		rev, vis := want[id]
		switch {
		case vis && !isHeld:
			diffs = append(diffs, fmt.Sprintf("%s is visible to the user (rev %s) but the client does not hold it", id, rev))
		case !vis && isHeld:
			diffs = append(diffs, fmt.Sprintf("the client still holds %s (rev %s) which the user cannot see any more and was never told to drop", id, held))
		case vis && isHeld && held != rev:
			diffs = append(diffs, fmt.Sprintf("the client holds %s at rev %s, the current revision is %s", id, held, rev))
		}
	}
	for id := range w.R.Held {
		if w.M.Docs[id] == nil {
			diffs = append(diffs, fmt.Sprintf("the client holds %s which was never written", id))
		}
	}
	if len(diffs) > 0 {
		var ds []string
		for _, d := range diffs {
			ds = append(ds, d)
		}
		detail := []string{w.M.DescribeAccess(vfC13Client)}
		for _, id := range vfSortedKeys(w.M.Docs) {
			detail = append(detail, w.M.DescribeDoc(id))
		}
		detail = append(detail, "gateway view: "+w.gatewayView())
		return &vfC13Fail{What: fmt.Sprintf("after the completed pull from since=%s (now %s): %s. client holds %s, model-visible %s. %s; rows %s",
			startSince, w.R.Since, strings.Join(ds, "; "), vfC13RenderHeld(w.R.Held), vfC13RenderHeld(want), strings.Join(detail, " | "), vfJoin(trace))}, nil
	}
	w.lastVisible = want
	w.lastEff = eff
	w.lostSince = map[string]bool{}
	w.AccessOps = nil
	return nil, nil
}

func vfC13RowString(e *ChangeEntry) string {
	s := e.Seq.String() + ":" + e.ID
	if len(e.Changes) > 0 {
		r := e.Changes[0][ChangesVersionTypeRevTreeID]
		if i := strings.IndexByte(r, '-'); i > 0 {
			r = r[:i]
		}
		s += "@" + r
	}
	if e.Deleted {
		s += ",deleted"
	}
	if len(e.Removed) > 0 {
		s += ",removed=" + vfJoin(e.Removed.ToArray())
		if e.allRemoved {
			s += "(all)"
		}
	}
	if e.Revoked {
		s += ",revoked"
	}
	return s
}

// applyRow is what a protocol-following client (purge on removal enabled) does with one row.
func (w *vfC13World) applyRow(coll *DatabaseCollectionWithUser, row *ChangeEntry, st *vfC13PullStats) *vfC13Fail {
	if strings.HasPrefix(row.ID, "_user/") {
		st.UserRows++
		return nil
	}
	if row.Seq.TriggeredBy != 0 && row.Seq.Seq < row.Seq.TriggeredBy && !row.Revoked {
		st.Backfill++
	}
	rev := ""
	if len(row.Changes) > 0 {
		rev = row.Changes[0][ChangesVersionTypeRevTreeID]
	}
	if row.Revoked {
		st.Revoked++
		// "no revocation is sent for a document the user can still see"
		if w.M.Visible(vfC13Client, row.ID) {
			return &vfC13Fail{What: fmt.Sprintf("revocation row %s for a document the user can still see (%s; %s)", vfC13RowString(row), w.M.DescribeDoc(row.ID), w.M.DescribeAccess(vfC13Client))}
		}
		// "a revoked document can no longer be fetched"
		if got, err := coll.GetRev(w.Env.Ctx, row.ID, "", false, nil); err == nil {
			return &vfC13Fail{What: fmt.Sprintf("document %s was announced as revoked (%s) but the user can still fetch it: rev %s body %s", row.ID, vfC13RowString(row), got.RevID, got.BodyBytes)}
		}
		if d := w.M.Docs[row.ID]; d != nil && d.Rev == rev {
			if got, err := coll.GetRev(w.Env.Ctx, row.ID, rev, false, nil); err == nil && !got.Deleted && string(got.BodyBytes) != RemovedRedactedDocument {
				return &vfC13Fail{What: fmt.Sprintf("document %s was announced as revoked (%s) but the user can still fetch revision %s: body %s", row.ID, vfC13RowString(row), rev, got.BodyBytes)}
			}
		}
		delete(w.R.Held, row.ID)
		return nil
	}
	if row.allRemoved {
		st.Removed++
		delete(w.R.Held, row.ID)
		return nil
	}
	if row.Deleted {
		st.Deleted++
		delete(w.R.Held, row.ID)
		return nil
	}
	if rev == "" {
		return &vfC13Fail{What: fmt.Sprintf("row %s carries no revision", vfC13RowString(row))}
	}
	got, err := coll.GetRev(w.Env.Ctx, row.ID, rev, true, nil)
	if err != nil {
		st.NoRev++ // answered with norev: the client keeps what it has
		return nil
	}
	switch {
	case got.Deleted:
		st.Deleted++
		delete(w.R.Held, row.ID)
	case string(got.BodyBytes) == RemovedRedactedDocument:
		st.Stubs++
		delete(w.R.Held, row.ID)
	default:
		st.Fetched++
		w.R.Held[row.ID] = got.RevID
	}
	return nil
}

// gatewayView: what the user can fetch right now (diagnosis only — tells an access-computation
// disagreement from a feed disagreement).
func (w *vfC13World) gatewayView() string {
	coll, user, err := w.Env.AsUser(vfC13Client)
	if err != nil {
		return "user cannot be loaded: " + err.Error()
	}
	can := map[string]string{}
	for id := range w.M.Docs {
		if got, err := coll.GetRev(w.Env.Ctx, id, "", false, nil); err == nil {
			can[id] = got.RevID
		}
	}
	chs, _ := user.InheritedCollectionChannels(w.Env.Coll.ScopeName, w.Env.Coll.Name)
	hist := func(h auth.TimedSetHistory) string {
		var parts []string
		for _, k := range vfSortedKeys(h) {
			var es []string
			for _, e := range h[k].Entries {
				es = append(es, fmt.Sprintf("%d-%d", e.StartSeq, e.EndSeq))
			}
			parts = append(parts, k+":"+strings.Join(es, ","))
		}
		return vfJoin(parts)
	}
	out := fmt.Sprintf("user can fetch %s, channels %s, roles %s, recorded channel history %s, role history %s", vfC13RenderHeld(can), chs.String(), user.RoleNames().String(),
		hist(user.CollectionChannelHistory(w.Env.Coll.ScopeName, w.Env.Coll.Name)), hist(user.RoleHistory()))
	for _, rn := range vfC13RoleIDs {
		if role, _ := w.Env.DBC.Authenticator(w.Env.Ctx).GetRoleIncDeleted(rn); role != nil {
			out += fmt.Sprintf(", role %s (deleted=%v) channels %s history %s", rn, role.IsDeleted(), role.CollectionChannels(w.Env.Coll.ScopeName, w.Env.Coll.Name).String(),
				hist(role.CollectionChannelHistory(w.Env.Coll.ScopeName, w.Env.Coll.Name)))
		}
	}
	return out
}
