package db

// C11 (part 1) — smoke test and differential check of the shared fault-injecting store (verifstore).
// Injected into package db by the /verif driver (build overlay); never part of /repo.

import (
	"context"
	"errors"
	"fmt"
	"strings"
	"testing"

	sgbucket "github.com/couchbase/sg-bucket"
	"github.com/couchbase/sync_gateway/auth"
	"github.com/couchbase/sync_gateway/base"
	kit "github.com/couchbase/sync_gateway/verifkit"
	vs "github.com/couchbase/sync_gateway/verifstore"
	"pgregory.net/rapid"
)

// vfC11Open opens a database over the fault store.
func vfC11Open(t testing.TB, cfg vfDBConfig) (*vfEnv, *vs.Bucket, error) {
	var w *vs.Bucket
	cfg.WrapBucket = func(b base.Bucket) base.Bucket {
		w = vs.Wrap(b)
		return w
	}
	env, err := vfOpen(t, cfg)
	if err != nil {
		return nil, nil, err
	}
	return env, w, nil
}

func TestVerif_C11_StoreSmoke(t *testing.T) {
	rec := kit.New("C11", "StoreSmoke")
	defer rec.Flush()
	fail := func(format string, args ...any) {
		kit.Violation(t, "C11", "StoreSmoke", "smoke", format, args...)
	}
	env, w, err := vfC11Open(t, vfDBConfig{})
	if err != nil {
		t.Fatalf("open: %v", err)
	}
	defer env.Close()
	restore := SuspendSequenceBatching()
	defer restore()
	mctx := vs.Mark(env.Ctx)

	w.Arm(nil)
	rev1, _, err := env.Coll.Put(mctx, "d1", Body{"v": 1, "channels": []string{"A"}})
	if err != nil {
		fail("Put: %v", err)
	}
	tr := w.MarkedTrace()
	t.Logf("create trace: %s", vs.Render(tr))
	t.Logf("all: %s", vs.Render(w.Trace()))
	shape := vs.Shape(tr)
	if !strings.HasPrefix(shape, "GetWithXattrs d1, Incr ") || !strings.HasSuffix(shape, "WriteWithXattrs d1") {
		fail("unexpected trace of a first Put: %s", shape)
	}

	// fail the WriteWithXattrs of an update
	pre, err := w.Snapshot(env.Ctx)
	if err != nil {
		t.Fatalf("snapshot: %v", err)
	}
	w.Arm(&vs.Plan{Rules: []vs.Rule{{Type: vs.OpWriteWithXattrs, Key: "d1", Fault: vs.Fault{Action: vs.FailBefore}}}})
	_, _, err = env.Coll.Put(mctx, "d1", Body{"v": 2, BodyRev: rev1, "channels": []string{"A"}})
	t.Logf("failed update trace: %s (err %v)", vs.Render(w.MarkedTrace()), err)
	if !vs.IsInjected(err) {
		fail("update with failing WriteWithXattrs returned %v", err)
	}
	w.Disarm()
	post, err := w.Snapshot(env.Ctx)
	if err != nil {
		t.Fatalf("snapshot: %v", err)
	}
	diff := vs.DiffSnapshots(pre, post, nil)
	t.Logf("diff after failed update:\n%s", strings.Join(diff, "\n"))
	doc, err := env.Coll.GetDocument(env.Ctx, "d1", DocUnmarshalAll)
	if err != nil || doc.GetRevTreeID() != rev1 {
		fail("after failed update: doc rev %v err %v, want %s", doc, err, rev1)
	}
	sawUnused := false
	for _, d := range diff {
		if strings.Contains(d, "unusedSeq:") && strings.HasPrefix(d, "+ ") {
			sawUnused = true
		}
	}
	if !sawUnused {
		fail("failed update did not produce an unused-sequence document: %v", diff)
	}

	// update, delete, user create through marked contexts; changes feed still works
	w.Arm(nil)
	rev2, _, err := env.Coll.Put(mctx, "d1", Body{"v": 2, BodyRev: rev1, "channels": []string{"A"}})
	if err != nil {
		fail("update: %v", err)
	}
	t.Logf("update trace: %s", vs.Render(w.MarkedTrace()))
	w.ResetTrace()
	_, _, err = env.Coll.DeleteDoc(mctx, "d1", DocVersion{RevTreeID: rev2})
	if err != nil {
		fail("delete: %v", err)
	}
	t.Logf("delete trace: %s", vs.Render(w.MarkedTrace()))
	w.ResetTrace()
	_, _, err = env.Coll.Put(mctx, "d2", Body{"v": 1, "channels": []string{"A"}})
	if err != nil {
		fail("put d2: %v", err)
	}
	w.ResetTrace()
	name := "alice"
	pw := "letmein"
	_, _, err = env.DBC.UpdatePrincipal(mctx, &auth.PrincipalConfig{Name: &name, Password: &pw, ExplicitChannels: base.SetOf("A")}, true, true)
	if err != nil {
		fail("user create: %v", err)
	}
	t.Logf("user create trace: %s", vs.Render(w.MarkedTrace()))
	if err := env.WaitCache(); err != nil {
		t.Fatalf("wait: %v", err)
	}
	rows, err := vfChanges(env.Ctx, env.Coll, nil, ChangesOptions{})
	if err != nil {
		fail("changes: %v", err)
	}
	var ids []string
	for _, r := range rows {
		ids = append(ids, fmt.Sprintf("%s@%v", r.ID, r.Seq))
	}
	t.Logf("changes: %v", ids)
	if len(rows) < 2 {
		fail("changes feed over the wrapper returned %v", ids)
	}
	// server-faithful delete
	ds := env.DBC.MetadataStore
	if err := ds.SetRaw(env.Ctx, "vfk", 0, nil, []byte(`{"a":1}`)); err != nil {
		t.Fatalf("setraw: %v", err)
	}
	if err := ds.Delete(env.Ctx, "vfk"); err != nil {
		fail("first delete: %v", err)
	}
	if err := ds.Delete(env.Ctx, "vfk"); !base.IsDocNotFoundError(err) {
		fail("second delete returned %v, want not found", err)
	}
	if err := ds.Delete(env.Ctx, "vf-never"); !base.IsDocNotFoundError(err) {
		fail("delete of missing key returned %v, want not found", err)
	}
	rec.Case("smoke", true)
}

// ---------------------------------------------------------------------------------------------
// Differential check of the wrapper against raw rosmar: the same generated sequence of primitive and
// composite calls (including callbacks that race a write into the read -> CAS window, stale CAS values,
// tombstones, resurrections, `previous` documents) is applied to a raw rosmar collection and to the
// wrapper without a plan; results, what the callbacks saw, and the final bucket contents must agree
// (CAS values excluded). This is what keeps the re-implemented Update / WriteUpdateWithXattrs loops
// faithful.

type vfC11Side struct {
	name string
	ds   sgbucket.DataStore // raw *rosmar.Collection or *vs.DataStore
	raw  sgbucket.DataStore // always the raw collection of the same bucket (for racing writes)
	cas  map[string]uint64  // last CAS this side learned per key
	old  map[string]uint64  // an older CAS per key
	log  []string
}

func vfC11ErrClass(err error) string {
	var missing sgbucket.MissingError
	var xmissing sgbucket.XattrMissingError
	switch {
	case err == nil:
		return "ok"
	case errors.As(err, &missing):
		return "missing"
	case errors.As(err, &xmissing):
		return "xattr-missing"
	case base.IsCasMismatch(err):
		return "cas"
	case errors.Is(err, sgbucket.ErrKeyExists):
		return "exists"
	}
	return "err(" + err.Error() + ")"
}

func vfC11XattrStr(x map[string][]byte) string {
	var parts []string
	for _, k := range vfSortedKeys(x) {
		parts = append(parts, k+"="+string(x[k]))
	}
	return "{" + strings.Join(parts, ",") + "}"
}

func (s *vfC11Side) learn(k string, cas uint64) {
	if cas != 0 && cas != s.cas[k] {
		s.old[k] = s.cas[k]
		s.cas[k] = cas
	}
}

func (s *vfC11Side) pickCas(k string, kind int) uint64 {
	switch kind {
	case 0:
		return 0
	case 1:
		return s.cas[k]
	case 2:
		return s.old[k]
	}
	return 12345 // never valid
}

type vfC11StoreOp struct {
	kind    string
	key     string
	casKind int
	body    string
	xval    string
	variant int
	race    bool
}

func (o vfC11StoreOp) String() string {
	return fmt.Sprintf("%s(%s cas=%d body=%s x=%s v=%d race=%v)", o.kind, o.key, o.casKind, o.body, o.xval, o.variant, o.race)
}

var vfC11XattrKeys = []string{base.SyncXattrName, "_vv", "ux", base.VirtualXattrRevSeqNo}

const vfC11AbsExp = uint32(4000000000)

func (s *vfC11Side) apply(ctx context.Context, o vfC11StoreOp) string {
	k := o.key
	ds := s.ds
	switch o.kind {
	case "GetRaw":
		v, cas, err := ds.GetRaw(ctx, k)
		s.learn(k, cas)
		return fmt.Sprintf("%s %s cas0=%v", vfC11ErrClass(err), v, cas == 0)
	case "GetWithXattrs":
		v, x, cas, err := ds.GetWithXattrs(ctx, k, vfC11XattrKeys)
		s.learn(k, cas)
		return fmt.Sprintf("%s %s %s cas0=%v", vfC11ErrClass(err), v, vfC11XattrStr(x), cas == 0)
	case "GetXattrs":
		x, cas, err := ds.GetXattrs(ctx, k, vfC11XattrKeys[:3])
		return fmt.Sprintf("%s %s cas0=%v", vfC11ErrClass(err), vfC11XattrStr(x), cas == 0)
	case "SetRaw":
		var opts *sgbucket.UpsertOptions
		if o.variant == 1 {
			opts = &sgbucket.UpsertOptions{PreserveExpiry: true}
		}
		exp := uint32(0)
		if o.variant == 2 {
			exp = vfC11AbsExp
		}
		return vfC11ErrClass(ds.SetRaw(ctx, k, exp, opts, []byte(o.body)))
	case "AddRaw":
		added, err := ds.AddRaw(ctx, k, 0, []byte(o.body))
		return fmt.Sprintf("%s %v", vfC11ErrClass(err), added)
	case "Delete":
		return vfC11ErrClass(ds.Delete(ctx, k))
	case "Remove":
		cas, err := ds.Remove(ctx, k, s.pickCas(k, o.casKind))
		s.learn(k, cas)
		return vfC11ErrClass(err)
	case "WriteCas":
		var v any = []byte(o.body)
		if o.variant == 1 {
			v = map[string]any{"m": o.body}
		}
		var opt sgbucket.WriteOptions
		if o.variant == 2 {
			opt = sgbucket.AddOnly
		}
		cas, err := ds.WriteCas(ctx, k, 0, s.pickCas(k, o.casKind), v, opt)
		s.learn(k, cas)
		return fmt.Sprintf("%s cas0=%v", vfC11ErrClass(err), cas == 0)
	case "Incr":
		n, err := ds.Incr(ctx, "ctr", uint64(o.variant), 1, 0)
		return fmt.Sprintf("%s %d", vfC11ErrClass(err), n)
	case "Touch":
		_, err := ds.Touch(ctx, k, vfC11AbsExp+uint32(o.variant))
		return vfC11ErrClass(err)
	case "WriteWithXattrs":
		x := map[string][]byte{base.SyncXattrName: []byte(o.xval)}
		if o.variant == 1 {
			x["ux"] = []byte(`{"u":1}`)
		}
		var del []string
		if o.variant == 2 {
			del = []string{"ux"}
		}
		var body []byte
		if o.body != "" {
			body = []byte(o.body)
		}
		cas, err := ds.WriteWithXattrs(ctx, k, 0, s.pickCas(k, o.casKind), body, x, del, &sgbucket.MutateInOptions{})
		s.learn(k, cas)
		return fmt.Sprintf("%s cas0=%v", vfC11ErrClass(err), cas == 0)
	case "WriteTombstoneWithXattrs":
		x := map[string][]byte{base.SyncXattrName: []byte(o.xval)}
		cas, err := ds.WriteTombstoneWithXattrs(ctx, k, 0, s.pickCas(k, o.casKind), x, nil, o.variant == 1, &sgbucket.MutateInOptions{})
		s.learn(k, cas)
		return fmt.Sprintf("%s cas0=%v", vfC11ErrClass(err), cas == 0)
	case "WriteResurrectionWithXattrs":
		x := map[string][]byte{base.SyncXattrName: []byte(o.xval)}
		cas, err := ds.WriteResurrectionWithXattrs(ctx, k, 0, []byte(o.body), x, &sgbucket.MutateInOptions{})
		s.learn(k, cas)
		return fmt.Sprintf("%s cas0=%v", vfC11ErrClass(err), cas == 0)
	case "SetXattrs":
		cas, err := ds.SetXattrs(ctx, k, map[string][]byte{"ux": []byte(o.xval)})
		s.learn(k, cas)
		return vfC11ErrClass(err)
	case "UpdateXattrs":
		cas, err := ds.UpdateXattrs(ctx, k, 0, s.pickCas(k, o.casKind), map[string][]byte{base.SyncXattrName: []byte(o.xval)}, &sgbucket.MutateInOptions{})
		s.learn(k, cas)
		return vfC11ErrClass(err)
	case "RemoveXattrs":
		return vfC11ErrClass(ds.RemoveXattrs(ctx, k, []string{"ux"}, s.pickCas(k, o.casKind)))
	case "DeleteWithXattrs":
		return vfC11ErrClass(ds.DeleteWithXattrs(ctx, k, []string{base.SyncXattrName}))
	case "DeleteSubDocPaths":
		return vfC11ErrClass(ds.DeleteSubDocPaths(ctx, k, base.SyncXattrName+".a"))
	case "SubdocInsert":
		return vfC11ErrClass(ds.SubdocInsert(ctx, k, "ins", s.pickCas(k, o.casKind%2), o.variant))
	case "WriteSubDoc":
		cas, err := ds.WriteSubDoc(ctx, k, "sub", s.pickCas(k, o.casKind%2), []byte(o.xval))
		s.learn(k, cas)
		return vfC11ErrClass(err)
	case "Update":
		calls := 0
		var seen []string
		cas, err := ds.Update(ctx, k, 0, func(cur []byte) ([]byte, *uint32, bool, error) {
			calls++
			seen = append(seen, string(cur))
			if o.race && calls == 1 {
				_ = s.raw.SetRaw(ctx, k, 0, nil, []byte(`{"raced":true}`))
			}
			switch o.variant {
			case 0:
				return []byte(o.body), nil, false, nil
			case 1:
				return nil, nil, false, nil // cancel
			case 2:
				return nil, nil, true, nil // delete
			case 3:
				e := vfC11AbsExp
				return nil, &e, false, nil // expiry only
			case 4:
				return nil, nil, false, base.ErrUpdateCancel
			case 5:
				if calls == 1 {
					return nil, nil, false, sgbucket.ErrCasFailureShouldRetry
				}
				return []byte(o.body), nil, false, nil
			}
			if cur == nil {
				return nil, nil, false, base.ErrUpdateCancel
			}
			return []byte(o.body), nil, false, nil
		})
		s.learn(k, cas)
		return fmt.Sprintf("%s cas0=%v saw=%q", vfC11ErrClass(err), cas == 0, seen)
	case "WriteUpdateWithXattrs":
		calls := 0
		var seen []string
		var previous *sgbucket.BucketDocument
		if o.casKind > 0 {
			// the caller supplies what it read earlier (current, stale or "nothing")
			b, x, c, gerr := s.raw.GetWithXattrs(ctx, k, vfC11XattrKeys[:3])
			if gerr == nil || c != 0 {
				previous = &sgbucket.BucketDocument{Body: b, Xattrs: x, Cas: c}
				if o.casKind == 2 {
					_ = s.raw.SetRaw(ctx, k, 0, nil, []byte(`{"stale":true}`))
				}
			} else if o.casKind == 3 {
				previous = &sgbucket.BucketDocument{}
			}
		}
		opts := &sgbucket.MutateInOptions{}
		cas, err := ds.WriteUpdateWithXattrs(ctx, k, vfC11XattrKeys, 0, previous, opts, func(cur []byte, xattrs map[string][]byte, cas uint64) (sgbucket.UpdatedDoc, error) {
			calls++
			seen = append(seen, fmt.Sprintf("%s %s cas0=%v", cur, vfC11XattrStr(xattrs), cas == 0))
			if o.race && calls == 1 {
				if o.variant%2 == 0 {
					_ = s.raw.SetRaw(ctx, k, 0, nil, []byte(`{"raced":true}`))
				} else {
					_ = s.raw.Delete(ctx, k)
				}
			}
			upd := sgbucket.UpdatedDoc{Doc: []byte(o.body), Xattrs: map[string][]byte{base.SyncXattrName: []byte(o.xval)}}
			switch o.variant {
			case 1:
				upd.IsTombstone = true
				upd.Doc = nil
			case 2:
				e := vfC11AbsExp
				upd.Expiry = &e
			case 3:
				upd.Spec = []sgbucket.MacroExpansionSpec{sgbucket.NewMacroExpansionSpec(base.SyncXattrName+".crc", sgbucket.MacroCrc32c)}
			case 4:
				return upd, base.ErrUpdateCancel
			case 5:
				if calls == 1 {
					return upd, sgbucket.ErrCasFailureShouldRetry
				}
			case 6:
				if xattrs["ux"] != nil {
					upd.XattrsToDelete = []string{"ux"}
				}
			case 7:
				upd.Doc = nil // xattr-only update
			}
			return upd, nil
		})
		s.learn(k, cas)
		return fmt.Sprintf("%s cas0=%v calls=%d saw=%q macros=%d", vfC11ErrClass(err), cas == 0, calls, seen, len(opts.MacroExpansion))
	}
	return "unknown op"
}

func vfC11GenStoreOp(rt *rapid.T) vfC11StoreOp {
	kinds := []string{"GetRaw", "GetWithXattrs", "GetXattrs", "SetRaw", "AddRaw", "Delete", "Remove", "WriteCas", "Incr", "Touch",
		"WriteWithXattrs", "WriteTombstoneWithXattrs", "WriteResurrectionWithXattrs", "SetXattrs", "UpdateXattrs", "RemoveXattrs",
		"DeleteWithXattrs", "DeleteSubDocPaths", "SubdocInsert", "WriteSubDoc",
		"Update", "Update", "Update", "WriteUpdateWithXattrs", "WriteUpdateWithXattrs", "WriteUpdateWithXattrs", "WriteUpdateWithXattrs", "WriteUpdateWithXattrs"}
	o := vfC11StoreOp{
		kind:    rapid.SampledFrom(kinds).Draw(rt, "kind"),
		key:     rapid.SampledFrom([]string{"k0", "k1"}).Draw(rt, "key"),
		casKind: rapid.IntRange(0, 3).Draw(rt, "cas"),
		variant: rapid.IntRange(0, 7).Draw(rt, "variant"),
		race:    rapid.IntRange(0, 3).Draw(rt, "race") == 0,
	}
	n := rapid.IntRange(0, 9).Draw(rt, "n")
	o.body = fmt.Sprintf(`{"b":%d}`, n)
	o.xval = fmt.Sprintf(`{"a":%d,"s":"x%d"}`, n, n)
	if o.kind == "WriteWithXattrs" && rapid.IntRange(0, 4).Draw(rt, "nobody") == 0 {
		o.body = ""
	}
	return o
}

func TestVerif_C11_StoreDiff(t *testing.T) {
	rec := kit.New("C11", "StoreDiff")
	defer rec.Flush()
	ctx := base.TestCtx(t)
	tbA := base.GetTestBucket(t)
	defer tbA.Close(ctx)
	tbB := base.GetTestBucket(t)
	defer tbB.Close(ctx)
	wB := vs.Wrap(tbB)
	wA := vs.Wrap(tbA) // only used for its Snapshot; traffic on side A goes to the raw collection
	wB.SetServerFaithfulDelete(false)
	caseNo := 0
	rapid.Check(t, func(rt *rapid.T) {
		caseNo++
		// a fresh collection pair per case would cost a bucket each; use a fresh key space instead
		prefix := fmt.Sprintf("c%d_", caseNo)
		rawA := tbA.DefaultDataStore(ctx)
		rawB := tbB.DefaultDataStore(ctx)
		a := &vfC11Side{name: "rosmar", ds: rawA, raw: rawA, cas: map[string]uint64{}, old: map[string]uint64{}}
		b := &vfC11Side{name: "wrapper", ds: wB.DefaultDataStore(ctx), raw: rawB, cas: map[string]uint64{}, old: map[string]uint64{}}
		mark := rapid.Bool().Draw(rt, "marked")
		bctx := ctx
		if mark {
			bctx = vs.Mark(ctx)
			wB.Arm(nil)
		}
		n := rapid.IntRange(1, 14).Draw(rt, "nops")
		var ops []string
		composite, retried := false, false
		for i := 0; i < n; i++ {
			o := vfC11GenStoreOp(rt)
			o.key = prefix + o.key
			ops = append(ops, o.String())
			var ra, rb string
			kit.Guard(rt, "C11", "StoreDiff", func() string { return strings.Join(ops, "; ") }, func() {
				ra = a.apply(ctx, o)
				rb = b.apply(bctx, o)
			})
			if ra != rb {
				kit.Violation(rt, "C11", "StoreDiff", strings.Join(ops, "; "), "harness fidelity: raw rosmar answered %q, the wrapper %q", ra, rb)
			}
			if o.kind == "Update" || o.kind == "WriteUpdateWithXattrs" {
				composite = true
				if strings.Contains(ra, "calls=2") || strings.Contains(ra, `" "`) {
					retried = true
				}
			}
		}
		sa, err := wA.Snapshot(ctx)
		if err != nil {
			rt.Fatalf("snapshot: %v", err)
		}
		sb, err := wB.Snapshot(ctx)
		if err != nil {
			rt.Fatalf("snapshot: %v", err)
		}
		strip := func(s *vs.BucketSnapshot) *vs.BucketSnapshot {
			out := &vs.BucketSnapshot{}
			for _, d := range s.Docs {
				if d.Store == "_default._default" && (strings.HasPrefix(d.Key, prefix) || d.Key == "ctr") {
					out.Docs = append(out.Docs, d)
				}
			}
			return out
		}
		if diff := vs.DiffSnapshots(strip(sa), strip(sb), func(d vs.Doc) bool { return d.Key == "ctr" }); len(diff) > 0 {
			kit.Violation(rt, "C11", "StoreDiff", strings.Join(ops, "; "), "harness fidelity: bucket contents differ (- raw rosmar, + wrapper):\n%s", strings.Join(diff, "\n"))
		}
		classes := []string{}
		if composite {
			classes = append(classes, "class=composite")
		}
		if retried {
			classes = append(classes, "class=retried")
		}
		if mark {
			classes = append(classes, "class=marked")
		}
		rec.Case(strings.Join(ops, "; "), retried, classes...)
	})
}
