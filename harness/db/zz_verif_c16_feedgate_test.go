package db

// C16 "feedgate" variant: REAL databases, the REAL caching feed (DocChanged), and a revision cache
// built by NewRevisionCache over a backing store that delegates to the real collection but can park
// a load after its document read. Schedule: a Get / GetActive of document X is parked holding the
// OLD document; an external metadata-only channel change (user xattr write) is imported and comes
// through the mutation feed of the reading node; the loader is released; X is read through the
// cache: the channel set served must be the new one. The reading node is either the importing
// node itself or a second database context on the same bucket that only observes the feed.

import (
	"context"
	"fmt"
	"sort"
	"strings"
	"testing"
	"time"

	"github.com/couchbase/sync_gateway/auth"
	"github.com/couchbase/sync_gateway/base"
	kit "github.com/couchbase/sync_gateway/verifkit"
	"pgregory.net/rapid"
)

// vfC16GatedStore delegates to the real collection; a read whose context carries a *vfC16Load parks
// after the document read (gate 1) or before the revision is taken from it (gate 2).
type vfC16GatedStore struct{ real *DatabaseCollection }

func (g *vfC16GatedStore) GetDocument(ctx context.Context, docid string, unmarshalLevel DocumentUnmarshalLevel) (*Document, error) {
	doc, err := g.real.GetDocument(ctx, docid, unmarshalLevel)
	if ld := vfC16LoadOf(ctx); ld != nil && !ld.park(1) {
		return nil, ld.injErr
	}
	return doc, err
}

func (g *vfC16GatedStore) getRevision(ctx context.Context, doc *Document, revid string) ([]byte, AttachmentsMeta, base.Set, error) {
	if ld := vfC16LoadOf(ctx); ld != nil && !ld.park(2) {
		return nil, nil, nil, ld.injErr
	}
	return g.real.getRevision(ctx, doc, revid)
}

func (g *vfC16GatedStore) getCurrentVersion(ctx context.Context, doc *Document, cv Version, loadBackup bool) ([]byte, AttachmentsMeta, base.Set, bool, error) {
	if ld := vfC16LoadOf(ctx); ld != nil && !ld.park(2) {
		return nil, nil, nil, false, ld.injErr
	}
	return g.real.getCurrentVersion(ctx, doc, cv, loadBackup)
}

// vfC16InstallGatedCache replaces the database's revision cache (before any document exists).
func vfC16InstallGatedCache(dbc *DatabaseContext, shards int) {
	stores := map[uint32]RevisionCacheBackingStore{}
	for id, c := range dbc.CollectionByID {
		stores[id] = &vfC16GatedStore{real: c}
	}
	opts := &RevisionCacheOptions{MaxItemCount: uint32(50 * shards), ShardCount: uint16(shards)}
	dbc.revisionCache = NewRevisionCache(opts, stores, dbc.DbStats.Cache(), dbc.DbStats.DeltaSync(), false)
}

// vfC16OpenObserver opens a second database context (no auto-import) on the bucket of env.
func vfC16OpenObserver(t *testing.T, env *vfEnv, syncFn string) (obs *vfEnv, err error) {
	defer func() {
		if p := recover(); p != nil {
			err = fmt.Errorf("panic while opening observer database: %v", p)
		}
	}()
	opts := vfProductOptions()
	AddOptionsFromEnvironmentVariables(&opts)
	opts.Scopes = env.DBC.Options.Scopes
	opts.UserXattrKey = env.DBC.Options.UserXattrKey
	tb := env.Bucket.NoCloseClone()
	ctx := base.TestCtx(t)
	dbc, err := NewDatabaseContext(ctx, env.DBC.Name, tb, false, opts)
	if err != nil {
		return nil, fmt.Errorf("NewDatabaseContext (observer): %w", err)
	}
	ctx = dbc.AddDatabaseLogContext(ctx)
	if err := dbc.StartOnlineProcesses(ctx); err != nil {
		dbc.Close(ctx)
		return nil, fmt.Errorf("StartOnlineProcesses (observer): %w", err)
	}
	database, _ := CreateDatabase(dbc)
	ctx = addDatabaseAndTestUserContext(ctx, database)
	var dc *DatabaseCollection
	for _, c := range dbc.CollectionByID {
		dc = c
	}
	coll := &DatabaseCollectionWithUser{DatabaseCollection: dc}
	ctx = coll.AddCollectionContext(ctx)
	if _, err := dc.UpdateSyncFun(ctx, syncFn); err != nil {
		dbc.Close(ctx)
		return nil, fmt.Errorf("UpdateSyncFun (observer): %w", err)
	}
	return &vfEnv{T: t, Bucket: tb, Ctx: ctx, DBC: dbc, DB: database, Coll: coll}, nil
}

func vfC16SortedChans(s base.Set) string {
	out := s.ToArray()
	sort.Strings(out)
	return vfJoin(out)
}

func TestVerif_C16_FeedGate(t *testing.T) {
	rec := kit.New("C16", "FeedGate")
	defer rec.Flush()
	knownGA := kit.Known("C16", vfC16SigGetActive)
	rapid.Check(t, func(rt *rapid.T) {
		twoNodes := rapid.SampledFrom([]bool{true, true, false}).Draw(rt, "observerNode")
		shards := rapid.SampledFrom([]int{1, 3}).Draw(rt, "shards")
		var ops []string
		render := func() string { return strings.Join(ops, "; ") }
		inconclusive := func(format string, args ...any) {
			rec.Inconclusive()
			kit.InconclusiveLine("C16", format, args...)
			rt.Skip()
		}
		imp, err := vfOpen(t, vfDBConfig{SyncFn: vfC16SysSyncFn, AutoImport: true, DefaultCollection: rapid.Bool().Draw(rt, "defaultCollection"),
			Mutate: func(o *DatabaseContextOptions) { o.UserXattrKey = vfC16SysXattr }})
		if err != nil {
			inconclusive("open database: %v", err)
		}
		defer imp.Close()
		reader := imp
		if twoNodes {
			obs, err := vfC16OpenObserver(t, imp, vfC16SysSyncFn)
			if err != nil {
				inconclusive("%v", err)
			}
			defer obs.Close()
			reader = obs
		}
		vfC16InstallGatedCache(reader.DBC, shards)
		ops = append(ops, fmt.Sprintf("config(reader=%s,shards=%d)", map[bool]string{true: "observer node (did not import)", false: "importing node"}[twoNodes], shards))
		both := func(seq uint64) {
			for _, e := range []*vfEnv{imp, reader} {
				if err := e.WaitSeq(seq); err != nil {
					inconclusive("%v", err)
				}
			}
		}
		// readers holding only the body-assigned (old) or only the xattr-assigned (new) channels
		for name, chans := range map[string][]string{"uold": {"A", "B", "C"}, "unew": {"X", "Y", "Z"}} {
			cfg := &auth.PrincipalConfig{Name: base.Ptr(name), Password: base.Ptr("password-" + name)}
			if imp.Coll.IsDefaultCollection() {
				cfg.ExplicitChannels = base.SetFromArray(chans)
			} else {
				cfg.CollectionAccess = map[string]map[string]*auth.CollectionAccessConfig{imp.Coll.ScopeName: {imp.Coll.Name: {ExplicitChannels_: base.SetFromArray(chans)}}}
			}
			if _, _, err := imp.DBC.UpdatePrincipal(imp.Ctx, cfg, true, true); err != nil {
				inconclusive("create user: %v", err)
			}
		}
		docID := "x1"
		rev := ""
		xattrNo := 0
		curX := ""
		rounds := rapid.IntRange(1, 3).Draw(rt, "rounds")
		parkedRounds := 0
		for round := 0; round < rounds; round++ {
			// a new revision (new cache key), written on the importing node
			body := Body{"chan": rapid.SampledFrom([]string{"A", "B", "C"}).Draw(rt, "chan"), "n": round + 1}
			if rev != "" {
				body[BodyRev] = rev
			}
			newRev, doc, err := imp.Coll.Put(imp.Ctx, docID, body)
			if err != nil {
				inconclusive("put: %v", err)
			}
			rev = newRev
			ops = append(ops, fmt.Sprintf("put(%s)=%s", docID, rev))
			both(doc.Sequence)

			// the read that will hold the old document
			how := rapid.SampledFrom([]string{"get", "get", "getactive-in-loader", "getactive-after-read"}).Draw(rt, "reader")
			if how == "getactive-after-read" && knownGA {
				// GetActive parked between its document read and the creation of its cache value: the listed finding
				rec.Excluded(vfC16SigGetActive)
				how = "getactive-in-loader"
			}
			gate := 1
			if how == "getactive-in-loader" {
				gate = 2
			}
			ld := &vfC16Load{gateAt: gate, entered: make(chan struct{}, 1), release: make(chan bool, 1), injErr: &vfC16InjErr{}}
			done := make(chan vfC16Result, 1)
			rctx := context.WithValue(reader.Ctx, vfC16CtxKey{}, ld)
			go func() {
				var r vfC16Result
				defer func() {
					if x := recover(); x != nil {
						r.err = fmt.Errorf("PANIC in cache read: %v", x)
					}
					done <- r
				}()
				if how == "get" {
					r.rev, r.err = reader.Coll.revisionCache.Get(rctx, docID, rev, RevCacheDontLoadBackupRev)
				} else {
					r.rev, r.err = reader.Coll.revisionCache.GetActive(rctx, docID)
				}
			}()
			parked := false
			select {
			case <-ld.entered:
				parked = true
				parkedRounds++
				ops = append(ops, fmt.Sprintf("%s(%s,%s) parked holding the current document", how, docID, rev))
			case <-done:
				ops = append(ops, fmt.Sprintf("%s(%s,%s) returned without loading", how, docID, rev))
			case <-time.After(vfWaitBound):
				inconclusive("the read neither returned nor reached the loader")
			}
			release := func() {
				if parked {
					parked = false
					ld.release <- true
					select {
					case <-done:
					case <-time.After(vfWaitBound):
					}
				}
			}
			defer release()

			// external metadata-only change: only the user xattr is written
			xattrNo++
			var choices []string
			for _, c := range []string{"X", "Y", "Z"} {
				if c != curX {
					choices = append(choices, c) // always a real change of the channel set
				}
			}
			newChans := []string{rapid.SampledFrom(choices).Draw(rt, "xchan")}
			curX = newChans[0]
			raw, _ := base.JSONMarshal(map[string]any{"chans": newChans, "no": xattrNo})
			before := imp.DBC.DbStats.SharedBucketImport().ImportCount.Value()
			if _, err := imp.Coll.dataStore.SetXattrs(imp.Ctx, docID, map[string][]byte{vfC16SysXattr: raw}); err != nil {
				inconclusive("SetXattrs: %v", err)
			}
			ops = append(ops, fmt.Sprintf("external-xattr(%s,chans=%s)", docID, vfJoin(newChans)))
			deadline := time.Now().Add(vfWaitBound)
			for imp.DBC.DbStats.SharedBucketImport().ImportCount.Value() <= before {
				if time.Now().After(deadline) {
					inconclusive("the user-xattr change of %s was not imported within %v", docID, vfWaitBound)
				}
				time.Sleep(time.Millisecond)
			}
			sd, err := imp.Coll.GetDocSyncData(imp.Ctx, docID)
			if err != nil {
				inconclusive("GetDocSyncData: %v", err)
			}
			if sd.GetRevTreeID() != rev {
				inconclusive("importing a user-xattr change created revision %s (expected %s to be kept)", sd.GetRevTreeID(), rev)
			}
			both(sd.Sequence) // the feed of both nodes has processed the import's mutation (DocChanged ran)
			ops = append(ops, "import-through-feed")
			wasParked := parked
			release()
			if wasParked {
				ops = append(ops, "release-loader")
			}

			// now every read of the revision on the reading node must carry the new channels
			check := func(what string, r DocumentRevision, err error) {
				ops = append(ops, what)
				if err != nil {
					kit.Violation(rt, "C16", "FeedGate", render(), "%s failed: %v", what, err)
				}
				if r.RevID != rev || vfC16SortedChans(r.Channels) != vfJoin(newChans) {
					kit.Violation(rt, "C16", "FeedGate", render(), "%s serves rev %s with channels %s after the metadata-only change to %s came through this node's mutation feed (revision %s)", what, r.RevID, vfC16SortedChans(r.Channels), vfJoin(newChans), rev)
				}
			}
			kit.Guard(rt, "C16", "FeedGate", render, func() {
				r, err := reader.Coll.revisionCache.Get(reader.Ctx, docID, rev, RevCacheDontLoadBackupRev)
				check(fmt.Sprintf("get(%s,%s)", docID, rev), r, err)
				r, err = reader.Coll.revisionCache.GetActive(reader.Ctx, docID)
				check(fmt.Sprintf("getactive(%s)", docID), r, err)
				// through the request path, as users
				collNew, _, uerr := reader.AsUser("unew")
				collOld, _, uerr2 := reader.AsUser("uold")
				if uerr != nil || uerr2 != nil {
					inconclusive("loading users: %v %v", uerr, uerr2)
				}
				gr, gerr := collNew.GetRev(reader.Ctx, docID, rev, false, nil)
				ops = append(ops, "getrev-as-user-with-new-channels")
				if gerr != nil || gr.Removed || !strings.Contains(string(gr.BodyBytes), `"n":`) {
					kit.Violation(rt, "C16", "FeedGate", render(), "a user holding only the new channels %s cannot read revision %s (err=%v removed=%v body=%s channels=%s): the cache still answers with the old channel set", vfJoin(newChans), rev, gerr, gr.Removed, gr.BodyBytes, vfC16SortedChans(gr.Channels))
				}
				gr, gerr = collOld.GetRev(reader.Ctx, docID, rev, false, nil)
				ops = append(ops, "getrev-as-user-with-old-channels")
				if gerr == nil && !gr.Removed && strings.Contains(string(gr.BodyBytes), `"n":`) {
					kit.Violation(rt, "C16", "FeedGate", render(), "a user holding only the old channels reads the body of revision %s (%s) after its channels changed to %s and the change came through the feed", rev, gr.BodyBytes, vfJoin(newChans))
				}
			})
		}
		rec.Class("rounds-with-a-parked-load", int64(parkedRounds))
		rec.Case(render(), parkedRounds > 0, fmt.Sprintf("observerNode=%v", twoNodes), fmt.Sprintf("shards=%d", shards))
	})
}
