package db

// C08 — system clause for waiting clients (longpoll / continuous). Overlay only; never part of /repo.
//
// Same slow-writer mechanism as TestVerif_C08_System, but the reader is a protocol-following client:
// it always resumes from the last token it received, with wait semantics (ChangesOptions.Wait, and
// Continuous for the continuous family). The only synchronisation point with a parked feed is the nil
// "waiting" marker MultiChangesFeed puts on its channel before it blocks; no sleeps.

import (
	"context"
	"fmt"
	"sort"
	"strings"
	"testing"
	"time"

	"github.com/couchbase/sync_gateway/base"
	kit "github.com/couchbase/sync_gateway/verifkit"
	"pgregory.net/rapid"
)

// vfC08Client is a changes client that follows the protocol: every request uses the last token of the
// previous response as `since`.
type vfC08Client struct {
	env        *vfEnv
	chans      []string
	continuous bool
	held       map[string]bool
	last       SequenceID
	feed       <-chan *ChangeEntry
	cancel     context.CancelFunc
	requests   int
	log        *[]string
}

func (c *vfC08Client) open() error {
	ctx, cancel := context.WithCancel(c.env.Ctx)
	feed, err := c.env.Coll.MultiChangesFeed(c.env.Ctx, base.SetOf(c.chans...), ChangesOptions{Since: c.last, Wait: true, Continuous: c.continuous, ChangesCtx: ctx})
	if err != nil || feed == nil {
		cancel()
		return fmt.Errorf("MultiChangesFeed(since=%s): feed=%v err=%v", c.last.String(), feed != nil, err)
	}
	c.feed, c.cancel = feed, cancel
	c.requests++
	*c.log = append(*c.log, fmt.Sprintf("client: %s request since=%s", map[bool]string{true: "continuous", false: "longpoll"}[c.continuous], c.last.String()))
	return nil
}

// abandon gives the current request up (longpoll timeout / connection closed). Rows the client has
// not read are lost to it, and so are their tokens: it resumes from the last token it did read.
func (c *vfC08Client) abandon() {
	if c.cancel != nil {
		c.cancel()
		// what the REST layer does after cancelling: wake parked feeds so they notice
		c.env.DBC.NotifyTerminatedChanges(c.env.Ctx, "")
		// drain so the feed goroutine can finish
		deadline := time.After(vfWaitBound)
	drain:
		for {
			select {
			case _, ok := <-c.feed:
				if !ok {
					break drain
				}
			case <-deadline:
				break drain
			}
		}
	}
	c.feed, c.cancel = nil, nil
}

// pump reads responses until the client's current request is parked (nil marker); a completed
// longpoll response is followed by the next request from its last token. Returns the number of rows
// received. A bounded wait that expires is an InconclusiveErr.
func (c *vfC08Client) pump() (rows int, err error) {
	for hops := 0; hops < 64; hops++ {
		if c.feed == nil {
			if err := c.open(); err != nil {
				return rows, err
			}
		}
		var got []string
	read:
		for {
			select {
			case e, ok := <-c.feed:
				if !ok {
					// response complete
					c.cancel()
					c.feed, c.cancel = nil, nil
					break read
				}
				if e == nil {
					if len(got) > 0 {
						*c.log = append(*c.log, "client: received ["+strings.Join(got, " ")+"], parked")
					} else {
						*c.log = append(*c.log, "client: parked")
					}
					return rows, nil
				}
				if e.Err != nil {
					return rows, fmt.Errorf("changes feed error entry: %v", e.Err)
				}
				c.held[e.ID] = true
				c.last = e.Seq
				rows++
				got = append(got, fmt.Sprintf("%s@%s", e.ID, e.Seq.String()))
			case <-time.After(vfWaitBound):
				return rows, kit.InconclusiveErr{Msg: "changes feed neither answered nor parked"}
			}
		}
		*c.log = append(*c.log, "client: response ["+strings.Join(got, " ")+"]")
	}
	return rows, kit.InconclusiveErr{Msg: "client needed more than 64 requests to reach a parked state"}
}

// TestVerif_C08_SystemWait: waiting clients across a gap that closes piecewise.
func TestVerif_C08_SystemWait(t *testing.T) {
	rec := kit.New("C08", "SystemWait")
	defer rec.Flush()
	restore := SuspendSequenceBatching()
	defer restore()
	rapid.Check(t, func(rt *rapid.T) {
		continuous := rapid.IntRange(0, 3).Draw(rt, "continuous") == 0
		nPre := rapid.IntRange(1, 2).Draw(rt, "docsBefore") // a gap at sequence 1 is the listed finding gap-at-sequence-1 (System job)
		nSlow := rapid.IntRange(2, 3).Draw(rt, "slowWriters")
		maxNum := rapid.SampledFrom([]int{1, 2}).Draw(rt, "maxPending")
		nAfter := rapid.IntRange(maxNum+1, maxNum+2).Draw(rt, "docsAfter")
		reqChans := rapid.SampledFrom([][]string{{"A"}, {"*"}}).Draw(rt, "channels")
		ops := []string{fmt.Sprintf("maxPending=%d client=%s channels=%v", maxNum, map[bool]string{true: "continuous", false: "longpoll"}[continuous], reqChans)}
		render := func() string { return strings.Join(ops, "; ") }
		inconclusive := func(err error) {
			rec.Inconclusive()
			kit.InconclusiveLine("C08", "%v (case: %s)", err, render())
			rt.Skip()
		}
		fail := func(err error) {
			if vfIsInconclusive(err) {
				inconclusive(err)
			}
			kit.Violation(rt, "C08", "SystemWait", render(), "%v", err)
		}

		gate := &vfC08Gate{hold: map[string]chan struct{}{}, entered: make(chan string, 8)}
		env, err := vfOpen(t, vfDBConfig{
			WrapBucket: func(b base.Bucket) base.Bucket {
				return base.NewLeakyBucket(b, base.LeakyBucketConfig{UpdateCallback: gate.callback})
			},
			Mutate: func(o *DatabaseContextOptions) { o.CacheOptions.CachePendingSeqMaxNum = maxNum },
		})
		if err != nil {
			inconclusive(err)
		}
		client := &vfC08Client{env: env, chans: reqChans, continuous: continuous, held: map[string]bool{}, log: &ops}
		released := map[string]bool{}
		gates := map[string]chan struct{}{}
		defer func() {
			client.abandon()
			for k, ch := range gates {
				if !released[k] {
					close(ch)
				}
			}
			env.Close()
		}()
		cc := env.DBC.changeCache
		written := map[string]uint64{}
		put := func(id string) (uint64, error) {
			_, doc, err := env.Coll.Put(env.Ctx, id, Body{"channels": []any{"A"}})
			if err != nil {
				return 0, err
			}
			return doc.Sequence, nil
		}
		write := func(id string) uint64 {
			seq, err := put(id)
			if err != nil {
				inconclusive(fmt.Errorf("put %s: %w", id, err))
			}
			written[id] = seq
			ops = append(ops, fmt.Sprintf("put(%s)=#%d", id, seq))
			return seq
		}
		for i := 0; i < nPre; i++ {
			write(fmt.Sprintf("pre%d", i))
		}
		if err := env.WaitCache(); err != nil {
			inconclusive(err)
		}
		type slowRes struct {
			id  string
			seq uint64
			err error
		}
		results := make(chan slowRes, nSlow)
		var slowIDs []string
		for i := 0; i < nSlow; i++ {
			id := fmt.Sprintf("late%d", i)
			slowIDs = append(slowIDs, id)
			ch := make(chan struct{})
			gates[id] = ch
			gate.mu.Lock()
			gate.hold[id] = ch
			gate.mu.Unlock()
			go func() {
				seq, err := put(id)
				results <- slowRes{id: id, seq: seq, err: err}
			}()
			select {
			case <-gate.entered:
			case <-time.After(vfWaitBound):
				inconclusive(fmt.Errorf("slow writer %s did not reach the storage write", id))
			}
			ops = append(ops, fmt.Sprintf("put(%s) held after sequence allocation", id))
		}
		var lastSeq uint64
		for i := 0; i < nAfter; i++ {
			lastSeq = write(fmt.Sprintf("after%d", i))
		}
		firstGap := written["after0"] - uint64(nSlow)
		if err := env.WaitSeq(lastSeq); err != nil {
			inconclusive(err)
		}
		for q := firstGap; q < firstGap+uint64(nSlow); q++ {
			if !cc.WasSkipped(q) {
				kit.Violation(rt, "C08", "SystemWait", render(), "sequence %d is held by a slow writer, later sequences up to %d are cached, but it is not in the skipped list", q, lastSeq)
			}
		}
		// the client catches up while the gap is open and parks on the compound token it was handed
		if _, err := client.pump(); err != nil {
			fail(err)
		}
		handedCompound := client.last.LowSeq != 0

		// the gap closes piecewise, in a generated order, with documents written meanwhile
		order := rapid.Permutation(slowIDs).Draw(rt, "releaseOrder")
		extra, lateWhileOpen, rowsWhileOpen := 0, 0, 0
		for k, id := range order {
			if rapid.Bool().Draw(rt, fmt.Sprintf("writeBefore%d", k)) {
				seq := write(fmt.Sprintf("extra%d", extra))
				extra++
				if err := env.WaitSeq(seq); err != nil {
					inconclusive(err)
				}
				n, err := client.pump()
				if err != nil {
					fail(err)
				}
				rowsWhileOpen += n
			}
			close(gates[id])
			released[id] = true
			var res slowRes
			select {
			case res = <-results:
			case <-time.After(vfWaitBound):
				inconclusive(fmt.Errorf("slow writer %s did not finish", id))
			}
			if res.err != nil {
				inconclusive(fmt.Errorf("slow writer %s failed: %w", res.id, res.err))
			}
			if res.seq < firstGap || res.seq >= firstGap+uint64(nSlow) {
				inconclusive(fmt.Errorf("slow writer %s got sequence %d outside the expected gap %d..%d", res.id, res.seq, firstGap, firstGap+uint64(nSlow)-1))
			}
			written[res.id] = res.seq
			ops = append(ops, fmt.Sprintf("released put(%s)=#%d", res.id, res.seq))
			if err := vfC08WaitFor(fmt.Sprintf("late arrival of #%d", res.seq), func() bool { return !cc.WasSkipped(res.seq) }); err != nil {
				inconclusive(err)
			}
			if k < len(order)-1 {
				lateWhileOpen++
			}
			// the late arrival notifies the channel; the parked request wakes and either answers or parks again
			if _, err := client.pump(); err != nil {
				fail(err)
			}
		}
		if rapid.Bool().Draw(rt, "writeAfter") {
			seq := write(fmt.Sprintf("extra%d", extra))
			if err := env.WaitSeq(seq); err != nil {
				inconclusive(err)
			}
			if _, err := client.pump(); err != nil {
				fail(err)
			}
		}
		// quiescence: everything has arrived. The client's pending request times out; it keeps asking from
		// its last token until a request has nothing for it.
		if err := env.WaitCache(); err != nil {
			inconclusive(err)
		}
		for round := 0; ; round++ {
			client.abandon()
			ops = append(ops, "client: request abandoned (timeout)")
			n, err := client.pump()
			if err != nil {
				fail(err)
			}
			if n == 0 {
				break
			}
			if round > 16 {
				inconclusive(fmt.Errorf("client still receives rows after %d follow-up requests", round))
			}
		}
		var missing []string
		for id, seq := range written {
			if !client.held[id] {
				missing = append(missing, fmt.Sprintf("%s@%d", id, seq))
			}
		}
		sort.Strings(missing)
		if len(missing) > 0 {
			kit.Violation(rt, "C08", "SystemWait", render(), "at quiescence the protocol-following client (last token %s) never received %v", client.last.String(), missing)
		}
		classes := []string{fmt.Sprintf("slowWriters=%d", nSlow), map[bool]string{true: "client=continuous", false: "client=longpoll"}[continuous]}
		if handedCompound {
			classes = append(classes, "parked_on_compound_token")
		}
		if rowsWhileOpen > 0 {
			classes = append(classes, "rows_received_while_gap_partly_open")
		}
		if order[0] == "late0" {
			classes = append(classes, "oldest_missing_sequence_arrives_first")
		}
		// non-trivial: the client was parked on a compound token and part of the gap closed while the rest stayed open
		rec.Case(render(), handedCompound && lateWhileOpen > 0, classes...)
	})
}
