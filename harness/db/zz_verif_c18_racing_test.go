package db

// C18, job "racing" — writes racing with the resync.
// Injected into package db by the /verif driver (build overlay); never part of /repo.
//
// The resyncing node's database is offline, but another Sync Gateway node of the cluster that already
// runs the new function B can write while the resync is running. That node is a second, online
// DatabaseContext with function B on the same bucket. The bucket is the fault store; the context handed to
// ResyncManager.Start carries the store's marker (the manager derives the context of its run from the
// request context, values included), so "the Nth compare-and-swap write of document K issued by the
// resync" can be addressed. A hook installed there runs complete generated actions of the second node
// between the resync's read of K (from the feed, or the reload after a failed compare-and-swap) and its
// write; other generated actions run before the resync takes its feed snapshot, inside the window of
// another document, or after the last document was processed.
//
// Oracle: after the resync has completed and every racing action was acknowledged, the database equals a
// fresh database that ran B from the beginning and received the same revisions in the same order (racing
// revisions after the corpus, in the order in which they were acknowledged), compared exactly like the
// quiet job does; a second resync changes nothing.

import (
	"context"
	"fmt"
	"os"
	"sort"
	"strings"
	"sync"
	"testing"

	"github.com/couchbase/sync_gateway/base"
	kit "github.com/couchbase/sync_gateway/verifkit"
	vs "github.com/couchbase/sync_gateway/verifstore"
	"pgregory.net/rapid"
)

const vfC18ResyncLabel = "resync"

// vfC18SigStaleLeaf: a conflicting leaf L carries channels the OLD function stored in the revision tree;
// a write of the second node (function B) makes L the winner (the write path recomputes the document's
// channels with B but leaves L's entry in the revision tree alone); the resync then finds nothing to
// change for the document and keeps the entry; a later write makes L a conflicting leaf again and the
// old function's channels are in force for it.
const vfC18SigStaleLeaf = "resync-keeps-old-function-channels-of-leaf-promoted-to-winner"

// vfC18Race is one action of the second node while the resync is running.
type vfC18Race struct {
	Doc   string   // target document ("" for touch)
	Kind  string   // update | chanmove | delete | branch | import | sdk-late | new | touch
	Where string   // start | own1 | own2 | other | end
	Host  string   // Where == other: the document whose first resync write hosts the action
	Rev   vfC18Rev // the revision written (its id is provisional for import / sdk-late: the product chooses it)
	User  string   // touch: the user loaded on the second node
}

func (r vfC18Race) isWrite() bool { return r.Kind != "touch" }

func (r vfC18Race) imported() bool { return r.Kind == "import" || r.Kind == "sdk-late" }

func (r vfC18Race) String() string {
	at := r.Where
	if r.Where == "other" {
		at = "window(" + r.Host + ")"
	}
	if r.Kind == "touch" {
		return fmt.Sprintf("race[%s](loadUser %s)", at, r.User)
	}
	if r.Rev.Deleted {
		return fmt.Sprintf("race[%s](%s %s %s<-%q deleted)", at, r.Kind, r.Doc, r.Rev.ID, r.Rev.Parent)
	}
	return fmt.Sprintf("race[%s](%s %s %s<-%q %s)", at, r.Kind, r.Doc, r.Rev.ID, r.Rev.Parent, r.Rev.Body)
}

type vfC18RaceSpec struct {
	Base *vfC18Spec // corpus, functions, principals, options: what the quiet job generates
	Race []vfC18Race
}

func (s *vfC18RaceSpec) render() string {
	parts := []string{s.Base.render(), "B.online(node2)", "resync.start"}
	for _, r := range s.Race {
		parts = append(parts, r.String())
	}
	return strings.Join(parts, "; ")
}

func vfC18CopyDoc(d vfC18Doc) vfC18Doc {
	c := d
	c.Revs = append([]vfC18Rev{}, d.Revs...)
	return c
}

// final is the corpus every racing revision was added to (static per-document order = order in Race).
// realID maps an index of Race to the revision id the product chose for an import.
func (s *vfC18RaceSpec) final(realID map[int]string) *vfC18Spec {
	f := *s.Base
	f.Docs = nil
	idx := map[string]int{}
	for _, d := range s.Base.Docs {
		idx[d.ID] = len(f.Docs)
		f.Docs = append(f.Docs, vfC18CopyDoc(d))
	}
	for i, r := range s.Race {
		if !r.isWrite() {
			continue
		}
		rev := r.Rev
		if id, ok := realID[i]; ok {
			rev.ID = id
		}
		k, ok := idx[r.Doc]
		if !ok {
			k = len(f.Docs)
			idx[r.Doc] = k
			f.Docs = append(f.Docs, vfC18Doc{ID: r.Doc, Kind: "race-new"})
		}
		f.Docs[k].Revs = append(f.Docs[k].Revs, rev)
	}
	return &f
}

// prefixes returns, per document that receives racing revisions, every state between "corpus" and
// "corpus + all of its racing revisions" (the states the resync or the comparison can see).
func (s *vfC18RaceSpec) prefixes() map[string][]vfC18Doc {
	out := map[string][]vfC18Doc{}
	base := map[string]int{}
	for _, d := range s.Base.Docs {
		base[d.ID] = len(d.Revs)
	}
	for _, d := range s.final(nil).Docs {
		n := base[d.ID]
		if n == len(d.Revs) {
			continue
		}
		for k := n; k <= len(d.Revs); k++ {
			if k == 0 {
				continue
			}
			out[d.ID] = append(out[d.ID], vfC18Doc{ID: d.ID, Kind: d.Kind, Revs: d.Revs[:k]})
		}
	}
	return out
}

func (s *vfC18RaceSpec) clearRejectFlag(docID, revID string) {
	clr := func(b *vfC18Body) {
		if s.Base.B.Rej == "j1" {
			b.J1 = false
		} else if s.Base.B.Rej == "j2" {
			b.J2 = false
		}
	}
	for di := range s.Base.Docs {
		if s.Base.Docs[di].ID != docID {
			continue
		}
		for ri := range s.Base.Docs[di].Revs {
			if s.Base.Docs[di].Revs[ri].ID == revID {
				clr(&s.Base.Docs[di].Revs[ri].Body)
			}
		}
	}
	for i := range s.Race {
		if s.Race[i].Doc == docID && s.Race[i].Rev.ID == revID {
			clr(&s.Race[i].Rev.Body)
		}
	}
}

// promoted: revisions of the document that a racing write made the winner (they were not the winner in
// the state before that write) and that are conflicting (non-winning) leaves at the end.
func (s *vfC18RaceSpec) promotedThenDemoted() map[string]map[string]bool {
	out := map[string]map[string]bool{}
	pre := s.prefixes()
	for id, states := range pre {
		last := states[len(states)-1]
		lw := last.winner().ID
		endLeaf := map[string]bool{}
		for _, l := range last.leaves() {
			endLeaf[l.ID] = l.ID != lw
		}
		for k := 1; k < len(states); k++ {
			w := states[k].winner().ID
			if states[k-1].rev(w) == nil || states[k-1].winner().ID == w {
				continue // the racing revision itself, or no change of winner
			}
			if endLeaf[w] {
				if out[id] == nil {
					out[id] = map[string]bool{}
				}
				out[id][w] = true
			}
		}
	}
	return out
}

// wasWinnerDuringRace: revisions that were the winner in some state from "corpus" on and are conflicting
// leaves at the end: the ordinary write path keeps no channels for such a leaf.
func (s *vfC18RaceSpec) wasWinnerDuringRace() map[string]map[string]bool {
	out := map[string]map[string]bool{}
	for id, states := range s.prefixes() {
		last := states[len(states)-1]
		lw := last.winner().ID
		for _, st := range states[:len(states)-1] {
			w := st.winner().ID
			if w != lw && last.rev(w) != nil {
				isLeaf := false
				for _, l := range last.leaves() {
					if l.ID == w {
						isLeaf = true
					}
				}
				if isLeaf {
					if out[id] == nil {
						out[id] = map[string]bool{}
					}
					out[id][w] = true
				}
			}
		}
	}
	return out
}

// staleLeafDocs: documents that have the shape of vfC18SigStaleLeaf (timing of the resync's visit is
// not modelled: conservative).
func (s *vfC18RaceSpec) staleLeafDocs() []string {
	var out []string
	prom := s.promotedThenDemoted()
	for _, d := range s.Base.Docs {
		asWinner := d.insertedAsWinner()
		for revID := range prom[d.ID] {
			l := d.rev(revID)
			if l == nil || asWinner[revID] {
				continue // written by the second node, or nothing was stored for it under A
			}
			stored := s.Base.A.eval(*l).Chans
			want := s.Base.B.eval(*l).Chans
			if len(stored) > 0 && !(vfC18Subset(stored, want) && vfC18Subset(want, stored)) {
				out = append(out, d.ID)
				break
			}
		}
	}
	sort.Strings(out)
	return out
}

// dropLastRace removes the last racing write of the document.
func (s *vfC18RaceSpec) dropLastRace(docID string) {
	for i := len(s.Race) - 1; i >= 0; i-- {
		if s.Race[i].isWrite() && s.Race[i].Doc == docID {
			s.Race = append(s.Race[:i:i], s.Race[i+1:]...)
			return
		}
	}
}

// normalise applies the domain rules of the quiet job to the racing case: the out-of-domain shape and
// the listed findings must not occur in any state of a document that the resync or the final comparison
// can see. Returns the classes to record.
func (s *vfC18RaceSpec) normalise(rec *kit.Rec) []string {
	var excl []string
	// a racing revision that B rejects is not a write at all: keep every racing revision acceptable
	for i := range s.Race {
		if s.Race[i].isWrite() && !s.Race[i].Rev.Deleted {
			s.clearRejectFlag(s.Race[i].Doc, s.Race[i].Rev.ID)
		}
	}
	for round := 0; round < 12; round++ {
		changed := false
		// the corpus itself, exactly as in the quiet job
		for _, sig := range s.Base.shapes() {
			if sig == vfC18SigRejected {
				excl = append(excl, vfC18OutOfDomainRejected)
				s.Base.avoid(sig)
				changed = true
				continue
			}
			if kit.Known("C18", sig) {
				rec.Excluded(sig)
				excl = append(excl, "excluded:"+sig)
				s.Base.avoid(sig)
				changed = true
			}
		}
		// every later state of a document that receives racing revisions
		for _, id := range vfSortedKeys(s.prefixes()) {
			for _, p := range s.prefixes()[id] {
				w := p.winner()
				if w.Deleted {
					if s.Base.A.DelChan != s.Base.B.DelChan && kit.Known("C18", vfC18SigTombstones) {
						// the resync does not visit a document while it is a tombstone
						rec.Excluded(vfC18SigTombstones)
						excl = append(excl, "excluded:"+vfC18SigTombstones)
						s.Base.B.DelChan = s.Base.A.DelChan
						changed = true
					}
					continue
				}
				if !s.Base.B.eval(*w).Rejected {
					continue
				}
				other := false
				for _, r := range p.Revs {
					if r.ID != w.ID && !s.Base.B.eval(r).Rejected {
						other = true
					}
				}
				if other {
					excl = append(excl, vfC18OutOfDomainRejected)
					s.clearRejectFlag(id, w.ID)
					changed = true
				}
			}
		}
		if kit.Known("C18", vfC18SigStaleLeaf) {
			for _, id := range s.staleLeafDocs() {
				rec.Excluded(vfC18SigStaleLeaf)
				excl = append(excl, "excluded:"+vfC18SigStaleLeaf)
				s.dropLastRace(id)
				changed = true
			}
		}
		if !changed {
			break
		}
	}
	return vfC18Uniq(excl)
}

// ---------------------------------------------------------------------------------------------
// generator

// rewrites: the model's guess whether the resync will issue a write for the document (used only to
// aim racing actions at windows that exist; the classes are counted from what really happened).
func (s *vfC18Spec) rewrites(d vfC18Doc) bool {
	w := d.winner()
	if w.Deleted {
		return false
	}
	if s.Regen {
		return true
	}
	ea, eb := s.A.eval(*w), s.B.eval(*w)
	if eb.Rejected {
		eb = vfC18Eval{}
	}
	if !vfC18Subset(ea.Chans, eb.Chans) || !vfC18Subset(eb.Chans, ea.Chans) || !vfC18MapEqual(ea.Acc, eb.Acc) || !vfC18MapEqual(ea.Rol, eb.Rol) {
		return true
	}
	for _, l := range d.leaves() {
		if l.ID != w.ID {
			return true // conflicting leaves usually change too (not decisive)
		}
	}
	return false
}

func vfC18GenRaceSpec(rt *rapid.T) *vfC18RaceSpec {
	s := &vfC18RaceSpec{Base: vfC18GenSpec(rt)}
	cur := map[string]*vfC18Doc{}
	var ids []string
	for _, d := range s.Base.Docs {
		c := vfC18CopyDoc(d)
		cur[d.ID] = &c
		ids = append(ids, d.ID)
	}
	sealed := map[string]bool{}  // an import was generated: the product chooses that revision id
	hasOwn1 := map[string]bool{} // a racing write sits in the first window of the document
	var hot []string             // documents the resync is expected to rewrite
	for _, d := range s.Base.Docs {
		if s.Base.rewrites(d) {
			hot = append(hot, d.ID)
		}
	}
	n := 100
	nextNew := len(s.Base.Docs) + 1
	newRev := func(parent string, deleted bool, body vfC18Body) vfC18Rev {
		n++
		g := 1
		if parent != "" {
			pg, _ := vfC18ParseRev(parent)
			g = pg + 1
		}
		r := vfC18Rev{ID: fmt.Sprintf("%d-%s%d", g, rapid.SampledFrom([]string{"a", "b", "c", "d", "e", "f"}).Draw(rt, "raceDigest"), n), Parent: parent, Deleted: deleted}
		if !deleted {
			body.N = n
			r.Body = body
		}
		return r
	}
	pickHost := func(not string) string {
		var cands []string
		for _, h := range hot {
			if h != not {
				cands = append(cands, h)
			}
		}
		if len(cands) == 0 {
			for _, d := range s.Base.Docs {
				if d.ID != not {
					cands = append(cands, d.ID)
				}
			}
		}
		if len(cands) == 0 {
			return ""
		}
		return rapid.SampledFrom(cands).Draw(rt, "raceHost")
	}
	count := rapid.IntRange(1, 4).Draw(rt, "raceCount")
	for i := 0; i < count; i++ {
		action := rapid.SampledFrom([]string{"write", "write", "write", "write", "write", "write", "new", "touch"}).Draw(rt, "raceAction")
		switch action {
		case "touch":
			r := vfC18Race{Kind: "touch", User: rapid.SampledFrom(vfC18Users).Draw(rt, "raceUser")}
			r.Where = rapid.SampledFrom([]string{"start", "other", "other", "end"}).Draw(rt, "raceWhere")
			if r.Where == "other" {
				if r.Host = pickHost(""); r.Host == "" {
					r.Where = "end"
				}
			}
			s.Race = append(s.Race, r)
			continue
		case "new":
			id := fmt.Sprintf("d%d", nextNew)
			nextNew++
			r := vfC18Race{Doc: id, Kind: "new", Rev: newRev("", false, vfC18GenBody(rt, 0))}
			r.Where = rapid.SampledFrom([]string{"start", "other", "other", "end"}).Draw(rt, "raceWhere")
			if r.Where == "other" {
				if r.Host = pickHost(""); r.Host == "" {
					r.Where = "end"
				}
			}
			cur[id] = &vfC18Doc{ID: id, Kind: "race-new", Revs: []vfC18Rev{r.Rev}}
			ids = append(ids, id)
			s.Race = append(s.Race, r)
			continue
		}
		// a write to an existing document: prefer documents the resync will rewrite
		var cands, hotCands []string
		for _, id := range ids {
			if !sealed[id] {
				cands = append(cands, id)
			}
		}
		for _, id := range hot {
			if !sealed[id] {
				hotCands = append(hotCands, id)
			}
		}
		if len(cands) == 0 {
			continue
		}
		if len(hotCands) > 0 && rapid.IntRange(0, 3).Draw(rt, "raceAim") > 0 {
			cands = hotCands
		}
		id := rapid.SampledFrom(cands).Draw(rt, "raceDoc")
		d := cur[id]
		w := d.winner()
		var kinds []string
		if w.Deleted {
			kinds = []string{"update", "branch"}
		} else {
			kinds = []string{"update", "chanmove", "chanmove", "delete", "branch", "branch", "import", "sdk-late"}
		}
		r := vfC18Race{Doc: id, Kind: rapid.SampledFrom(kinds).Draw(rt, "raceKind")}
		if r.Kind == "branch" {
			// a pushed revision that is not a child of the winner: a new branch off a live ancestor, or
			// the continuation of a conflicting live leaf
			var parents []string
			for _, x := range d.Revs {
				if x.ID != w.ID && !x.Deleted {
					parents = append(parents, x.ID)
				}
			}
			if len(parents) == 0 {
				r.Kind = "update"
			} else {
				p := rapid.SampledFrom(parents).Draw(rt, "raceParent")
				r.Rev = newRev(p, false, vfC18GenBody(rt, 0))
			}
		}
		switch r.Kind {
		case "update", "import", "sdk-late":
			r.Rev = newRev(w.ID, false, vfC18GenBody(rt, 0))
		case "chanmove":
			b := w.Body
			b.C1 = vfC18GenSubset(rt, "c1", vfC18Channels, 2)
			b.C2 = vfC18GenSubset(rt, "c2", vfC18Channels, 2)
			r.Rev = newRev(w.ID, false, b)
		case "delete":
			var live []string
			for _, l := range d.leaves() {
				if !l.Deleted {
					live = append(live, l.ID)
				}
			}
			p := w.ID
			if len(live) > 1 && rapid.Bool().Draw(rt, "raceDeleteOtherLeaf") {
				p = rapid.SampledFrom(live).Draw(rt, "raceDeleteLeaf")
			}
			r.Rev = newRev(p, true, vfC18Body{})
		}
		if r.imported() {
			r.Rev.ID = fmt.Sprintf("%s(import)", r.Rev.ID)
			sealed[id] = true
		}
		wheres := []string{"own1", "own1", "own1", "own1", "start", "other", "other", "end"}
		if hasOwn1[id] {
			wheres = append(wheres, "own2", "own2", "own2", "own2", "own2", "own2", "own2", "own2")
		}
		r.Where = rapid.SampledFrom(wheres).Draw(rt, "raceWhere")
		if r.Where == "other" {
			if r.Host = pickHost(id); r.Host == "" {
				r.Where = "own1"
			}
		}
		if r.Where == "own1" {
			hasOwn1[id] = true
		}
		d.Revs = append(d.Revs, r.Rev)
		s.Race = append(s.Race, r)
	}
	return s
}

// ---------------------------------------------------------------------------------------------
// running the racing actions on the second node

type vfC18RaceDone struct {
	Idx     int    // index in Race
	At      string // where it really ran
	Wrote   bool   // a revision was acknowledged
	Visited bool   // the resync had already written the target document when the action ran
}

type vfC18Racer struct {
	t     testing.TB
	s     *vfC18RaceSpec
	fin   *vfC18Spec // final corpus with provisional ids
	node2 *vfC18DB
	w     *vs.Bucket
	raw   base.DataStore // un-intercepted store of the collection (the SDK's view)

	mu       sync.Mutex
	done     []bool
	sdkDone  []bool
	log      []vfC18RaceDone // racing actions in the order in which they were acknowledged
	realID   map[int]string
	inWindow map[int]bool // ran inside a compare-and-swap window of its own document
	err      error
}

func (r *vfC18Racer) finDoc(id string) vfC18Doc {
	for _, d := range r.fin.Docs {
		if d.ID == id {
			return d
		}
	}
	return vfC18Doc{ID: id}
}

// fire runs every pending action selected by match, in static order; a racing write of the same
// document that was planned earlier and has not run yet runs first (per-document order is static).
func (r *vfC18Racer) fire(at string, own string, match func(a vfC18Race) bool) {
	r.mu.Lock()
	defer r.mu.Unlock()
	for i, a := range r.s.Race {
		if r.done[i] || !match(a) {
			continue
		}
		if a.isWrite() {
			for j := 0; j < i; j++ {
				if !r.done[j] && r.s.Race[j].isWrite() && r.s.Race[j].Doc == a.Doc {
					r.run(j, at, own)
				}
			}
		}
		r.run(i, at, own)
	}
}

func (r *vfC18Racer) run(i int, at, own string) {
	r.done[i] = true
	if r.err != nil {
		return
	}
	a := r.s.Race[i]
	n2 := r.node2
	switch a.Kind {
	case "touch":
		if err := n2.touchUsers([]string{a.User}); err != nil {
			r.err = fmt.Errorf("racing %s: %w", a, err)
			return
		}
		r.log = append(r.log, vfC18RaceDone{Idx: i, At: at})
		return
	case "import", "sdk-late":
		body := a.Rev.body()
		delete(body, BodyRev)
		raw, err := base.JSONMarshal(body)
		if err != nil {
			r.err = err
			return
		}
		if err := r.raw.SetRaw(n2.ctx, a.Doc, 0, nil, raw); err != nil {
			r.err = fmt.Errorf("racing %s: SDK write: %w", a, err)
			return
		}
		r.sdkDone[i] = true
		if a.Doc == own {
			r.inWindow[i] = true
		}
		if a.Kind == "sdk-late" {
			// imported on demand after the resync has completed (finishImports)
			r.log = append(r.log, vfC18RaceDone{Idx: i, At: at + "(sdk)"})
			return
		}
		r.importNow(i, at)
		return
	}
	visited := false
	for _, op := range r.w.MarkedTrace() {
		if op.Type == vs.OpWriteWithXattrs && op.Key == a.Doc && op.Applied {
			visited = true
		}
	}
	if err := n2.putRev(r.finDoc(a.Doc), a.Rev, r.s.Base.B); err != nil {
		r.err = fmt.Errorf("racing %s: %w", a, err)
		return
	}
	if a.Doc == own {
		r.inWindow[i] = true
	}
	r.log = append(r.log, vfC18RaceDone{Idx: i, At: at, Wrote: true, Visited: visited})
}

// importNow lets the second node import the SDK write on demand (a read of the document does).
func (r *vfC18Racer) importNow(i int, at string) {
	a := r.s.Race[i]
	doc, err := r.node2.coll.GetDocument(r.node2.ctx, a.Doc, DocUnmarshalAll)
	if err != nil {
		r.err = fmt.Errorf("racing %s: on-demand import: %w", a, err)
		return
	}
	got := doc.GetRevTreeID()
	wantGen, _ := vfC18ParseRev(a.Rev.ID)
	gotGen, _ := vfC18ParseRev(got)
	info, ok := doc.History[got]
	if !ok || info.Parent != a.Rev.Parent || gotGen != wantGen {
		r.err = fmt.Errorf("racing %s: on-demand import produced %q (parent %q), expected a generation-%d child of %q", a, got, info.Parent, wantGen, a.Rev.Parent)
		return
	}
	r.realID[i] = got
	r.log = append(r.log, vfC18RaceDone{Idx: i, At: at, Wrote: true})
}

// finishImports: after the resync has completed the second node reads the documents whose SDK write is
// still waiting for its import.
func (r *vfC18Racer) finishImports() {
	r.mu.Lock()
	defer r.mu.Unlock()
	for i, a := range r.s.Race {
		if a.Kind == "sdk-late" && r.sdkDone[i] && r.err == nil {
			r.importNow(i, "after-completion(import)")
		}
	}
}

// ---------------------------------------------------------------------------------------------
// executing a case

type vfC18RaceResult struct {
	vfC18Result
	Log      []vfC18RaceDone
	Classes  []string
	Retries  int // compare-and-swap writes of the resync that failed with a mismatch
	InWindow int // racing writes acknowledged inside a window of their own document
	Trace    string
}

var vfC18RaceDebug = os.Getenv("VERIF_C18_TRACE") != ""

func vfC18ExecuteRacing(t testing.TB, s *vfC18RaceSpec) (res vfC18RaceResult, err error) {
	base0 := s.Base
	d1 := vfC18NewDB(t, base0.Deflt)
	defer d1.destroy()
	w := vs.Wrap(d1.tb)
	w.SetTraceUnmarked(false)
	d1.clone = func() base.Bucket { return base.NoCloseClone(w) }
	if err = d1.open(base0.A.JS(), true); err != nil {
		return res, err
	}
	if err = d1.createPrincipals(base0); err != nil {
		return res, err
	}
	if err = d1.load(base0, base0.A, false); err != nil {
		return res, err
	}
	var all []string
	for _, u := range base0.Users {
		all = append(all, u.Name)
	}
	if err = d1.touchUsers(all); err != nil {
		return res, err
	}
	if err = d1.load(base0, base0.A, true); err != nil {
		return res, err
	}
	if err = d1.touchUsers(base0.Reload); err != nil {
		return res, err
	}
	d1.closeCtx()
	// node 1: offline with B (about to resync); node 2: online with B on the same bucket
	if err = d1.open(base0.B.JS(), false); err != nil {
		return res, err
	}
	n2 := &vfC18DB{t: t, tb: d1.tb, deflt: base0.Deflt, clone: d1.clone}
	if err = n2.open(base0.B.JS(), true); err != nil {
		return res, err
	}
	defer n2.closeCtx()
	store, err := w.Store(d1.ctx, d1.scope, d1.cname)
	if err != nil {
		return res, fmt.Errorf("fault store collection: %w", err)
	}
	racer := &vfC18Racer{t: t, s: s, fin: s.final(nil), node2: n2, w: w, raw: store.Raw(),
		done: make([]bool, len(s.Race)), sdkDone: make([]bool, len(s.Race)), realID: map[int]string{}, inWindow: map[int]bool{}}

	// the plan: hooks before the resync's own compare-and-swap writes
	plan := &vs.Plan{}
	hosts := map[string]bool{}
	for _, a := range s.Race {
		switch a.Where {
		case "own1", "own2":
			hosts[a.Doc] = true
		case "other":
			hosts[a.Host] = true
		}
	}
	for _, id := range vfSortedKeys(hosts) {
		id := id
		plan.Rules = append(plan.Rules,
			vs.Rule{Type: vs.OpWriteWithXattrs, Key: id, Label: vfC18ResyncLabel, Nth: 1, Fault: vs.Fault{Hook: func() {
				racer.fire("window1("+id+")", id, func(a vfC18Race) bool {
					return (a.Where == "own1" && a.Doc == id) || (a.Where == "other" && a.Host == id)
				})
			}}},
			vs.Rule{Type: vs.OpWriteWithXattrs, Key: id, Label: vfC18ResyncLabel, Nth: 2, Fault: vs.Fault{Hook: func() {
				racer.fire("window2("+id+")", id, func(a vfC18Race) bool { return a.Where == "own2" && a.Doc == id })
			}}})
	}
	mgr := d1.dbc.ResyncManager
	heartbeat := mgr.clusterAwareOptions.HeartbeatDocID()
	// "end": the feed has delivered its last document and writes its checkpoint; principals are not yet
	// invalidated, nothing is reported as completed. Everything that has not run by then runs there.
	plan.Rules = append(plan.Rules, vs.Rule{Type: vs.OpWriteCas, KeyPrefix: d1.dbc.MetadataKeys.DCPCheckpointPrefix(d1.dbc.Options.GroupID), Label: vfC18ResyncLabel, Nth: 1, Fault: vs.Fault{Hook: func() {
		racer.fire("end", "", func(a vfC18Race) bool { return true })
	}}})
	// safety net (a feed without a single event writes no checkpoint): the manager removes its heartbeat
	// document on its way out
	plan.Rules = append(plan.Rules, vs.Rule{Type: vs.OpDelete, Key: heartbeat, Label: vfC18ResyncLabel, Nth: 1, Fault: vs.Fault{Hook: func() {
		racer.fire("wind-down", "", func(a vfC18Race) bool { return true })
	}}})
	w.Arm(plan)
	res.First, err = d1.resyncWith(vs.MarkAs(d1.ctx, vfC18ResyncLabel), base0.Regen, func() error {
		// the database is in state "resyncing", the manager has not taken its feed snapshot yet
		racer.fire("start", "", func(a vfC18Race) bool { return a.Where == "start" })
		return racer.err
	})
	trace := w.MarkedTrace()
	w.Disarm()
	if err != nil {
		return res, err
	}
	// anything a hook could not reach (must not happen: the heartbeat document is always removed)
	racer.fire("after-completion", "", func(a vfC18Race) bool { return true })
	racer.finishImports()
	if racer.err != nil {
		return res, racer.err
	}
	n2.closeCtx()
	d1.closeCtx()

	// what really happened
	res.Log = racer.log
	fin := s.final(racer.realID)
	for _, op := range trace {
		if op.Type == vs.OpWriteWithXattrs && op.Err != nil && base.IsCasMismatch(op.Err) && !strings.HasPrefix(op.Key, base.SyncDocPrefix) {
			res.Retries++
		}
	}
	if vfC18RaceDebug {
		fmt.Printf("C18-TRACE %s\n", vs.Render(trace))
	}
	var traceParts []string
	for _, op := range trace {
		if !strings.HasPrefix(op.Key, base.SyncDocPrefix) {
			traceParts = append(traceParts, op.String())
		}
	}
	res.Trace = strings.Join(traceParts, "; ")
	cls := map[string]bool{}
	for _, e := range racer.log {
		a := s.Race[e.Idx]
		at := e.At
		if i := strings.IndexByte(at, '('); i >= 0 {
			at = at[:i]
		}
		if a.Kind == "sdk-late" && e.Wrote {
			cls["race-placement:sdk-late-import-after-completion"] = true
			continue
		}
		switch {
		case racer.inWindow[e.Idx]:
			res.InWindow++
			cls["race-placement:inside-own-"+at] = true
			cls["race-in-window-kind:"+a.Kind] = true
		case (at == "window1" || at == "window2") && a.isWrite() && !a.imported() && a.Kind != "new":
			if e.Visited {
				cls["race-placement:inside-window-of-other-doc/target-already-rewritten-by-resync"] = true
			} else {
				cls["race-placement:inside-window-of-other-doc/target-delivered-but-not-yet-processed-or-unchanged"] = true
			}
		case at == "window1" || at == "window2":
			cls["race-placement:inside-window-of-other-doc"] = true
		default:
			cls["race-placement:"+at] = true
		}
		if a.Where != "start" && a.Where != "end" && (at == "end" || at == "wind-down" || at == "after-completion") {
			cls["race-planned-window-not-reached"] = true
		}
		cls["race-kind:"+a.Kind] = true
	}
	cls[fmt.Sprintf("race-actions=%d", len(s.Race))] = true
	cls[fmt.Sprintf("resync-cas-retries=%d", min(res.Retries, 3))] = true
	if res.InWindow > 0 {
		cls[fmt.Sprintf("race-in-window/regen=%v", base0.Regen)] = true
	}
	res.Classes = vfSortedKeys(cls)

	// database 1 as a freshly started node sees it
	if err = d1.open(base0.B.JS(), true); err != nil {
		return res, err
	}
	o1, err := d1.observe(fin)
	if err != nil {
		return res, err
	}
	d1.closeCtx()

	// database 2: the same revisions under B from the start, racing revisions in acknowledgement order
	d2 := vfC18NewDB(t, base0.Deflt)
	defer d2.destroy()
	if err = d2.open(base0.B.JS(), true); err != nil {
		return res, err
	}
	if err = d2.createPrincipals(base0); err != nil {
		return res, err
	}
	if err = d2.load(base0, base0.B, false); err != nil {
		return res, err
	}
	if err = d2.load(base0, base0.B, true); err != nil {
		return res, err
	}
	for _, e := range racer.log {
		if !e.Wrote {
			continue
		}
		a := s.Race[e.Idx]
		rev := a.Rev
		if id, ok := racer.realID[e.Idx]; ok {
			rev.ID = id
		}
		var doc vfC18Doc
		for _, d := range fin.Docs {
			if d.ID == a.Doc {
				doc = d
			}
		}
		if err = d2.putRev(doc, rev, base0.B); err != nil {
			return res, fmt.Errorf("fresh database, racing revision: %w", err)
		}
	}
	o2, err := d2.observe(fin)
	if err != nil {
		return res, err
	}
	d2.closeCtx()
	res.Diffs = vfC18Diff("resynced database differs from the database that always ran B", o1, o2, "resynced", "fresh")
	leafDiffs, leafPending := vfC18RaceLeafDiff(fin, s.wasWinnerDuringRace(), o1, o2)
	res.Diffs = append(res.Diffs, leafDiffs...)

	// running resync again (quietly) changes nothing
	d1.clone = nil
	if err = d1.open(base0.B.JS(), false); err != nil {
		return res, err
	}
	if res.Again, err = d1.resync(false); err != nil {
		return res, err
	}
	d1.closeCtx()
	if err = d1.open(base0.B.JS(), true); err != nil {
		return res, err
	}
	o1b, err := d1.observe(fin)
	if err != nil {
		return res, err
	}
	if res.Again.Changed > int64(len(leafPending)) {
		res.Idempotence = append(res.Idempotence, fmt.Sprintf("second resync reports %d changed documents (processed %d); documents with a conflicting leaf the ordinary write path left without channels: %v", res.Again.Changed, res.Again.Processed, vfSortedKeys(leafPending)))
	}
	res.Idempotence = append(res.Idempotence, vfC18Diff("second resync changed the outcome", o1, o1b, "after-first", "after-second")...)
	return res, nil
}

// vfC18RaceLeafDiff: every non-winning leaf of the resynced database carries the channels B produces for
// that revision (the native model of B: what the resync stores when it visits the document, and what
// the write path stores for a revision that does not win when it is written). One more value is
// legitimate: no channels at all for a leaf that was the winner during the race and lost to a later
// racing write - the ordinary write path keeps no channels for a leaf that was the winner and lost
// later (the quiet job's third assumption), and the resync may have visited the document before that.
// pending lists the documents in that situation: a later resync fills those leaves in.
func vfC18RaceLeafDiff(fin *vfC18Spec, wasWinner map[string]map[string]bool, o1, o2 vfC18Obs) (out []string, pending map[string]bool) {
	pending = map[string]bool{}
	for _, d := range fin.Docs {
		for _, r := range d.Revs {
			key := "leaf " + d.ID + " " + r.ID + " channels"
			got, ok := o1[key]
			if !ok {
				continue
			}
			want := vfC18Sorted(fin.B.eval(r).Chans)
			if got == want {
				continue
			}
			if got == "[]" && wasWinner[d.ID][r.ID] {
				pending[d.ID] = true
				continue
			}
			out = append(out, fmt.Sprintf("resynced database: conflicting leaf %s %s has channels %s, function B produces %s (database that always ran B: %q)", d.ID, r.ID, got, want, o2[key]))
		}
	}
	return out, pending
}

func vfC18RunRacing(t *testing.T, rec *kit.Rec, rt *rapid.T) {
	s := vfC18GenRaceSpec(rt)
	excl := s.normalise(rec)
	_, classes := s.final(nil).classify()
	classes = append(classes, excl...)
	render := s.render()
	var res vfC18RaceResult
	var err error
	kit.Guard(rt, "C18", "Racing", func() string { return render }, func() { res, err = vfC18ExecuteRacing(t, s) })
	if err != nil {
		if vfIsInconclusive(err) {
			rec.Inconclusive()
			kit.InconclusiveLine("C18", "%v", err)
			rt.Skip("inconclusive")
		}
		rt.Fatalf("HARNESS C18: %v\ncase: %s", err, render)
	}
	var logParts []string
	for _, e := range res.Log {
		logParts = append(logParts, fmt.Sprintf("%s@%s", s.Race[e.Idx].Kind+":"+s.Race[e.Idx].Doc+s.Race[e.Idx].User, e.At))
	}
	detail := fmt.Sprintf("\nracing actions as acknowledged: %s\nresync storage operations on documents: %s", strings.Join(logParts, ", "), res.Trace)
	if res.First.Errored != 0 || res.Again.Errored != 0 {
		kit.Violation(rt, "C18", "Racing", render, "resync reported errored documents: first %+v, second %+v%s", res.First, res.Again, detail)
	}
	if len(res.Diffs) > 0 {
		kit.Violation(rt, "C18", "Racing", render, "%s%s", strings.Join(res.Diffs, "\n"), detail)
	}
	if len(res.Idempotence) > 0 {
		kit.Violation(rt, "C18", "Racing", render, "%s%s", strings.Join(res.Idempotence, "\n"), detail)
	}
	if res.First.Changed > 0 {
		classes = append(classes, "first-resync-changed-documents")
	}
	classes = append(classes, res.Classes...)
	sort.Strings(classes)
	// non-trivial: a racing write was acknowledged inside a compare-and-swap window of its own document
	// and the resync's write then really failed and was retried
	rec.Case(render, res.InWindow > 0 && res.Retries > 0, classes...)
}

// TestVerif_C18_Racing: generated corpora × function pairs × options × actions of a second node racing
// with the resync.
func TestVerif_C18_Racing(t *testing.T) {
	rec := kit.New("C18", "Racing")
	defer rec.Flush()
	vfC18SingleNode()
	rapid.Check(t, func(rt *rapid.T) { vfC18RunRacing(t, rec, rt) })
}

// ---------------------------------------------------------------------------------------------
// regression reproductions of the listed findings that need a second node

type vfC18RaceRepro struct {
	Sig  string
	Spec *vfC18RaceSpec
}

func vfC18RaceRepros() []vfC18RaceRepro {
	users := []vfC18Principal{{Name: "u1"}, {Name: "u2"}, {Name: "u3"}}
	live := func(id, parent string, b vfC18Body) vfC18Rev { return vfC18Rev{ID: id, Parent: parent, Body: b} }
	return []vfC18RaceRepro{
		// 2-b is a conflicting leaf with channel X under A (B: none). Node 2 (B) deletes the winning branch:
		// 2-b becomes the winner, the document's channels are B's. The resync finds nothing to change.
		// Node 2 then pushes a winning branch: 2-b is a conflicting leaf again - with channel X.
		{vfC18SigStaleLeaf, &vfC18RaceSpec{
			Base: &vfC18Spec{Deflt: true, A: vfC18Fn{Chan: "c2"}, B: vfC18Fn{Chan: "c1"}, Users: users,
				Docs: []vfC18Doc{{ID: "d1", Kind: "conflict-2-live", Revs: []vfC18Rev{live("1-a", "", vfC18Body{N: 1}),
					live("2-c", "1-a", vfC18Body{N: 2}), live("2-b", "1-a", vfC18Body{N: 3, C2: []string{"X"}})}}}},
			Race: []vfC18Race{
				{Doc: "d1", Kind: "delete", Where: "start", Rev: vfC18Rev{ID: "3-a", Parent: "2-c", Deleted: true}},
				{Doc: "d1", Kind: "branch", Where: "end", Rev: live("2-d", "1-a", vfC18Body{N: 4})},
			}}},
	}
}

func vfC18KnownRacing(t *testing.T, rec *kit.Rec) {
	for _, r := range vfC18RaceRepros() {
		render := r.Spec.render()
		hasShape := r.Sig == vfC18SigStaleLeaf && len(r.Spec.staleLeafDocs()) > 0
		if !hasShape {
			t.Fatalf("HARNESS C18: reproduction for %s is not recognised by the shape predicate\ncase: %s", r.Sig, render)
		}
		res, err := vfC18ExecuteRacing(t, r.Spec)
		if err != nil {
			if vfIsInconclusive(err) {
				rec.Inconclusive()
				kit.InconclusiveLine("C18", "%v", err)
				continue
			}
			t.Fatalf("HARNESS C18: reproduction %s: %v", r.Sig, err)
		}
		diffs := append(append([]string{}, res.Diffs...), res.Idempotence...)
		rec.Case(render, false, "repro:"+r.Sig, fmt.Sprintf("repro-still-fails=%v", len(diffs) > 0))
		switch {
		case len(diffs) == 0:
			kit.Note("C18", "reproduction of %s no longer fails on this tree", r.Sig)
		case kit.Known("C18", r.Sig):
			kit.KnownFinding("C18", r.Sig, fmt.Sprintf("%s | reproduction: %s | observed: %s", kit.KnownWhat("C18", r.Sig), render, strings.Join(diffs, " / ")))
		default:
			kit.Violation(t, "C18", "Known", render, "%s", strings.Join(diffs, "\n"))
		}
	}
}

var _ = context.Background
