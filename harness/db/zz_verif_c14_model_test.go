package db

// C14 — attachments stay intact and live exactly as long as a revision needs them.
// Reference model (written from the property statement, not from the code): a revision forest per
// document, every revision carrying name -> content; leaves, winner, referenced attachment set.
// Injected into package db by the /verif driver (build overlay); never part of /repo.

import (
	"crypto/sha1"
	"encoding/base64"
	"fmt"
	"sort"
	"strconv"
	"strings"
)

const vfC14ID = "C14"

// vfC14Sig13 is the signature of DESIGN §5a item 13.
const vfC14Sig13 = "non-winning-revision-attachments-land-on-winner"

// vfC14SigPromo: tombstoning the current branch makes another leaf current; the sweep then deletes
// that leaf's attachment data (found by this check).
const vfC14SigPromo = "tombstoning-current-branch-sweeps-attachments-of-promoted-leaf"

// vfC14Pool: four fixed byte strings shared by names, revisions and documents (so digests are
// shared), including bytes that are hostile to text handling.
var vfC14Pool = [][]byte{
	[]byte("alpha-content"),
	[]byte("beta"),
	{0x00, 0xff, 0x10, '"', '\\', '\n', 0x80, 0x7f},
	[]byte("gamma gamma gamma gamma gamma gamma gamma gamma gamma gamma gamma gamma"),
}

var vfC14Names = []string{"a", "b"}

// vfC14AllNames: the names a write may mention. "c" is never written with data; it only ever appears
// as a dangling stub (a stub entry for a name the parent revision does not have).
var vfC14AllNames = []string{"a", "b", "c"}

// vfC14SigLeak: an update that lists a stub entry which cannot be resolved against the parent and
// carries no digest is accepted when the parent has other attachments; from then on the
// obsolete-attachment sweep of that document is skipped (found by this check).
const vfC14SigLeak = "unresolvable-stub-accepted-disables-obsolete-attachment-cleanup"

// vfC14Digest is the advertised digest format of the property ("sha1-" + base64 of the SHA-1 of the
// bytes), computed independently of the code under test.
func vfC14Digest(b []byte) string {
	s := sha1.Sum(b)
	return "sha1-" + base64.StdEncoding.EncodeToString(s[:])
}

type vfC14Att struct {
	content int // index into the case's content table
	revpos  int // generation at which the bytes were last supplied
}

type vfC14Rev struct {
	id      string
	parent  string
	gen     int
	suffix  string
	deleted bool
	noBody  bool // intermediate revision of a multi-revision push (never a leaf)
	atts    map[string]vfC14Att
	gone    bool // tombstoned leaf that the server pruned away (observed)
	// dangling: names this revision lists that were never written with data on this branch (accepted
	// dangling stubs). Nothing was written under them, so the property says nothing about them: the
	// oracle ignores these names altogether.
	dangling map[string]bool
}

// carries reports whether the revision was written with an _attachments object at all.
func (r *vfC14Rev) carries() bool { return len(r.atts)+len(r.dangling) > 0 }

type vfC14Doc struct {
	id      string
	revs    map[string]*vfC14Rev
	order   []string
	everRef map[string]bool // attachment data keys referenced by some committed revision
	residue map[string]bool // data keys written by a failed write (never referenced by it)
	// tainted: the document accepted a dangling stub without digest while vfC14SigLeak is a listed
	// finding; the "cleaned up" direction is not asserted for it any more (the no-loss direction is).
	tainted bool
}

func vfC14NewDoc(id string) *vfC14Doc {
	return &vfC14Doc{id: id, revs: map[string]*vfC14Rev{}, everRef: map[string]bool{}, residue: map[string]bool{}}
}

func (d *vfC14Doc) clone() *vfC14Doc {
	c := vfC14NewDoc(d.id)
	for _, id := range d.order {
		r := *d.revs[id]
		r.atts = map[string]vfC14Att{}
		for k, v := range d.revs[id].atts {
			r.atts[k] = v
		}
		r.dangling = nil
		for k := range d.revs[id].dangling {
			if r.dangling == nil {
				r.dangling = map[string]bool{}
			}
			r.dangling[k] = true
		}
		c.revs[id] = &r
	}
	c.order = append([]string(nil), d.order...)
	for k := range d.everRef {
		c.everRef[k] = true
	}
	for k := range d.residue {
		c.residue[k] = true
	}
	c.tainted = d.tainted
	return c
}

func vfC14ParseRev(id string) (gen int, suffix string, ok bool) {
	i := strings.IndexByte(id, '-')
	if i <= 0 {
		return 0, "", false
	}
	g, err := strconv.Atoi(id[:i])
	if err != nil || g <= 0 {
		return 0, "", false
	}
	return g, id[i+1:], true
}

// vfC14CompareRev orders revision ids: generation numerically, then the digest part as a string.
func vfC14CompareRev(a, b *vfC14Rev) int {
	if a.gen != b.gen {
		if a.gen < b.gen {
			return -1
		}
		return 1
	}
	return strings.Compare(a.suffix, b.suffix)
}

func (d *vfC14Doc) hasChild(id string) bool {
	for _, o := range d.order {
		if d.revs[o].parent == id {
			return true
		}
	}
	return false
}

// leaves returns the current leaf revisions in insertion order.
func (d *vfC14Doc) leaves() []*vfC14Rev {
	var out []*vfC14Rev
	for _, id := range d.order {
		r := d.revs[id]
		if r.gone || d.hasChild(id) {
			continue
		}
		out = append(out, r)
	}
	return out
}

func (d *vfC14Doc) isLeaf(id string) bool {
	r := d.revs[id]
	return r != nil && !r.gone && !d.hasChild(id)
}

// winner: the leaf maximising (not deleted, generation, digest).
func (d *vfC14Doc) winner() *vfC14Rev {
	var w *vfC14Rev
	for _, l := range d.leaves() {
		switch {
		case w == nil:
			w = l
		case !l.deleted && w.deleted:
			w = l
		case l.deleted == w.deleted && vfC14CompareRev(l, w) > 0:
			w = l
		}
	}
	return w
}

// history returns id and its ancestors, newest first.
func (d *vfC14Doc) history(id string) []string {
	var out []string
	for id != "" {
		r := d.revs[id]
		if r == nil {
			break
		}
		out = append(out, id)
		id = r.parent
	}
	return out
}

func (d *vfC14Doc) add(r *vfC14Rev) {
	if r.atts == nil {
		r.atts = map[string]vfC14Att{}
	}
	d.revs[r.id] = r
	d.order = append(d.order, r.id)
}

// ---------------------------------------------------------------------------------------------
// writes

const (
	vfC14AttData     = 1
	vfC14AttStub     = 2
	vfC14AttDangling = 3 // {"stub":true[,"digest":..][,"length":..][,"revpos":..]} for a name the parent lacks
)

type vfC14AttSpec struct {
	kind     int
	content  int
	asString bool // data travels as base64 text (JSON request) instead of raw bytes (multipart / BLIP)
	ctype    bool // carries a content_type
	// dangling stubs only
	dDigest bool // carries the digest of contents[content] (content is meaningless otherwise)
	dLength bool // carries that content's length too
	dRevpos int  // 0 = no revpos field
}

type vfC14Write struct {
	doc      string
	push     bool   // PutExistingRevWithBody (replicator style) instead of Put
	parent   string // "" = none (create / new root) or, with implicit, "whatever is current"
	implicit bool   // Put without _rev (create, or resurrect a deleted document)
	seen     string // implicit only: the current revision when the request was first evaluated ("" = no document yet)
	skip     int    // push only: number of extra new generations between parent and the new revision
	suffix   string // push only: digest part of the new revision id
	deleted  bool
	atts     map[string]vfC14AttSpec
	n        int
}

func (w *vfC14Write) render(contents [][]byte) string {
	var sb strings.Builder
	if w.push {
		fmt.Fprintf(&sb, "push(%s parent=%q skip=%d suffix=%s", w.doc, w.parent, w.skip, w.suffix)
	} else if w.implicit {
		fmt.Fprintf(&sb, "put(%s norev", w.doc)
	} else {
		fmt.Fprintf(&sb, "put(%s rev=%q", w.doc, w.parent)
	}
	fmt.Fprintf(&sb, " n=%d", w.n)
	if w.deleted {
		sb.WriteString(" deleted")
	}
	names := make([]string, 0, len(w.atts))
	for k := range w.atts {
		names = append(names, k)
	}
	sort.Strings(names)
	for _, k := range names {
		s := w.atts[k]
		if s.kind == vfC14AttStub {
			fmt.Fprintf(&sb, " %s=stub", k)
		} else if s.kind == vfC14AttDangling {
			fmt.Fprintf(&sb, " %s=dangling-stub(", k)
			if s.dDigest {
				fmt.Fprintf(&sb, "digest-of:%x", contents[s.content])
				if s.dLength {
					sb.WriteString(",length")
				}
			} else {
				sb.WriteString("no-digest")
			}
			if s.dRevpos > 0 {
				fmt.Fprintf(&sb, ",revpos=%d", s.dRevpos)
			}
			sb.WriteString(")")
		} else {
			enc := "raw"
			if s.asString {
				enc = "b64"
			}
			fmt.Fprintf(&sb, " %s=%s:%x", k, enc, contents[s.content])
		}
	}
	sb.WriteString(")")
	return sb.String()
}

// hasStub reports whether the write keeps some attachment as a stub.
func (w *vfC14Write) hasStub() bool {
	for _, s := range w.atts {
		if s.kind == vfC14AttStub {
			return true
		}
	}
	return false
}

// danglingNoDigest reports whether the write lists a dangling stub without a digest.
func (w *vfC14Write) danglingNoDigest() bool {
	for _, s := range w.atts {
		if s.kind == vfC14AttDangling && !s.dDigest {
			return true
		}
	}
	return false
}

func (w *vfC14Write) hasDangling() bool {
	for _, s := range w.atts {
		if s.kind == vfC14AttDangling {
			return true
		}
	}
	return false
}

// dataContents lists the content indices this write uploads.
func (w *vfC14Write) dataContents() []int {
	var out []int
	for _, n := range vfC14Names {
		if s, ok := w.atts[n]; ok && s.kind == vfC14AttData {
			out = append(out, s.content)
		}
	}
	return out
}

// resolveParent gives the parent revision id the write will attach to, as the statement of the two
// write APIs defines it, on the model state at the time the write is applied.
func (w *vfC14Write) resolveParent(d *vfC14Doc) string {
	if w.implicit {
		// a Put without _rev builds on the current revision it finds; a request that found one keeps it
		// when its document write is retried (it then behaves like a Put naming that revision)
		if w.seen != "" {
			return w.seen
		}
		if win := d.winner(); win != nil {
			return win.id
		}
		return ""
	}
	return w.parent
}

// apply adds the revision(s) of a committed write to the model and returns the new revision.
func (d *vfC14Doc) apply(w *vfC14Write, newRev string) (*vfC14Rev, error) {
	gen, suffix, ok := vfC14ParseRev(newRev)
	if !ok {
		return nil, fmt.Errorf("unparseable revision id %q", newRev)
	}
	if d.revs[newRev] != nil {
		return nil, fmt.Errorf("revision %s already in the model", newRev)
	}
	parent := w.resolveParent(d)
	var p *vfC14Rev
	if parent != "" {
		p = d.revs[parent]
		if p == nil {
			return nil, fmt.Errorf("parent %s not in the model", parent)
		}
	}
	pgen := 0
	if p != nil {
		pgen = p.gen
	}
	if gen != pgen+1+w.skip {
		return nil, fmt.Errorf("revision %s is not generation %d+1+%d", newRev, pgen, w.skip)
	}
	// intermediate revisions of a multi-revision push. One that the document already has (another client
	// pushed that very revision in the meantime) is not new: the pushed history then just continues it.
	at := parent
	reused := false
	for i := 1; i <= w.skip; i++ {
		id := fmt.Sprintf("%d-%si%d", pgen+i, w.suffix, i)
		if ex := d.revs[id]; ex != nil {
			if ex.parent != at {
				return nil, fmt.Errorf("intermediate revision %s exists with parent %q, the pushed history says %q", id, ex.parent, at)
			}
			at = id
			reused = true
			continue
		}
		g, s, _ := vfC14ParseRev(id)
		d.add(&vfC14Rev{id: id, parent: at, gen: g, suffix: s, noBody: true})
		at = id
	}
	r := &vfC14Rev{id: newRev, parent: at, gen: gen, suffix: suffix, deleted: w.deleted, atts: map[string]vfC14Att{}}
	for _, name := range vfC14AllNames {
		s, ok := w.atts[name]
		if !ok {
			continue
		}
		switch s.kind {
		case vfC14AttData:
			r.atts[name] = vfC14Att{content: s.content, revpos: gen}
		case vfC14AttDangling:
			if r.dangling == nil {
				r.dangling = map[string]bool{}
			}
			r.dangling[name] = true
		case vfC14AttStub:
			if reused {
				return nil, fmt.Errorf("stub %q on a push whose intermediate revision was written by someone else", name)
			}
			if p == nil {
				return nil, fmt.Errorf("stub %q without a parent", name)
			}
			pa, ok := p.atts[name]
			if !ok {
				return nil, fmt.Errorf("stub %q: parent %s has no such attachment", name, p.id)
			}
			r.atts[name] = pa
		}
	}
	d.add(r)
	return r, nil
}

// intermediateIDs lists the ids apply will give to the intermediate revisions of a push.
func (w *vfC14Write) intermediateIDs(pgen int) []string {
	var out []string
	for i := 1; i <= w.skip; i++ {
		out = append(out, fmt.Sprintf("%d-%si%d", pgen+i, w.suffix, i))
	}
	return out
}
