package db

// C16 system-level variant: a real database whose sync function reads a user xattr. An external
// (SDK-style) change of that xattr is imported as a metadata-only update (createNewRevIDSkipped),
// comes through the mutation feed, and DocChanged removes the revision from the revision cache.
// Same db code as the product; the UserXattrKey option itself is rejected for CE at the REST
// configuration layer ("EE-gated configuration").

import (
	"fmt"
	"sort"
	"strings"
	"testing"
	"time"

	"github.com/couchbase/sync_gateway/base"
	kit "github.com/couchbase/sync_gateway/verifkit"
	"pgregory.net/rapid"
)

const vfC16SysXattr = "vfx"
const vfC16SysSyncFn = `function(doc, oldDoc, meta) {
	var x = meta.xattrs.` + vfC16SysXattr + `;
	if (x && x.chans) { channel(x.chans); } else { channel(doc.chan); }
}`

func TestVerif_C16_System(t *testing.T) {
	rec := kit.New("C16", "System")
	defer rec.Flush()
	rapid.Check(t, func(rt *rapid.T) {
		capacity := rapid.SampledFrom([]int{1, 2, 4, 50}).Draw(rt, "capacity")
		shards := rapid.SampledFrom([]int{1, 3}).Draw(rt, "shards")
		insertOnWrite := rapid.Bool().Draw(rt, "insertOnWrite")
		env, err := vfOpen(t, vfDBConfig{SyncFn: vfC16SysSyncFn, AutoImport: true, DefaultCollection: rapid.Bool().Draw(rt, "defaultCollection"),
			Mutate: func(o *DatabaseContextOptions) {
				o.UserXattrKey = vfC16SysXattr
				o.RevisionCacheOptions = &RevisionCacheOptions{MaxItemCount: uint32(capacity * shards), ShardCount: uint16(shards), InsertOnWrite: insertOnWrite}
			}})
		if err != nil {
			rec.Inconclusive()
			kit.InconclusiveLine("C16", "open database: %v", err)
			rt.Skip()
		}
		defer env.Close()
		var ops []string
		render := func() string { return strings.Join(ops, "; ") }
		ops = append(ops, fmt.Sprintf("config(capacity/shard=%d,shards=%d,insertOnWrite=%v)", capacity, shards, insertOnWrite))
		inconclusive := func(format string, args ...any) {
			rec.Inconclusive()
			kit.InconclusiveLine("C16", format, args...)
			rt.Skip()
		}
		type docModel struct {
			rev    string
			body   int
			chans  []string // channels of the current revision
			xattr  []string
			cached bool // the current revision was read through the cache since it last changed
		}
		docs := map[string]*docModel{}
		xattrNo := 0
		staleWindows, readsAfterChange := 0, 0
		want := func(m *docModel, bodyChan string) []string {
			if m.xattr != nil {
				return m.xattr
			}
			return []string{bodyChan}
		}
		read := func(docID, how string) {
			m := docs[docID]
			var rev DocumentRevision
			var err error
			kit.Guard(rt, "C16", "System", render, func() {
				switch how {
				case "active":
					rev, err = env.Coll.revisionCache.GetActive(env.Ctx, docID)
				default:
					rev, err = env.Coll.revisionCache.Get(env.Ctx, docID, m.rev, RevCacheDontLoadBackupRev)
				}
			})
			ops = append(ops, fmt.Sprintf("read-%s(%s,%s)", how, docID, m.rev))
			if err != nil {
				kit.Violation(rt, "C16", "System", render(), "reading the current revision %s of %s through the revision cache failed: %v", m.rev, docID, err)
			}
			got := rev.Channels.ToArray()
			sort.Strings(got)
			exp := append([]string(nil), m.chans...)
			sort.Strings(exp)
			if rev.RevID != m.rev || vfJoin(got) != vfJoin(exp) {
				kit.Violation(rt, "C16", "System", render(), "revision cache serves %s rev %s with channels %s; the bucket holds rev %s with channels %s (the last channel change came through the mutation feed)", docID, rev.RevID, vfJoin(got), m.rev, vfJoin(exp))
			}
			if !strings.Contains(string(rev.BodyBytes), fmt.Sprintf(`"n":%d`, m.body)) {
				kit.Violation(rt, "C16", "System", render(), "revision cache serves %s rev %s with body %s; the bucket holds n=%d", docID, rev.RevID, rev.BodyBytes, m.body)
			}
			if m.cached {
				readsAfterChange++
			}
			m.cached = true
		}
		rt.Repeat(map[string]func(*rapid.T){
			"put": func(rt *rapid.T) {
				docID := rapid.SampledFrom([]string{"x1", "x2", "x3"}).Draw(rt, "doc")
				m := docs[docID]
				if m == nil {
					m = &docModel{}
				}
				ch := rapid.SampledFrom([]string{"A", "B", "C"}).Draw(rt, "chan")
				n := rapid.IntRange(1, 1000000).Draw(rt, "n")
				body := Body{"chan": ch, "n": n}
				if m.rev != "" {
					body[BodyRev] = m.rev
				}
				var newRev string
				var err error
				kit.Guard(rt, "C16", "System", render, func() { newRev, _, err = env.Coll.Put(env.Ctx, docID, body) })
				ops = append(ops, fmt.Sprintf("put(%s,chan=%s)=%s", docID, ch, newRev))
				if err != nil {
					inconclusive("put failed: %v", err)
				}
				m.rev, m.body, m.chans, m.cached = newRev, n, want(m, ch), false
				docs[docID] = m
			},
			"xattr": func(rt *rapid.T) {
				// external metadata-only change: only the user xattr is written
				ids := vfSortedKeys(docs)
				if len(ids) == 0 {
					rt.Skip()
				}
				docID := rapid.SampledFrom(ids).Draw(rt, "doc")
				m := docs[docID]
				xattrNo++
				chans := []string{rapid.SampledFrom([]string{"X", "Y", "Z"}).Draw(rt, "xchan")}
				if rapid.Bool().Draw(rt, "two") {
					chans = append(chans, fmt.Sprintf("W%d", xattrNo))
				}
				raw, _ := base.JSONMarshal(map[string]any{"chans": chans, "no": xattrNo})
				before := env.DBC.DbStats.SharedBucketImport().ImportCount.Value()
				if _, err := env.Coll.dataStore.SetXattrs(env.Ctx, docID, map[string][]byte{vfC16SysXattr: raw}); err != nil {
					inconclusive("SetXattrs: %v", err)
				}
				ops = append(ops, fmt.Sprintf("external-xattr(%s,chans=%s)", docID, vfJoin(chans)))
				// wait until the import happened and its mutation went through the feed
				deadline := time.Now().Add(vfWaitBound)
				for env.DBC.DbStats.SharedBucketImport().ImportCount.Value() <= before {
					if time.Now().After(deadline) {
						inconclusive("the user-xattr change of %s was not imported within %v", docID, vfWaitBound)
					}
					time.Sleep(time.Millisecond)
				}
				if err := env.WaitCache(); err != nil {
					inconclusive("%v", err)
				}
				sd, err := env.Coll.GetDocSyncData(env.Ctx, docID)
				if err != nil {
					inconclusive("GetDocSyncData: %v", err)
				}
				if sd.GetRevTreeID() != m.rev {
					inconclusive("importing a user-xattr change created revision %s (expected the revision id %s to be kept)", sd.GetRevTreeID(), m.rev)
				}
				if m.cached {
					staleWindows++
				}
				m.xattr = chans
				m.chans = chans
			},
			"read": func(rt *rapid.T) {
				ids := vfSortedKeys(docs)
				if len(ids) == 0 {
					rt.Skip()
				}
				read(rapid.SampledFrom(ids).Draw(rt, "doc"), rapid.SampledFrom([]string{"rev", "rev", "active"}).Draw(rt, "how"))
			},
		})
		for _, docID := range vfSortedKeys(docs) {
			read(docID, "rev")
			read(docID, "active")
		}
		rec.Class("channel-change-of-a-cached-revision", int64(staleWindows))
		rec.Class("read-of-a-revision-read-before", int64(readsAfterChange))
		rec.Case(render(), staleWindows > 0, fmt.Sprintf("shards=%d", shards), fmt.Sprintf("insertOnWrite=%v", insertOnWrite))
	})
}
