package db

// C13 — rapid state machines: family S-monotone (regression net, must hold on the unchanged tree)
// and family S-open (the full quantifier, known failing shapes excluded by construction).

import (
	"fmt"
	"testing"

	kit "github.com/couchbase/sync_gateway/verifkit"
	"pgregory.net/rapid"
)

var (
	vfC13DocIDs   = []string{"d1", "d2", "d3", "d4", "d5"}
	vfC13RoleIDs  = []string{"r1", "r2"}
	vfC13Grantees = []string{"u", "u", "u", "role:r1", "role:r2", "v"}
)

func vfC13Subset(rt *rapid.T, label string, from []string, min, max int) []string {
	n := rapid.IntRange(min, max).Draw(rt, label+".n")
	if n > len(from) {
		n = len(from)
	}
	if n == 0 {
		return []string{}
	}
	perm := rapid.Permutation(from).Draw(rt, label)
	out := append([]string{}, perm[:n]...)
	return out
}

func vfC13DrawLimits(rt *rapid.T) []int {
	return rapid.SliceOfN(rapid.IntRange(0, 3), 1, 4).Draw(rt, "limits")
}

func vfC13DrawPut(rt *rapid.T) vfC13Op {
	o := vfC13Op{Kind: "put", ID: rapid.SampledFrom(vfC13DocIDs).Draw(rt, "doc")}
	switch rapid.IntRange(0, 9).Draw(rt, "chanShape") {
	case 0:
		o.Chans = []string{}
	case 1:
		o.Chans = []string{"!"}
	case 2, 3:
		o.Chans = vfC13Subset(rt, "chans", vfC13AllChans, 2, 2)
	default:
		o.Chans = vfC13Subset(rt, "chans", vfC13AllChans, 1, 1)
	}
	if rapid.IntRange(0, 9).Draw(rt, "grants") < 3 {
		o.GU = []string{rapid.SampledFrom(vfC13Grantees).Draw(rt, "grantee")}
		o.GC = vfC13Subset(rt, "gc", vfC13AllChans, 1, 2)
	}
	if rapid.IntRange(0, 9).Draw(rt, "roleGrants") < 2 {
		o.RU = []string{rapid.SampledFrom([]string{"u", "u", "v"}).Draw(rt, "roleUser")}
		o.RR = []string{"role:" + rapid.SampledFrom(vfC13RoleIDs).Draw(rt, "roleGranted")}
	}
	return o
}

// vfC13ToggleOne: the current set with one element added or removed (monotone family: one source
// per operation).
func vfC13ToggleOne(rt *rapid.T, label string, cur map[string]uint64, universe []string) []string {
	x := rapid.SampledFrom(universe).Draw(rt, label)
	out := []string{}
	found := false
	for _, c := range vfSortedKeys(cur) {
		if c == x {
			found = true
			continue
		}
		out = append(out, c)
	}
	if !found {
		out = append(out, x)
	}
	return out
}

type vfC13Run struct {
	t    *testing.T
	rt   *rapid.T
	rec  *kit.Rec
	test string
	open bool
	w    *vfC13World

	// family Witnessed: one grant source per channel, the user is loaded after every grant change,
	// pulls wait while a back-fill shape is pending
	witnessed bool

	defColl bool

	forcedPulls   int
	excludedSteps int
}

func (r *vfC13Run) infra(err error) {
	if vfIsInconclusive(err) {
		r.rec.Inconclusive()
		kit.InconclusiveLine("C13", "%s: %v (case: %s)", r.test, err, r.w.Render())
		r.rt.Skip()
	}
	r.rt.Fatalf("C13 harness problem (not a verdict): %v\ncase: %s", err, r.w.Render())
}

func (r *vfC13Run) pull(limits []int) {
	var fail *vfC13Fail
	var err error
	kit.Guard(r.rt, "C13", r.test, r.w.Render, func() { fail, err = r.w.Pull(limits) })
	if err != nil {
		r.infra(err)
	}
	if fail != nil {
		kit.Violation(r.rt, "C13", r.test, r.w.Render(), "%s", fail.What)
	}
}

// step runs one generated non-pull operation.
func (r *vfC13Run) step(o vfC13Op) {
	w := r.w
	if !w.M.WouldChange(o) {
		r.rt.Skip()
	}
	post := w.M.Clone()
	post.Apply(o, w.M.Seq+1, "next")
	if r.witnessed {
		for _, srcs := range post.Sources(vfC13Client) {
			if len(srcs) > 1 {
				r.rt.Skip() // one grant source per channel in this family
			}
		}
	} else if !r.open {
		// S-monotone: one operation moves the client user's sources of any one channel in one
		// direction only, and a pull follows directly (below)
		if w.M.MixedSourceChange(post, vfC13Client) {
			r.rt.Skip()
		}
	} else {
		if drop := r.avoidKnownShapes(o, post); drop {
			return
		}
	}
	before := w.M.Fingerprint(vfC13Client)
	var err error
	kit.Guard(r.rt, "C13", r.test, w.Render, func() { err = w.Do(o) })
	if err != nil {
		r.infra(err)
	}
	if r.witnessed {
		if w.M.Fingerprint(vfC13Client) != before {
			if err := w.Do(vfC13Op{Kind: "load"}); err != nil {
				r.infra(err)
			}
		}
	} else if !r.open && w.M.Fingerprint(vfC13Client) != before {
		r.forcedPulls++
		r.pull(vfC13DrawLimits(r.rt))
	}
}

func vfC13Case(t *testing.T, rt *rapid.T, rec *kit.Rec, test string, open bool) {
	witnessed := test == "Witnessed"
	defColl := rapid.Bool().Draw(rt, "defaultCollection")
	w, err := vfC13Open(t, defColl)
	if err != nil {
		rec.Inconclusive()
		kit.InconclusiveLine("C13", "%s: cannot open a database: %v", test, err)
		rt.Skip()
	}
	defer w.Close()
	r := &vfC13Run{t: t, rt: rt, rec: rec, test: test, open: open, w: w, defColl: defColl, witnessed: witnessed}
	r.installAvoidance()

	// ---- initial principals. Monotone: both roles exist before any document; open: maybe not.
	for _, role := range vfC13RoleIDs {
		if !open || rapid.IntRange(0, 9).Draw(rt, "init."+role) < 6 {
			o := vfC13Op{Kind: "role", ID: role, SetChans: true, PChans: vfC13Subset(rt, "init."+role+".chans", vfC13AllChans, 0, 2)}
			if err := w.Do(o); err != nil {
				r.infra(err)
			}
		}
	}
	uo := vfC13Op{Kind: "user", ID: vfC13Client, SetChans: true, PChans: vfC13Subset(rt, "init.u.chans", vfC13AllChans, 0, 2),
		SetRoles: true, PRoles: vfC13Subset(rt, "init.u.roles", vfC13RoleIDs, 0, 1)}
	if witnessed {
		uo.PChans = []string{}
		uo.PRoles = []string{}
	}
	if err := w.Do(uo); err != nil {
		r.infra(err)
	}

	liveDocs := func() []string {
		var out []string
		for _, id := range vfSortedKeys(w.M.Docs) {
			if !w.M.Docs[id].Deleted {
				out = append(out, id)
			}
		}
		return out
	}
	put := func(rt *rapid.T) {
		r.rt = rt
		o := vfC13DrawPut(rt)
		if witnessed {
			o.GU, o.GC, o.RU, o.RR = nil, nil, nil, nil // grants come from admin role assignments only
		}
		r.step(o)
	}
	del := func(rt *rapid.T) {
		r.rt = rt
		live := liveDocs()
		if len(live) == 0 {
			rt.Skip()
		}
		r.step(vfC13Op{Kind: "del", ID: rapid.SampledFrom(live).Draw(rt, "doc")})
	}
	userChans := func(rt *rapid.T) {
		r.rt = rt
		o := vfC13Op{Kind: "user", ID: vfC13Client, SetChans: true}
		if open {
			o.PChans = vfC13Subset(rt, "chans", vfC13AllChans, 0, 2)
			if rapid.IntRange(0, 9).Draw(rt, "alsoRoles") < 2 {
				o.SetRoles = true
				o.PRoles = vfC13Subset(rt, "roles", vfC13RoleIDs, 0, 2)
			}
		} else {
			o.PChans = vfC13ToggleOne(rt, "chan", w.M.Users[vfC13Client].Chans, vfC13AllChans)
		}
		r.step(o)
	}
	userRoles := func(rt *rapid.T) {
		r.rt = rt
		o := vfC13Op{Kind: "user", ID: vfC13Client, SetRoles: true}
		if open {
			o.PRoles = vfC13Subset(rt, "roles", vfC13RoleIDs, 0, 2)
		} else {
			o.PRoles = vfC13ToggleOne(rt, "role", w.M.Users[vfC13Client].Roles, vfC13RoleIDs)
		}
		r.step(o)
	}
	roleChans := func(rt *rapid.T) {
		r.rt = rt
		role := rapid.SampledFrom(vfC13RoleIDs).Draw(rt, "role")
		o := vfC13Op{Kind: "role", ID: role, SetChans: true}
		if open {
			o.PChans = vfC13Subset(rt, "chans", vfC13AllChans, 0, 2)
		} else {
			o.PChans = vfC13ToggleOne(rt, "chan", w.M.Roles[role].Chans, vfC13AllChans)
		}
		r.step(o)
	}
	delRole := func(rt *rapid.T) {
		r.rt = rt
		var live []string
		for _, role := range vfC13RoleIDs {
			if w.M.roleLive(role) {
				live = append(live, role)
			}
		}
		if len(live) == 0 {
			rt.Skip()
		}
		r.step(vfC13Op{Kind: "delrole", ID: rapid.SampledFrom(live).Draw(rt, "role")})
	}
	pull := func(rt *rapid.T) {
		r.rt = rt
		if sig := r.pullDeferred(); sig != "" {
			rec.Excluded(sig + " (pull deferred)")
			rt.Skip()
		}
		r.pull(vfC13DrawLimits(rt))
	}
	load := func(rt *rapid.T) {
		r.rt = rt
		if err := w.Do(vfC13Op{Kind: "load"}); err != nil {
			r.infra(err)
		}
	}

	actions := map[string]func(*rapid.T){
		"put1": put, "put2": put, "put3": put, "put4": put, "put5": put,
		"del1": del, "del2": del,
		"userChans1": userChans, "userChans2": userChans,
		"userRoles":  userRoles,
		"roleChans1": roleChans, "roleChans2": roleChans,
		"pull1": pull, "pull2": pull, "pull3": pull,
		"load": load,
	}
	if open {
		actions["delRole"] = delRole
	}
	if witnessed {
		delete(actions, "userChans1")
		delete(actions, "userChans2")
		actions["userRoles2"] = userRoles
		actions["userRoles3"] = userRoles
	}
	rt.Repeat(actions)
	r.rt = rt
	if sig := r.pullDeferred(); sig != "" {
		rec.Excluded(sig + " (final pull skipped)")
	} else {
		r.pull(vfC13DrawLimits(rt))
	}

	// ---- what did this case exercise
	var revoked, removed, backfill, paged, interrupted, spans, changedPulls, interesting int
	for _, p := range w.Pulls {
		revoked += p.Revoked
		removed += p.Removed
		backfill += p.Backfill
		if p.Pages > 1 {
			paged++
		}
		if p.InterruptedBackfill {
			interrupted++
		}
		if p.SpansLossAndRegrant {
			spans++
		}
		if p.VisibilityChanged > 0 {
			changedPulls++
			if p.Revoked > 0 || p.Backfill > 0 || p.Removed > 0 || p.InterruptedBackfill || p.SpansLossAndRegrant {
				interesting++
			}
		}
	}
	classes := []string{fmt.Sprintf("collection.default=%v", defColl)}
	flag := func(name string, n int) {
		if n > 0 {
			classes = append(classes, "case.with."+name)
		}
	}
	flag("revocation-row", revoked)
	flag("removal-row", removed)
	flag("backfill-row", backfill)
	flag("paged-pull", paged)
	flag("backfill-interrupted-by-limit", interrupted)
	flag("pull-spanning-loss-and-regrant", spans)
	flag("pull-with-visibility-change", changedPulls)
	rec.Class("pulls", int64(len(w.Pulls)))
	rec.Class("pulls.forced-after-access-change", int64(r.forcedPulls))
	rec.Class("rows.revoked", int64(revoked))
	rec.Class("rows.removed", int64(removed))
	rec.Class("rows.backfill", int64(backfill))
	rec.Class("pulls.spanning-loss-and-regrant", int64(spans))
	rec.Class("pulls.backfill-interrupted-by-limit", int64(interrupted))
	rec.Case(w.Render(), interesting > 0, classes...)
}

func TestVerif_C13_Monotone(t *testing.T) {
	rec := kit.New("C13", "Monotone")
	defer rec.Flush()
	defer SuspendSequenceBatching()()
	rapid.Check(t, func(rt *rapid.T) { vfC13Case(t, rt, rec, "Monotone", false) })
}

func TestVerif_C13_Witnessed(t *testing.T) {
	rec := kit.New("C13", "Witnessed")
	defer rec.Flush()
	defer SuspendSequenceBatching()()
	rapid.Check(t, func(rt *rapid.T) { vfC13Case(t, rt, rec, "Witnessed", false) })
}

func TestVerif_C13_Open(t *testing.T) {
	rec := kit.New("C13", "Open")
	defer rec.Flush()
	defer SuspendSequenceBatching()()
	rapid.Check(t, func(rt *rapid.T) { vfC13Case(t, rt, rec, "Open", true) })
}
