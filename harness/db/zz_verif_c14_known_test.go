package db

// C14 — plain regression reproductions of the listed findings (decide nothing: a reproduction that
// still fails prints KNOWN-FINDING when the signature is listed as open, a note otherwise; the
// generated state machine is what turns an unlisted shape into a violation).

import (
	"bytes"
	"fmt"
	"sort"
	"strings"
	"testing"

	"github.com/couchbase/sync_gateway/base"
	kit "github.com/couchbase/sync_gateway/verifkit"
)

type vfC14Repro struct {
	sig string
	run func(t *testing.T) (render string, failure string, err error)
}

func vfC14AttNames(b Body) string {
	var names []string
	for k := range GetBodyAttachments(b) {
		names = append(names, k)
	}
	sort.Strings(names)
	return "[" + strings.Join(names, " ") + "]"
}

func vfC14AttBytes(b Body, name string) []byte {
	m, _ := GetBodyAttachments(b)[name].(map[string]any)
	if m == nil {
		return nil
	}
	data, _ := m["data"].([]byte)
	return data
}

func vfC14ReproOpen(t *testing.T, ccv bool) (*vfEnv, error) {
	env, err := vfOpen(t, vfDBConfig{Mutate: func(o *DatabaseContextOptions) { o.AllowConflicts = base.Ptr(true) }})
	if err != nil {
		return nil, err
	}
	env.DBC.CachedCCVEnabled.Store(ccv)
	return env, nil
}

// vfC14Repro13: DESIGN §5a item 13, through Put / PutExistingRevWithBody and the document GET.
func vfC14Repro13(t *testing.T) (render, failure string, err error) {
	render = `allow_conflicts; Put(x,{v:1}); push 2-bbb (child of 1); push 2-aaa (child of 1) with attachment att="hello"; GET x; GET x?rev=2-aaa`
	env, err := vfC14ReproOpen(t, true)
	if err != nil {
		return render, "", err
	}
	defer env.Close()
	ctx := env.Ctx
	r1, _, err := env.Coll.Put(ctx, "x", Body{"v": 1})
	if err != nil {
		return render, "", err
	}
	if _, _, err = env.Coll.PutExistingRevWithBody(ctx, "x", Body{"v": 2}, []string{"2-bbb", r1}, false, ExistingVersionWithUpdateToHLV); err != nil {
		return render, "", err
	}
	body := Body{"v": 3, BodyAttachments: map[string]any{"att": map[string]any{"data": []byte("hello")}}}
	if _, _, err = env.Coll.PutExistingRevWithBody(ctx, "x", body, []string{"2-aaa", r1}, false, ExistingVersionWithUpdateToHLV); err != nil {
		return render, "", err
	}
	env.DBC.FlushRevisionCacheForTest()
	cur, err := env.Coll.Get1xRevBody(ctx, "x", "", false, []string{})
	if err != nil {
		return render, "", err
	}
	loser, err := env.Coll.Get1xRevBody(ctx, "x", "2-aaa", false, []string{})
	if err != nil {
		return render, "", err
	}
	var bad []string
	if cur[BodyRev] != "2-bbb" {
		return render, "", fmt.Errorf("current revision is %v, expected 2-bbb", cur[BodyRev])
	}
	if n := vfC14AttNames(cur); n != "[]" {
		bad = append(bad, fmt.Sprintf("GET x = 2-bbb (written without attachments) shows %s", n))
	}
	if n := vfC14AttNames(loser); n != "[att]" {
		bad = append(bad, fmt.Sprintf("GET x?rev=2-aaa (written with att) shows %s", n))
	} else if !bytes.Equal(vfC14AttBytes(loser, "att"), []byte("hello")) {
		bad = append(bad, "GET x?rev=2-aaa: att does not read back \"hello\"")
	}
	return render, strings.Join(bad, "; "), nil
}

// vfC14ReproPromo: found by the C14 state machine.
func vfC14ReproPromo(t *testing.T) (render, failure string, err error) {
	render = `allow_conflicts, cross-cluster versioning off; Put(x,{v:1}); push 2-aaa (child of 1) att="XXXX"; push 3-bbb,2-bbb (child of 1) att="YYYY"; Put(x,{_rev:3-bbb,_deleted:true}); GET x?attachments=true`
	env, err := vfC14ReproOpen(t, false)
	if err != nil {
		return render, "", err
	}
	defer env.Close()
	ctx := env.Ctx
	att := func(s string) map[string]any { return map[string]any{"att": map[string]any{"data": []byte(s)}} }
	r1, _, err := env.Coll.Put(ctx, "x", Body{"v": 1})
	if err != nil {
		return render, "", err
	}
	if _, _, err = env.Coll.PutExistingRevWithBody(ctx, "x", Body{"v": 2, BodyAttachments: att("XXXX")}, []string{"2-aaa", r1}, false, ExistingVersionWithUpdateToHLV); err != nil {
		return render, "", err
	}
	if _, _, err = env.Coll.PutExistingRevWithBody(ctx, "x", Body{"v": 3, BodyAttachments: att("YYYY")}, []string{"3-bbb", "2-bbb", r1}, false, ExistingVersionWithUpdateToHLV); err != nil {
		return render, "", err
	}
	if _, _, err = env.Coll.Put(ctx, "x", Body{BodyRev: "3-bbb", BodyDeleted: true}); err != nil {
		return render, "", err
	}
	env.DBC.FlushRevisionCacheForTest()
	meta, err := env.Coll.Get1xRevBody(ctx, "x", "", false, nil)
	if err != nil {
		return render, "", err
	}
	if meta[BodyRev] != "2-aaa" || vfC14AttNames(meta) != "[att]" {
		return render, fmt.Sprintf("GET x names revision %v with attachments %s, expected 2-aaa with [att]", meta[BodyRev], vfC14AttNames(meta)), nil
	}
	full, err := env.Coll.Get1xRevBody(ctx, "x", "", false, []string{})
	if err != nil {
		return render, fmt.Sprintf("GET x = 2-aaa lists att, reading its bytes fails: %v", err), nil
	}
	if !bytes.Equal(vfC14AttBytes(full, "att"), []byte("XXXX")) {
		return render, "GET x = 2-aaa: att does not read back \"XXXX\"", nil
	}
	return render, "", nil
}

// vfC14ReproLeak: found by the C14 state machine (dangling-stub input dimension).
func vfC14ReproLeak(t *testing.T) (render, failure string, err error) {
	render = `cross-cluster versioning off; Put(x,{_attachments:{a:"AAAA"}}) -> 1-..; Put(x,{_rev:1-..,_attachments:{a:{stub,digest,revpos:1},c:{stub:true}}}) -> accepted; Put(x,{_rev:2-..}) (no attachments); data document of "AAAA"`
	env, err := vfC14ReproOpen(t, false)
	if err != nil {
		return render, "", err
	}
	defer env.Close()
	ctx := env.Ctx
	content := []byte("AAAA")
	r1, _, err := env.Coll.Put(ctx, "x", Body{"v": 1, BodyAttachments: map[string]any{"a": map[string]any{"data": content}}})
	if err != nil {
		return render, "", err
	}
	r2, _, err := env.Coll.Put(ctx, "x", Body{"v": 2, BodyRev: r1, BodyAttachments: map[string]any{
		"a": map[string]any{"stub": true, "digest": vfC14Digest(content), "revpos": float64(1)},
		"c": map[string]any{"stub": true}}})
	if err != nil {
		// the unresolvable stub is refused: nothing to reproduce
		return render, "", nil
	}
	if _, _, err = env.Coll.Put(ctx, "x", Body{"v": 3, BodyRev: r2}); err != nil {
		return render, "", err
	}
	if _, err := env.Coll.GetAttachment(ctx, MakeAttachmentKey(AttVersion2, "x", vfC14Digest(content))); err == nil {
		return render, `the data document of "AAAA" still exists although the only leaf (3-..) has no attachments`, nil
	}
	return render, "", nil
}

func TestVerif_C14_Known(t *testing.T) {
	rec := kit.New(vfC14ID, "Known")
	defer rec.Flush()
	for _, rp := range []vfC14Repro{{vfC14Sig13, vfC14Repro13}, {vfC14SigPromo, vfC14ReproPromo}, {vfC14SigLeak, vfC14ReproLeak}} {
		render, failure, err := rp.run(t)
		rec.Class("reproductions", 1)
		switch {
		case err != nil:
			rec.Inconclusive()
			kit.InconclusiveLine(vfC14ID, "reproduction of %s could not run: %v", rp.sig, err)
		case failure != "":
			rec.Class("reproductions.still-failing", 1)
			if kit.Known(vfC14ID, rp.sig) {
				kit.KnownFinding(vfC14ID, rp.sig, fmt.Sprintf("%s [reproduction: %s] -> %s", kit.KnownWhat(vfC14ID, rp.sig), render, failure))
			} else {
				kit.Note(vfC14ID, "reproduction of %s fails but the signature is not listed as open; the generated state machine decides: %s", rp.sig, failure)
			}
		default:
			kit.Note(vfC14ID, "reproduction of %s holds now (finding repaired?): %s", rp.sig, render)
		}
	}
	rec.Sample("deterministic reproductions of the listed known findings (regression only, decide nothing)")
}
