package db

// C20 — sequence tokens round-trip and order consistently.
// Injected into package db by the /verif driver (build overlay); never part of /repo.

import (
	"encoding/json"
	"fmt"
	"math"
	"math/big"
	"regexp"
	"strings"
	"testing"

	"github.com/couchbase/sync_gateway/base"
	kit "github.com/couchbase/sync_gateway/verifkit"
	"pgregory.net/rapid"
)

// vfC20WellFormed: a struct the formatting rules print completely (no field is dropped), so the
// round trip has to be the identity on it. Written from the documented format, not from the code.
func vfC20WellFormed(s SequenceID) bool {
	if s.TriggeredBy != 0 {
		// triggered-by form TriggeredBy:Seq is a back-fill row: Seq lies before the trigger
		if !(s.Seq < s.TriggeredBy) {
			return false
		}
		return s.LowSeq == 0 || s.LowSeq < s.TriggeredBy
	}
	return s.LowSeq == 0 || s.LowSeq < s.Seq
}

// vfC20RefKey is the position a well-formed token denotes in a changes listing, written from the
// documented token semantics (not from Before): a plain token S sits at S; a back-fill row T:S sits at
// its trigger T, before the plain row T ("n" sorts after "n:m") and ordered by S among the rows of the
// same trigger; a token carrying a low sequence L (L::S, L:T:S) sits at L — the position a client resumes
// from — after the plain and back-fill rows of L, ordered by its remainder. Keys compare lexicographically.
func vfC20RefKey(s SequenceID) []uint64 {
	rest := func(trig, seq uint64) []uint64 {
		if trig != 0 {
			return []uint64{trig, 0, seq}
		}
		return []uint64{seq, 1, 0}
	}
	if s.LowSeq != 0 {
		return append([]uint64{s.LowSeq, 2}, rest(s.TriggeredBy, s.Seq)...)
	}
	return rest(s.TriggeredBy, s.Seq)
}

func vfC20RefLess(a, b SequenceID) bool {
	ka, kb := vfC20RefKey(a), vfC20RefKey(b)
	for i := 0; i < len(ka) && i < len(kb); i++ {
		if ka[i] != kb[i] {
			return ka[i] < kb[i]
		}
	}
	return len(ka) < len(kb)
}

func vfC20R(s SequenceID) string {
	return fmt.Sprintf("{TriggeredBy:%d LowSeq:%d Seq:%d}=%q", s.TriggeredBy, s.LowSeq, s.Seq, s.String())
}

func vfC20Form(s SequenceID) string {
	switch {
	case s.LowSeq != 0 && s.TriggeredBy != 0:
		return "low:trig:seq"
	case s.LowSeq != 0:
		return "low::seq"
	case s.TriggeredBy != 0:
		return "trig:seq"
	}
	return "seq"
}

// vfC20SafeRef is the resume position a token denotes, from the property text: the last contiguous
// sequence when the token carries one that is still behind the row, else the row's own sequence.
func vfC20SafeRef(s SequenceID) uint64 {
	if s.LowSeq > 0 && s.LowSeq < s.Seq {
		return s.LowSeq
	}
	return s.Seq
}

func vfC20CheckRoundTrip(t kit.TB, test string, s SequenceID) {
	render := fmt.Sprintf("SequenceID{TriggeredBy:%d LowSeq:%d Seq:%d}", s.TriggeredBy, s.LowSeq, s.Seq)
	str := s.String()
	p, err := ParsePlainSequenceID(str)
	if err != nil {
		kit.Violation(t, "C20", test, render, "emitted token %q is rejected by the parser: %v", str, err)
	}
	if p.String() != str {
		kit.Violation(t, "C20", test, render, "token %q parses to %+v which prints as %q", str, p, p.String())
	}
	if p.SafeSequence() != s.SafeSequence() || s.SafeSequence() != vfC20SafeRef(s) {
		kit.Violation(t, "C20", test, render, "token %q: resume position %d, parsed token resumes at %d (reference %d)", str, s.SafeSequence(), p.SafeSequence(), vfC20SafeRef(s))
	}
	if vfC20WellFormed(s) && p != s {
		kit.Violation(t, "C20", test, render, "well-formed token %q parses to a different token %+v", str, p)
	}
	// JSON form, as carried in changes responses and checkpoints
	jb, err := json.Marshal(s)
	if err != nil {
		kit.Violation(t, "C20", test, render, "MarshalJSON failed: %v", err)
	}
	var pj SequenceID
	if err := json.Unmarshal(jb, &pj); err != nil {
		kit.Violation(t, "C20", test, render, "emitted JSON token %s is rejected: %v", jb, err)
	}
	if pj != p {
		kit.Violation(t, "C20", test, render, "JSON form %s decodes to %+v, plain form %q to %+v", jb, pj, str, p)
	}
	pj2, err := ParseJSONSequenceID(string(jb))
	if err != nil || pj2 != p {
		kit.Violation(t, "C20", test, render, "ParseJSONSequenceID(%s) = %+v, %v; want %+v", jb, pj2, err, p)
	}
	// inside a surrounding document, as in a changes response
	type row struct {
		Seq SequenceID `json:"seq"`
	}
	rb, _ := json.Marshal(row{Seq: s})
	var r2 row
	if err := base.JSONUnmarshal(rb, &r2); err != nil || r2.Seq != p {
		kit.Violation(t, "C20", test, render, "embedded JSON %s decodes to %+v, %v; want %+v", rb, r2.Seq, err, p)
	}
}

type vfC20Law struct{ irreflexive, asymmetric, transitive int64 }

func vfC20Structs(maxField uint64) []SequenceID {
	var all []SequenceID
	for tb := uint64(0); tb <= maxField; tb++ {
		for low := uint64(0); low <= maxField; low++ {
			for seq := uint64(0); seq <= maxField; seq++ {
				all = append(all, SequenceID{TriggeredBy: tb, LowSeq: low, Seq: seq})
			}
		}
	}
	return all
}

// TestVerif_C20_Exhaustive enumerates every SequenceID with all three fields in 0..R, checks the
// round trip on each, and irreflexivity / asymmetry / transitivity of Before on all pairs and
// triples. Sharded over the first element for the thorough tier.
func TestVerif_C20_Exhaustive(t *testing.T) {
	rec := kit.New("C20", "Exhaustive")
	defer rec.Flush()
	maxField := uint64(kit.Param("maxfield", kit.Pick(5, 7)))
	all := vfC20Structs(maxField)
	n := len(all)
	shard, shards := kit.Shard()

	// precompute the relation
	before := make([][]bool, n)
	for i := range all {
		before[i] = make([]bool, n)
		for j := range all {
			before[i][j] = all[i].Before(all[j])
		}
	}
	var mixedPairs, mixedTriples, pairs, triples, listingPairs int64
	forms := make([]string, n)
	for i, s := range all {
		forms[i] = vfC20Form(s)
	}
	wf := 0
	for i, s := range all {
		if i%shards != shard {
			continue
		}
		vfC20CheckRoundTrip(t, "Exhaustive", s)
		rec.Class("form="+forms[i], 1)
		if vfC20WellFormed(s) {
			wf++
		}
		if before[i][i] {
			kit.Violation(t, "C20", "Exhaustive", fmt.Sprintf("a=%s", vfC20R(s)), "Before is not irreflexive: a.Before(a)")
		}
		for j := range all {
			pairs++
			if forms[i] != forms[j] {
				mixedPairs++
			}
			if before[i][j] && before[j][i] {
				kit.Violation(t, "C20", "Exhaustive", fmt.Sprintf("a=%s b=%s", vfC20R(s), vfC20R(all[j])), "Before is not asymmetric: a.Before(b) and b.Before(a)")
			}
			if vfC20WellFormed(s) && vfC20WellFormed(all[j]) && s.Seq != 0 && all[j].Seq != 0 {
				listingPairs++
				if before[i][j] != vfC20RefLess(s, all[j]) {
					kit.Violation(t, "C20", "Exhaustive", fmt.Sprintf("a=%s b=%s", vfC20R(s), vfC20R(all[j])), "Before disagrees with the listing order of well-formed tokens: a.Before(b)=%v, but by the documented token semantics a is listed before b = %v", before[i][j], vfC20RefLess(s, all[j]))
				}
			}
			if !before[i][j] {
				continue
			}
			// a<b: the order must also be usable to merge/sort feeds, i.e. incomparability has to be
			// transitive (strict weak order): every c is after a or before b.
			for k := range all {
				if !before[i][k] && !before[k][j] {
					kit.Violation(t, "C20", "Exhaustive", fmt.Sprintf("a=%s b=%s c=%s", vfC20R(s), vfC20R(all[j]), vfC20R(all[k])), "Before is not a strict weak order: a<b but c is neither after a nor before b (merging feeds by it is ill-defined)")
				}
			}
			for k := range all {
				triples++
				if forms[i] != forms[j] || forms[j] != forms[k] {
					mixedTriples++
				}
				if before[j][k] && !before[i][k] {
					kit.Violation(t, "C20", "Exhaustive", fmt.Sprintf("a=%s b=%s c=%s", vfC20R(s), vfC20R(all[j]), vfC20R(all[k])), "Before is not transitive: a<b, b<c but not a<c")
				}
			}
		}
	}
	rec.Class("structs", int64(n))
	rec.Class("well_formed_structs_in_shard", int64(wf))
	rec.Class("pairs", pairs)
	rec.Class("well_formed_pairs_checked_against_listing_order", listingPairs)
	rec.Class("triples_with_a_before_b", triples)
	rec.Bulk(pairs+triples, mixedPairs+mixedTriples)
	rec.Sample(fmt.Sprintf("all %d structs with fields in 0..%d: round trip of each (e.g. %+v -> %q); Before on %d ordered pairs and %d triples (a<b fixed), %d/%d mixing token forms",
		n, maxField, all[n/2+3], all[n/2+3].String(), pairs, triples, mixedPairs, mixedTriples))
	if shards == 1 {
		rec.SetExhaustive()
	}
}

func vfC20GenField() *rapid.Generator[uint64] {
	return rapid.OneOf(
		rapid.Uint64Range(0, 8),
		rapid.Uint64Range(0, 1000),
		rapid.SampledFrom([]uint64{math.MaxUint64, math.MaxUint64 - 1, math.MaxInt64, math.MaxInt64 + 1, 1 << 53, 1<<53 + 1, math.MaxUint32, math.MaxUint32 + 1}),
		rapid.Uint64(),
	)
}

func vfC20GenSeq() *rapid.Generator[SequenceID] {
	return rapid.Custom(func(t *rapid.T) SequenceID {
		s := SequenceID{Seq: vfC20GenField().Draw(t, "seq")}
		switch rapid.IntRange(0, 3).Draw(t, "form") {
		case 1:
			s.TriggeredBy = vfC20GenField().Draw(t, "trig")
		case 2:
			s.LowSeq = vfC20GenField().Draw(t, "low")
		case 3:
			s.TriggeredBy = vfC20GenField().Draw(t, "trig")
			s.LowSeq = vfC20GenField().Draw(t, "low")
		}
		return s
	})
}

// TestVerif_C20_Random: round trip and order laws on random 64-bit triples of tokens.
func TestVerif_C20_Random(t *testing.T) {
	rec := kit.New("C20", "Random")
	defer rec.Flush()
	rapid.Check(t, func(t *rapid.T) {
		a, b, c := vfC20GenSeq().Draw(t, "a"), vfC20GenSeq().Draw(t, "b"), vfC20GenSeq().Draw(t, "c")
		render := fmt.Sprintf("a=%s b=%s c=%s", vfC20R(a), vfC20R(b), vfC20R(c))
		kit.Guard(t, "C20", "Random", func() string { return render }, func() {
			for _, s := range []SequenceID{a, b, c} {
				vfC20CheckRoundTrip(t, "Random", s)
			}
			perm := [][3]SequenceID{{a, b, c}, {a, c, b}, {b, a, c}, {b, c, a}, {c, a, b}, {c, b, a}}
			for _, p := range perm {
				x, y, z := p[0], p[1], p[2]
				if x.Before(x) {
					kit.Violation(t, "C20", "Random", render, "not irreflexive at %+v", x)
				}
				if x.Before(y) && y.Before(x) {
					kit.Violation(t, "C20", "Random", render, "not asymmetric at %+v, %+v", x, y)
				}
				if vfC20WellFormed(x) && vfC20WellFormed(y) && x.Seq != 0 && y.Seq != 0 && x.Before(y) != vfC20RefLess(x, y) {
					kit.Violation(t, "C20", "Random", render, "Before disagrees with the listing order of well-formed tokens %s and %s: Before=%v, listed-before=%v", vfC20R(x), vfC20R(y), x.Before(y), vfC20RefLess(x, y))
				}
				if x.Before(y) && !x.Before(z) && !z.Before(y) {
					kit.Violation(t, "C20", "Random", render, "not a strict weak order: %s < %s but %s is neither after the first nor before the second", vfC20R(x), vfC20R(y), vfC20R(z))
				}
				if x.Before(y) && y.Before(z) && !x.Before(z) {
					kit.Violation(t, "C20", "Random", render, "not transitive at %+v < %+v < %+v", x, y, z)
				}
			}
		})
		mixed := vfC20Form(a) != vfC20Form(b) || vfC20Form(b) != vfC20Form(c)
		rec.Case(render, mixed, "forms="+vfC20Form(a)+"|"+vfC20Form(b)+"|"+vfC20Form(c))
	})
}

var vfC20Num = `(0|[0-9]+)`
var vfC20Ref = regexp.MustCompile(`^(?:` + vfC20Num + `|` + vfC20Num + `:` + vfC20Num + `|` + vfC20Num + `:([0-9]*):` + vfC20Num + `)$`)

// vfC20RefParse is the reference recogniser written from the documented token grammar:
// Seq | TriggeredBy:Seq | LowSeq:[TriggeredBy]:Seq, decimal digits only, every number < 2^64; the
// empty string denotes the zero position.
func vfC20RefParse(s string) (SequenceID, bool) {
	if s == "" {
		return SequenceID{}, true
	}
	m := vfC20Ref.FindStringSubmatch(s)
	if m == nil {
		return SequenceID{}, false
	}
	num := func(x string) (uint64, bool) {
		if x == "" {
			return 0, true
		}
		v, ok := new(big.Int).SetString(x, 10)
		if !ok || !v.IsUint64() {
			return 0, false
		}
		return v.Uint64(), true
	}
	var out SequenceID
	var ok1, ok2, ok3 = true, true, true
	switch {
	case m[1] != "":
		out.Seq, ok1 = num(m[1])
	case m[2] != "" || m[3] != "":
		out.TriggeredBy, ok1 = num(m[2])
		out.Seq, ok2 = num(m[3])
	default:
		out.LowSeq, ok1 = num(m[4])
		out.TriggeredBy, ok2 = num(m[5])
		out.Seq, ok3 = num(m[6])
	}
	if !(ok1 && ok2 && ok3) {
		return SequenceID{}, false
	}
	return out, true
}

// vfC20CheckParse is the oracle for arbitrary strings; shared by the rapid test and the fuzz target.
func vfC20CheckParse(t kit.TB, test, in string) (accepted bool) {
	render := fmt.Sprintf("input=%q", in)
	var got SequenceID
	var err error
	func() {
		defer func() {
			if p := recover(); p != nil {
				if strings.HasPrefix(fmt.Sprintf("%T", p), "rapid.") {
					panic(p)
				}
				kit.Violation(t, "C20", test, render, "parser panicked: %v", p)
			}
		}()
		got, err = ParsePlainSequenceID(in)
	}()
	want, ok := vfC20RefParse(in)
	if err != nil {
		if ok {
			kit.Violation(t, "C20", test, render, "valid token rejected: %v", err)
		}
		if status, _ := base.ErrorAsHTTPStatus(err); status < 400 || status > 499 {
			kit.Violation(t, "C20", test, render, "malformed token is answered with status %d (%v), not a client error", status, err)
		}
		return false
	}
	if !ok {
		kit.Violation(t, "C20", test, render, "malformed token accepted as %+v", got)
	}
	if got != want {
		kit.Violation(t, "C20", test, render, "token parsed as %+v, grammar says %+v", got, want)
	}
	again, err := ParsePlainSequenceID(got.String())
	if err != nil || again.String() != got.String() {
		kit.Violation(t, "C20", test, render, "accepted token prints as %q which re-parses to %+v, %v", got.String(), again, err)
	}
	return true
}

func vfC20GenString() *rapid.Generator[string] {
	piece := rapid.OneOf(
		rapid.SampledFrom([]string{"", "0", "1", "7", "10", "007", "18446744073709551615", "18446744073709551616", "9223372036854775808",
			"-1", "+1", " 1", "1 ", "1e3", "0x10", "1.0", "١", "1_000", "a", "\"", "NaN", "\t2", "99999999999999999999999"}),
		rapid.StringMatching(`[0-9]{1,3}`),
		rapid.StringMatching(`[0-9:+\- a.e"]{0,4}`),
	)
	return rapid.Custom(func(t *rapid.T) string {
		n := rapid.IntRange(1, 5).Draw(t, "parts")
		parts := make([]string, n)
		for i := range parts {
			parts[i] = piece.Draw(t, "piece")
		}
		return strings.Join(parts, ":")
	})
}

// TestVerif_C20_Parser: arbitrary strings against the reference grammar.
func TestVerif_C20_Parser(t *testing.T) {
	rec := kit.New("C20", "Parser")
	defer rec.Flush()
	rapid.Check(t, func(t *rapid.T) {
		in := vfC20GenString().Draw(t, "in")
		acc := vfC20CheckParse(t, "Parser", in)
		cls := "rejected"
		if acc {
			cls = "accepted"
		}
		// non-trivial: a string with at least one separator (exercises the compound branches)
		rec.Case(fmt.Sprintf("%q", in), strings.Contains(in, ":"), cls, fmt.Sprintf("components=%d", strings.Count(in, ":")+1))
	})
}

// TestVerif_C20_JSONParser: the JSON entry points accept exactly a plain token, or a JSON string
// holding one.
func TestVerif_C20_JSONParser(t *testing.T) {
	rec := kit.New("C20", "JSONParser")
	defer rec.Flush()
	rapid.Check(t, func(t *rapid.T) {
		in := vfC20GenString().Draw(t, "in")
		quoted := rapid.Bool().Draw(t, "quoted")
		arg := in
		if quoted {
			arg = `"` + in + `"`
		}
		render := fmt.Sprintf("ParseJSONSequenceID(%q)", arg)
		want, ok := vfC20RefParse(in)
		if strings.ContainsAny(in, "\"\\") {
			// quoting rules of the JSON layer are not part of the token grammar
			rec.Case(render, false, "skipped-quote")
			return
		}
		kit.Guard(t, "C20", "JSONParser", func() string { return render }, func() {
			got, err := ParseJSONSequenceID(arg)
			if ok && (err != nil || got != want) {
				kit.Violation(t, "C20", "JSONParser", render, "valid token: got %+v, %v; want %+v", got, err, want)
			}
			if !ok && err == nil {
				kit.Violation(t, "C20", "JSONParser", render, "malformed token accepted as %+v", got)
			}
			if err != nil {
				if status, _ := base.ErrorAsHTTPStatus(err); status < 400 || status > 499 {
					kit.Violation(t, "C20", "JSONParser", render, "malformed token is answered with status %d (%v), not a client error", status, err)
				}
			}
		})
		rec.Case(render, strings.Contains(in, ":"), fmt.Sprintf("ok=%v", ok))
	})
}

// FuzzVerif_C20_Parse: coverage-guided search over arbitrary strings with the same oracle
// (thorough tier only).
func FuzzVerif_C20_Parse(f *testing.F) {
	for _, s := range []string{"", "1", "1:2", "1:2:3", "1::3", ":", "::", "1:2:3:4", "-1", "+1:2", " 1", "18446744073709551616", "18446744073709551615:0:1", "a:1", "1:a", "1:2:a", "١:2"} {
		f.Add(s)
	}
	f.Fuzz(func(t *testing.T, in string) {
		vfC20CheckParse(t, "FuzzParse", in)
	})
}
