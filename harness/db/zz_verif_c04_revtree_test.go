package db

// C04 — revision trees stay well-formed with a deterministic, order-independent winner.
// Injected into package db by the /verif driver (build overlay); never part of /repo.
//
//  (i)   TestVerif_C04_Component: generated revision sets inserted with RevTree.addRevision in generated
//        orders (with rejected attempts), winner/flags against a model, pruning at depths 1..6, JSON round trip.
//  (ii)  TestVerif_C04_System: the same kind of sets pushed with PutExistingRevWithBody into two databases in
//        two different orders (conflict-allowing and conflict-free); TestVerif_C04_Lifecycle: Put / delete /
//        resurrect / pushed-branch sequences against a model, with store -> reload after every step.
//  (iii) TestVerif_C04_CodecStrings (quick) and FuzzVerif_C04_RevTree (thorough): RevTree.UnmarshalJSON on
//        generated / fuzzed stored forms — for structurally valid stored forms: no panic, the decoded tree is
//        the one described, accepted input re-marshals to an equal tree; anything else is out of domain.

import (
	"bytes"
	"context"
	"encoding/json"
	"fmt"
	"reflect"
	"sort"
	"strconv"
	"strings"
	"testing"

	"github.com/couchbase/sync_gateway/base"
	"github.com/couchbase/sync_gateway/channels"
	kit "github.com/couchbase/sync_gateway/verifkit"
	"pgregory.net/rapid"
)

// ---------------------------------------------------------------------------------------------
// model

type vfC04Rev struct {
	id, parent string
	gen        int
	digest     string
	deleted    bool
	body       string // JSON written with this revision ("" = none known to the model)
	channel    string
}

func (r vfC04Rev) String() string {
	s := r.id
	if r.deleted {
		s += "*"
	}
	if r.parent != "" {
		s += "<" + r.parent
	}
	return s
}

type vfC04Model struct {
	revs  map[string]*vfC04Rev
	order []string // insertion order, for rendering
}

func vfC04NewModel() *vfC04Model { return &vfC04Model{revs: map[string]*vfC04Rev{}} }

func (m *vfC04Model) add(r vfC04Rev) {
	c := r
	m.revs[r.id] = &c
	m.order = append(m.order, r.id)
}

func (m *vfC04Model) leaves() []*vfC04Rev {
	hasChild := map[string]bool{}
	for _, r := range m.revs {
		hasChild[r.parent] = true
	}
	var out []*vfC04Rev
	for id, r := range m.revs {
		if !hasChild[id] {
			out = append(out, r)
		}
	}
	sort.Slice(out, func(i, j int) bool { return out[i].id < out[j].id })
	return out
}

// vfC04Better: the statement's order — (not deleted, generation, digest).
func vfC04Better(a, b *vfC04Rev) bool {
	if a.deleted != b.deleted {
		return !a.deleted
	}
	if a.gen != b.gen {
		return a.gen > b.gen
	}
	return a.digest > b.digest
}

func (m *vfC04Model) winner() (w *vfC04Rev, branched, conflict bool) {
	live := 0
	ls := m.leaves()
	for _, l := range ls {
		if !l.deleted {
			live++
		}
		if w == nil || vfC04Better(l, w) {
			w = l
		}
	}
	return w, len(ls) > 1, live > 1
}

func (m *vfC04Model) ancestry(id string) []string {
	var h []string
	for id != "" {
		h = append(h, id)
		id = m.revs[id].parent
	}
	return h
}

func vfC04SplitRevID(id string) (int, string, bool) {
	i := strings.Index(id, "-")
	if i <= 0 {
		return 0, "", false
	}
	g, err := strconv.Atoi(id[:i])
	if err != nil || g < 1 {
		return 0, "", false
	}
	return g, id[i+1:], true
}

// vfC04ModelFromTree reads the model view (ids, parents, deleted marks) out of a real tree.
func vfC04ModelFromTree(tree RevTree) (*vfC04Model, error) {
	m := vfC04NewModel()
	for id, info := range tree {
		if info == nil {
			return nil, fmt.Errorf("nil entry for %q", id)
		}
		if info.ID != id {
			return nil, fmt.Errorf("entry %q carries id %q", id, info.ID)
		}
		g, d, ok := vfC04SplitRevID(id)
		if !ok {
			return nil, fmt.Errorf("malformed revision id %q", id)
		}
		m.revs[id] = &vfC04Rev{id: id, parent: info.Parent, gen: g, digest: d, deleted: info.Deleted}
	}
	return m, nil
}

func vfC04RenderTree(tree RevTree) string {
	ids := make([]string, 0, len(tree))
	for id := range tree {
		ids = append(ids, id)
	}
	sort.Strings(ids)
	parts := make([]string, 0, len(ids))
	for _, id := range ids {
		info := tree[id]
		s := id
		if info.Deleted {
			s += "*"
		}
		if info.Parent != "" {
			s += "<" + info.Parent
		}
		parts = append(parts, s)
	}
	return "{" + strings.Join(parts, " ") + "}"
}

// vfC04WellFormed: forest (every parent present, no cycle), child generation strictly above the parent's.
func vfC04WellFormed(tree RevTree) string {
	for id, info := range tree {
		if info == nil || info.ID != id {
			return fmt.Sprintf("entry %q is nil or mislabelled", id)
		}
		g, _, ok := vfC04SplitRevID(id)
		if !ok {
			return fmt.Sprintf("malformed revision id %q", id)
		}
		if info.Parent != "" {
			p, ok := tree[info.Parent]
			if !ok || p == nil {
				return fmt.Sprintf("revision %s has a parent %s that is not in the tree", id, info.Parent)
			}
			pg, _, _ := vfC04SplitRevID(info.Parent)
			if g <= pg {
				return fmt.Sprintf("revision %s is not a higher generation than its parent %s", id, info.Parent)
			}
		}
		steps := 0
		for cur := info; cur != nil && cur.Parent != ""; cur = tree[cur.Parent] {
			steps++
			if steps > len(tree) {
				return fmt.Sprintf("cycle through %s", id)
			}
		}
	}
	return ""
}

func vfC04SameSet(a, b base.Set) bool {
	if len(a) != len(b) {
		return false
	}
	for k := range a {
		if !b.Contains(k) {
			return false
		}
	}
	return true
}

// vfC04TreeDiff compares two trees field by field. A body is an in-memory cache when a body key is
// present (MarshalJSON stores the key only), so bodies are compared only for inline entries.
func vfC04TreeDiff(a, b RevTree) string {
	if len(a) != len(b) {
		return fmt.Sprintf("%d vs %d revisions: %s vs %s", len(a), len(b), vfC04RenderTree(a), vfC04RenderTree(b))
	}
	for id, x := range a {
		y, ok := b[id]
		if !ok {
			return fmt.Sprintf("revision %s missing: %s vs %s", id, vfC04RenderTree(a), vfC04RenderTree(b))
		}
		switch {
		case x.ID != y.ID:
			return fmt.Sprintf("revision %s: id %q vs %q", id, x.ID, y.ID)
		case x.Parent != y.Parent:
			return fmt.Sprintf("revision %s: parent %q vs %q", id, x.Parent, y.Parent)
		case x.Deleted != y.Deleted:
			return fmt.Sprintf("revision %s: deleted %v vs %v", id, x.Deleted, y.Deleted)
		case x.BodyKey != y.BodyKey:
			return fmt.Sprintf("revision %s: body key %q vs %q", id, x.BodyKey, y.BodyKey)
		case x.BodyKey == "" && !bytes.Equal(x.Body, y.Body):
			return fmt.Sprintf("revision %s: body %q vs %q", id, x.Body, y.Body)
		case x.HasAttachments != y.HasAttachments:
			return fmt.Sprintf("revision %s: hasAttachments %v vs %v", id, x.HasAttachments, y.HasAttachments)
		case !vfC04SameSet(x.Channels, y.Channels):
			return fmt.Sprintf("revision %s: channels %v vs %v", id, x.Channels, y.Channels)
		}
	}
	return ""
}

// ---------------------------------------------------------------------------------------------
// generators

var vfC04Digests = []string{"a", "b", "c"}

// vfC04GenSet draws a revision set in creation order (parents first): several roots, tombstones
// (also inner ones = resurrected), equal-generation siblings from a 3-letter digest pool, occasional
// generation gaps and roots at generations that cross 9 -> 10.
func vfC04GenSet(t *rapid.T, maxN int, gaps bool) []vfC04Rev {
	n := rapid.IntRange(1, maxN).Draw(t, "n")
	baseGen := rapid.SampledFrom([]int{1, 1, 1, 1, 8, 9}).Draw(t, "baseGen")
	var set []vfC04Rev
	used := map[string]bool{}
	for len(set) < n {
		parent := -1
		if len(set) > 0 && rapid.IntRange(0, 6).Draw(t, "root") != 0 {
			// bias towards recent revisions (long branches) but allow any
			if rapid.Bool().Draw(t, "recent") {
				parent = len(set) - 1 - rapid.IntRange(0, min(2, len(set)-1)).Draw(t, "back")
			} else {
				parent = rapid.IntRange(0, len(set)-1).Draw(t, "parent")
			}
		}
		gen := baseGen
		pid := ""
		if parent >= 0 {
			gen = set[parent].gen + 1
			pid = set[parent].id
			if gaps && rapid.IntRange(0, 19).Draw(t, "gap") == 0 {
				gen += rapid.IntRange(1, 2).Draw(t, "gapSize")
			}
		} else if len(set) > 0 {
			gen = baseGen + rapid.IntRange(0, 2).Draw(t, "rootGen")
		}
		start := rapid.IntRange(0, 2).Draw(t, "digest")
		id := ""
		dg := ""
		for k := 0; k < 3; k++ {
			dg = vfC04Digests[(start+k)%3]
			if c := fmt.Sprintf("%d-%s", gen, dg); !used[c] {
				id = c
				break
			}
		}
		if id == "" {
			continue // all three digests of this generation are taken; draw another place
		}
		used[id] = true
		del := rapid.IntRange(0, 3).Draw(t, "deleted") == 0
		r := vfC04Rev{id: id, parent: pid, gen: gen, digest: dg, deleted: del, channel: rapid.SampledFrom([]string{"x", "y", "z"}).Draw(t, "channel")}
		if del {
			r.body = `{"_deleted":true}`
		} else {
			r.body = fmt.Sprintf(`{"channels":["%s"],"v":"%s"}`, r.channel, id)
		}
		set = append(set, r)
	}
	return set
}

func vfC04RenderSet(set []vfC04Rev) string {
	parts := make([]string, len(set))
	for i, r := range set {
		parts[i] = r.String()
	}
	return "[" + strings.Join(parts, " ") + "]"
}

func vfC04SetClasses(set []vfC04Rev) (tie, longTombstone bool, leaves int) {
	m := vfC04NewModel()
	for _, r := range set {
		m.add(r)
	}
	ls := m.leaves()
	maxLive, maxDead := 0, 0
	gens := map[int]int{}
	for _, l := range ls {
		gens[l.gen]++
		if l.deleted {
			maxDead = max(maxDead, l.gen)
		} else {
			maxLive = max(maxLive, l.gen)
		}
	}
	for _, c := range gens {
		if c > 1 {
			tie = true
		}
	}
	return tie, maxLive > 0 && maxDead > maxLive, len(ls)
}

// ---------------------------------------------------------------------------------------------
// (i) component level

func vfC04CheckWinner(t kit.TB, test string, render func() string, ctx context.Context, tree RevTree, when string) {
	m, err := vfC04ModelFromTree(tree)
	if err != nil {
		kit.Violation(t, "C04", test, render(), "%s: %v", when, err)
	}
	if msg := vfC04WellFormed(tree); msg != "" {
		kit.Violation(t, "C04", test, render(), "%s: tree %s is not well-formed: %s", when, vfC04RenderTree(tree), msg)
	}
	if len(tree) == 0 {
		return
	}
	want, wantBranched, wantConflict := m.winner()
	got, branched, conflict := tree.winningRevision(ctx)
	if got != want.id || branched != wantBranched || conflict != wantConflict {
		kit.Violation(t, "C04", test, render(), "%s: tree %s: winningRevision = (%s, branched=%v, conflict=%v), the leaf maximising (not deleted, generation, digest) is %s with branched=%v conflict=%v",
			when, vfC04RenderTree(tree), got, branched, conflict, want.id, wantBranched, wantConflict)
	}
	// the flags a stored document carries
	doc := NewDocument("doc")
	doc.History = tree
	doc.updateWinningRevAndSetDocFlags(ctx)
	if doc.GetRevTreeID() != want.id || doc.hasFlag(channels.Deleted) != want.deleted || doc.hasFlag(channels.Conflict) != wantConflict || doc.hasFlag(channels.Branched) != wantBranched {
		kit.Violation(t, "C04", test, render(), "%s: tree %s: document says current=%s deleted=%v conflict=%v branched=%v, leaves say current=%s deleted=%v conflict=%v branched=%v",
			when, vfC04RenderTree(tree), doc.GetRevTreeID(), doc.hasFlag(channels.Deleted), doc.hasFlag(channels.Conflict), doc.hasFlag(channels.Branched), want.id, want.deleted, wantConflict, wantBranched)
	}
}

func vfC04CheckPrune(t kit.TB, test string, render func() string, ctx context.Context, tree RevTree, depth uint32, gapless bool) (pruned int) {
	before, _ := vfC04ModelFromTree(tree)
	winnerBefore, _, _ := before.winner()
	work := tree.copy()
	pruned, _ = work.pruneRevisions(ctx, depth, winnerBefore.id)
	when := fmt.Sprintf("after pruneRevisions(maxDepth=%d) of %s", depth, vfC04RenderTree(tree))
	if pruned != len(tree)-len(work) {
		kit.Violation(t, "C04", test, render(), "%s: reports %d pruned, %d revisions disappeared", when, pruned, len(tree)-len(work))
	}
	if msg := vfC04WellFormed(work); msg != "" {
		kit.Violation(t, "C04", test, render(), "%s: result %s is not well-formed: %s", when, vfC04RenderTree(work), msg)
	}
	for id, info := range work {
		orig, ok := tree[id]
		if !ok {
			kit.Violation(t, "C04", test, render(), "%s: result contains %s which was not in the tree", when, id)
		}
		if info.Deleted != orig.Deleted || (info.Parent != "" && info.Parent != orig.Parent) {
			kit.Violation(t, "C04", test, render(), "%s: revision %s changed (parent %q -> %q, deleted %v -> %v)", when, id, orig.Parent, info.Parent, orig.Deleted, info.Deleted)
		}
	}
	after, _ := vfC04ModelFromTree(work)
	leavesBefore := map[string]bool{}
	for _, l := range before.leaves() {
		leavesBefore[l.id] = true
		if !l.deleted && !work.contains(l.id) {
			kit.Violation(t, "C04", test, render(), "%s: live leaf %s was removed; result %s", when, l.id, vfC04RenderTree(work))
		}
	}
	for _, l := range after.leaves() {
		if !leavesBefore[l.id] {
			kit.Violation(t, "C04", test, render(), "%s: %s became a leaf; result %s", when, l.id, vfC04RenderTree(work))
		}
	}
	if !work.contains(winnerBefore.id) {
		kit.Violation(t, "C04", test, render(), "%s: the current revision %s was removed; result %s", when, winnerBefore.id, vfC04RenderTree(work))
	}
	vfC04CheckWinner(t, test, render, ctx, work, when)
	if w, _, _ := work.winningRevision(ctx); w != winnerBefore.id {
		kit.Violation(t, "C04", test, render(), "%s: the winner changed from %s to %s", when, winnerBefore.id, w)
	}
	// nothing within maxDepth of a live leaf is removed (distance counted as the code does: the leaf is 1).
	// With generation gaps a tombstoned branch shares close ancestors legitimately, so gapless sets only.
	if gapless {
		for _, l := range before.leaves() {
			if l.deleted {
				continue
			}
			pos := uint32(1)
			for id := l.id; id != "" && pos <= depth; id = tree[id].Parent {
				if !work.contains(id) {
					kit.Violation(t, "C04", test, render(), "%s: revision %s is position %d (<= maxDepth) above live leaf %s but was removed; result %s", when, id, pos, l.id, vfC04RenderTree(work))
				}
				pos++
			}
		}
	}
	return pruned
}

func vfC04CheckCodec(t kit.TB, test string, render func() string, tree RevTree) {
	b, err := tree.MarshalJSON()
	if err != nil {
		kit.Violation(t, "C04", test, render(), "MarshalJSON of %s failed: %v", vfC04RenderTree(tree), err)
	}
	back := RevTree{}
	if err := back.UnmarshalJSON(b); err != nil {
		kit.Violation(t, "C04", test, render(), "tree %s is stored as %s which cannot be loaded: %v", vfC04RenderTree(tree), b, err)
	}
	if d := vfC04TreeDiff(tree, back); d != "" {
		kit.Violation(t, "C04", test, render(), "tree %s is stored as %s and loaded differently: %s", vfC04RenderTree(tree), b, d)
	}
}

func TestVerif_C04_Component(t *testing.T) {
	rec := kit.New("C04", "Component")
	defer rec.Flush()
	ctx := base.TestCtx(t)
	rapid.Check(t, func(rt *rapid.T) {
		set := vfC04GenSet(rt, 10, true)
		perm := rapid.Permutation(set).Draw(rt, "order")
		var ops []string
		render := func() string { return "set=" + vfC04RenderSet(set) + " ops: " + strings.Join(ops, "; ") }
		gapless := true
		byID := map[string]vfC04Rev{}
		for _, r := range set {
			byID[r.id] = r
			if r.parent != "" && r.gen != byID[r.parent].gen+1 {
				gapless = false
			}
		}
		tree := RevTree{}
		inserted := map[string]bool{}
		rejected, prunedAny := 0, false
		kit.Guard(rt, "C04", "Component", render, func() {
			insert := func(r vfC04Rev, wantOK bool, why string) {
				before := tree.copy()
				info := RevInfo{ID: r.id, Parent: r.parent, Deleted: r.deleted}
				if !r.deleted && r.body != "" && rapid.Bool().Draw(rt, "withBody") {
					info.Body = []byte(r.body)
					info.Channels = base.SetOf(r.channel)
				}
				err := tree.addRevision(ctx, "doc", info)
				ops = append(ops, fmt.Sprintf("add %s ok=%v", r, err == nil))
				if (err == nil) != wantOK {
					kit.Violation(rt, "C04", "Component", render(), "addRevision(%s) into %s: error=%v, expected accepted=%v (%s)", r, vfC04RenderTree(before), err, wantOK, why)
				}
				if err != nil {
					rejected++
					// a rejected insertion leaves the tree as it was (the parent's channels may not be stripped either)
					if d := vfC04TreeDiff(before, tree); d != "" {
						kit.Violation(rt, "C04", "Component", render(), "rejected addRevision(%s) changed the tree: %s", r, d)
					}
					return
				}
				inserted[r.id] = true
				vfC04CheckWinner(rt, "Component", render, ctx, tree, "after "+ops[len(ops)-1])
			}
			queue := append([]vfC04Rev{}, perm...)
			for guard := 0; len(queue) > 0 && guard < 200; guard++ {
				r := queue[0]
				queue = queue[1:]
				switch {
				case r.parent != "" && !inserted[r.parent]:
					insert(r, false, "parent not in the tree yet")
					queue = append(queue, r)
				default:
					insert(r, true, "new revision under an existing parent")
				}
				// hostile attempts that must be refused
				switch rapid.IntRange(0, 7).Draw(rt, "hostile") {
				case 0:
					if len(inserted) > 0 {
						insert(r, false, "revision id already in the tree")
					}
				case 1:
					if inserted[r.id] {
						if g := r.gen - rapid.IntRange(0, 1).Draw(rt, "genBack"); g >= 1 {
							insert(vfC04Rev{id: fmt.Sprintf("%d-zz", g), parent: r.id, gen: g, digest: "zz"}, false, "generation not above the parent's")
						}
					}
				}
			}
			// the final tree holds exactly the set
			if len(tree) != len(set) {
				kit.Violation(rt, "C04", "Component", render(), "tree %s does not hold the %d inserted revisions", vfC04RenderTree(tree), len(set))
			}
			for _, r := range set {
				info, ok := tree[r.id]
				if !ok || info.Parent != r.parent || info.Deleted != r.deleted {
					kit.Violation(rt, "C04", "Component", render(), "revision %s is recorded as %+v", r, info)
				}
			}
			vfC04CheckCodec(rt, "Component", render, tree)
			for depth := uint32(1); depth <= 6; depth++ {
				if vfC04CheckPrune(rt, "Component", render, ctx, tree, depth, gapless) > 0 {
					prunedAny = true
				}
			}
		})
		tie, longTS, leaves := vfC04SetClasses(set)
		classes := []string{fmt.Sprintf("leaves=%d", min(leaves, 4))}
		if tie {
			classes = append(classes, "equal-generation-leaves")
		}
		if longTS {
			classes = append(classes, "tombstoned-branch-longer-than-live")
		}
		if prunedAny {
			classes = append(classes, "pruned")
		}
		if !gapless {
			classes = append(classes, "generation-gaps")
		}
		if rejected > 0 {
			classes = append(classes, "with-rejected-insertions")
		}
		rec.Case(render(), tie || longTS, classes...)
	})
}

// ---------------------------------------------------------------------------------------------
// (ii) system level

type vfC04Loaded struct {
	doc    *Document
	tree   RevTree
	leaves map[string]bool // id -> deleted
	winner string
	flags  [3]bool // deleted, conflict, branched
	body   any
}

func vfC04JSONValue(b []byte) any {
	if len(b) == 0 {
		return nil
	}
	var v any
	if err := json.Unmarshal(b, &v); err != nil {
		return string(b)
	}
	return v
}

func vfC04Load(env *vfEnv, docid string) (*vfC04Loaded, error) {
	doc, err := env.Coll.GetDocument(env.Ctx, docid, DocUnmarshalAll)
	if err != nil {
		return nil, err
	}
	l := &vfC04Loaded{doc: doc, tree: doc.History, leaves: map[string]bool{}, winner: doc.GetRevTreeID()}
	for id, info := range doc.History.Leaves() {
		l.leaves[id] = info.Deleted
	}
	l.flags = [3]bool{doc.hasFlag(channels.Deleted), doc.hasFlag(channels.Conflict), doc.hasFlag(channels.Branched)}
	bb, err := doc.BodyBytes(env.Ctx)
	if err != nil {
		return nil, err
	}
	l.body = vfC04JSONValue(bb)
	return l, nil
}

func vfC04RenderLeaves(m map[string]bool) string {
	ids := vfSortedKeys(m)
	for i, id := range ids {
		if m[id] {
			ids[i] = id + "*"
		}
	}
	return vfJoin(ids)
}

func vfC04BodyFor(r vfC04Rev) Body {
	var b Body
	_ = json.Unmarshal([]byte(r.body), &b)
	return b
}

func vfC04IsConflictErr(err error) bool {
	status, _ := base.ErrorAsHTTPStatus(err)
	return status == 409
}

// vfC04CheckStored checks one stored document against the statement: well-formed, winner and flags
// agree with the leaves, and (live winner) the body is the one written with that revision.
func vfC04CheckStored(t kit.TB, test string, render func() string, ctx context.Context, l *vfC04Loaded, bodies map[string]string, where string) {
	if msg := vfC04WellFormed(l.tree); msg != "" {
		kit.Violation(t, "C04", test, render(), "%s: stored tree %s is not well-formed: %s", where, vfC04RenderTree(l.tree), msg)
	}
	m, err := vfC04ModelFromTree(l.tree)
	if err != nil {
		kit.Violation(t, "C04", test, render(), "%s: %v", where, err)
	}
	want, branched, conflict := m.winner()
	if want == nil {
		kit.Violation(t, "C04", test, render(), "%s: stored document has an empty revision tree", where)
	}
	if l.winner != want.id {
		kit.Violation(t, "C04", test, render(), "%s: tree %s: current revision is %s, the leaf maximising (not deleted, generation, digest) is %s", where, vfC04RenderTree(l.tree), l.winner, want.id)
	}
	if l.flags != [3]bool{want.deleted, conflict, branched} {
		kit.Violation(t, "C04", test, render(), "%s: tree %s: document flags deleted/conflict/branched = %v, leaves say %v", where, vfC04RenderTree(l.tree), l.flags, [3]bool{want.deleted, conflict, branched})
	}
	if wb, ok := bodies[want.id]; ok && !want.deleted {
		if !reflect.DeepEqual(l.body, vfC04JSONValue([]byte(wb))) {
			kit.Violation(t, "C04", test, render(), "%s: current revision %s was written with body %s, the document holds %v", where, want.id, wb, l.body)
		}
	}
	// the stored encoding of this tree decodes to the same tree
	vfC04CheckCodec(t, test, render, l.tree)
}

type vfC04Envs struct {
	allow, free [2]*vfEnv
	next        int
}

func vfC04OpenEnvs(t *testing.T, n int) *vfC04Envs {
	e := &vfC04Envs{}
	for i := 0; i < n; i++ {
		a, err := vfOpen(t, vfDBConfig{DBName: fmt.Sprintf("allow%d", i), Mutate: func(o *DatabaseContextOptions) {
			o.AllowConflicts = base.Ptr(true)
		}})
		if err != nil {
			kit.InconclusiveLine("C04", "cannot open database: %v", err)
			t.Skipf("inconclusive: %v", err)
		}
		t.Cleanup(a.Close)
		f, err := vfOpen(t, vfDBConfig{DBName: fmt.Sprintf("free%d", i), Mutate: func(o *DatabaseContextOptions) {
			o.AllowConflicts = base.Ptr(false)
		}})
		if err != nil {
			kit.InconclusiveLine("C04", "cannot open database: %v", err)
			t.Skipf("inconclusive: %v", err)
		}
		t.Cleanup(f.Close)
		e.allow[i], e.free[i] = a, f
	}
	return e
}

func TestVerif_C04_System(t *testing.T) {
	rec := kit.New("C04", "System")
	defer rec.Flush()
	envs := vfC04OpenEnvs(t, 2)
	rapid.Check(t, func(rt *rapid.T) {
		allow := rapid.Bool().Draw(rt, "allowConflicts")
		set := vfC04GenSet(rt, 8, false)
		// order A: creation order or any permutation; order B: any permutation, or A with a few transpositions
		// (in conflict-free mode distant permutations rarely get the same set accepted)
		orderA := append([]vfC04Rev{}, set...)
		if rapid.Bool().Draw(rt, "shuffleA") {
			orderA = rapid.Permutation(set).Draw(rt, "orderA")
		}
		var orderB []vfC04Rev
		if rapid.Bool().Draw(rt, "shuffleB") || len(set) < 2 {
			orderB = rapid.Permutation(set).Draw(rt, "orderB")
		} else {
			orderB = append([]vfC04Rev{}, orderA...)
			for k := rapid.IntRange(1, 3).Draw(rt, "swaps"); k > 0; k-- {
				i := rapid.IntRange(0, len(set)-2).Draw(rt, "swapAt")
				j := rapid.IntRange(i+1, len(set)-1).Draw(rt, "swapWith")
				orderB[i], orderB[j] = orderB[j], orderB[i]
			}
		}
		dbs := envs.free
		if allow {
			dbs = envs.allow
		}
		envs.next++
		docid := fmt.Sprintf("doc%d", envs.next)
		model := vfC04NewModel()
		bodies := map[string]string{}
		for _, r := range set {
			model.add(r)
			bodies[r.id] = r.body
		}
		var ops []string
		render := func() string {
			return fmt.Sprintf("allow_conflicts=%v set=%s %s", allow, vfC04RenderSet(set), strings.Join(ops, "; "))
		}
		var loaded [2]*vfC04Loaded
		rejectedAny := false
		kit.Guard(rt, "C04", "System", render, func() {
			for i, order := range [][]vfC04Rev{orderA, orderB} {
				env := dbs[i]
				ops = append(ops, fmt.Sprintf("db%d:", i))
				for _, r := range order {
					_, _, err := env.Coll.PutExistingRevWithBody(env.Ctx, docid, vfC04BodyFor(r), model.ancestry(r.id), false, ExistingVersionWithUpdateToHLV)
					switch {
					case err == nil:
						ops = append(ops, "push "+r.String())
					case vfC04IsConflictErr(err):
						ops = append(ops, "push "+r.String()+" =409")
						rejectedAny = true
						if allow {
							kit.Violation(rt, "C04", "System", render(), "allow_conflicts database refused revision %s with its ancestry %v: %v", r, model.ancestry(r.id), err)
						}
					default:
						ops = append(ops, fmt.Sprintf("push %s =error(%v)", r, err))
						kit.Violation(rt, "C04", "System", render(), "pushing revision %s with ancestry %v failed with an unexpected error: %v", r, model.ancestry(r.id), err)
					}
				}
				l, err := vfC04Load(env, docid)
				if err != nil {
					kit.Violation(rt, "C04", "System", render(), "db%d: document cannot be loaded after the pushes: %v", i, err)
				}
				loaded[i] = l
				vfC04CheckStored(rt, "System", render, env.Ctx, l, bodies, fmt.Sprintf("db%d", i))
				if allow && len(l.tree) != len(set) {
					kit.Violation(rt, "C04", "System", render(), "db%d accepted every push but stores %s", i, vfC04RenderTree(l.tree))
				}
			}
			// order independence, only when both databases accepted the same set of revisions
			a, b := loaded[0], loaded[1]
			same := len(a.tree) == len(b.tree)
			for id := range a.tree {
				if !b.tree.contains(id) {
					same = false
				}
			}
			if !same {
				ops = append(ops, "(different sets accepted: not compared)")
				return
			}
			if !reflect.DeepEqual(a.leaves, b.leaves) {
				kit.Violation(rt, "C04", "System", render(), "same revisions accepted, different leaves: db0 %s, db1 %s", vfC04RenderLeaves(a.leaves), vfC04RenderLeaves(b.leaves))
			}
			if a.winner != b.winner {
				kit.Violation(rt, "C04", "System", render(), "same revisions accepted, different current revision: db0 %s, db1 %s", a.winner, b.winner)
			}
			if !reflect.DeepEqual(a.body, b.body) {
				kit.Violation(rt, "C04", "System", render(), "same revisions accepted, current revision %s has body %v in db0 and %v in db1", a.winner, a.body, b.body)
			}
			if a.flags != b.flags {
				kit.Violation(rt, "C04", "System", render(), "same revisions accepted, flags deleted/conflict/branched differ: db0 %v, db1 %v", a.flags, b.flags)
			}
			ops = append(ops, "(compared)")
		})
		tie, longTS, leaves := vfC04SetClasses(set)
		differ := false
		for i := range orderA {
			if orderA[i].id != orderB[i].id {
				differ = true
			}
		}
		compared := len(ops) > 0 && ops[len(ops)-1] == "(compared)"
		classes := []string{fmt.Sprintf("allow_conflicts=%v", allow), fmt.Sprintf("compared=%v", compared), fmt.Sprintf("leaves=%d", min(leaves, 4))}
		if rejectedAny {
			classes = append(classes, "some-push-rejected")
		}
		if tie {
			classes = append(classes, "equal-generation-leaves")
		}
		if longTS {
			classes = append(classes, "tombstoned-branch-longer-than-live")
		}
		if loaded[0] != nil && loaded[0].flags[1] {
			classes = append(classes, "in-conflict")
		}
		nontrivial := (tie || longTS) && differ && compared
		classes = append(classes, fmt.Sprintf("allow_conflicts=%v,compared=%v,nontrivial=%v", allow, compared, nontrivial))
		rec.Case(render(), nontrivial, classes...)
	})
}

// TestVerif_C04_Lifecycle: Put on a leaf / Put without a revision (create, resurrect) / delete / pushed
// branches with ancestry, one document per case, against a model that mirrors only accepted writes.
// After every step the document is reloaded from the bucket and compared with the model and with the
// in-memory document the write returned.
func TestVerif_C04_Lifecycle(t *testing.T) {
	rec := kit.New("C04", "Lifecycle")
	defer rec.Flush()
	envs := vfC04OpenEnvs(t, 1)
	rapid.Check(t, func(rt *rapid.T) {
		allow := rapid.Bool().Draw(rt, "allowConflicts")
		env := envs.free[0]
		if allow {
			env = envs.allow[0]
		}
		envs.next++
		docid := fmt.Sprintf("life%d", envs.next)
		model := vfC04NewModel()
		bodies := map[string]string{}
		var ops []string
		render := func() string { return fmt.Sprintf("allow_conflicts=%v %s", allow, strings.Join(ops, "; ")) }
		steps := rapid.IntRange(1, 10).Draw(rt, "steps")
		var resurrected, conflicted, tombstoned bool
		accepted := 0
		kit.Guard(rt, "C04", "Lifecycle", render, func() {
			for s := 0; s < steps; s++ {
				var (
					newRev string
					doc    *Document
					err    error
					added  []vfC04Rev
				)
				pickRev := func(label string) string {
					if len(model.order) == 0 {
						return ""
					}
					ls := model.leaves()
					switch rapid.IntRange(0, 9).Draw(rt, label+"Kind") {
					case 0:
						return rapid.SampledFrom(model.order).Draw(rt, label+"Any") // possibly not a leaf: must be refused
					default:
						return ls[rapid.IntRange(0, len(ls)-1).Draw(rt, label+"Leaf")].id
					}
				}
				ch := rapid.SampledFrom([]string{"x", "y", "z"}).Draw(rt, "channel")
				switch kind := rapid.IntRange(0, 9).Draw(rt, "op"); {
				case kind < 4: // edit of a chosen revision
					target := pickRev("put")
					bodyJSON := fmt.Sprintf(`{"channels":["%s"],"v":"s%d"}`, ch, s)
					var body Body
					_ = json.Unmarshal([]byte(bodyJSON), &body)
					if target != "" {
						body[BodyRev] = target
					}
					newRev, doc, err = env.Coll.Put(env.Ctx, docid, body)
					ops = append(ops, fmt.Sprintf("put on %q -> %q err=%v", target, newRev, err != nil))
					if err == nil {
						g, d, _ := vfC04SplitRevID(newRev)
						added = []vfC04Rev{{id: newRev, parent: target, gen: g, digest: d, body: bodyJSON, channel: ch}}
					}
				case kind < 5: // create or resurrect: no revision given
					bodyJSON := fmt.Sprintf(`{"channels":["%s"],"v":"s%d"}`, ch, s)
					var body Body
					_ = json.Unmarshal([]byte(bodyJSON), &body)
					w, _, _ := model.winner()
					newRev, doc, err = env.Coll.Put(env.Ctx, docid, body)
					ops = append(ops, fmt.Sprintf("put without rev -> %q err=%v", newRev, err != nil))
					if err == nil {
						parent := ""
						if w != nil {
							parent = w.id
							resurrected = true
						}
						g, d, _ := vfC04SplitRevID(newRev)
						added = []vfC04Rev{{id: newRev, parent: parent, gen: g, digest: d, body: bodyJSON, channel: ch}}
					}
				case kind < 7: // delete a chosen revision
					target := pickRev("del")
					if target == "" {
						continue
					}
					newRev, doc, err = env.Coll.DeleteDoc(env.Ctx, docid, DocVersion{RevTreeID: target})
					ops = append(ops, fmt.Sprintf("delete %q -> %q err=%v", target, newRev, err != nil))
					if err == nil {
						g, d, _ := vfC04SplitRevID(newRev)
						added = []vfC04Rev{{id: newRev, parent: target, gen: g, digest: d, deleted: true}}
						tombstoned = true
					}
				default: // a pushed revision with ancestry: 1..2 new revisions on top of an existing one or as a new root
					baseRev := ""
					if len(model.order) > 0 && rapid.IntRange(0, 4).Draw(rt, "pushRoot") != 0 {
						baseRev = rapid.SampledFrom(model.order).Draw(rt, "pushBase")
					}
					gen := 0
					if baseRev != "" {
						gen = model.revs[baseRev].gen
					}
					n := rapid.IntRange(1, 2).Draw(rt, "pushLen")
					del := rapid.IntRange(0, 3).Draw(rt, "pushDeleted") == 0
					parent := baseRev
					var chain []vfC04Rev
					ok := true
					for k := 0; k < n; k++ {
						gen++
						dg := rapid.SampledFrom(vfC04Digests).Draw(rt, "pushDigest")
						id := fmt.Sprintf("%d-%s", gen, dg)
						if _, exists := model.revs[id]; exists {
							ok = false
							break
						}
						r := vfC04Rev{id: id, parent: parent, gen: gen, digest: dg}
						chain = append(chain, r)
						parent = id
					}
					if !ok || len(chain) == 0 {
						continue
					}
					tip := &chain[len(chain)-1]
					tip.deleted = del
					tip.channel = ch
					if del {
						tip.body = `{"_deleted":true}`
					} else {
						tip.body = fmt.Sprintf(`{"channels":["%s"],"v":"s%d"}`, ch, s)
					}
					history := []string{}
					for k := len(chain) - 1; k >= 0; k-- {
						history = append(history, chain[k].id)
					}
					if baseRev != "" {
						history = append(history, model.ancestry(baseRev)...)
					}
					doc, newRev, err = env.Coll.PutExistingRevWithBody(env.Ctx, docid, vfC04BodyFor(*tip), history, false, ExistingVersionWithUpdateToHLV)
					ops = append(ops, fmt.Sprintf("push %v deleted=%v err=%v", history, del, err != nil))
					if err == nil {
						added = chain
					}
				}
				if err != nil {
					if !vfC04IsConflictErr(err) {
						kit.Violation(rt, "C04", "Lifecycle", render(), "unexpected error (not a conflict): %v", err)
					}
					// a refused write must leave the stored tree alone
					if len(model.order) > 0 {
						l, lerr := vfC04Load(env, docid)
						if lerr != nil {
							kit.Violation(rt, "C04", "Lifecycle", render(), "document cannot be loaded after a refused write: %v", lerr)
						}
						if len(l.tree) != len(model.revs) {
							kit.Violation(rt, "C04", "Lifecycle", render(), "a refused write changed the stored tree: %s, model has %d revisions", vfC04RenderTree(l.tree), len(model.revs))
						}
					}
					continue
				}
				accepted++
				for _, r := range added {
					if r.parent != "" {
						if _, ok := model.revs[r.parent]; !ok {
							kit.Violation(rt, "C04", "Lifecycle", render(), "accepted revision %s names a parent the document never had", r)
						}
					}
					model.add(r)
					if r.body != "" {
						bodies[r.id] = r.body
					}
				}
				l, lerr := vfC04Load(env, docid)
				if lerr != nil {
					kit.Violation(rt, "C04", "Lifecycle", render(), "document cannot be loaded after an accepted write: %v", lerr)
				}
				where := "after " + ops[len(ops)-1]
				vfC04CheckStored(rt, "Lifecycle", render, env.Ctx, l, bodies, where)
				// stored tree = model (ids, parents, deleted marks)
				if len(l.tree) != len(model.revs) {
					kit.Violation(rt, "C04", "Lifecycle", render(), "%s: stored tree %s, model has %d revisions %v", where, vfC04RenderTree(l.tree), len(model.revs), model.order)
				}
				for id, r := range model.revs {
					info, ok := l.tree[id]
					if !ok || info.Parent != r.parent || info.Deleted != r.deleted {
						kit.Violation(rt, "C04", "Lifecycle", render(), "%s: revision %s is stored as %+v in %s", where, r, info, vfC04RenderTree(l.tree))
					}
				}
				// store -> reload preserves the tree the write built in memory
				if doc != nil {
					if d := vfC04TreeDiff(doc.History, l.tree); d != "" {
						kit.Violation(rt, "C04", "Lifecycle", render(), "%s: the tree the write stored differs from the tree read back: %s", where, d)
					}
				}
				// live non-winning leaves keep the body written with them
				for _, leaf := range model.leaves() {
					if leaf.deleted || leaf.id == l.winner || leaf.body == "" {
						continue
					}
					conflicted = true
					got, found := l.tree.getRevisionBody(env.Ctx, leaf.id, env.Coll.RevisionBodyLoader)
					if !found || !reflect.DeepEqual(vfC04JSONValue(got), vfC04JSONValue([]byte(leaf.body))) {
						kit.Violation(rt, "C04", "Lifecycle", render(), "%s: non-winning live leaf %s was written with body %s, reloaded tree holds %q (found=%v)", where, leaf.id, leaf.body, got, found)
					}
				}
			}
		})
		classes := []string{fmt.Sprintf("allow_conflicts=%v", allow)}
		if resurrected {
			classes = append(classes, "resurrected")
		}
		if conflicted {
			classes = append(classes, "had-non-winning-live-leaf")
		}
		if tombstoned {
			classes = append(classes, "deleted")
		}
		_, branched, _ := model.winner()
		if branched {
			classes = append(classes, "branched")
		}
		rec.Case(render(), accepted >= 2 && (resurrected || conflicted || branched), classes...)
	})
}

// ---------------------------------------------------------------------------------------------
// (iii) decoder on arbitrary input

// vfC04Stored mirrors the documented stored form of a revision tree (revTreeList): parallel arrays of
// revision ids and parent indexes (-1 = root), index lists for deletions and attachment marks, bodies,
// body keys and non-winning-leaf channels keyed by the decimal index, plus the two legacy per-revision
// arrays ("bodies", "channels") older versions wrote.
type vfC04Stored struct {
	Revs           []string            `json:"revs"`
	Parents        []int               `json:"parents"`
	Deleted        []int               `json:"deleted"`
	BodiesOld      []string            `json:"bodies"`
	BodyMap        map[string]string   `json:"bodymap"`
	BodyKeyMap     map[string]string   `json:"bodyKeyMap"`
	ChannelsOld    [][]string          `json:"channels"`
	ChannelsMap    map[string][]string `json:"channelsMap"`
	HasAttachments []int               `json:"hasAttachments"`
}

// vfC04ValidStored is the reference predicate "structurally valid stored form", written from that format:
// only such forms are in the property's domain (trees an encoder can have produced). It returns the
// parsed form and "" when valid, or the reason why the input is out of domain.
func vfC04ValidStored(in []byte) (*vfC04Stored, string) {
	var w vfC04Stored
	if err := json.Unmarshal(in, &w); err != nil {
		return nil, "not a stored form: " + err.Error()
	}
	n := len(w.Revs)
	if len(w.Parents) != n {
		return nil, "revs/parents length mismatch"
	}
	seen := map[string]bool{}
	for _, id := range w.Revs {
		if id == "" || seen[id] {
			return nil, "empty or repeated revision id"
		}
		seen[id] = true
	}
	for i, p := range w.Parents {
		if p < -1 || p >= n || p == i {
			return nil, "parent index out of range or self"
		}
	}
	for i := range w.Parents { // acyclic
		steps := 0
		for cur := i; cur != -1; cur = w.Parents[cur] {
			if steps++; steps > n {
				return nil, "parent cycle"
			}
		}
	}
	for _, list := range [][]int{w.Deleted, w.HasAttachments} {
		for _, i := range list {
			if i < 0 || i >= n {
				return nil, "deleted/hasAttachments index out of range"
			}
		}
	}
	keyOK := func(k string) bool {
		i, err := strconv.Atoi(k)
		return err == nil && i >= 0 && i < n && strconv.Itoa(i) == k
	}
	for k := range w.BodyMap {
		if !keyOK(k) {
			return nil, "bodymap key is not an index"
		}
	}
	for k := range w.BodyKeyMap {
		if !keyOK(k) {
			return nil, "bodyKeyMap key is not an index"
		}
	}
	for k := range w.ChannelsMap {
		if !keyOK(k) {
			return nil, "channelsMap key is not an index"
		}
	}
	if w.BodiesOld != nil && len(w.BodiesOld) != n {
		return nil, "legacy bodies array inconsistent with revs"
	}
	if w.ChannelsOld != nil && len(w.ChannelsOld) != n {
		return nil, "legacy channels array inconsistent with revs"
	}
	return &w, ""
}

// vfC04CheckDecode is the oracle for generated / fuzzed stored forms. Out-of-domain input (not a
// structurally valid stored form) is only counted: the decoder is called inside a recover and nothing is
// asserted. For a valid stored form: no panic; the decoder may refuse it with an error; if it accepts,
// the tree is the one the stored form describes and re-marshals to an equal tree.
func vfC04CheckDecode(t kit.TB, test string, rec *kit.Rec, in []byte) (status string) {
	render := func() string { return fmt.Sprintf("input=%q", in) }
	w, why := vfC04ValidStored(in)
	if w == nil {
		panicked := false
		func() {
			defer func() {
				if recover() != nil {
					panicked = true
				}
			}()
			tree := RevTree{}
			_ = tree.UnmarshalJSON(in)
		}()
		if rec != nil {
			rec.Class("out-of-domain: "+strings.SplitN(why, ":", 2)[0], 1)
			if panicked {
				rec.Class("out-of-domain (decoder panicked; not judged)", 1)
			}
		}
		return "out-of-domain"
	}
	status = "valid-refused"
	kit.Guard(t, "C04", test, render, func() {
		tree := RevTree{}
		if err := tree.UnmarshalJSON(in); err != nil {
			return
		}
		status = "valid-accepted"
		// the decoded tree is the one the stored form describes
		if len(tree) != len(w.Revs) {
			kit.Violation(t, "C04", test, render(), "stored form lists %d revisions, decoded tree has %d: %s", len(w.Revs), len(tree), vfC04RenderTree(tree))
		}
		del, att := map[int]bool{}, map[int]bool{}
		for _, i := range w.Deleted {
			del[i] = true
		}
		for _, i := range w.HasAttachments {
			att[i] = true
		}
		for i, id := range w.Revs {
			info := tree[id]
			if info == nil || info.ID != id {
				kit.Violation(t, "C04", test, render(), "decoded tree has a nil or mislabelled entry for %q", id)
			}
			parent := ""
			if w.Parents[i] >= 0 {
				parent = w.Revs[w.Parents[i]]
			}
			key := strconv.Itoa(i)
			body := ""
			if w.BodyMap != nil {
				body = w.BodyMap[key]
			} else if w.BodiesOld != nil {
				body = w.BodiesOld[i]
			}
			switch {
			case info.Parent != parent:
				kit.Violation(t, "C04", test, render(), "revision %s: stored parent %q, decoded parent %q", id, parent, info.Parent)
			case info.Deleted != del[i]:
				kit.Violation(t, "C04", test, render(), "revision %s: stored deleted=%v, decoded deleted=%v", id, del[i], info.Deleted)
			case info.HasAttachments != att[i]:
				kit.Violation(t, "C04", test, render(), "revision %s: stored hasAttachments=%v, decoded %v", id, att[i], info.HasAttachments)
			case info.BodyKey != w.BodyKeyMap[key]:
				kit.Violation(t, "C04", test, render(), "revision %s: stored body key %q, decoded %q", id, w.BodyKeyMap[key], info.BodyKey)
			case string(info.Body) != body:
				kit.Violation(t, "C04", test, render(), "revision %s: stored body %q, decoded %q", id, body, info.Body)
			}
			if w.ChannelsMap != nil && len(w.ChannelsOld) == 0 && !vfC04SameSet(info.Channels, base.SetOf(w.ChannelsMap[key]...)) {
				kit.Violation(t, "C04", test, render(), "revision %s: stored channels %v, decoded %v", id, w.ChannelsMap[key], info.Channels)
			}
		}
		b, err := tree.MarshalJSON()
		if err != nil {
			kit.Violation(t, "C04", test, render(), "accepted input cannot be re-marshalled: %v", err)
		}
		back := RevTree{}
		if err := back.UnmarshalJSON(b); err != nil {
			kit.Violation(t, "C04", test, render(), "accepted input re-marshals to %s which is refused: %v", b, err)
		}
		if d := vfC04TreeDiff(tree, back); d != "" {
			kit.Violation(t, "C04", test, render(), "accepted input re-marshals to %s which decodes differently: %s", b, d)
		}
	})
	return status
}

var vfC04DecodeSeeds = []string{
	`{"revs":["1-a"],"parents":[-1]}`,
	`{"revs":["1-a","2-b","2-c"],"parents":[-1,0,0],"deleted":[2],"bodymap":{"1":"{\"v\":1}"},"channelsMap":{"1":["x"]},"hasAttachments":[1]}`,
	`{"revs":["1-a","2-b"],"parents":[-1,0],"bodies":["","{}"],"channels":[null,["x"]]}`,
	`{"revs":["1-a","2-b"],"parents":[-1,0],"bodyKeyMap":{"0":"_sync:rb:abc"},"bodymap":{"0":"{}"}}`,
	`{"revs":["1-a","1-a"],"parents":[1,0]}`,
	`{"revs":["1-a"],"parents":[0]}`,
	`{"revs":["1-a"],"parents":[-7]}`,
	`{"revs":[],"parents":[]}`,
	`{"revs":["x"],"parents":[-1],"channelsMap":{"0":[]}}`,
	`{"revs":["1-a"],"parents":[-1],"channelsMap":{"zero":["x"]}}`,
	`{"revs":["1-a","2-b"],"parents":[-1]}`,
	`{"revs":["1-a"],"parents":[-1],"channelsMap":{"0":["a"]},"channels":[["b"]]}`,
	`null`, `[]`, `{}`, `{"revs":null,"parents":null}`,
}

func FuzzVerif_C04_RevTree(f *testing.F) {
	for _, s := range vfC04DecodeSeeds {
		f.Add([]byte(s))
	}
	f.Fuzz(func(t *testing.T, in []byte) {
		vfC04CheckDecode(t, "FuzzRevTree", nil, in)
	})
}

// TestVerif_C04_CodecStrings: generated stored forms — valid trees with bodies, body keys, channels in
// both formats and attachment marks, and (kept on purpose, counted as out-of-domain) duplicates,
// self-parents, cycles, out-of-range indexes, odd keys — through vfC04CheckDecode; quick-tier stand-in
// for the fuzz target.
func TestVerif_C04_CodecStrings(t *testing.T) {
	rec := kit.New("C04", "CodecStrings")
	defer rec.Flush()
	rapid.Check(t, func(rt *rapid.T) {
		n := rapid.IntRange(0, 6).Draw(rt, "n")
		idx := func(label string) int {
			switch rapid.IntRange(0, 39).Draw(rt, label+"Kind") {
			case 17: // (rapid favours small values: hostile choices sit on inner values so they stay the minority)
				return n + rapid.IntRange(0, 2).Draw(rt, label+"Over") // out of range
			case 29:
				return -1 - rapid.IntRange(0, 2).Draw(rt, label+"Neg")
			}
			if n == 0 {
				return 0
			}
			return rapid.IntRange(0, n-1).Draw(rt, label)
		}
		w := map[string]any{}
		revs := make([]string, n)
		parents := make([]int, n)
		uniqueIDs := rapid.IntRange(0, 7).Draw(rt, "uniqueIDs") != 5
		for i := range revs {
			revs[i] = fmt.Sprintf("%d-%s", rapid.IntRange(1, 4).Draw(rt, "gen"), rapid.SampledFrom([]string{"a", "b", "c", "d"}).Draw(rt, "dg"))
			if uniqueIDs {
				revs[i] += strconv.Itoa(i)
			}
			if rapid.IntRange(0, 60).Draw(rt, "odd") == 37 {
				revs[i] = rapid.SampledFrom([]string{"", "x", "0-a", "-1-a", "1-", "2-a"}).Draw(rt, "oddRev")
			}
			if i == 0 || rapid.IntRange(0, 4).Draw(rt, "isRoot") == 0 {
				parents[i] = -1
			} else {
				if rapid.IntRange(0, 5).Draw(rt, "anyParent") == 3 {
					parents[i] = idx("parent") // any index: forward references, self, cycles, out of range
				} else {
					parents[i] = rapid.IntRange(0, i-1).Draw(rt, "earlierParent")
				}
			}
		}
		w["revs"], w["parents"] = revs, parents
		if rapid.IntRange(0, 20).Draw(rt, "lenMismatch") == 13 {
			w["parents"] = append(parents, -1)
		}
		var list = func(label string) []int {
			k := rapid.IntRange(0, 2).Draw(rt, label+"N")
			if n == 0 && rapid.IntRange(0, 3).Draw(rt, label+"OnEmpty") != 2 {
				k = 0
			}
			out := make([]int, k)
			for i := range out {
				out[i] = idx(label)
			}
			return out
		}
		if rapid.Bool().Draw(rt, "hasDeleted") {
			w["deleted"] = list("deleted")
		}
		if rapid.IntRange(0, 2).Draw(rt, "hasAtt") == 0 {
			w["hasAttachments"] = list("att")
		}
		strIdx := func(label string) string {
			if rapid.IntRange(0, 25).Draw(rt, label+"Odd") == 11 {
				return rapid.SampledFrom([]string{"", "x", "01", " 1", "1.0", "99999999999999999999"}).Draw(rt, label+"OddKey")
			}
			return strconv.Itoa(idx(label))
		}
		switch rapid.IntRange(0, 3).Draw(rt, "bodies") {
		case 1:
			m := map[string]string{}
			for k := rapid.IntRange(0, 2).Draw(rt, "bmN"); k > 0; k-- {
				m[strIdx("bm")] = rapid.SampledFrom([]string{`{"v":1}`, `{}`, ``, "\x01junk"}).Draw(rt, "bmBody")
			}
			w["bodymap"] = m
		case 2:
			k := n
			if rapid.IntRange(0, 6).Draw(rt, "oldShort") == 3 {
				k = max(0, n-1)
			}
			old := make([]string, k)
			for i := range old {
				old[i] = rapid.SampledFrom([]string{"", `{"v":2}`}).Draw(rt, "oldBody")
			}
			w["bodies"] = old
		}
		if rapid.IntRange(0, 3).Draw(rt, "hasKeys") == 0 {
			m := map[string]string{}
			for k := rapid.IntRange(0, 2).Draw(rt, "bkN"); k > 0; k-- {
				m[strIdx("bk")] = rapid.SampledFrom([]string{"_sync:rb:abc", ""}).Draw(rt, "bkKey")
			}
			w["bodyKeyMap"] = m
		}
		chKind := rapid.IntRange(0, 4).Draw(rt, "channels")
		if chKind == 3 && n > 0 { // both formats at once: a valid form the decoder refuses with an error
			w["channelsMap"] = map[string][]string{"0": {"x"}}
			chKind = 2
		}
		switch chKind {
		case 1:
			m := map[string][]string{}
			for k := rapid.IntRange(0, 2).Draw(rt, "cmN"); k > 0; k-- {
				m[strIdx("cm")] = rapid.SampledFrom([][]string{{"x"}, {"x", "y"}, {}}).Draw(rt, "cmSet")
			}
			w["channelsMap"] = m
		case 2:
			k := n
			if rapid.IntRange(0, 6).Draw(rt, "oldChLen") == 3 {
				k = n + 1
			}
			old := make([][]string, k)
			for i := range old {
				old[i] = rapid.SampledFrom([][]string{nil, {"x"}, {"y", "z"}}).Draw(rt, "oldCh")
			}
			w["channels"] = old
		}
		in, _ := json.Marshal(w)
		status := vfC04CheckDecode(rt, "CodecStrings", rec, in)
		rec.Case(string(in), status == "valid-accepted" && n >= 2, status, fmt.Sprintf("revs=%d", n))
	})
}
