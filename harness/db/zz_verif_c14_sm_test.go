package db

// C14 — attachments stay intact and live exactly as long as a revision needs them.
// rapid state machine over the real write APIs (Put, PutExistingRevWithBody) of a rosmar-backed
// database behind the shared fault store, checked against the reference model of
// zz_verif_c14_model_test.go after every write.
// Injected into package db by the /verif driver (build overlay); never part of /repo.

import (
	"bytes"
	"context"
	"encoding/base64"
	"fmt"
	"sort"
	"strings"
	"testing"

	"github.com/couchbase/sync_gateway/base"
	kit "github.com/couchbase/sync_gateway/verifkit"
	vs "github.com/couchbase/sync_gateway/verifstore"
	"pgregory.net/rapid"
)

type vfC14Case struct {
	test string
	rt   *rapid.T
	env  *vfEnv
	w    *vs.Bucket

	conflicts  bool
	ccv        bool
	revsLimit  uint32
	known13    bool
	knownPromo bool

	contents [][]byte
	docIDs   []string
	docs     map[string]*vfC14Doc

	ops        []string
	n          int
	dirty      bool
	nontrivial bool
	classes    map[string]bool
	excluded   []string // generated writes left out because of a listed finding (signature each)
}

func (c *vfC14Case) render() string { return strings.Join(c.ops, "; ") }

func (c *vfC14Case) fail(format string, args ...any) {
	kit.Violation(c.rt, vfC14ID, c.test, c.render(), format, args...)
}

// harness reports a disagreement between the harness' own bookkeeping and the database that is not a
// statement of C14 (exit 2 in the driver, never a violation).
func (c *vfC14Case) harness(format string, args ...any) {
	c.rt.Fatalf("HARNESS (not a verdict): %s\ncase: %s", fmt.Sprintf(format, args...), c.render())
}

func (c *vfC14Case) class(name string) { c.classes[name] = true }

func (c *vfC14Case) contentIndex(b []byte) int {
	for i, x := range c.contents {
		if bytes.Equal(x, b) {
			return i
		}
	}
	c.contents = append(c.contents, b)
	return len(c.contents) - 1
}

func (c *vfC14Case) key(docID string, content int) string {
	return MakeAttachmentKey(AttVersion2, docID, vfC14Digest(c.contents[content]))
}

// vfC14PutRevID is the revision id Put documents for a body: generation + digest over parent and the
// canonical body (attachments are not part of it, which is why every body carries a nonce).
func vfC14PutRevID(gen int, parent string, n int, deleted bool) (string, error) {
	b := Body{"n": n}
	if deleted {
		b[BodyDeleted] = true
	}
	canon, err := base.JSONMarshalCanonical(b)
	if err != nil {
		return "", err
	}
	return CreateRevIDWithBytes(gen, parent, canon), nil
}

// predictRev gives the id the write's new revision will get on model state d.
func (c *vfC14Case) predictRev(d *vfC14Doc, w *vfC14Write) (string, error) {
	parent := w.resolveParent(d)
	pgen := 0
	if parent != "" {
		p := d.revs[parent]
		if p == nil {
			return "", fmt.Errorf("parent %s unknown", parent)
		}
		pgen = p.gen
	}
	if w.push {
		return fmt.Sprintf("%d-%s", pgen+1+w.skip, w.suffix), nil
	}
	return vfC14PutRevID(pgen+1, parent, w.n, w.deleted)
}

// ---------------------------------------------------------------------------------------------
// generator

type vfC14Target struct {
	parent   string
	implicit bool
	pushOnly bool
	putOnly  bool
}

func (c *vfC14Case) drawContent(rt *rapid.T, label string) int {
	if rapid.IntRange(0, 3).Draw(rt, label+"pool?") != 0 {
		return c.contentIndex(vfC14Pool[rapid.IntRange(0, len(vfC14Pool)-1).Draw(rt, label+"pool")])
	}
	b := rapid.SliceOfN(rapid.Byte(), 0, 40).Draw(rt, label+"bytes")
	if b == nil {
		b = []byte{}
	}
	return c.contentIndex(b)
}

func (c *vfC14Case) drawWrite(rt *rapid.T, label string) *vfC14Write {
	docID := rapid.SampledFrom(c.docIDs).Draw(rt, label+"doc")
	d := c.docs[docID]
	c.n++
	w := &vfC14Write{doc: docID, n: c.n, atts: map[string]vfC14AttSpec{}}
	win := d.winner()

	var ts []vfC14Target
	addT := func(t vfC14Target, weight int) {
		for i := 0; i < weight; i++ {
			ts = append(ts, t)
		}
	}
	if win == nil {
		addT(vfC14Target{implicit: true, putOnly: true}, 3)
		addT(vfC14Target{pushOnly: true}, 1)
	} else {
		for _, l := range d.leaves() {
			switch {
			case l.id == win.id:
				addT(vfC14Target{parent: l.id}, 6)
			case !l.deleted:
				addT(vfC14Target{parent: l.id}, 4)
			default:
				addT(vfC14Target{parent: l.id}, 1)
			}
		}
		if win.deleted {
			addT(vfC14Target{implicit: true, putOnly: true}, 4)
			addT(vfC14Target{pushOnly: true}, 2)
		} else {
			// (a Put without _rev on a live document is a plain 409; not generated)
			if c.conflicts {
				addT(vfC14Target{pushOnly: true}, 1) // second root
			}
		}
		// branch from an interior revision (a conflict when conflicts are allowed, a 409 otherwise)
		interior := 0
		for _, id := range d.order {
			if !d.hasChild(id) {
				continue
			}
			interior++
			if c.conflicts && interior <= 4 {
				addT(vfC14Target{parent: id, pushOnly: true}, 2)
			} else if !c.conflicts && interior == 1 {
				addT(vfC14Target{parent: id}, 1)
			}
		}
	}
	t := ts[rapid.IntRange(0, len(ts)-1).Draw(rt, label+"target")]
	w.parent, w.implicit = t.parent, t.implicit
	if w.implicit && win != nil {
		w.seen = win.id
	}
	switch {
	case t.pushOnly:
		w.push = true
	case t.putOnly:
		w.push = false
	default:
		w.push = rapid.IntRange(0, 9).Draw(rt, label+"api") < 4
	}
	if w.push {
		w.suffix = rapid.SampledFrom([]string{"0", "5", "a", "f", "z"}).Draw(rt, label+"sfx") + fmt.Sprintf("%03d", w.n)
		if rapid.IntRange(0, 5).Draw(rt, label+"skip") == 0 {
			w.skip = 1
		}
	}
	var p *vfC14Rev
	if pid := w.resolveParent(d); pid != "" {
		p = d.revs[pid]
	}
	if p != nil && !p.deleted && !w.implicit && rapid.IntRange(0, 5).Draw(rt, label+"del") == 0 {
		w.deleted = true
		return w
	}
	stubOK := p != nil && !p.deleted && !p.noBody && d.isLeaf(p.id)
	for _, name := range vfC14Names {
		k := rapid.IntRange(0, 9).Draw(rt, label+"att-"+name)
		has := false
		if p != nil {
			_, has = p.atts[name]
		}
		switch {
		case has && stubOK && k <= 3:
			w.atts[name] = vfC14AttSpec{kind: vfC14AttStub}
		case (has && k <= 6) || (!has && k <= 4):
			w.atts[name] = vfC14AttSpec{kind: vfC14AttData, content: c.drawContent(rt, label+name),
				asString: rapid.Bool().Draw(rt, label+name+"b64"), ctype: rapid.Bool().Draw(rt, label+name+"ct")}
		}
	}
	return w
}

// ---------------------------------------------------------------------------------------------
// executing a write through the real API

func (c *vfC14Case) body(w *vfC14Write, parentAtts map[string]vfC14Att) Body {
	b := Body{"n": w.n}
	if w.deleted {
		b[BodyDeleted] = true
	}
	if len(w.atts) > 0 {
		atts := map[string]any{}
		for name, s := range w.atts {
			m := map[string]any{}
			switch s.kind {
			case vfC14AttData:
				if s.asString {
					m["data"] = base64.StdEncoding.EncodeToString(c.contents[s.content])
				} else {
					m["data"] = append([]byte{}, c.contents[s.content]...)
				}
				if s.ctype {
					m["content_type"] = "application/octet-stream"
				}
			case vfC14AttStub:
				// what a client that read the parent sends back
				pa := parentAtts[name]
				m["stub"] = true
				m["digest"] = vfC14Digest(c.contents[pa.content])
				m["length"] = float64(len(c.contents[pa.content]))
				m["revpos"] = float64(pa.revpos)
			}
			atts[name] = m
		}
		b[BodyAttachments] = atts
	}
	return b
}

// call runs one write. hist is the revision history a pushing client sends (new revision first).
func (c *vfC14Case) call(ctx context.Context, w *vfC14Write, newRev string, hist []string, parentAtts map[string]vfC14Att) (rev string, doc *Document, err error) {
	body := c.body(w, parentAtts)
	kit.Guard(c.rt, vfC14ID, c.test, c.render, func() {
		if w.push {
			body[BodyRev] = newRev
			doc, rev, err = c.env.Coll.PutExistingRevWithBody(ctx, w.doc, body, hist, false, ExistingVersionWithUpdateToHLV)
		} else {
			if !w.implicit && w.parent != "" {
				body[BodyRev] = w.parent
			}
			rev, doc, err = c.env.Coll.Put(ctx, w.doc, body)
		}
	})
	return rev, doc, err
}

// prepared is everything decided about a write before it is issued (client-side knowledge).
type vfC14Prepared struct {
	w          *vfC14Write
	newRev     string
	hist       []string
	parentAtts map[string]vfC14Att
}

func (c *vfC14Case) prepare(w *vfC14Write) *vfC14Prepared {
	d := c.docs[w.doc]
	newRev, err := c.predictRev(d, w)
	if err != nil {
		c.harness("predictRev: %v", err)
	}
	p := &vfC14Prepared{w: w, newRev: newRev}
	parent := w.resolveParent(d)
	if parent != "" {
		p.parentAtts = d.revs[parent].atts
	}
	if w.push {
		pgen := 0
		if parent != "" {
			pgen = d.revs[parent].gen
		}
		p.hist = []string{newRev}
		im := w.intermediateIDs(pgen)
		for i := len(im) - 1; i >= 0; i-- {
			p.hist = append(p.hist, im[i])
		}
		p.hist = append(p.hist, d.history(parent)...)
	}
	return p
}

// commit folds the outcome of a write into the model.
func (c *vfC14Case) commit(p *vfC14Prepared, who string, rev string, doc *Document, err error) {
	w := p.w
	d := c.docs[w.doc]
	if err != nil || doc == nil {
		what := "no-op"
		if err != nil {
			status, _ := base.ErrorAsHTTPStatus(err)
			what = fmt.Sprintf("err %d", status)
			c.class(fmt.Sprintf("write-error-%d", status))
		} else {
			c.class("write-noop")
		}
		c.ops = append(c.ops, fmt.Sprintf("%s %s -> %s", who, w.render(c.contents), what))
		// P: data written by a failed write was never referenced; allowed residue
		for _, ci := range w.dataContents() {
			d.residue[c.key(w.doc, ci)] = true
		}
		return
	}
	// the implicit parent is whatever is current when the write is applied; the id is then re-derived
	want, perr := c.predictRevs(d, w)
	if perr != nil {
		c.harness("predictRev: %v", perr)
	}
	c.ops = append(c.ops, fmt.Sprintf("%s %s -> %s", who, w.render(c.contents), rev))
	if !base.StringSliceContains(want, rev) {
		c.harness("write %s returned revision %s, the documented id is %v", w.render(c.contents), rev, want)
	}
	pid := w.resolveParent(d)
	wasLeaf := pid == "" || d.isLeaf(pid)
	var parent *vfC14Rev
	if pid != "" {
		parent = d.revs[pid]
	}
	r, aerr := d.apply(w, rev)
	if aerr != nil {
		c.harness("model cannot apply accepted write %s: %v", w.render(c.contents), aerr)
	}
	// (a new tombstone on a short branch can be pruned away by the very write that adds it, and the
	// parent link is cut when revs_limit prunes the parent)
	if info := doc.History[rev]; info != nil && info.Parent != r.parent && info.Parent != "" {
		c.harness("write %s: stored parent %q of %s differs from the model's %q", w.render(c.contents), info.Parent, rev, r.parent)
	} else if info == nil && !w.deleted {
		c.harness("write %s: accepted live revision %s is not in the stored revision tree", w.render(c.contents), rev)
	}
	for _, a := range r.atts {
		d.everRef[c.key(w.doc, a.content)] = true
	}
	// classes and the non-trivial rule (N): a digest shared by two leaves or two names, and one of
	// them drops it
	if w.push {
		c.class("api-push")
	} else {
		c.class("api-put")
	}
	if w.skip > 0 {
		c.class("multi-revision-push")
	}
	if w.hasStub() {
		c.class("stub-kept")
	}
	if w.deleted {
		c.class("tombstone")
	}
	if parent != nil && parent.deleted && !w.deleted {
		c.class("resurrection")
	}
	if parent == nil && len(d.order) > 1+w.skip {
		c.class("new-root-on-existing-doc")
	}
	if !wasLeaf {
		c.class("conflicting-branch")
	}
	for _, ci := range w.dataContents() {
		if ci >= len(vfC14Pool) {
			c.class("arbitrary-binary")
		}
		if len(c.contents[ci]) == 0 {
			c.class("empty-attachment")
		}
	}
	if parent != nil {
		for name, pa := range parent.atts {
			if na, ok := r.atts[name]; ok && na.content == pa.content {
				if w.atts[name].kind == vfC14AttData {
					c.class("same-bytes-reuploaded")
				}
				continue
			}
			if _, ok := r.atts[name]; ok {
				c.class("replaced")
			} else {
				c.class("dropped")
			}
			// name dropped content pa.content on this branch: is the digest still needed?
			shared := false
			for _, na := range r.atts {
				if na.content == pa.content {
					shared = true
				}
			}
			for _, l := range d.leaves() {
				if l.id == r.id {
					continue
				}
				for _, la := range l.atts {
					if la.content == pa.content {
						shared = true
					}
				}
			}
			if shared {
				c.nontrivial = true
				c.class("shared-digest-dropped-by-one-holder")
			}
		}
	}
}

// predictRevs: the ids a write may legitimately come back with. A tombstoning Put whose first attempt
// lost its compare-and-swap computes the id of the retry over the body without the _deleted marker
// (the marker is consumed by the first attempt), so both ids are accepted for it.
func (c *vfC14Case) predictRevs(d *vfC14Doc, w *vfC14Write) ([]string, error) {
	rev, err := c.predictRev(d, w)
	if err != nil {
		return nil, err
	}
	out := []string{rev}
	if !w.push && w.deleted {
		parent := w.resolveParent(d)
		alt, err := vfC14PutRevID(d.revs[parent].gen+1, parent, w.n, false)
		if err != nil {
			return nil, err
		}
		out = append(out, alt)
	}
	return out, nil
}

// shapes reports which listed-finding shapes applying w on model state d has.
//
//   - s13 (item 13): the new revision does not become the document's current revision and the current
//     revision stays what it was, while the new or the current revision carries attachments (the new
//     revision's attachment map is stamped on the current revision; the new revision keeps none).
//   - sPromo: the write makes ANOTHER existing leaf the current revision (the current branch is
//     tombstoned) and that leaf carries attachments, with the obsolete-attachment sweep on.
func (c *vfC14Case) shapes(d *vfC14Doc, w *vfC14Write) (s13, sPromo, promoCCV bool) {
	revs, err := c.predictRevs(d, w)
	if err != nil {
		return false, false, false
	}
	for _, rev := range revs {
		sim := d.clone()
		pre := sim.winner()
		r, err := sim.apply(w, rev)
		if err != nil {
			continue
		}
		post := sim.winner()
		if post == nil || post.id == r.id || pre == nil {
			continue
		}
		if len(r.atts) > 0 {
			s13 = true
		}
		if post.id == pre.id {
			if len(post.atts) > 0 {
				s13 = true
			}
		} else if len(post.atts) > 0 {
			if c.ccv {
				promoCCV = true // same shape with the sweep switched off: holds, stays in the domain
			} else {
				sPromo = true
			}
		}
	}
	return s13, sPromo, promoCCV
}

// shapesOfStep evaluates a (racing write, write) pair: a sound over-approximation - the write is
// judged on the state with and without the racing write accepted.
func (c *vfC14Case) shapesOfStep(main, hook *vfC14Write) (s13, sPromo, promoCCV bool) {
	s13, sPromo, promoCCV = c.shapes(c.docs[main.doc], main)
	if hook == nil {
		return
	}
	a, b, x := c.shapes(c.docs[hook.doc], hook)
	s13, sPromo, promoCCV = s13 || a, sPromo || b, promoCCV || x
	if hook.doc == main.doc {
		sim := c.docs[hook.doc].clone()
		if rev, err := c.predictRev(sim, hook); err == nil {
			if _, err := sim.apply(hook, rev); err == nil {
				a, b, x = c.shapes(sim, main)
				s13, sPromo, promoCCV = s13 || a, sPromo || b, promoCCV || x
			}
		}
	}
	return
}

// drawStep draws the write of a step and, in mode 2, the racing write.
func (c *vfC14Case) drawStep(rt *rapid.T, mode int, label string) (main, hook *vfC14Write) {
	main = c.drawWrite(rt, "w"+label)
	if mode == 2 {
		hook = c.drawWrite(rt, "h"+label)
		if hook.doc == main.doc && main.push && main.hasStub() {
			// a stub is resolved against a parent the client read as a leaf; when the racing write can turn
			// that parent into an interior revision the client re-sends the bytes instead (the db-level push
			// API does not re-validate stubs the way the BLIP handler does)
			pa := c.docs[main.doc].revs[main.parent].atts
			for name, s := range main.atts {
				if s.kind == vfC14AttStub {
					main.atts[name] = vfC14AttSpec{kind: vfC14AttData, content: pa[name].content}
				}
			}
		}
	}
	return main, hook
}

// stepWrite: mode 0 = plain write, 1 = the document write fails its first compare-and-swap (retry),
// 2 = as 1 and another client's write (drawn independently on the same state) lands inside the window.
func (c *vfC14Case) stepWrite(rt *rapid.T, mode int) {
	c.rt = rt
	var main, hook *vfC14Write
	for attempt := 0; ; attempt++ {
		main, hook = c.drawStep(rt, mode, fmt.Sprintf("%d", attempt))
		// listed findings are kept out by construction (and only while they are listed)
		s13, sPromo, promoCCV := c.shapesOfStep(main, hook)
		excluded := false
		for _, x := range []struct {
			hit   bool
			known bool
			sig   string
		}{{s13, c.known13, vfC14Sig13}, {sPromo, c.knownPromo, vfC14SigPromo}} {
			if x.hit && x.known {
				c.class("excluded:" + x.sig)
				c.excluded = append(c.excluded, x.sig)
				excluded = true
				break
			}
		}
		if excluded {
			if attempt == 2 {
				c.ops = append(c.ops, "excluded(3 draws had the shape of a listed finding)")
				return
			}
			continue
		}
		if s13 {
			c.class("shape:new-revision-loses-with-attachments-involved")
		}
		if sPromo {
			c.class("shape:tombstone-promotes-leaf-with-attachments(sweep on)")
		}
		if promoCCV {
			c.class("tombstone-promotes-leaf-with-attachments(sweep off)")
		}
		break
	}
	pm := c.prepare(main)
	var ph *vfC14Prepared
	if hook != nil {
		ph = c.prepare(hook)
	}
	hookRan := false
	var plan *vs.Plan
	if mode >= 1 {
		f := vs.Fault{Action: vs.FailCas}
		if hook != nil {
			// the other client's complete write, inside the read -> compare-and-swap window of the first
			// attempt (at most once, although the three kinds of document write each carry the rule)
			f.Hook = func() {
				if hookRan {
					return
				}
				hookRan = true
				rev, doc, err := c.call(c.env.Ctx, hook, ph.newRev, ph.hist, ph.parentAtts)
				c.commit(ph, "race:", rev, doc, err)
			}
		}
		plan = &vs.Plan{Rules: []vs.Rule{
			{Type: vs.OpWriteWithXattrs, Key: main.doc, Nth: 1, Fault: f},
			{Type: vs.OpWriteTombstoneWithXattrs, Key: main.doc, Nth: 1, Fault: f},
			{Type: vs.OpWriteResurrectionWithXattrs, Key: main.doc, Nth: 1, Fault: f},
		}}
	}
	c.w.Arm(plan)
	mctx := vs.Mark(c.env.Ctx)
	rev, doc, err := c.call(mctx, main, pm.newRev, pm.hist, pm.parentAtts)
	fired := 0
	for _, op := range c.w.MarkedTrace() {
		if op.Action == vs.FailCas && op.Key == main.doc {
			fired++
		}
	}
	c.w.Disarm()
	who := "write:"
	if fired > 0 {
		who = fmt.Sprintf("write[cas-retry x%d]:", fired)
		c.class("cas-retry")
		if hookRan {
			c.class("cas-retry-with-racing-write")
		}
	}
	c.commit(pm, who, rev, doc, err)
	c.dirty = true
}

// ---------------------------------------------------------------------------------------------
// oracle

func (c *vfC14Case) checkAtts(docID, what string, body Body, want map[string]vfC14Att, withData bool) {
	got := GetBodyAttachments(body)
	var gotNames, wantNames []string
	for k := range got {
		gotNames = append(gotNames, k)
	}
	for k := range want {
		wantNames = append(wantNames, k)
	}
	sort.Strings(gotNames)
	sort.Strings(wantNames)
	if strings.Join(gotNames, ",") != strings.Join(wantNames, ",") {
		c.fail("%s shows attachments %v, the revision was written with %v", what, gotNames, wantNames)
	}
	for _, name := range wantNames {
		content := c.contents[want[name].content]
		meta, ok := got[name].(map[string]any)
		if !ok {
			c.fail("%s: attachment %q has no metadata object (%T)", what, name, got[name])
		}
		if dg, _ := meta["digest"].(string); dg != vfC14Digest(content) {
			c.fail("%s: attachment %q advertises digest %v, sha1 of the written bytes is %s", what, name, meta["digest"], vfC14Digest(content))
		}
		if ln, ok := base.ToInt64(meta["length"]); !ok || ln != int64(len(content)) {
			c.fail("%s: attachment %q advertises length %v, written %d bytes", what, name, meta["length"], len(content))
		}
		if !withData {
			if meta["stub"] != true {
				c.fail("%s: attachment %q without data is not marked stub: %v", what, name, meta)
			}
			continue
		}
		var data []byte
		switch v := meta["data"].(type) {
		case []byte:
			data = v
		case string:
			dec, err := base64.StdEncoding.DecodeString(v)
			if err != nil {
				c.fail("%s: attachment %q data is not base64: %v", what, name, err)
			}
			data = dec
		default:
			c.fail("%s: attachment %q carries no data (%T) although all bodies were requested", what, name, meta["data"])
		}
		if !bytes.Equal(data, content) {
			c.fail("%s: attachment %q reads back %x, written %x", what, name, data, content)
		}
		raw, err := c.env.Coll.GetAttachment(c.env.Ctx, MakeAttachmentKey(AttVersion2, docID, vfC14Digest(content)))
		if err != nil {
			c.fail("%s: attachment %q: data document unreadable: %v", what, name, err)
		}
		if !bytes.Equal(raw, content) {
			c.fail("%s: attachment %q: data document holds %x, written %x", what, name, raw, content)
		}
	}
}

func (c *vfC14Case) check() {
	ctx := c.env.Ctx
	coll := c.env.Coll
	for _, id := range c.docIDs {
		d := c.docs[id]
		if len(d.order) == 0 {
			continue
		}
		// align the model's tombstoned leaves with what pruning left (tombstones carry no attachments)
		real, err := coll.GetDocument(ctx, id, DocUnmarshalAll)
		if err != nil {
			c.harness("GetDocument(%s): %v", id, err)
		}
		actual := map[string]bool{}
		for _, l := range real.History.GetLeaves() {
			actual[l] = true
			if d.revs[l] == nil || !d.isLeaf(l) {
				c.harness("document %s has leaf %s which the model does not have as a leaf (model leaves %v)", id, l, vfC14LeafIDs(d))
			}
		}
		for _, l := range d.leaves() {
			if !actual[l.id] && l.deleted {
				l.gone = true
				c.class("tombstoned-branch-pruned")
			}
		}
		win := d.winner()
		if win != nil && actual[win.id] && real.GetRevTreeID() != win.id {
			c.harness("document %s: current revision %s, model winner %s", id, real.GetRevTreeID(), win.id)
		}
		if uint32(len(d.order)) > c.revsLimit && len(real.History) < len(d.order) {
			c.class("history-pruned")
		}
		nLive := 0
		for _, l := range d.leaves() {
			if !l.deleted {
				nLive++
			}
			if win != nil && l.id != win.id && len(l.atts) > 0 {
				c.class("non-winning-leaf-with-attachments")
			}
		}
		if nLive > 1 {
			c.class("live-conflict")
		}
	}
	for pass := 0; pass < 2; pass++ {
		tag := "cached"
		if pass == 1 {
			// a fresh revision cache: what a restarted or another node serves
			c.env.DBC.FlushRevisionCacheForTest()
			tag = "uncached"
		}
		for _, id := range c.docIDs {
			d := c.docs[id]
			for _, l := range d.leaves() {
				what := fmt.Sprintf("GET %s?rev=%s (%s)", id, l.id, tag)
				meta, err := coll.Get1xRevBody(ctx, id, l.id, false, nil)
				if l.deleted {
					if err == nil && len(GetBodyAttachments(meta)) > 0 {
						c.fail("%s: tombstone shows attachments %v", what, GetBodyAttachments(meta))
					}
					continue
				}
				if err != nil {
					c.fail("%s: live leaf revision is unreadable: %v", what, err)
				}
				c.checkAtts(id, what+" metadata", meta, l.atts, false)
				full, err := coll.Get1xRevBody(ctx, id, l.id, false, []string{})
				if err != nil {
					c.fail("%s with attachment bodies: %v", what, err)
				}
				c.checkAtts(id, what, full, l.atts, true)
			}
			if len(d.order) == 0 {
				continue
			}
			// the default read: whichever revision it names must show that revision's attachments
			what := fmt.Sprintf("GET %s (%s)", id, tag)
			cur, err := coll.Get1xRevBody(ctx, id, "", false, []string{})
			if err != nil {
				if win := d.winner(); win != nil && !win.deleted {
					c.fail("%s: %v although revision %s is live", what, err, win.id)
				}
				continue
			}
			rid, _ := cur[BodyRev].(string)
			r := d.revs[rid]
			if r == nil {
				c.harness("%s returned revision %q which the model does not know", what, rid)
			}
			c.checkAtts(id, what+" = "+rid, cur, r.atts, true)
		}
	}
	// attachment data documents: no loss ever; exactly the referenced set when cross-cluster versioning is off
	snap, err := c.w.Snapshot(ctx)
	if err != nil {
		c.harness("snapshot: %v", err)
	}
	exists := map[string]bool{}
	for _, row := range snap.Docs {
		// (rosmar keeps its tombstone flag on a row that was deleted and then added again; a row
		// exists when it has a value - that is what GetRaw answers)
		if strings.HasPrefix(row.Key, base.Att2Prefix) && row.HasBody {
			exists[row.Key] = true
		}
	}
	for _, id := range c.docIDs {
		d := c.docs[id]
		ref := map[string]string{}
		for _, l := range d.leaves() {
			for name, a := range l.atts {
				ref[c.key(id, a.content)] = l.id + "/" + name
			}
		}
		for _, k := range vfSortedKeys(ref) {
			if !exists[k] {
				c.fail("attachment data %s of document %s is gone although leaf revision %s still references it", k, id, ref[k])
			}
		}
		if c.ccv {
			continue
		}
		for _, k := range vfSortedKeys(d.everRef) {
			if _, needed := ref[k]; needed || d.residue[k] {
				continue
			}
			if exists[k] {
				c.fail("attachment data %s of document %s still exists although no leaf revision references it any more (cross-cluster versioning off)", k, id)
			}
		}
	}
}

func vfC14LeafIDs(d *vfC14Doc) []string {
	var out []string
	for _, l := range d.leaves() {
		out = append(out, l.id)
	}
	return out
}

// ---------------------------------------------------------------------------------------------

func vfC14OpenCase(t *testing.T, rt *rapid.T, test string, conflicts, ccv bool, revsLimit uint32) *vfC14Case {
	c := &vfC14Case{test: test, rt: rt, conflicts: conflicts, ccv: ccv, revsLimit: revsLimit,
		docIDs: []string{"d1", "d2"}, docs: map[string]*vfC14Doc{}, classes: map[string]bool{}}
	for _, id := range c.docIDs {
		c.docs[id] = vfC14NewDoc(id)
	}
	for _, b := range vfC14Pool {
		c.contentIndex(b)
	}
	env, err := vfOpen(t, vfDBConfig{
		Mutate: func(o *DatabaseContextOptions) { o.AllowConflicts = base.Ptr(conflicts) },
		WrapBucket: func(b base.Bucket) base.Bucket {
			c.w = vs.Wrap(b)
			return c.w
		},
	})
	if err != nil {
		rt.Fatalf("HARNESS (not a verdict): open database: %v", err)
	}
	c.env = env
	c.w.SetTraceUnmarked(false)
	// what the REST layer does with revs_limit; and the value a CCV-off Couchbase bucket yields (rosmar
	// hard-wires "enabled", which switches the obsolete-attachment sweep off)
	env.DBC.RevsLimit = revsLimit
	env.DBC.CachedCCVEnabled.Store(ccv)
	c.ops = append(c.ops, fmt.Sprintf("cfg(allow_conflicts=%v ccv=%v revs_limit=%d)", conflicts, ccv, revsLimit))
	return c
}

func TestVerif_C14_Lifetime(t *testing.T) {
	const test = "Lifetime"
	rec := kit.New(vfC14ID, test)
	defer rec.Flush()
	known13 := kit.Known(vfC14ID, vfC14Sig13)
	knownPromo := kit.Known(vfC14ID, vfC14SigPromo)
	rapid.Check(t, func(rt *rapid.T) {
		conflicts := rapid.Bool().Draw(rt, "allow_conflicts")
		ccv := rapid.Bool().Draw(rt, "ccv")
		var revsLimit uint32
		if conflicts {
			// the product refuses revs_limit < 20 when conflicts are allowed
			revsLimit = rapid.SampledFrom([]uint32{20, 20, 100}).Draw(rt, "revs_limit")
		} else {
			revsLimit = rapid.SampledFrom([]uint32{1, 2, 3, 5, 50}).Draw(rt, "revs_limit")
		}
		c := vfC14OpenCase(t, rt, test, conflicts, ccv, revsLimit)
		defer c.env.Close()
		c.known13, c.knownPromo = known13, knownPromo
		rt.Repeat(map[string]func(*rapid.T){
			"write":      func(rt *rapid.T) { c.stepWrite(rt, 0) },
			"write2":     func(rt *rapid.T) { c.stepWrite(rt, 0) },
			"writeRetry": func(rt *rapid.T) { c.stepWrite(rt, 1) },
			"writeRace":  func(rt *rapid.T) { c.stepWrite(rt, 2) },
			"": func(rt *rapid.T) {
				c.rt = rt
				if c.dirty {
					c.dirty = false
					c.check()
				}
			},
		})
		for _, sig := range c.excluded {
			rec.Excluded(sig)
		}
		classes := []string{fmt.Sprintf("ccv=%v", ccv), fmt.Sprintf("allow_conflicts=%v", conflicts)}
		if revsLimit <= 5 {
			classes = append(classes, "small-revs-limit")
		}
		classes = append(classes, vfSortedKeys(c.classes)...)
		if c.nontrivial {
			classes = append(classes, "nontrivial")
		}
		rec.Case(c.render(), c.nontrivial, classes...)
	})
}
