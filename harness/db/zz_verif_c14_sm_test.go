package db

// C14 — attachments stay intact and live exactly as long as a revision needs them.
// rapid state machine over the real write APIs (Put, PutExistingRevWithBody) of a rosmar-backed
// database behind the shared fault store, checked against the reference model of
// zz_verif_c14_model_test.go after every write.
// Injected into package db by the /verif driver (build overlay); never part of /repo.

import (
	"bytes"
	"context"
	"encoding/base64"
	"fmt"
	"runtime"
	"runtime/debug"
	"sort"
	"strings"
	"testing"

	"github.com/couchbase/sync_gateway/base"
	kit "github.com/couchbase/sync_gateway/verifkit"
	vs "github.com/couchbase/sync_gateway/verifstore"
	"pgregory.net/rapid"
)

type vfC14Case struct {
	test string
	rt   *rapid.T
	env  *vfEnv
	w    *vs.Bucket

	conflicts  bool
	ccv        bool
	revsLimit  uint32
	known13    bool
	knownPromo bool
	knownLeak  bool
	dangling   bool // dangling stubs are part of this case's input alphabet (one case in three)

	contents [][]byte
	docIDs   []string // logical names (rendered); the stored key is prefix + name
	prefix   string
	docs     map[string]*vfC14Doc

	dirtyDocs map[string]bool // documents written since the last check

	ops        []string
	n          int
	dirty      bool
	nontrivial bool
	classes    map[string]bool
	excluded   []string // generated writes left out because of a listed finding (signature each)
}

func (c *vfC14Case) render() string { return strings.Join(c.ops, "; ") }

func (c *vfC14Case) fail(format string, args ...any) {
	kit.Violation(c.rt, vfC14ID, c.test, c.render(), format, args...)
}

// harness reports a disagreement between the harness' own bookkeeping and the database that is not a
// statement of C14 (exit 2 in the driver, never a violation).
func (c *vfC14Case) harness(format string, args ...any) {
	c.rt.Fatalf("HARNESS (not a verdict): %s\ncase: %s", fmt.Sprintf(format, args...), c.render())
}

func (c *vfC14Case) class(name string) { c.classes[name] = true }

func (c *vfC14Case) contentIndex(b []byte) int {
	for i, x := range c.contents {
		if bytes.Equal(x, b) {
			return i
		}
	}
	c.contents = append(c.contents, b)
	return len(c.contents) - 1
}

// rid is the stored document id of a logical document name.
func (c *vfC14Case) rid(doc string) string { return c.prefix + doc }

func (c *vfC14Case) key(doc string, content int) string {
	return MakeAttachmentKey(AttVersion2, c.rid(doc), vfC14Digest(c.contents[content]))
}

// vfC14PutRevID is the revision id Put documents for a body: generation + digest over parent and the
// canonical body (attachments are not part of it, which is why every body carries a nonce).
func vfC14PutRevID(gen int, parent string, n int, deleted bool) (string, error) {
	b := Body{"n": n}
	if deleted {
		b[BodyDeleted] = true
	}
	canon, err := base.JSONMarshalCanonical(b)
	if err != nil {
		return "", err
	}
	return CreateRevIDWithBytes(gen, parent, canon), nil
}

// predictRev gives the id the write's new revision will get on model state d.
func (c *vfC14Case) predictRev(d *vfC14Doc, w *vfC14Write) (string, error) {
	parent := w.resolveParent(d)
	pgen := 0
	if parent != "" {
		p := d.revs[parent]
		if p == nil {
			return "", fmt.Errorf("parent %s unknown", parent)
		}
		pgen = p.gen
	}
	if w.push {
		return fmt.Sprintf("%d-%s", pgen+1+w.skip, w.suffix), nil
	}
	return vfC14PutRevID(pgen+1, parent, w.n, w.deleted)
}

// ---------------------------------------------------------------------------------------------
// generator

type vfC14Target struct {
	parent   string
	implicit bool
	pushOnly bool
	putOnly  bool
}

func (c *vfC14Case) drawContent(rt *rapid.T, label string) int {
	if rapid.IntRange(0, 3).Draw(rt, label+"pool?") != 0 {
		return c.contentIndex(vfC14Pool[rapid.IntRange(0, len(vfC14Pool)-1).Draw(rt, label+"pool")])
	}
	b := rapid.SliceOfN(rapid.Byte(), 0, 40).Draw(rt, label+"bytes")
	if b == nil {
		b = []byte{}
	}
	return c.contentIndex(b)
}

// drawWrite draws one client write on the current model state. guided: the write is to be the hooked
// push of a guided window step - a replicator-style push of two new generations.
func (c *vfC14Case) drawWrite(rt *rapid.T, label string, guided bool) *vfC14Write {
	docID := rapid.SampledFrom(c.docIDs).Draw(rt, label+"doc")
	d := c.docs[docID]
	c.n++
	w := &vfC14Write{doc: docID, n: c.n, atts: map[string]vfC14AttSpec{}}
	win := d.winner()

	var ts []vfC14Target
	addT := func(t vfC14Target, weight int) {
		for i := 0; i < weight; i++ {
			ts = append(ts, t)
		}
	}
	if win == nil {
		addT(vfC14Target{implicit: true, putOnly: true}, 3)
		addT(vfC14Target{pushOnly: true}, 1)
	} else {
		for _, l := range d.leaves() {
			switch {
			case l.id == win.id:
				addT(vfC14Target{parent: l.id}, 6)
			case !l.deleted:
				addT(vfC14Target{parent: l.id}, 4)
			default:
				addT(vfC14Target{parent: l.id}, 1)
			}
		}
		if win.deleted {
			addT(vfC14Target{implicit: true, putOnly: true}, 4)
			addT(vfC14Target{pushOnly: true}, 2)
		} else {
			// (a Put without _rev on a live document is a plain 409; not generated)
			if c.conflicts {
				addT(vfC14Target{pushOnly: true}, 1) // second root
			}
		}
		// branch from an interior revision (a conflict when conflicts are allowed, a 409 otherwise)
		interior := 0
		for _, id := range d.order {
			if !d.hasChild(id) {
				continue
			}
			interior++
			if c.conflicts && interior <= 4 {
				addT(vfC14Target{parent: id, pushOnly: true}, 2)
			} else if !c.conflicts && interior == 1 {
				addT(vfC14Target{parent: id}, 1)
			}
		}
	}
	t := ts[rapid.IntRange(0, len(ts)-1).Draw(rt, label+"target")]
	w.parent, w.implicit = t.parent, t.implicit
	if w.implicit && win != nil {
		w.seen = win.id
	}
	switch {
	case t.pushOnly:
		w.push = true
	case t.putOnly:
		w.push = false
	default:
		w.push = rapid.IntRange(0, 9).Draw(rt, label+"api") < 4
	}
	if guided {
		if w.implicit {
			// the pushing client names the revision it builds on
			w.implicit, w.seen = false, ""
			if win != nil {
				w.parent = win.id
			}
		}
		w.push = true
	}
	if w.push {
		w.suffix = rapid.SampledFrom([]string{"0", "5", "a", "f", "z"}).Draw(rt, label+"sfx") + fmt.Sprintf("%03d", w.n)
		if guided || rapid.IntRange(0, 5).Draw(rt, label+"skip") == 0 {
			w.skip = 1
		}
	}
	var p *vfC14Rev
	if pid := w.resolveParent(d); pid != "" {
		p = d.revs[pid]
	}
	if p != nil && !p.deleted && !w.implicit && rapid.IntRange(0, 5).Draw(rt, label+"del") == 0 {
		w.deleted = true
		return w
	}
	c.drawAtts(rt, label, w, d, p)
	return w
}

// drawGuidedHook: the window client pushes the intermediate revision (same revision id) of the hooked
// two-generation push main, as a child of the same parent, with its own attachment changes.
func (c *vfC14Case) drawGuidedHook(rt *rapid.T, label string, main *vfC14Write) *vfC14Write {
	d := c.docs[main.doc]
	c.n++
	w := &vfC14Write{doc: main.doc, n: c.n, atts: map[string]vfC14AttSpec{}, push: true, parent: main.parent,
		suffix: main.suffix + "i1"}
	var p *vfC14Rev
	if main.parent != "" {
		p = d.revs[main.parent]
	}
	if p != nil && !p.deleted && rapid.IntRange(0, 9).Draw(rt, label+"del") == 0 {
		w.deleted = true
		return w
	}
	c.drawAtts(rt, label, w, d, p)
	return w
}

// drawAtts draws the _attachments of a write whose parent revision is p (nil = none): per regular
// name add / keep as stub / replace / drop, and now and then a dangling stub.
func (c *vfC14Case) drawAtts(rt *rapid.T, label string, w *vfC14Write, d *vfC14Doc, p *vfC14Rev) {
	stubOK := p != nil && !p.deleted && !p.noBody && d.isLeaf(p.id)
	for _, name := range vfC14Names {
		k := rapid.IntRange(0, 9).Draw(rt, label+"att-"+name)
		has := false
		if p != nil {
			_, has = p.atts[name]
		}
		switch {
		case has && stubOK && k <= 3:
			w.atts[name] = vfC14AttSpec{kind: vfC14AttStub}
		case (has && k <= 6) || (!has && k <= 4):
			w.atts[name] = vfC14AttSpec{kind: vfC14AttData, content: c.drawContent(rt, label+name),
				asString: rapid.Bool().Draw(rt, label+name+"b64"), ctype: rapid.Bool().Draw(rt, label+name+"ct")}
		}
	}
	// dangling stub: a stub entry for a name the parent revision (a leaf whose body the client read)
	// does not have - what a client sends after renaming an attachment locally, or with a stale view
	if !c.dangling || !stubOK || rapid.IntRange(0, 5).Draw(rt, label+"dangling?") != 0 {
		return
	}
	var cand []string
	for _, name := range vfC14AllNames {
		_, has := p.atts[name]
		_, mine := w.atts[name]
		if !has && !mine {
			cand = append(cand, name)
		}
	}
	if len(cand) == 0 {
		return
	}
	name := rapid.SampledFrom(cand).Draw(rt, label+"dangling-name")
	s := vfC14AttSpec{kind: vfC14AttDangling}
	switch k := rapid.IntRange(0, 9).Draw(rt, label+"dangling-digest"); {
	case k <= 5: // no digest at all
	case k <= 7 && len(p.atts) > 0: // the digest of bytes the parent holds under another name ("rename")
		names := vfSortedKeys(p.atts)
		s.dDigest, s.content = true, p.atts[rapid.SampledFrom(names).Draw(rt, label+"dangling-of")].content
	default:
		s.dDigest, s.content = true, c.contentIndex(vfC14Pool[rapid.IntRange(0, len(vfC14Pool)-1).Draw(rt, label+"dangling-pool")])
	}
	if s.dDigest {
		s.dLength = rapid.Bool().Draw(rt, label+"dangling-length")
	}
	s.dRevpos = rapid.SampledFrom([]int{0, 1, p.gen, p.gen + 1 + w.skip, p.gen + 4}).Draw(rt, label+"dangling-revpos")
	w.atts[name] = s
}

// ---------------------------------------------------------------------------------------------
// executing a write through the real API

func (c *vfC14Case) body(w *vfC14Write, parentAtts map[string]vfC14Att) Body {
	b := Body{"n": w.n}
	if w.deleted {
		b[BodyDeleted] = true
	}
	if len(w.atts) > 0 {
		atts := map[string]any{}
		for name, s := range w.atts {
			m := map[string]any{}
			switch s.kind {
			case vfC14AttData:
				if s.asString {
					m["data"] = base64.StdEncoding.EncodeToString(c.contents[s.content])
				} else {
					m["data"] = append([]byte{}, c.contents[s.content]...)
				}
				if s.ctype {
					m["content_type"] = "application/octet-stream"
				}
			case vfC14AttDangling:
				m["stub"] = true
				if s.dDigest {
					m["digest"] = vfC14Digest(c.contents[s.content])
					if s.dLength {
						m["length"] = float64(len(c.contents[s.content]))
					}
				}
				if s.dRevpos > 0 {
					m["revpos"] = float64(s.dRevpos)
				}
			case vfC14AttStub:
				// what a client that read the parent sends back
				pa := parentAtts[name]
				m["stub"] = true
				m["digest"] = vfC14Digest(c.contents[pa.content])
				m["length"] = float64(len(c.contents[pa.content]))
				m["revpos"] = float64(pa.revpos)
			}
			atts[name] = m
		}
		b[BodyAttachments] = atts
	}
	return b
}

// call runs one write. hist is the revision history a pushing client sends (new revision first).
func (c *vfC14Case) call(ctx context.Context, w *vfC14Write, newRev string, hist []string, parentAtts map[string]vfC14Att) (rev string, doc *Document, err error) {
	body := c.body(w, parentAtts)
	kit.Guard(c.rt, vfC14ID, c.test, c.render, func() {
		if w.push {
			body[BodyRev] = newRev
			doc, rev, err = c.env.Coll.PutExistingRevWithBody(ctx, c.rid(w.doc), body, hist, false, ExistingVersionWithUpdateToHLV)
		} else {
			if !w.implicit && w.parent != "" {
				body[BodyRev] = w.parent
			}
			rev, doc, err = c.env.Coll.Put(ctx, c.rid(w.doc), body)
		}
	})
	return rev, doc, err
}

// prepared is everything decided about a write before it is issued (client-side knowledge).
type vfC14Prepared struct {
	w          *vfC14Write
	newRev     string
	hist       []string
	parentAtts map[string]vfC14Att
}

func (c *vfC14Case) prepare(w *vfC14Write) *vfC14Prepared {
	d := c.docs[w.doc]
	newRev, err := c.predictRev(d, w)
	if err != nil {
		c.harness("predictRev: %v", err)
	}
	p := &vfC14Prepared{w: w, newRev: newRev}
	parent := w.resolveParent(d)
	if parent != "" {
		p.parentAtts = d.revs[parent].atts
	}
	if w.push {
		pgen := 0
		if parent != "" {
			pgen = d.revs[parent].gen
		}
		p.hist = []string{newRev}
		im := w.intermediateIDs(pgen)
		for i := len(im) - 1; i >= 0; i-- {
			p.hist = append(p.hist, im[i])
		}
		p.hist = append(p.hist, d.history(parent)...)
	}
	return p
}

// commit folds the outcome of a write into the model.
func (c *vfC14Case) commit(p *vfC14Prepared, who string, rev string, doc *Document, err error) {
	w := p.w
	d := c.docs[w.doc]
	if err != nil || doc == nil {
		what := "no-op"
		if err != nil {
			status, _ := base.ErrorAsHTTPStatus(err)
			what = fmt.Sprintf("err %d", status)
			c.class(fmt.Sprintf("write-error-%d", status))
		} else {
			c.class("write-noop")
		}
		if w.hasDangling() {
			c.class("dangling-stub-rejected")
		}
		c.ops = append(c.ops, fmt.Sprintf("%s %s -> %s", who, w.render(c.contents), what))
		// P: data written by a failed write was never referenced; allowed residue
		for _, ci := range w.dataContents() {
			d.residue[c.key(w.doc, ci)] = true
		}
		return
	}
	// the implicit parent is whatever is current when the write is applied; the id is then re-derived
	want, perr := c.predictRevs(d, w)
	if perr != nil {
		c.harness("predictRev: %v", perr)
	}
	c.ops = append(c.ops, fmt.Sprintf("%s %s -> %s", who, w.render(c.contents), rev))
	if !base.StringSliceContains(want, rev) {
		c.harness("write %s returned revision %s, the documented id is %v", w.render(c.contents), rev, want)
	}
	pid := w.resolveParent(d)
	var parent, declared *vfC14Rev
	if pid != "" {
		parent = d.revs[pid]
		declared = parent
	}
	// the revision the new one continues: the named parent, or - for a two-generation push whose
	// intermediate revision another client has pushed in the meantime - that revision
	continued := false
	if w.skip == 1 {
		pgen := 0
		if declared != nil {
			pgen = declared.gen
		}
		if ex := d.revs[w.intermediateIDs(pgen)[0]]; ex != nil {
			parent, continued = ex, true
		}
	}
	wasLeaf := parent == nil || d.isLeaf(parent.id)
	r, aerr := d.apply(w, rev)
	if aerr != nil {
		c.harness("model cannot apply accepted write %s: %v", w.render(c.contents), aerr)
	}
	// (a new tombstone on a short branch can be pruned away by the very write that adds it, and the
	// parent link is cut when revs_limit prunes the parent)
	if info := doc.History[rev]; info != nil && info.Parent != r.parent && info.Parent != "" {
		c.harness("write %s: stored parent %q of %s differs from the model's %q", w.render(c.contents), info.Parent, rev, r.parent)
	} else if info == nil && !w.deleted {
		c.harness("write %s: accepted live revision %s is not in the stored revision tree", w.render(c.contents), rev)
	}
	for _, a := range r.atts {
		d.everRef[c.key(w.doc, a.content)] = true
	}
	// classes and the non-trivial rule (N): a digest shared by two leaves or two names, and one of
	// them drops it
	if w.push {
		c.class("api-push")
	} else {
		c.class("api-put")
	}
	if w.skip > 0 {
		c.class("multi-revision-push")
	}
	if w.hasStub() {
		c.class("stub-kept")
	}
	if w.hasDangling() {
		// accepted: nothing was written under that name, the oracle ignores it; every other name of every
		// leaf keeps its bytes, digest, length and data document
		if w.danglingNoDigest() {
			c.class("dangling-stub-accepted(no digest)")
			if c.knownLeak && !d.tainted {
				d.tainted = true
				c.class("cleanup-not-asserted-after:" + vfC14SigLeak)
				c.excluded = append(c.excluded, vfC14SigLeak)
			}
		} else {
			c.class("dangling-stub-accepted(with digest)")
		}
		if declared != nil && len(declared.atts) > 0 {
			kept := false
			for _, a := range r.atts {
				for _, pa := range declared.atts {
					if a.content == pa.content {
						kept = true
					}
				}
			}
			if kept && w.danglingNoDigest() {
				c.class("dangling-stub(no digest)+parent-attachment-kept")
				if !c.ccv {
					c.class("dangling-stub(no digest)+parent-attachment-kept(sweep on)")
				}
			}
		}
	}
	if continued {
		// guided window write: this (retried) push continues the revision the window client committed
		c.class("window-write=intermediate-revision-of-hooked-push")
		var below map[string]vfC14Att
		if declared != nil {
			below = declared.atts
		}
		for _, pa := range parent.atts {
			introduced, kept := true, false
			for _, ba := range below {
				if ba.content == pa.content {
					introduced = false
				}
			}
			for _, na := range r.atts {
				if na.content == pa.content {
					kept = true
				}
			}
			if !introduced || kept {
				continue
			}
			c.class("retry-drops-digest-introduced-in-window")
			held := false
			for _, l := range d.leaves() {
				for _, la := range l.atts {
					if la.content == pa.content {
						held = true
					}
				}
			}
			if !held && !c.ccv {
				c.class("retry-drops-digest-introduced-in-window(sweep on, no other holder)")
			}
		}
	}
	if w.deleted {
		c.class("tombstone")
	}
	if parent != nil && parent.deleted && !w.deleted {
		c.class("resurrection")
	}
	if parent == nil && len(d.order) > 1+w.skip {
		c.class("new-root-on-existing-doc")
	}
	if !wasLeaf {
		c.class("conflicting-branch")
	}
	for _, ci := range w.dataContents() {
		if ci >= len(vfC14Pool) {
			c.class("arbitrary-binary")
		}
		if len(c.contents[ci]) == 0 {
			c.class("empty-attachment")
		}
	}
	if parent != nil {
		for name, pa := range parent.atts {
			if na, ok := r.atts[name]; ok && na.content == pa.content {
				if w.atts[name].kind == vfC14AttData {
					c.class("same-bytes-reuploaded")
				}
				continue
			}
			if _, ok := r.atts[name]; ok {
				c.class("replaced")
			} else {
				c.class("dropped")
			}
			// name dropped content pa.content on this branch: is the digest still needed?
			shared := false
			for _, na := range r.atts {
				if na.content == pa.content {
					shared = true
				}
			}
			for _, l := range d.leaves() {
				if l.id == r.id {
					continue
				}
				for _, la := range l.atts {
					if la.content == pa.content {
						shared = true
					}
				}
			}
			if shared {
				c.nontrivial = true
				c.class("shared-digest-dropped-by-one-holder")
			}
		}
	}
}

// predictRevs: the ids a write may legitimately come back with. A tombstoning Put whose first attempt
// lost its compare-and-swap computes the id of the retry over the body without the _deleted marker
// (the marker is consumed by the first attempt), so both ids are accepted for it.
func (c *vfC14Case) predictRevs(d *vfC14Doc, w *vfC14Write) ([]string, error) {
	rev, err := c.predictRev(d, w)
	if err != nil {
		return nil, err
	}
	out := []string{rev}
	if !w.push && w.deleted {
		parent := w.resolveParent(d)
		alt, err := vfC14PutRevID(d.revs[parent].gen+1, parent, w.n, false)
		if err != nil {
			return nil, err
		}
		out = append(out, alt)
	}
	return out, nil
}

// shapes reports which listed-finding shapes applying w on model state d has.
//
//   - s13 (item 13): the new revision does not become the document's current revision and the current
//     revision stays what it was, while the new or the current revision carries attachments (the new
//     revision's attachment map is stamped on the current revision; the new revision keeps none).
//   - sPromo: the write makes ANOTHER existing leaf the current revision (the current branch is
//     tombstoned) and that leaf carries attachments, with the obsolete-attachment sweep on.
func (c *vfC14Case) shapes(d *vfC14Doc, w *vfC14Write) (s13, sPromo, promoCCV bool) {
	revs, err := c.predictRevs(d, w)
	if err != nil {
		return false, false, false
	}
	for _, rev := range revs {
		sim := d.clone()
		pre := sim.winner()
		r, err := sim.apply(w, rev)
		if err != nil {
			continue
		}
		post := sim.winner()
		if post == nil || post.id == r.id || pre == nil {
			continue
		}
		if r.carries() {
			s13 = true
		}
		if post.id == pre.id {
			if post.carries() {
				s13 = true
			}
		} else if post.carries() {
			if c.ccv {
				promoCCV = true // same shape with the sweep switched off: holds, stays in the domain
			} else {
				sPromo = true
			}
		}
	}
	return s13, sPromo, promoCCV
}

// shapesOfStep evaluates a (racing write, write) pair: a sound over-approximation - the write is
// judged on the state with and without the racing write accepted.
func (c *vfC14Case) shapesOfStep(main, hook *vfC14Write) (s13, sPromo, promoCCV bool) {
	s13, sPromo, promoCCV = c.shapes(c.docs[main.doc], main)
	if hook == nil {
		return
	}
	a, b, x := c.shapes(c.docs[hook.doc], hook)
	s13, sPromo, promoCCV = s13 || a, sPromo || b, promoCCV || x
	if hook.doc == main.doc {
		sim := c.docs[hook.doc].clone()
		if rev, err := c.predictRev(sim, hook); err == nil {
			if _, err := sim.apply(hook, rev); err == nil {
				a, b, x = c.shapes(sim, main)
				s13, sPromo, promoCCV = s13 || a, sPromo || b, promoCCV || x
			}
		}
	}
	return
}

// drawStep draws the write of a step and, in mode 2, the racing write.
// mode 3 (guided window write): main is a replicator-style push of two new generations and the racing
// client pushes exactly the intermediate revision of that push (same revision id, same parent) with
// its own attachment changes - the retried push then continues the racing client's revision instead
// of conflicting with it.
func (c *vfC14Case) drawStep(rt *rapid.T, mode int, label string) (main, hook *vfC14Write) {
	main = c.drawWrite(rt, "w"+label, mode == 3)
	if mode == 3 {
		hook = c.drawGuidedHook(rt, "g"+label, main)
	} else if mode == 2 {
		hook = c.drawWrite(rt, "h"+label, false)
	}
	if hook != nil {
		if hook.doc == main.doc {
			// a dangling stub is only sent against a parent the client read as a leaf (as every stub); the
			// retried write of a same-document race is evaluated on a state the client has not seen
			for name, s := range main.atts {
				if s.kind == vfC14AttDangling {
					delete(main.atts, name)
				}
			}
		}
		if hook.doc == main.doc && main.push && main.hasStub() {
			// a stub is resolved against a parent the client read as a leaf; when the racing write can turn
			// that parent into an interior revision the client re-sends the bytes instead (the db-level push
			// API does not re-validate stubs the way the BLIP handler does)
			pa := c.docs[main.doc].revs[main.parent].atts
			for name, s := range main.atts {
				if s.kind == vfC14AttStub {
					main.atts[name] = vfC14AttSpec{kind: vfC14AttData, content: pa[name].content}
				}
			}
		}
	}
	return main, hook
}

// stepWrite: mode 0 = plain write, 1 = the document write fails its first compare-and-swap (retry),
// 2 = as 1 and another client's write (drawn independently on the same state) lands inside the window,
// 3 = as 2 with the guided window write (see drawStep).
func (c *vfC14Case) stepWrite(rt *rapid.T, mode int) {
	c.rt = rt
	var main, hook *vfC14Write
	for attempt := 0; ; attempt++ {
		main, hook = c.drawStep(rt, mode, fmt.Sprintf("%d", attempt))
		// listed findings are kept out by construction (and only while they are listed)
		s13, sPromo, promoCCV := c.shapesOfStep(main, hook)
		excluded := false
		for _, x := range []struct {
			hit   bool
			known bool
			sig   string
		}{{s13, c.known13, vfC14Sig13}, {sPromo, c.knownPromo, vfC14SigPromo}} {
			if x.hit && x.known {
				c.class("excluded:" + x.sig)
				c.excluded = append(c.excluded, x.sig)
				excluded = true
				break
			}
		}
		if excluded {
			if attempt == 2 {
				c.ops = append(c.ops, "excluded(3 draws had the shape of a listed finding)")
				return
			}
			continue
		}
		if s13 {
			c.class("shape:new-revision-loses-with-attachments-involved")
		}
		if sPromo {
			c.class("shape:tombstone-promotes-leaf-with-attachments(sweep on)")
		}
		if promoCCV {
			c.class("tombstone-promotes-leaf-with-attachments(sweep off)")
		}
		break
	}
	pm := c.prepare(main)
	var ph *vfC14Prepared
	if hook != nil {
		ph = c.prepare(hook)
	}
	hookRan := false
	var plan *vs.Plan
	if mode >= 1 {
		f := vs.Fault{Action: vs.FailCas}
		if hook != nil {
			// the other client's complete write, inside the read -> compare-and-swap window of the first
			// attempt (at most once, although the three kinds of document write each carry the rule)
			f.Hook = func() {
				if hookRan {
					return
				}
				hookRan = true
				rev, doc, err := c.call(c.env.Ctx, hook, ph.newRev, ph.hist, ph.parentAtts)
				who := "race:"
				if mode == 3 {
					who = "race[intermediate revision of the hooked push]:"
				}
				c.commit(ph, who, rev, doc, err)
			}
		}
		plan = &vs.Plan{Rules: []vs.Rule{
			{Type: vs.OpWriteWithXattrs, Key: c.rid(main.doc), Nth: 1, Fault: f},
			{Type: vs.OpWriteTombstoneWithXattrs, Key: c.rid(main.doc), Nth: 1, Fault: f},
			{Type: vs.OpWriteResurrectionWithXattrs, Key: c.rid(main.doc), Nth: 1, Fault: f},
		}}
	}
	c.w.Arm(plan)
	mctx := vs.Mark(c.env.Ctx)
	rev, doc, err := c.call(mctx, main, pm.newRev, pm.hist, pm.parentAtts)
	fired := 0
	for _, op := range c.w.MarkedTrace() {
		if op.Action == vs.FailCas && op.Key == c.rid(main.doc) {
			fired++
		}
	}
	c.w.Disarm()
	who := "write:"
	if fired > 0 {
		who = fmt.Sprintf("write[cas-retry x%d]:", fired)
		c.class("cas-retry")
		if hookRan {
			c.class("cas-retry-with-racing-write")
			if mode == 3 {
				c.class("cas-retry-with-guided-window-write")
			}
		}
	}
	c.commit(pm, who, rev, doc, err)
	c.dirty = true
	c.dirtyDocs[main.doc] = true
	if hookRan {
		c.dirtyDocs[hook.doc] = true
	}
}

// ---------------------------------------------------------------------------------------------
// oracle

// checkAtts compares the attachments a read shows with the model's. ignore: names of the revision under
// which nothing was ever written (accepted dangling stubs) - the statement says nothing about them,
// they may or may not be listed. doc is the logical document name.
func (c *vfC14Case) checkAtts(doc, what string, body Body, want map[string]vfC14Att, ignore map[string]bool, withData bool) {
	got := GetBodyAttachments(body)
	var gotNames, wantNames []string
	for k := range got {
		if !ignore[k] {
			gotNames = append(gotNames, k)
		}
	}
	for k := range want {
		wantNames = append(wantNames, k)
	}
	sort.Strings(gotNames)
	sort.Strings(wantNames)
	if strings.Join(gotNames, ",") != strings.Join(wantNames, ",") {
		c.fail("%s shows attachments %v, the revision was written with %v", what, gotNames, wantNames)
	}
	for _, name := range wantNames {
		content := c.contents[want[name].content]
		meta, ok := got[name].(map[string]any)
		if !ok {
			c.fail("%s: attachment %q has no metadata object (%T)", what, name, got[name])
		}
		if dg, _ := meta["digest"].(string); dg != vfC14Digest(content) {
			c.fail("%s: attachment %q advertises digest %v, sha1 of the written bytes is %s", what, name, meta["digest"], vfC14Digest(content))
		}
		if ln, ok := base.ToInt64(meta["length"]); !ok || ln != int64(len(content)) {
			c.fail("%s: attachment %q advertises length %v, written %d bytes", what, name, meta["length"], len(content))
		}
		if !withData {
			if meta["stub"] != true {
				c.fail("%s: attachment %q without data is not marked stub: %v", what, name, meta)
			}
			continue
		}
		var data []byte
		switch v := meta["data"].(type) {
		case []byte:
			data = v
		case string:
			dec, err := base64.StdEncoding.DecodeString(v)
			if err != nil {
				c.fail("%s: attachment %q data is not base64: %v", what, name, err)
			}
			data = dec
		default:
			c.fail("%s: attachment %q carries no data (%T) although all bodies were requested", what, name, meta["data"])
		}
		if !bytes.Equal(data, content) {
			c.fail("%s: attachment %q reads back %x, written %x", what, name, data, content)
		}
		c.checkData(doc, what, name, content)
	}
}

// checkData reads one attachment the way the per-attachment GET does: the data document named by the
// (already verified) digest of the revision's metadata.
func (c *vfC14Case) checkData(doc, what, name string, content []byte) {
	raw, err := c.env.Coll.GetAttachment(c.env.Ctx, MakeAttachmentKey(AttVersion2, c.rid(doc), vfC14Digest(content)))
	if err != nil {
		c.fail("%s: attachment %q: data document unreadable: %v", what, name, err)
	}
	if !bytes.Equal(raw, content) {
		c.fail("%s: attachment %q: data document holds %x, written %x", what, name, raw, content)
	}
}

// checkFull checks a read with all attachment bodies. A revision that lists an accepted dangling stub
// may be unreadable in this form on the whole (the body of a name nothing was written under cannot be
// loaded): that is outside the statement, counted, and every other name is then read one by one.
func (c *vfC14Case) checkFull(doc, what string, full Body, err error, r *vfC14Rev) {
	if err != nil {
		if len(r.dangling) == 0 {
			c.fail("%s with attachment bodies: %v", what, err)
		}
		c.class("observed:read-with-bodies-fails-on-revision-with-dangling-stub")
		for _, name := range vfSortedKeys(r.atts) {
			c.checkData(doc, what, name, c.contents[r.atts[name].content])
		}
		return
	}
	c.checkAtts(doc, what, full, r.atts, r.dangling, true)
}

func (c *vfC14Case) check() {
	ctx := c.env.Ctx
	coll := c.env.Coll
	// the documents written since the last check are read in full; the data documents of all are checked
	var dirty []string
	for _, id := range c.docIDs {
		if c.dirtyDocs[id] {
			dirty = append(dirty, id)
		}
	}
	c.dirtyDocs = map[string]bool{}
	for _, id := range dirty {
		d := c.docs[id]
		if len(d.order) == 0 {
			continue
		}
		// align the model's tombstoned leaves with what pruning left (tombstones carry no attachments)
		real, err := coll.GetDocument(ctx, c.rid(id), DocUnmarshalAll)
		if err != nil {
			c.harness("GetDocument(%s): %v", id, err)
		}
		actual := map[string]bool{}
		for _, l := range real.History.GetLeaves() {
			actual[l] = true
			if d.revs[l] == nil || !d.isLeaf(l) {
				c.harness("document %s has leaf %s which the model does not have as a leaf (model leaves %v)", id, l, vfC14LeafIDs(d))
			}
		}
		for _, l := range d.leaves() {
			if !actual[l.id] && l.deleted {
				l.gone = true
				c.class("tombstoned-branch-pruned")
			}
		}
		win := d.winner()
		if win != nil && actual[win.id] && real.GetRevTreeID() != win.id {
			c.harness("document %s: current revision %s, model winner %s", id, real.GetRevTreeID(), win.id)
		}
		if uint32(len(d.order)) > c.revsLimit && len(real.History) < len(d.order) {
			c.class("history-pruned")
		}
		nLive := 0
		for _, l := range d.leaves() {
			if !l.deleted {
				nLive++
			}
			if win != nil && l.id != win.id && len(l.atts) > 0 {
				c.class("non-winning-leaf-with-attachments")
			}
		}
		if nLive > 1 {
			c.class("live-conflict")
		}
	}
	for pass := 0; pass < 2; pass++ {
		tag := "cached"
		if pass == 1 {
			// a fresh revision cache: what a restarted or another node serves
			c.env.DBC.FlushRevisionCacheForTest()
			tag = "uncached"
		}
		for _, id := range dirty {
			d := c.docs[id]
			for _, l := range d.leaves() {
				what := fmt.Sprintf("GET %s?rev=%s (%s)", id, l.id, tag)
				meta, err := coll.Get1xRevBody(ctx, c.rid(id), l.id, false, nil)
				if l.deleted {
					if err == nil && len(GetBodyAttachments(meta)) > 0 {
						c.fail("%s: tombstone shows attachments %v", what, GetBodyAttachments(meta))
					}
					continue
				}
				if err != nil {
					c.fail("%s: live leaf revision is unreadable: %v", what, err)
				}
				c.checkAtts(id, what+" metadata", meta, l.atts, l.dangling, false)
				full, err := coll.Get1xRevBody(ctx, c.rid(id), l.id, false, []string{})
				c.checkFull(id, what, full, err, l)
			}
			if len(d.order) == 0 {
				continue
			}
			// the default read: whichever revision it names must show that revision's attachments
			what := fmt.Sprintf("GET %s (%s)", id, tag)
			cur, err := coll.Get1xRevBody(ctx, c.rid(id), "", false, []string{})
			if err != nil {
				if win := d.winner(); win != nil && !win.deleted {
					c.checkFull(id, what+" = "+win.id, nil, err, win)
				}
				continue
			}
			rid, _ := cur[BodyRev].(string)
			r := d.revs[rid]
			if r == nil {
				c.harness("%s returned revision %q which the model does not know", what, rid)
			}
			c.checkFull(id, what+" = "+rid, cur, nil, r)
		}
	}
	// attachment data documents: no loss ever; exactly the referenced set when cross-cluster versioning is off
	// (every key a committed revision of the case ever referenced is looked up - a row exists when it
	// has a value, which is what GetRaw answers)
	exists := func(k string) bool {
		_, _, err := coll.dataStore.GetRaw(ctx, k)
		if err == nil {
			return true
		}
		if !base.IsDocNotFoundError(err) {
			c.harness("GetRaw(%s): %v", k, err)
		}
		return false
	}
	for _, id := range c.docIDs {
		d := c.docs[id]
		ref := map[string]string{}
		for _, l := range d.leaves() {
			for name, a := range l.atts {
				ref[c.key(id, a.content)] = l.id + "/" + name
			}
		}
		for _, k := range vfSortedKeys(ref) {
			if !exists(k) {
				c.fail("attachment data %s of document %s is gone although leaf revision %s still references it", k, id, ref[k])
			}
		}
		if c.ccv || d.tainted {
			continue
		}
		for _, k := range vfSortedKeys(d.everRef) {
			if _, needed := ref[k]; needed || d.residue[k] {
				continue
			}
			if exists(k) {
				c.fail("attachment data %s of document %s still exists although no leaf revision references it any more (cross-cluster versioning off)", k, id)
			}
		}
	}
}

func vfC14LeafIDs(d *vfC14Doc) []string {
	var out []string
	for _, l := range d.leaves() {
		out = append(out, l.id)
	}
	return out
}

// ---------------------------------------------------------------------------------------------

// vfC14Lease hands out one rosmar bucket to a run of consecutive cases: preparing a pool bucket (views)
// costs more than a whole case, a database context on a prepared bucket next to nothing. Every case gets
// its own database context, fault store and document keys (prefix), so cases do not see each other.
type vfC14Lease struct {
	t      *testing.T
	tb     *base.TestBucket
	uses   int
	caseNo int
}

const vfC14CasesPerBucket = 40

func (l *vfC14Lease) bucket() *base.TestBucket {
	if l.tb != nil && l.uses >= vfC14CasesPerBucket {
		l.release()
	}
	if l.tb == nil {
		l.tb = base.GetTestBucket(l.t)
		l.uses = 0
	}
	l.uses++
	l.caseNo++
	return l.tb
}

func (l *vfC14Lease) release() {
	if l.tb != nil {
		l.tb.Close(base.TestCtx(l.t))
		l.tb = nil
	}
}

// vfC14OpenOn is vfOpen on a bucket that stays open: a fresh database context (product options, explicit
// sync function) behind its own fault store.
func vfC14OpenOn(t *testing.T, tb *base.TestBucket, mutate func(o *DatabaseContextOptions), wrap func(b base.Bucket) base.Bucket) (env *vfEnv, err error) {
	defer func() {
		if p := recover(); p != nil {
			err = fmt.Errorf("panic while opening database: %v", p)
		}
	}()
	opts := vfProductOptions()
	AddOptionsFromEnvironmentVariables(&opts)
	clone := tb.NoCloseClone()
	opts.Scopes = GetScopesOptions(t, tb, 1)
	mutate(&opts)
	ctx := base.TestCtx(t)
	dbc, err := NewDatabaseContext(ctx, "db", wrap(clone), false, opts)
	if err != nil {
		return nil, fmt.Errorf("NewDatabaseContext: %w", err)
	}
	ctx = dbc.AddDatabaseLogContext(ctx)
	if err := dbc.StartOnlineProcesses(ctx); err != nil {
		dbc.Close(ctx)
		return nil, fmt.Errorf("StartOnlineProcesses: %w", err)
	}
	database, _ := CreateDatabase(dbc)
	ctx = addDatabaseAndTestUserContext(ctx, database)
	if len(dbc.CollectionByID) != 1 {
		dbc.Close(ctx)
		return nil, fmt.Errorf("expected one collection, have %d", len(dbc.CollectionByID))
	}
	var dc *DatabaseCollection
	for _, c := range dbc.CollectionByID {
		dc = c
	}
	coll := &DatabaseCollectionWithUser{DatabaseCollection: dc}
	ctx = coll.AddCollectionContext(ctx)
	if _, err := dc.UpdateSyncFun(ctx, vfDefaultSyncFn); err != nil {
		dbc.Close(ctx)
		return nil, fmt.Errorf("UpdateSyncFun: %w", err)
	}
	return &vfEnv{T: t, Bucket: clone, Ctx: ctx, DBC: dbc, DB: database, Coll: coll}, nil
}

func vfC14OpenCase(t *testing.T, rt *rapid.T, lease *vfC14Lease, test string, conflicts, ccv bool, revsLimit uint32) *vfC14Case {
	c := &vfC14Case{test: test, rt: rt, conflicts: conflicts, ccv: ccv, revsLimit: revsLimit,
		docIDs: []string{"d1", "d2"}, docs: map[string]*vfC14Doc{}, classes: map[string]bool{}, dirtyDocs: map[string]bool{}}
	for _, id := range c.docIDs {
		c.docs[id] = vfC14NewDoc(id)
	}
	for _, b := range vfC14Pool {
		c.contentIndex(b)
	}
	tb := lease.bucket()
	c.prefix = fmt.Sprintf("k%d.", lease.caseNo)
	env, err := vfC14OpenOn(t, tb,
		func(o *DatabaseContextOptions) { o.AllowConflicts = base.Ptr(conflicts) },
		func(b base.Bucket) base.Bucket {
			c.w = vs.Wrap(b)
			return c.w
		})
	if err != nil {
		rt.Fatalf("HARNESS (not a verdict): open database: %v", err)
	}
	c.env = env
	c.w.SetTraceUnmarked(false)
	// what the REST layer does with revs_limit; and the value a CCV-off Couchbase bucket yields (rosmar
	// hard-wires "enabled", which switches the obsolete-attachment sweep off)
	env.DBC.RevsLimit = revsLimit
	env.DBC.CachedCCVEnabled.Store(ccv)
	c.ops = append(c.ops, fmt.Sprintf("cfg(allow_conflicts=%v ccv=%v revs_limit=%d)", conflicts, ccv, revsLimit))
	return c
}

func TestVerif_C14_Lifetime(t *testing.T) {
	const test = "Lifetime"
	rec := kit.New(vfC14ID, test)
	defer rec.Flush()
	known13 := kit.Known(vfC14ID, vfC14Sig13)
	knownPromo := kit.Known(vfC14ID, vfC14SigPromo)
	knownLeak := kit.Known(vfC14ID, vfC14SigLeak)
	lease := &vfC14Lease{t: t}
	defer lease.release()
	// scheduling aid only (decides nothing): the state machine is one sequential goroutine; on the shared,
	// oversubscribed machine most of the process' CPU time otherwise goes into idle Ps looking for work,
	// parallel GC cycles over a few MB of heap and the scavenger
	// a database context started on a bucket that already has a sequence counter otherwise sleeps 1.5 s
	// ("sequences reserved by other nodes"): single node here, and nothing of C14 is about sequences
	defer BypassReleasedSequenceWait.Store(BypassReleasedSequenceWait.Swap(true))
	defer runtime.GOMAXPROCS(runtime.GOMAXPROCS(2))
	defer debug.SetGCPercent(debug.SetGCPercent(800))
	rapid.Check(t, func(rt *rapid.T) {
		conflicts := rapid.Bool().Draw(rt, "allow_conflicts")
		// (the obsolete-attachment sweep runs with the flag off: two cases of three)
		ccv := rapid.IntRange(0, 2).Draw(rt, "ccv") == 0
		var revsLimit uint32
		if conflicts {
			// the product refuses revs_limit < 20 when conflicts are allowed
			revsLimit = rapid.SampledFrom([]uint32{20, 20, 100}).Draw(rt, "revs_limit")
		} else {
			revsLimit = rapid.SampledFrom([]uint32{1, 2, 3, 5, 50}).Draw(rt, "revs_limit")
		}
		// dangling stubs are drawn in one case of three: while the listed finding about them is open a document
		// that accepted one loses the "cleaned up" direction, which the other cases keep throughout
		dangling := rapid.IntRange(0, 2).Draw(rt, "dangling-stubs") == 0
		c := vfC14OpenCase(t, rt, lease, test, conflicts, ccv, revsLimit)
		defer c.env.Close()
		c.known13, c.knownPromo, c.knownLeak, c.dangling = known13, knownPromo, knownLeak, dangling
		if dangling {
			c.ops[0] += " dangling-stubs"
			c.class("dangling-stubs-in-alphabet")
		}
		rt.Repeat(map[string]func(*rapid.T){
			"write":       func(rt *rapid.T) { c.stepWrite(rt, 0) },
			"write2":      func(rt *rapid.T) { c.stepWrite(rt, 0) },
			"writeRetry":  func(rt *rapid.T) { c.stepWrite(rt, 1) },
			"writeRace":   func(rt *rapid.T) { c.stepWrite(rt, 2) },
			"writeWindow": func(rt *rapid.T) { c.stepWrite(rt, 3) },
			"": func(rt *rapid.T) {
				c.rt = rt
				if c.dirty {
					c.dirty = false
					c.check()
				}
			},
		})
		for _, sig := range c.excluded {
			rec.Excluded(sig)
		}
		classes := []string{fmt.Sprintf("ccv=%v", ccv), fmt.Sprintf("allow_conflicts=%v", conflicts)}
		if revsLimit <= 5 {
			classes = append(classes, "small-revs-limit")
		}
		classes = append(classes, vfSortedKeys(c.classes)...)
		if c.nontrivial {
			classes = append(classes, "nontrivial")
		}
		rec.Case(c.render(), c.nontrivial, classes...)
	})
}
