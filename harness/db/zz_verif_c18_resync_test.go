package db

// C18 — resync equals evaluating the new sync function from scratch.
// Injected into package db by the /verif driver (build overlay); never part of /repo.
//
// Differential oracle: database 1 loads a generated corpus under function A, is switched to function
// B, taken offline, resynced by the real ResyncManager and brought online again; database 2 receives
// the same revisions (identical revision ids) under B from the start. Document channels, per-leaf
// channels, access / role-access maps, every principal's effective access and the set of documents
// every user can read must agree; a second resync must change nothing.
// A native model of the function family classifies cases (non-trivial rule, known shapes, expected
// rejections); it does not decide the verdict.

import (
	"context"
	"fmt"
	"os"
	"sort"
	"strings"
	"sync/atomic"
	"testing"
	"time"

	"github.com/couchbase/sync_gateway/auth"
	"github.com/couchbase/sync_gateway/base"
	kit "github.com/couchbase/sync_gateway/verifkit"
	"pgregory.net/rapid"
)

const (
	vfC18SigTombstones = "resync-skips-tombstones"
	vfC18SigRegen      = "resync-regenerate-sequences-skips-principal-invalidation"
	vfC18SigRejected   = "resync-rejected-winning-leaf-hides-document"
	vfC18SigLateReject = "resync-rejected-leaf-keeps-role-grants"
	vfC18SigLeafSkipped = "resync-nonwinning-leaf-channels-not-persisted-when-winner-unchanged"

	// class of the cases in which the rejected-winner shape was generated and rewritten (not a finding)
	vfC18OutOfDomainRejected = "out-of-domain:rejected-winner-with-accepted-sibling"
)

var (
	vfC18Users    = []string{"u1", "u2", "u3"}
	vfC18Roles    = []string{"r1", "r2"}
	vfC18Channels = []string{"W", "X", "Y", "Z"}
)

// ---------------------------------------------------------------------------------------------
// the re-mapping family of sync functions and its native model

// vfC18Fn selects which body field feeds which call.
type vfC18Fn struct {
	Chan    string // "c1" | "c2"
	Acc     string // "" | "g1" | "g2"
	Rol     string // "" | "p1" | "p2"
	Rej     string // "" | "j1" | "j2"
	RejLate bool   // throw after the channel/access/role calls instead of before them
	DelChan bool   // deleted revisions are assigned channel "T"
}

func (f vfC18Fn) String() string {
	return fmt.Sprintf("{chan=%s acc=%s rol=%s rej=%s late=%v delChan=%v}", f.Chan, f.Acc, f.Rol, f.Rej, f.RejLate, f.DelChan)
}

func (f vfC18Fn) JS() string {
	var sb strings.Builder
	sb.WriteString("function(doc, oldDoc, meta) {\n")
	if f.DelChan {
		sb.WriteString("\tif (doc._deleted) { channel(\"T\"); return; }\n")
	} else {
		sb.WriteString("\tif (doc._deleted) { return; }\n")
	}
	rej := ""
	if f.Rej != "" {
		rej = fmt.Sprintf("\tif (doc.%s) { throw({forbidden: \"rejected by %s\"}); }\n", f.Rej, f.Rej)
	}
	if !f.RejLate {
		sb.WriteString(rej)
	}
	fmt.Fprintf(&sb, "\tchannel(doc.%s);\n", f.Chan)
	if f.Acc != "" {
		fmt.Fprintf(&sb, "\tvar a = doc.%s || [];\n\tfor (var i = 0; i < a.length; i++) { access(a[i].u, a[i].c); }\n", f.Acc)
	}
	if f.Rol != "" {
		fmt.Fprintf(&sb, "\tvar r = doc.%s || [];\n\tfor (var j = 0; j < r.length; j++) { role(r[j].u, r[j].r); }\n", f.Rol)
	}
	if f.RejLate {
		sb.WriteString(rej)
	}
	sb.WriteString("}")
	return sb.String()
}

type vfC18Grant struct {
	Who  []string
	What []string
}

type vfC18Body struct {
	N      int
	C1, C2 []string
	G1, G2 []vfC18Grant // access grants; Who may contain "role:<name>"
	P1, P2 []vfC18Grant // role grants; What holds role names without prefix
	J1, J2 bool
}

type vfC18Rev struct {
	ID      string
	Parent  string
	Deleted bool
	Body    vfC18Body
	Late    bool // written (still under A) after every user was loaded once
}

type vfC18Doc struct {
	ID   string
	Kind string
	Revs []vfC18Rev // parents before children
}

type vfC18Principal struct {
	Name  string
	Chans []string
	Roles []string // users only
}

type vfC18Spec struct {
	Deflt bool
	A, B  vfC18Fn
	Regen bool
	Users []vfC18Principal
	Roles []vfC18Principal // existing roles only
	Docs  []vfC18Doc
	// Reload: users loaded again after the late writes; the others go into the resync with whatever
	// channel and/or role invalidation the late writes left pending.
	Reload []string
}

type vfC18Eval struct {
	Chans    []string
	Acc      map[string][]string // access name -> channels
	Rol      map[string][]string // user -> roles
	Rejected bool
}

func vfC18Uniq(ss []string) []string {
	m := map[string]bool{}
	for _, s := range ss {
		m[s] = true
	}
	return vfSortedKeys(m)
}

func vfC18GrantMap(gs []vfC18Grant) map[string][]string {
	out := map[string][]string{}
	for _, g := range gs {
		if len(g.What) == 0 {
			continue
		}
		for _, w := range g.Who {
			out[w] = vfC18Uniq(append(out[w], g.What...))
		}
	}
	return out
}

// eval is the native model of one function of the family on one revision.
func (f vfC18Fn) eval(r vfC18Rev) vfC18Eval {
	if r.Deleted {
		if f.DelChan {
			return vfC18Eval{Chans: []string{"T"}}
		}
		return vfC18Eval{}
	}
	b := r.Body
	if (f.Rej == "j1" && b.J1) || (f.Rej == "j2" && b.J2) {
		return vfC18Eval{Rejected: true}
	}
	var e vfC18Eval
	if f.Chan == "c1" {
		e.Chans = vfC18Uniq(b.C1)
	} else {
		e.Chans = vfC18Uniq(b.C2)
	}
	switch f.Acc {
	case "g1":
		e.Acc = vfC18GrantMap(b.G1)
	case "g2":
		e.Acc = vfC18GrantMap(b.G2)
	}
	switch f.Rol {
	case "p1":
		e.Rol = vfC18GrantMap(b.P1)
	case "p2":
		e.Rol = vfC18GrantMap(b.P2)
	}
	return e
}

func vfC18ParseRev(id string) (int, string) {
	i := strings.IndexByte(id, '-')
	g := 0
	for _, c := range id[:i] {
		g = g*10 + int(c-'0')
	}
	return g, id[i+1:]
}

func (d vfC18Doc) rev(id string) *vfC18Rev {
	for i := range d.Revs {
		if d.Revs[i].ID == id {
			return &d.Revs[i]
		}
	}
	return nil
}

func (d vfC18Doc) leaves() []*vfC18Rev {
	kids := map[string]int{}
	for _, r := range d.Revs {
		if r.Parent != "" {
			kids[r.Parent]++
		}
	}
	var out []*vfC18Rev
	for i := range d.Revs {
		if kids[d.Revs[i].ID] == 0 {
			out = append(out, &d.Revs[i])
		}
	}
	return out
}

// winner by the CouchDB rule: live before deleted, higher generation, greater digest.
func (d vfC18Doc) winner() *vfC18Rev {
	var w *vfC18Rev
	for _, r := range d.leaves() {
		if w == nil {
			w = r
			continue
		}
		rg, rd := vfC18ParseRev(r.ID)
		wg, wd := vfC18ParseRev(w.ID)
		better := false
		switch {
		case r.Deleted != w.Deleted:
			better = !r.Deleted
		case rg != wg:
			better = rg > wg
		default:
			better = rd > wd
		}
		if better {
			w = r
		}
	}
	return w
}

// insertedAsWinner: revisions that were the winner right after their own insertion (corpus order).
func (d vfC18Doc) insertedAsWinner() map[string]bool {
	out := map[string]bool{}
	for i := range d.Revs {
		p := vfC18Doc{Revs: d.Revs[:i+1]}
		if p.winner().ID == d.Revs[i].ID {
			out[d.Revs[i].ID] = true
		}
	}
	return out
}

// leafSkipped: resync will not rewrite the document (the winner evaluates identically under A and
// B) although a non-winning leaf's stored channels differ from what B produces for it.
func (s *vfC18Spec) leafSkipped(d vfC18Doc) bool {
	if s.Regen || len(d.leaves()) < 2 {
		return false
	}
	w := d.winner()
	if w.Deleted {
		return false // tombstoned documents are not visited at all (other signature)
	}
	ea, eb := s.A.eval(*w), s.B.eval(*w)
	if eb.Rejected {
		eb = vfC18Eval{}
	}
	if !vfC18Subset(ea.Chans, eb.Chans) || !vfC18Subset(eb.Chans, ea.Chans) || !vfC18MapEqual(ea.Acc, eb.Acc) || !vfC18MapEqual(ea.Rol, eb.Rol) {
		return false
	}
	asWinner := d.insertedAsWinner()
	for _, l := range d.leaves() {
		if l.ID == w.ID {
			continue
		}
		var stored []string
		if !asWinner[l.ID] {
			stored = s.A.eval(*l).Chans
		}
		want := s.B.eval(*l).Chans
		if !vfC18Subset(stored, want) || !vfC18Subset(want, stored) {
			return true
		}
	}
	return false
}

func (d vfC18Doc) history(id string) []string {
	var out []string
	for id != "" {
		out = append(out, id)
		id = d.rev(id).Parent
	}
	return out
}

func vfC18Subset(a, b []string) bool {
	m := map[string]bool{}
	for _, x := range b {
		m[x] = true
	}
	for _, x := range a {
		if !m[x] {
			return false
		}
	}
	return true
}

func vfC18MapSubset(a, b map[string][]string) bool {
	for k, v := range a {
		if !vfC18Subset(v, b[k]) {
			return false
		}
	}
	return true
}

func vfC18MapEqual(a, b map[string][]string) bool { return vfC18MapSubset(a, b) && vfC18MapSubset(b, a) }

// shapes lists the known-finding signatures the spec falls into (by the model).
func (s *vfC18Spec) shapes() []string {
	var out []string
	tomb, grantChange, rejWinner, lateRole, leafSkipped := false, false, false, false, false
	for _, d := range s.Docs {
		w := d.winner()
		if s.leafSkipped(d) {
			leafSkipped = true
		}
		if w.Deleted && s.A.DelChan != s.B.DelChan {
			tomb = true
		}
		ea, eb := s.A.eval(*w), s.B.eval(*w)
		if !w.Deleted && (eb.Rejected || !vfC18MapEqual(ea.Acc, eb.Acc) || !vfC18MapEqual(ea.Rol, eb.Rol)) {
			grantChange = true
		}
		if !w.Deleted && eb.Rejected {
			for _, r := range d.Revs {
				if r.ID != w.ID && !s.B.eval(r).Rejected {
					rejWinner = true
				}
			}
		}
		if s.B.RejLate && s.B.Rol != "" {
			for _, l := range d.leaves() {
				if !l.Deleted && s.B.eval(*l).Rejected {
					nr := s.B
					nr.Rej = ""
					if len(nr.eval(*l).Rol) > 0 {
						lateRole = true
					}
				}
			}
		}
	}
	if tomb {
		out = append(out, vfC18SigTombstones)
	}
	if s.Regen && grantChange {
		out = append(out, vfC18SigRegen)
	}
	if rejWinner {
		out = append(out, vfC18SigRejected)
	}
	if lateRole {
		out = append(out, vfC18SigLateReject)
	}
	if leafSkipped {
		out = append(out, vfC18SigLeafSkipped)
	}
	return out
}

// avoid rewrites the spec minimally so that it no longer has the given shape.
func (s *vfC18Spec) avoid(sig string) {
	switch sig {
	case vfC18SigTombstones:
		s.B.DelChan = s.A.DelChan
	case vfC18SigRegen:
		s.Regen = false
	case vfC18SigLateReject:
		s.B.RejLate = false
	case vfC18SigLeafSkipped:
		var keep []vfC18Doc
		for _, d := range s.Docs {
			if !s.leafSkipped(d) {
				keep = append(keep, d)
			}
		}
		s.Docs = keep
	case vfC18SigRejected:
		for di := range s.Docs {
			d := s.Docs[di]
			w := d.winner()
			if w.Deleted || !s.B.eval(*w).Rejected {
				continue
			}
			other := false
			for _, r := range d.Revs {
				if r.ID != w.ID && !s.B.eval(r).Rejected {
					other = true
				}
			}
			if other {
				if s.B.Rej == "j1" {
					w.Body.J1 = false
				} else {
					w.Body.J2 = false
				}
			}
		}
	}
}

// nontrivial: B removes a channel or grant that A conferred on some winning revision, and the
// corpus has a conflicted or tombstoned granting document.
func (s *vfC18Spec) classify() (nontrivial bool, classes []string) {
	removal, shaped := false, false
	for _, d := range s.Docs {
		w := d.winner()
		ea, eb := s.A.eval(*w), s.B.eval(*w)
		if !vfC18Subset(ea.Chans, eb.Chans) {
			removal = true
			classes = append(classes, "B-removes-channel")
		}
		if !vfC18MapSubset(ea.Acc, eb.Acc) || !vfC18MapSubset(ea.Rol, eb.Rol) {
			removal = true
			classes = append(classes, "B-removes-grant")
		}
		if !vfC18Subset(eb.Chans, ea.Chans) || !vfC18MapSubset(eb.Acc, ea.Acc) || !vfC18MapSubset(eb.Rol, ea.Rol) {
			classes = append(classes, "B-adds-channel-or-grant")
		}
		if eb.Rejected {
			classes = append(classes, "B-rejects-winner")
		}
		granting := false
		deleted := false
		for _, r := range d.Revs {
			if r.Deleted {
				deleted = true
				continue
			}
			if len(s.A.eval(r).Acc)+len(s.A.eval(r).Rol)+len(s.B.eval(r).Acc)+len(s.B.eval(r).Rol) > 0 {
				granting = true
			}
		}
		conflicted := len(d.leaves()) > 1
		if granting && (conflicted || deleted) {
			shaped = true
		}
		classes = append(classes, "doc:"+d.Kind)
	}
	nlate := 0
	for _, d := range s.Docs {
		for _, r := range d.Revs {
			if r.Late {
				nlate++
			}
		}
	}
	classes = append(classes, fmt.Sprintf("late-writes=%d", nlate), fmt.Sprintf("users-not-reloaded=%d", len(s.Users)-len(s.Reload)))
	classes = append(classes, fmt.Sprintf("regen=%v", s.Regen), fmt.Sprintf("defaultCollection=%v", s.Deflt), fmt.Sprintf("docs=%d", len(s.Docs)))
	if shaped {
		classes = append(classes, "corpus-has-conflicted-or-tombstoned-granting-doc")
	}
	return removal && shaped, vfC18Uniq(classes)
}

// ---------------------------------------------------------------------------------------------
// rendering

func vfC18RenderGrants(gs []vfC18Grant) string {
	var parts []string
	for _, g := range gs {
		parts = append(parts, vfJoin(g.Who)+">"+vfJoin(g.What))
	}
	return strings.Join(parts, ",")
}

func (b vfC18Body) String() string {
	var parts []string
	add := func(k, v string) {
		if v != "" && v != "[]" {
			parts = append(parts, k+"="+v)
		}
	}
	add("c1", vfJoin(b.C1))
	add("c2", vfJoin(b.C2))
	add("g1", vfC18RenderGrants(b.G1))
	add("g2", vfC18RenderGrants(b.G2))
	add("p1", vfC18RenderGrants(b.P1))
	add("p2", vfC18RenderGrants(b.P2))
	if b.J1 {
		parts = append(parts, "j1")
	}
	if b.J2 {
		parts = append(parts, "j2")
	}
	return "{" + strings.Join(parts, " ") + "}"
}

func (s *vfC18Spec) render() string {
	var ops []string
	ops = append(ops, fmt.Sprintf("defaultCollection=%v A=%s B=%s regenerateSequences=%v", s.Deflt, s.A, s.B, s.Regen))
	for _, r := range s.Roles {
		ops = append(ops, fmt.Sprintf("role(%s chans=%s)", r.Name, vfJoin(r.Chans)))
	}
	for _, u := range s.Users {
		ops = append(ops, fmt.Sprintf("user(%s chans=%s roles=%s)", u.Name, vfJoin(u.Chans), vfJoin(u.Roles)))
	}
	for _, late := range []bool{false, true} {
		for _, d := range s.Docs {
			for _, r := range d.Revs {
				if r.Late != late {
					continue
				}
				if r.Deleted {
					ops = append(ops, fmt.Sprintf("rev(%s %s<-%q deleted)", d.ID, r.ID, r.Parent))
				} else {
					ops = append(ops, fmt.Sprintf("rev(%s %s<-%q %s)", d.ID, r.ID, r.Parent, r.Body))
				}
			}
		}
		if !late {
			ops = append(ops, "loadEveryUser")
		} else {
			ops = append(ops, "reloadUsers"+vfJoin(s.Reload))
		}
	}
	return strings.Join(ops, "; ")
}

// ---------------------------------------------------------------------------------------------
// generator

func vfC18GenSubset(rt *rapid.T, label string, from []string, maxLen int) []string {
	n := rapid.IntRange(0, maxLen).Draw(rt, label+"_n")
	var out []string
	for i := 0; i < n; i++ {
		out = append(out, rapid.SampledFrom(from).Draw(rt, label))
	}
	return vfC18Uniq(out)
}

func vfC18GenGrants(rt *rapid.T, label string, who, what []string) []vfC18Grant {
	n := rapid.IntRange(0, 2).Draw(rt, label+"_k")
	var out []vfC18Grant
	for i := 0; i < n; i++ {
		w := vfC18GenSubset(rt, label+"_who", who, 2)
		x := vfC18GenSubset(rt, label+"_what", what, 2)
		if len(w) == 0 || len(x) == 0 {
			continue
		}
		out = append(out, vfC18Grant{Who: w, What: x})
	}
	return out
}

func vfC18GenBody(rt *rapid.T, n int) vfC18Body {
	names := append(append([]string{}, vfC18Users...), "role:r1", "role:r2")
	b := vfC18Body{N: n}
	b.C1 = vfC18GenSubset(rt, "c1", vfC18Channels, 2)
	b.C2 = vfC18GenSubset(rt, "c2", vfC18Channels, 2)
	b.G1 = vfC18GenGrants(rt, "g1", names, vfC18Channels)
	b.G2 = vfC18GenGrants(rt, "g2", names, vfC18Channels)
	b.P1 = vfC18GenGrants(rt, "p1", vfC18Users, vfC18Roles)
	b.P2 = vfC18GenGrants(rt, "p2", vfC18Users, vfC18Roles)
	b.J1 = rapid.IntRange(0, 3).Draw(rt, "j1") == 0
	b.J2 = rapid.IntRange(0, 3).Draw(rt, "j2") == 0
	return b
}

func vfC18GenFn(rt *rapid.T, label string, mayReject bool) vfC18Fn {
	f := vfC18Fn{
		Chan:    rapid.SampledFrom([]string{"c1", "c2"}).Draw(rt, label+"_chan"),
		Acc:     rapid.SampledFrom([]string{"g1", "g2", "g1", "g2", ""}).Draw(rt, label+"_acc"),
		Rol:     rapid.SampledFrom([]string{"p1", "p2", "p1", "p2", ""}).Draw(rt, label+"_rol"),
		DelChan: rapid.IntRange(0, 3).Draw(rt, label+"_delChan") == 0,
	}
	if mayReject {
		f.Rej = rapid.SampledFrom([]string{"", "", "j1", "j2"}).Draw(rt, label+"_rej")
		if f.Rej != "" {
			f.RejLate = rapid.Bool().Draw(rt, label+"_rejLate")
		}
	}
	return f
}

var vfC18DocKinds = []string{"linear", "tombstoned", "conflict-2-live", "conflict-1-deleted-branch", "resurrected", "conflict-all-deleted"}

func vfC18GenDoc(rt *rapid.T, id string, n *int) vfC18Doc {
	kind := rapid.SampledFrom(vfC18DocKinds).Draw(rt, "kind")
	d := vfC18Doc{ID: id, Kind: kind}
	digest := func() string {
		*n++
		return fmt.Sprintf("%s%d", rapid.SampledFrom([]string{"a", "b", "c", "d", "e", "f"}).Draw(rt, "digest"), *n)
	}
	add := func(parent string, deleted bool) string {
		g := 1
		if parent != "" {
			pg, _ := vfC18ParseRev(parent)
			g = pg + 1
		}
		rid := fmt.Sprintf("%d-%s", g, digest())
		r := vfC18Rev{ID: rid, Parent: parent, Deleted: deleted}
		if !deleted {
			r.Body = vfC18GenBody(rt, *n)
		}
		d.Revs = append(d.Revs, r)
		return rid
	}
	root := add("", false)
	switch kind {
	case "linear":
		tip := root
		for i := rapid.IntRange(0, 2).Draw(rt, "extra"); i > 0; i-- {
			tip = add(tip, false)
		}
	case "tombstoned":
		tip := root
		if rapid.Bool().Draw(rt, "extra") {
			tip = add(tip, false)
		}
		add(tip, true)
	case "conflict-2-live":
		a := add(root, false)
		add(root, false)
		if rapid.Bool().Draw(rt, "extend") {
			add(a, false)
		}
	case "conflict-1-deleted-branch":
		add(root, false)
		b := add(root, false)
		add(b, true)
	case "resurrected":
		t := add(root, true)
		add(t, false)
	case "conflict-all-deleted":
		a := add(root, false)
		b := add(root, false)
		add(a, true)
		add(b, true)
	}
	return d
}

func vfC18AddLate(rt *rapid.T, d *vfC18Doc, parent string, deleted bool, n *int) {
	*n++
	g := 1
	if parent != "" {
		pg, _ := vfC18ParseRev(parent)
		g = pg + 1
	}
	r := vfC18Rev{ID: fmt.Sprintf("%d-%s%d", g, rapid.SampledFrom([]string{"a", "c", "e"}).Draw(rt, "digest"), *n), Parent: parent, Deleted: deleted, Late: true}
	if !deleted {
		r.Body = vfC18GenBody(rt, *n)
	}
	d.Revs = append(d.Revs, r)
}

func vfC18GenSpec(rt *rapid.T) *vfC18Spec {
	s := &vfC18Spec{}
	s.Deflt = rapid.Bool().Draw(rt, "defaultCollection")
	s.A = vfC18GenFn(rt, "A", false)
	s.B = vfC18GenFn(rt, "B", true)
	s.Regen = rapid.IntRange(0, 2).Draw(rt, "regen") == 0
	for _, r := range vfC18Roles {
		if rapid.IntRange(0, 3).Draw(rt, "roleExists") > 0 {
			s.Roles = append(s.Roles, vfC18Principal{Name: r, Chans: vfC18GenSubset(rt, "roleChans", vfC18Channels, 1)})
		}
	}
	for _, u := range vfC18Users {
		s.Users = append(s.Users, vfC18Principal{Name: u, Chans: vfC18GenSubset(rt, "userChans", vfC18Channels, 1), Roles: vfC18GenSubset(rt, "userRoles", vfC18Roles, 1)})
	}
	nd := rapid.IntRange(1, 5).Draw(rt, "ndocs")
	n := 0
	for i := 0; i < nd; i++ {
		s.Docs = append(s.Docs, vfC18GenDoc(rt, fmt.Sprintf("d%d", i+1), &n))
	}
	// late writes: ordinary writes under A after every user was loaded (update or delete of a live
	// leaf, resurrection, one possible new document), then a subset of the users is loaded again
	for i := range s.Docs {
		if rapid.IntRange(0, 2).Draw(rt, "lateWrite") == 0 {
			continue
		}
		d := &s.Docs[i]
		parent := d.winner()
		var live []*vfC18Rev
		for _, l := range d.leaves() {
			if !l.Deleted {
				live = append(live, l)
			}
		}
		if len(live) > 1 {
			parent = live[rapid.IntRange(0, len(live)-1).Draw(rt, "lateLeaf")]
		}
		deleted := !parent.Deleted && rapid.IntRange(0, 3).Draw(rt, "lateDelete") == 0
		vfC18AddLate(rt, d, parent.ID, deleted, &n)
	}
	if rapid.IntRange(0, 2).Draw(rt, "lateDoc") == 0 {
		d := vfC18Doc{ID: fmt.Sprintf("d%d", nd+1), Kind: "late-new"}
		vfC18AddLate(rt, &d, "", false, &n)
		s.Docs = append(s.Docs, d)
	}
	for _, u := range vfC18Users {
		if rapid.IntRange(0, 2).Draw(rt, "reload") == 0 {
			s.Reload = append(s.Reload, u)
		}
	}
	return s
}

// ---------------------------------------------------------------------------------------------
// driving the real databases

type vfC18DB struct {
	t     testing.TB
	tb    *base.TestBucket
	deflt bool
	ctx   context.Context
	dbc   *DatabaseContext
	coll  *DatabaseCollectionWithUser
	scope string
	cname string
	// clone, if set, supplies the bucket handed to NewDatabaseContext (the racing job puts the fault
	// store around the pool bucket); nil = the pool bucket itself
	clone func() base.Bucket
}

func vfC18NewDB(t testing.TB, deflt bool) *vfC18DB {
	return &vfC18DB{t: t, tb: base.GetTestBucket(t), deflt: deflt}
}

// open creates a database context on the bucket: online (StartOnlineProcesses) or offline, as the
// REST layer does for start_offline / the _offline endpoint (which reloads the database).
func (d *vfC18DB) open(fn string, online bool) (err error) {
	defer func() {
		if p := recover(); p != nil {
			err = fmt.Errorf("panic while opening database: %v", p)
		}
	}()
	opts := vfProductOptions()
	AddOptionsFromEnvironmentVariables(&opts)
	opts.AllowConflicts = base.Ptr(true)
	if d.deflt {
		opts.Scopes = GetScopesOptionsDefaultCollectionOnly(d.t)
	} else {
		opts.Scopes = GetScopesOptions(d.t, d.tb, 1)
	}
	ctx := base.TestCtx(d.t)
	var bucket base.Bucket = d.tb.NoCloseClone()
	if d.clone != nil {
		bucket = d.clone()
	}
	dbc, err := NewDatabaseContext(ctx, "db", bucket, false, opts)
	if err != nil {
		return fmt.Errorf("NewDatabaseContext: %w", err)
	}
	ctx = dbc.AddDatabaseLogContext(ctx)
	if online {
		if err := dbc.StartOnlineProcesses(ctx); err != nil {
			dbc.Close(ctx)
			return fmt.Errorf("StartOnlineProcesses: %w", err)
		}
		atomic.StoreUint32(&dbc.State, DBOnline)
	} else {
		atomic.StoreUint32(&dbc.State, DBOffline)
	}
	database, _ := CreateDatabase(dbc)
	ctx = addDatabaseAndTestUserContext(ctx, database)
	if len(dbc.CollectionByID) != 1 {
		dbc.Close(ctx)
		return fmt.Errorf("expected one collection, have %d", len(dbc.CollectionByID))
	}
	var dc *DatabaseCollection
	for _, c := range dbc.CollectionByID {
		dc = c
	}
	coll := &DatabaseCollectionWithUser{DatabaseCollection: dc}
	ctx = coll.AddCollectionContext(ctx)
	if _, err := dc.UpdateSyncFun(ctx, fn); err != nil {
		dbc.Close(ctx)
		return fmt.Errorf("UpdateSyncFun: %w", err)
	}
	d.ctx, d.dbc, d.coll, d.scope, d.cname = ctx, dbc, coll, dc.ScopeName, dc.Name
	return nil
}

func (d *vfC18DB) closeCtx() {
	if d.dbc != nil {
		d.dbc.Close(d.ctx)
		d.dbc = nil
	}
}

func (d *vfC18DB) destroy() {
	d.closeCtx()
	d.tb.Close(base.TestCtx(d.t))
}

func (d *vfC18DB) createPrincipals(s *vfC18Spec) error {
	mk := func(p vfC18Principal) *auth.PrincipalConfig {
		cfg := &auth.PrincipalConfig{Name: base.Ptr(p.Name)}
		set := base.SetFromArray(p.Chans)
		if d.deflt {
			cfg.ExplicitChannels = set
		} else {
			cfg.CollectionAccess = map[string]map[string]*auth.CollectionAccessConfig{d.scope: {d.cname: {ExplicitChannels_: set}}}
		}
		return cfg
	}
	for _, r := range s.Roles {
		if _, _, err := d.dbc.UpdatePrincipal(d.ctx, mk(r), false, true); err != nil {
			return fmt.Errorf("create role %s: %w", r.Name, err)
		}
	}
	for _, u := range s.Users {
		cfg := mk(u)
		cfg.Password = base.Ptr("letmein-" + u.Name)
		cfg.ExplicitRoleNames = base.SetFromArray(u.Roles)
		if _, _, err := d.dbc.UpdatePrincipal(d.ctx, cfg, true, true); err != nil {
			return fmt.Errorf("create user %s: %w", u.Name, err)
		}
	}
	return nil
}

func vfC18StrArr(ss []string) []any {
	out := make([]any, 0, len(ss))
	for _, s := range ss {
		out = append(out, s)
	}
	return out
}

func vfC18GrantsJSON(gs []vfC18Grant, prefix string) []any {
	var arr []any
	for _, g := range gs {
		what := make([]string, 0, len(g.What))
		for _, w := range g.What {
			what = append(what, prefix+w)
		}
		key := "c"
		if prefix != "" {
			key = "r"
		}
		arr = append(arr, map[string]any{"u": vfC18StrArr(g.Who), key: vfC18StrArr(what)})
	}
	return arr
}

func (r vfC18Rev) body() Body {
	if r.Deleted {
		return Body{BodyDeleted: true, BodyRev: r.ID}
	}
	b := Body{"n": r.Body.N, BodyRev: r.ID}
	if len(r.Body.C1) > 0 {
		b["c1"] = vfC18StrArr(r.Body.C1)
	}
	if len(r.Body.C2) > 0 {
		b["c2"] = vfC18StrArr(r.Body.C2)
	}
	if len(r.Body.G1) > 0 {
		b["g1"] = vfC18GrantsJSON(r.Body.G1, "")
	}
	if len(r.Body.G2) > 0 {
		b["g2"] = vfC18GrantsJSON(r.Body.G2, "")
	}
	if len(r.Body.P1) > 0 {
		b["p1"] = vfC18GrantsJSON(r.Body.P1, "role:")
	}
	if len(r.Body.P2) > 0 {
		b["p2"] = vfC18GrantsJSON(r.Body.P2, "role:")
	}
	if r.Body.J1 {
		b["j1"] = true
	}
	if r.Body.J2 {
		b["j2"] = true
	}
	return b
}

// load pushes every revision of the corpus with its given id (as a replicating peer would).
// fn is the function the database runs; a revision the model says fn rejects must be answered 403
// and is then absent, anything else is a harness problem.
func (d *vfC18DB) load(s *vfC18Spec, fn vfC18Fn, late bool) error {
	for _, doc := range s.Docs {
		for _, r := range doc.Revs {
			if r.Late != late {
				continue
			}
			if err := d.putRev(doc, r, fn); err != nil {
				return err
			}
		}
	}
	return nil
}

// putRev pushes one revision of doc (which must contain r and its ancestors) with its given id.
func (d *vfC18DB) putRev(doc vfC18Doc, r vfC18Rev, fn vfC18Fn) error {
	_, got, err := d.coll.PutExistingRevWithBody(d.ctx, doc.ID, r.body(), doc.history(r.ID), false, ExistingVersionWithUpdateToHLV)
	wantReject := fn.eval(r).Rejected
	if err != nil {
		status, _ := base.ErrorAsHTTPStatus(err)
		if wantReject && status == 403 {
			return nil
		}
		return fmt.Errorf("PutExistingRevWithBody(%s %s) under %s: %v (model rejects=%v)", doc.ID, r.ID, fn, err, wantReject)
	}
	if wantReject {
		return fmt.Errorf("PutExistingRevWithBody(%s %s) under %s was accepted, model says rejected", doc.ID, r.ID, fn)
	}
	if got != r.ID {
		return fmt.Errorf("PutExistingRevWithBody(%s) stored %q, wanted %q", doc.ID, got, r.ID)
	}
	return nil
}

// touchUsers loads every user once so that its computed access is persisted (as after a request).
func (d *vfC18DB) touchUsers(names []string) error {
	a := d.dbc.Authenticator(d.ctx)
	for _, name := range names {
		usr, err := a.GetUser(name)
		if err != nil || usr == nil {
			return fmt.Errorf("GetUser(%s): %v", name, err)
		}
		if _, err := usr.InheritedCollectionChannels(d.scope, d.cname); err != nil {
			return err
		}
	}
	return nil
}

type vfC18ResyncStats struct {
	Changed, Processed, Errored int64
}

// resync drives the real resync manager to completion the way POST /db/_resync does on an offline
// database. Errors are infrastructure (InconclusiveErr when a bounded wait expired).
func (d *vfC18DB) resync(regen bool) (st vfC18ResyncStats, err error) {
	return d.resyncWith(d.ctx, regen, nil)
}

// resyncWith: startCtx is the request context handed to ResyncManager.Start (the manager derives the
// context of its run from it, values included); beforeStart, if set, runs after the database state
// went to "resyncing" and before the manager is started.
func (d *vfC18DB) resyncWith(startCtx context.Context, regen bool, beforeStart func() error) (st vfC18ResyncStats, err error) {
	if !atomic.CompareAndSwapUint32(&d.dbc.State, DBOffline, DBResyncing) {
		return st, fmt.Errorf("database is not offline (state %d)", atomic.LoadUint32(&d.dbc.State))
	}
	if beforeStart != nil {
		if err := beforeStart(); err != nil {
			atomic.CompareAndSwapUint32(&d.dbc.State, DBResyncing, DBOffline)
			return st, err
		}
	}
	mgr := d.dbc.ResyncManager
	if err := mgr.Start(startCtx, ResyncOptions{RegenerateSequences: regen}); err != nil {
		atomic.CompareAndSwapUint32(&d.dbc.State, DBResyncing, DBOffline)
		return st, fmt.Errorf("ResyncManager.Start: %w", err)
	}
	deadline := time.Now().Add(vfWaitBound)
	for {
		raw, err := mgr.GetStatus(d.ctx)
		if err != nil {
			return st, fmt.Errorf("ResyncManager.GetStatus: %w", err)
		}
		var resp ResyncManagerResponseDCP
		if err := base.JSONUnmarshal(raw, &resp); err != nil {
			return st, fmt.Errorf("resync status %s: %w", raw, err)
		}
		switch resp.State {
		case BackgroundProcessStateCompleted:
			st = vfC18ResyncStats{Changed: resp.DocsChanged, Processed: resp.DocsProcessed, Errored: resp.DocsErrored}
		case BackgroundProcessStateError, BackgroundProcessStateStopped:
			return st, fmt.Errorf("resync ended in state %s: %s", resp.State, raw)
		}
		if resp.State == BackgroundProcessStateCompleted {
			break
		}
		if time.Now().After(deadline) {
			return st, kit.InconclusiveErr{Msg: fmt.Sprintf("resync did not complete within %v: %s", vfWaitBound, raw)}
		}
		time.Sleep(time.Millisecond)
	}
	// the manager removes its heartbeat document and resets the database state on its way out
	for {
		exists, err := mgr.clusterAwareOptions.metadataStore.Exists(d.ctx, mgr.clusterAwareOptions.HeartbeatDocID())
		if err == nil && !exists && atomic.LoadUint32(&d.dbc.State) == DBOffline {
			return st, nil
		}
		if time.Now().After(deadline) {
			return st, kit.InconclusiveErr{Msg: fmt.Sprintf("resync manager did not wind down within %v (heartbeat exists=%v err=%v state=%d)", vfWaitBound, exists, err, atomic.LoadUint32(&d.dbc.State))}
		}
		time.Sleep(time.Millisecond)
	}
}

// vfC18Obs is everything the property compares, in canonical text form (key -> value).
type vfC18Obs map[string]string

func vfC18Sorted(ss []string) string {
	out := append([]string{}, ss...)
	sort.Strings(out)
	return vfJoin(out)
}

func vfC18TimedKeys[V any](m map[string]V) string { return vfJoin(vfSortedKeys(m)) }

func (d *vfC18DB) observe(s *vfC18Spec) (vfC18Obs, error) {
	o := vfC18Obs{}
	for _, doc := range s.Docs {
		real, err := d.coll.GetDocument(d.ctx, doc.ID, DocUnmarshalAll)
		if err != nil {
			if base.IsDocNotFoundError(err) {
				// never stored (every revision rejected): nothing is assigned or granted
				o["doc "+doc.ID+" channels"] = "[]"
				o["doc "+doc.ID+" access"] = ""
				o["doc "+doc.ID+" role_access"] = ""
				continue
			}
			return nil, fmt.Errorf("GetDocument(%s): %w", doc.ID, err)
		}
		cur, _ := real.channelsForRevTreeID("")
		o["doc "+doc.ID+" channels"] = vfC18Sorted(cur.ToArray())
		o["doc "+doc.ID+" winner"] = real.GetRevTreeID()
		var acc, rol []string
		for _, name := range vfSortedKeys(real.Access) {
			acc = append(acc, name+":"+vfC18TimedKeys(real.Access[name]))
		}
		for _, name := range vfSortedKeys(real.RoleAccess) {
			rol = append(rol, name+":"+vfC18TimedKeys(real.RoleAccess[name]))
		}
		o["doc "+doc.ID+" access"] = strings.Join(acc, " ")
		o["doc "+doc.ID+" role_access"] = strings.Join(rol, " ")
		for _, l := range real.History.GetLeaves() {
			if l == real.GetRevTreeID() {
				continue
			}
			chans, _ := real.channelsForRevTreeID(l)
			o["leaf "+doc.ID+" "+l+" channels"] = vfC18Sorted(chans.ToArray())
		}
	}
	a := d.dbc.Authenticator(d.ctx)
	for _, r := range vfC18Roles {
		role, err := a.GetRole(r)
		if err != nil {
			return nil, fmt.Errorf("GetRole(%s): %w", r, err)
		}
		if role == nil {
			continue
		}
		o["role "+r+" channels"] = vfC18Sorted(role.CollectionChannels(d.scope, d.cname).AllKeys())
	}
	for _, u := range s.Users {
		usr, err := a.GetUser(u.Name)
		if err != nil || usr == nil {
			return nil, fmt.Errorf("GetUser(%s): %v", u.Name, err)
		}
		set, err := usr.InheritedCollectionChannels(d.scope, d.cname)
		if err != nil {
			return nil, fmt.Errorf("InheritedCollectionChannels(%s): %w", u.Name, err)
		}
		keys := set.AllKeys()
		sort.Strings(keys)
		o["user "+u.Name+" channels"] = vfJoin(keys)
		rk := usr.RoleNames().AllKeys()
		sort.Strings(rk)
		o["user "+u.Name+" roles"] = vfJoin(rk)
		h := &DatabaseCollectionWithUser{DatabaseCollection: d.coll.DatabaseCollection, user: usr}
		var visible []string
		for _, doc := range s.Docs {
			if _, err := h.Get1xBody(d.ctx, doc.ID); err == nil {
				visible = append(visible, doc.ID)
			}
		}
		o["user "+u.Name+" readable"] = vfJoin(visible)
	}
	return o, nil
}

func vfC18Diff(what string, a, b vfC18Obs, an, bn string) []string {
	keys := map[string]bool{}
	for k := range a {
		keys[k] = true
	}
	for k := range b {
		keys[k] = true
	}
	var out []string
	for _, k := range vfSortedKeys(keys) {
		if strings.HasPrefix(k, "leaf ") {
			// non-winning leaves are compared with the model (vfC18LeafDiff): the ordinary write path
			// does not keep the channels of a leaf that was the winner when written and lost later,
			// so the from-scratch database is no reference for them
			continue
		}
		if strings.HasSuffix(k, " winner") && (a[k] == "" || b[k] == "") {
			continue // the document does not exist in one database (every revision rejected there)
		}
		if a[k] != b[k] {
			out = append(out, fmt.Sprintf("%s: %s: %s=%q %s=%q", what, k, an, a[k], bn, b[k]))
		}
	}
	return out
}

// vfC18LeafDiff: every non-winning leaf of the resynced database carries the channels B produces
// for that revision (nothing for a revision B rejects).
func vfC18LeafDiff(s *vfC18Spec, o vfC18Obs) []string {
	var out []string
	for _, d := range s.Docs {
		for _, r := range d.Revs {
			got, ok := o["leaf "+d.ID+" "+r.ID+" channels"]
			if !ok {
				continue
			}
			want := vfC18Sorted(s.B.eval(r).Chans)
			if got != want {
				out = append(out, fmt.Sprintf("resynced database: conflicting leaf %s %s has channels %s, function B produces %s", d.ID, r.ID, got, want))
			}
		}
	}
	return out
}

var vfC18Timing = os.Getenv("VERIF_C18_TIMING") != ""

// vfC18SingleNode: a database that starts online on a bucket whose sequence counter is non-zero
// waits 1.5 s for other nodes to release their sequence batches. There is one node here and the
// previous context was closed (its batch released), so the repository's single-node switch (set by
// the rest package's TestMain for all its tests) is applied.
func vfC18SingleNode() { BypassReleasedSequenceWait.Store(true) }

type vfC18Result struct {
	Diffs        []string // resynced vs fresh
	Idempotence  []string // second resync changed something
	First, Again vfC18ResyncStats
}

// vfC18Execute runs one case against the real code. err is infrastructure only.
func vfC18Execute(t testing.TB, s *vfC18Spec) (res vfC18Result, err error) {
	t0 := time.Now()
	lap := func(what string) {
		if vfC18Timing {
			fmt.Printf("C18-TIMING %-28s %v\n", what, time.Since(t0))
			t0 = time.Now()
		}
	}
	defer lap("teardown")
	// database 1: corpus under A, then switch to B and resync
	d1 := vfC18NewDB(t, s.Deflt)
	defer d1.destroy()
	if err = d1.open(s.A.JS(), true); err != nil {
		return res, err
	}
	lap("d1 bucket+open A online")
	if err = d1.createPrincipals(s); err != nil {
		return res, err
	}
	if err = d1.load(s, s.A, false); err != nil {
		return res, err
	}
	var all []string
	for _, u := range s.Users {
		all = append(all, u.Name)
	}
	if err = d1.touchUsers(all); err != nil {
		return res, err
	}
	if err = d1.load(s, s.A, true); err != nil {
		return res, err
	}
	if err = d1.touchUsers(s.Reload); err != nil {
		return res, err
	}
	lap("d1 principals+load+touch")
	d1.closeCtx()
	lap("d1 close")
	if err = d1.open(s.B.JS(), false); err != nil {
		return res, err
	}
	lap("d1 open B offline")
	if res.First, err = d1.resync(s.Regen); err != nil {
		return res, err
	}
	lap("d1 resync")
	d1.closeCtx()
	lap("d1 close")
	if err = d1.open(s.B.JS(), true); err != nil {
		return res, err
	}
	lap("d1 open B online")
	o1, err := d1.observe(s)
	if err != nil {
		return res, err
	}
	lap("d1 observe")
	d1.closeCtx()
	lap("d1 close")

	// database 2: the same revisions under B from the start
	d2 := vfC18NewDB(t, s.Deflt)
	defer d2.destroy()
	if err = d2.open(s.B.JS(), true); err != nil {
		return res, err
	}
	if err = d2.createPrincipals(s); err != nil {
		return res, err
	}
	if err = d2.load(s, s.B, false); err != nil {
		return res, err
	}
	if err = d2.load(s, s.B, true); err != nil {
		return res, err
	}
	o2, err := d2.observe(s)
	if err != nil {
		return res, err
	}
	d2.closeCtx()
	lap("d2 all")
	res.Diffs = vfC18Diff("resynced database differs from the database that always ran B", o1, o2, "resynced", "fresh")
	res.Diffs = append(res.Diffs, vfC18LeafDiff(s, o1)...)

	// running resync again changes nothing
	if err = d1.open(s.B.JS(), false); err != nil {
		return res, err
	}
	lap("d1 open B offline (2)")
	if res.Again, err = d1.resync(false); err != nil {
		return res, err
	}
	lap("d1 resync (2)")
	d1.closeCtx()
	if err = d1.open(s.B.JS(), true); err != nil {
		return res, err
	}
	o1b, err := d1.observe(s)
	if err != nil {
		return res, err
	}
	lap("d1 open online + observe (2)")
	if res.Again.Changed != 0 {
		res.Idempotence = append(res.Idempotence, fmt.Sprintf("second resync reports %d changed documents (processed %d)", res.Again.Changed, res.Again.Processed))
	}
	res.Idempotence = append(res.Idempotence, vfC18Diff("second resync changed the outcome", o1, o1b, "after-first", "after-second")...)
	return res, nil
}

func vfC18Run(t *testing.T, rec *kit.Rec, rt *rapid.T) {
	s := vfC18GenSpec(rt)
	var excl []string
	for round := 0; round < 8; round++ {
		changed := false
		for _, sig := range s.shapes() {
			if sig == vfC18SigRejected {
				// out of domain, unconditionally (DESIGN §8.5): resync cannot remove a revision; for a
				// rejected winning revision the new function produces nothing and that is what is stored.
				// The "replay the writes" database has another winner there, which the statement does not promise.
				excl = append(excl, vfC18OutOfDomainRejected)
				s.avoid(sig)
				changed = true
				continue
			}
			if kit.Known("C18", sig) {
				rec.Excluded(sig)
				excl = append(excl, "excluded:"+sig)
				s.avoid(sig)
				changed = true
			}
		}
		if !changed {
			break
		}
	}
	nontrivial, classes := s.classify()
	classes = append(classes, vfC18Uniq(excl)...)
	for _, sig := range s.shapes() {
		classes = append(classes, "shape:"+sig)
	}
	render := s.render()
	var res vfC18Result
	var err error
	kit.Guard(rt, "C18", "Resync", func() string { return render }, func() { res, err = vfC18Execute(t, s) })
	if err != nil {
		if vfIsInconclusive(err) {
			rec.Inconclusive()
			kit.InconclusiveLine("C18", "%v", err)
			rt.Skip("inconclusive")
		}
		rt.Fatalf("HARNESS C18: %v\ncase: %s", err, render)
	}
	if res.First.Errored != 0 || res.Again.Errored != 0 {
		kit.Violation(rt, "C18", "Resync", render, "resync reported errored documents: first %+v, second %+v", res.First, res.Again)
	}
	if len(res.Diffs) > 0 {
		kit.Violation(rt, "C18", "Resync", render, "%s", strings.Join(res.Diffs, "\n"))
	}
	if len(res.Idempotence) > 0 {
		kit.Violation(rt, "C18", "Resync", render, "%s", strings.Join(res.Idempotence, "\n"))
	}
	if res.First.Changed > 0 {
		classes = append(classes, "first-resync-changed-documents")
	}
	rec.Case(render, nontrivial, classes...)
}

// TestVerif_C18_Resync: generated corpora × function pairs × options.
func TestVerif_C18_Resync(t *testing.T) {
	rec := kit.New("C18", "Resync")
	defer rec.Flush()
	vfC18SingleNode()
	rapid.Check(t, func(rt *rapid.T) { vfC18Run(t, rec, rt) })
}

// ---------------------------------------------------------------------------------------------
// regression reproductions of the listed findings (plain tests, never a verdict while listed)

type vfC18Repro struct {
	Sig  string
	Spec *vfC18Spec
}

func vfC18Repros() []vfC18Repro {
	users := func(u1chans ...string) []vfC18Principal {
		return []vfC18Principal{{Name: "u1", Chans: u1chans}, {Name: "u2"}, {Name: "u3"}}
	}
	live := func(id, parent string, b vfC18Body) vfC18Rev { return vfC18Rev{ID: id, Parent: parent, Body: b} }
	dead := func(id, parent string) vfC18Rev { return vfC18Rev{ID: id, Parent: parent, Deleted: true} }
	return []vfC18Repro{
		{vfC18SigTombstones, &vfC18Spec{Deflt: true, A: vfC18Fn{Chan: "c1"}, B: vfC18Fn{Chan: "c1", DelChan: true}, Users: users(),
			Docs: []vfC18Doc{{ID: "d1", Kind: "tombstoned", Revs: []vfC18Rev{live("1-a", "", vfC18Body{N: 1, C1: []string{"X"}}), dead("2-b", "1-a")}}}}},
		{vfC18SigRegen, &vfC18Spec{Deflt: true, A: vfC18Fn{Chan: "c1", Acc: "g1"}, B: vfC18Fn{Chan: "c1", Acc: "g2"}, Regen: true, Users: users(),
			Docs: []vfC18Doc{{ID: "d1", Kind: "linear", Revs: []vfC18Rev{live("1-a", "", vfC18Body{N: 1, C1: []string{"X"},
				G1: []vfC18Grant{{Who: []string{"u1"}, What: []string{"X"}}}, G2: []vfC18Grant{{Who: []string{"u1"}, What: []string{"Y"}}}})}}}}},
		{vfC18SigLateReject, &vfC18Spec{Deflt: true, A: vfC18Fn{Chan: "c1"}, B: vfC18Fn{Chan: "c1", Rol: "p1", Rej: "j1", RejLate: true}, Users: users(),
			Roles: []vfC18Principal{{Name: "r1", Chans: []string{"X"}}},
			Docs: []vfC18Doc{{ID: "d1", Kind: "linear", Revs: []vfC18Rev{live("1-a", "", vfC18Body{N: 1, J1: true,
				P1: []vfC18Grant{{Who: []string{"u1"}, What: []string{"r1"}}}})}}}}},
		{vfC18SigLeafSkipped, &vfC18Spec{Deflt: true, A: vfC18Fn{Chan: "c1"}, B: vfC18Fn{Chan: "c2"}, Users: users(),
			Docs: []vfC18Doc{{ID: "d1", Kind: "conflict-2-live", Revs: []vfC18Rev{live("1-a", "", vfC18Body{N: 1}),
				live("2-c", "1-a", vfC18Body{N: 2, C1: []string{"W"}, C2: []string{"W"}}),
				live("2-b", "1-a", vfC18Body{N: 3, C1: []string{"X"}, C2: []string{"Y"}})}}}}},
	}
}

// TestVerif_C18_Known executes the minimal reproduction of every listed finding. While a finding
// is listed as open its reproduction prints KNOWN-FINDING; once the entry is removed or marked
// fixed a reproduction that still fails is a violation (and the rapid test generates the shape again).
func TestVerif_C18_Known(t *testing.T) {
	rec := kit.New("C18", "Known")
	defer rec.Flush()
	vfC18SingleNode()
	for _, r := range vfC18Repros() {
		render := r.Spec.render()
		hasShape := false
		for _, sig := range r.Spec.shapes() {
			if sig == r.Sig {
				hasShape = true
			}
		}
		if !hasShape {
			t.Fatalf("HARNESS C18: reproduction for %s is not recognised by the shape predicate (shapes %v)\ncase: %s", r.Sig, r.Spec.shapes(), render)
		}
		res, err := vfC18Execute(t, r.Spec)
		if err != nil {
			if vfIsInconclusive(err) {
				rec.Inconclusive()
				kit.InconclusiveLine("C18", "%v", err)
				continue
			}
			t.Fatalf("HARNESS C18: reproduction %s: %v", r.Sig, err)
		}
		diffs := append(append([]string{}, res.Diffs...), res.Idempotence...)
		rec.Case(render, false, "repro:"+r.Sig, fmt.Sprintf("repro-still-fails=%v", len(diffs) > 0))
		switch {
		case len(diffs) == 0:
			kit.Note("C18", "reproduction of %s no longer fails on this tree", r.Sig)
		case kit.Known("C18", r.Sig):
			kit.KnownFinding("C18", r.Sig, fmt.Sprintf("%s | reproduction: %s | observed: %s", kit.KnownWhat("C18", r.Sig), render, strings.Join(diffs, " / ")))
		default:
			kit.Violation(t, "C18", "Known", render, "%s", strings.Join(diffs, "\n"))
		}
	}
	vfC18KnownRacing(t, rec)
}
