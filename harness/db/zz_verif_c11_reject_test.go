package db

// C11 — rejected writes (sync function, validation, conflict rules, authorisation) leave everything
// unchanged and give back the sequence; plus the regression runs of the listed known findings.
// Injected into package db by the /verif driver (build overlay); never part of /repo.

import (
	"fmt"
	"strings"
	"testing"
	"time"

	"github.com/couchbase/sync_gateway/auth"
	"github.com/couchbase/sync_gateway/base"
	kit "github.com/couchbase/sync_gateway/verifkit"
	vs "github.com/couchbase/sync_gateway/verifstore"
	"pgregory.net/rapid"
)

var vfC11RejectKinds = []string{
	// sync function
	"sync-forbidden", "sync-unauthorized", "sync-exception", "sync-requireAdmin", "sync-requireUser", "sync-requireRole", "sync-requireAccess",
	// conflict rules
	"stale-rev", "missing-rev", "rev-on-missing-doc", "delete-stale-rev", "push-conflict-refused", "push-known-rev",
	// validation
	"reserved-property", "internal-prefix-property", "purged-property", "removed-property", "attachment-without-data", "invalid-rev", "invalid-expiry",
	// principals and sessions
	"user-bad-password", "user-all-channels-readonly", "user-exists-no-replace", "user-unknown-keyspace", "user-bad-name", "role-delete-missing",
	"session-bad-ttl", "session-disabled-user", "session-delete-missing",
}

// vfC11RejectedOp returns the request that must be refused. target says which document it aims at.
func vfC11RejectedOp(kind string, sc vfC11Scenario) func(wd *vfC11World) error {
	put := func(id string, mutate func(wd *vfC11World, b Body)) func(wd *vfC11World) error {
		return func(wd *vfC11World) error {
			b := vfC11Body(sc.New)
			if id == "d1" && wd.curRev != "" {
				b[BodyRev] = wd.curRev
			}
			mutate(wd, b)
			_, _, err := wd.h.Put(wd.mctx, id, b)
			return err
		}
	}
	target := "d1"
	if len(sc.Pre) == 0 {
		target = "n1"
	}
	switch kind {
	case "sync-forbidden":
		return put(target, func(wd *vfC11World, b Body) { b["reject"] = "forbidden" })
	case "sync-unauthorized":
		return put(target, func(wd *vfC11World, b Body) { b["reject"] = "unauthorized" })
	case "sync-exception":
		return put(target, func(wd *vfC11World, b Body) { b["reject"] = "exception" })
	case "sync-requireAdmin":
		return put(target, func(wd *vfC11World, b Body) { b["reject"] = "admin" })
	case "sync-requireUser":
		return put(target, func(wd *vfC11World, b Body) { b["reqUser"] = "bob" })
	case "sync-requireRole":
		return put(target, func(wd *vfC11World, b Body) { b["reqRole"] = "r9" })
	case "sync-requireAccess":
		return put(target, func(wd *vfC11World, b Body) { b["reqAccess"] = "Z" })
	case "stale-rev":
		return put("d1", func(wd *vfC11World, b Body) { b[BodyRev] = "1-0000deadbeef" })
	case "missing-rev":
		return put("d2", func(wd *vfC11World, b Body) {})
	case "rev-on-missing-doc":
		return put("n1", func(wd *vfC11World, b Body) { b[BodyRev] = "1-0000deadbeef" })
	case "delete-stale-rev":
		return func(wd *vfC11World) error {
			_, _, err := wd.h.DeleteDoc(wd.mctx, "d1", DocVersion{RevTreeID: "1-0000deadbeef"})
			return err
		}
	case "push-conflict-refused":
		return func(wd *vfC11World) error {
			// a sibling of the current revision while conflicts are refused (noConflicts, as a client push)
			hist := []string{"9-c11conflict", "8-c11unknown"}
			_, _, err := wd.h.PutExistingRevWithBody(wd.mctx, "d1", vfC11Body(sc.New), hist, true, ExistingVersionWithUpdateToHLV)
			return err
		}
	case "push-known-rev":
		return func(wd *vfC11World) error {
			// pushing a revision the document already has is a no-op, not an error
			hist := []string{}
			for i := len(wd.revs) - 1; i >= 0; i-- {
				hist = append(hist, wd.revs[i])
			}
			_, _, err := wd.h.PutExistingRevWithBody(wd.mctx, "d1", vfC11Body(sc.New), hist, false, ExistingVersionWithUpdateToHLV)
			if err == nil {
				return errVfC11NoOp
			}
			return err
		}
	case "reserved-property":
		return put(target, func(wd *vfC11World, b Body) { b[base.SyncPropertyName] = map[string]any{"rev": "1-abc"} })
	case "internal-prefix-property":
		return put(target, func(wd *vfC11World, b Body) { b[BodyInternalPrefix+"x"] = 1 })
	case "purged-property":
		return put(target, func(wd *vfC11World, b Body) { b[BodyPurged] = true })
	case "removed-property":
		return put(target, func(wd *vfC11World, b Body) { b[BodyRemoved] = true })
	case "attachment-without-data":
		return put(target, func(wd *vfC11World, b Body) {
			b[BodyAttachments] = map[string]any{"zz": map[string]any{"content_type": "text/plain"}}
		})
	case "invalid-rev":
		return put(target, func(wd *vfC11World, b Body) { b[BodyRev] = "-3-nonsense" })
	case "invalid-expiry":
		return put(target, func(wd *vfC11World, b Body) { b[BodyExpiry] = "not a date" })
	case "user-bad-password":
		return func(wd *vfC11World) error {
			pw := "ab"
			_, _, err := wd.env.DBC.UpdatePrincipal(wd.mctx, vfC11PrincCfg(wd, "carol", []string{"A"}, nil, &pw), true, true)
			return err
		}
	case "user-all-channels-readonly":
		return func(wd *vfC11World) error {
			cfg := vfC11PrincCfg(wd, "alice", sc.PUpd.Chans, nil, nil)
			cfg.Channels = base.SetOf("ZZ")
			_, _, err := wd.env.DBC.UpdatePrincipal(wd.mctx, cfg, true, true)
			return err
		}
	case "user-exists-no-replace":
		return func(wd *vfC11World) error {
			pw := "pw-other"
			_, _, err := wd.env.DBC.UpdatePrincipal(wd.mctx, vfC11PrincCfg(wd, "alice", sc.PUpd.Chans, nil, &pw), true, false)
			return err
		}
	case "user-unknown-keyspace":
		return func(wd *vfC11World) error {
			name := "alice"
			cfg := &auth.PrincipalConfig{Name: &name, CollectionAccess: map[string]map[string]*auth.CollectionAccessConfig{"nosuchscope": {"nosuchcoll": {ExplicitChannels_: base.SetOf("A")}}}}
			_, _, err := wd.env.DBC.UpdatePrincipal(wd.mctx, cfg, true, true)
			return err
		}
	case "user-bad-name":
		return func(wd *vfC11World) error {
			pw := "pw-xyz"
			_, _, err := wd.env.DBC.UpdatePrincipal(wd.mctx, vfC11PrincCfg(wd, "bad:name/", []string{"A"}, nil, &pw), true, true)
			return err
		}
	case "role-delete-missing":
		return func(wd *vfC11World) error { return wd.env.DBC.DeleteRole(wd.mctx, "r9", sc.Purge) }
	case "session-bad-ttl":
		return func(wd *vfC11World) error {
			a := wd.env.DBC.Authenticator(wd.mctx)
			u, err := a.GetUser("alice")
			if err != nil || u == nil {
				return kit.InconclusiveErr{Msg: fmt.Sprintf("load alice: %v", err)}
			}
			_, err = a.CreateSession(wd.mctx, u, 0, sc.OneTime)
			return err
		}
	case "session-disabled-user":
		return func(wd *vfC11World) error {
			a := wd.env.DBC.Authenticator(wd.mctx)
			u, err := a.GetUser("dis")
			if err != nil || u == nil {
				return kit.InconclusiveErr{Msg: fmt.Sprintf("load dis: %v", err)}
			}
			_, err = a.CreateSession(wd.mctx, u, time.Hour, sc.OneTime)
			return err
		}
	case "session-delete-missing":
		return func(wd *vfC11World) error {
			return wd.env.DBC.Authenticator(wd.mctx).DeleteSession(wd.mctx, "no-such-session", "alice")
		}
	}
	panic("unknown rejection kind " + kind)
}

var errVfC11NoOp = fmt.Errorf("no-op")

func TestVerif_C11_Rejections(t *testing.T) {
	rec := kit.New("C11", "Rejections")
	defer rec.Flush()
	restore := SuspendSequenceBatching()
	defer restore()
	rapid.Check(t, func(rt *rapid.T) {
		kind := rapid.SampledFrom(vfC11RejectKinds).Draw(rt, "reject")
		sc := vfC11GenScenario(rt, []string{"update"})
		sc.Kind = "reject:" + kind
		// the requireX family only rejects for a user; conflict kinds need an existing live document
		if strings.HasPrefix(kind, "sync-require") {
			sc.AsUser = "alice"
		}
		switch kind {
		case "stale-rev", "delete-stale-rev", "push-conflict-refused", "push-known-rev":
			sc.Pre[len(sc.Pre)-1].Deleted = false
		}
		if kind == "push-conflict-refused" {
			sc.AllowConflicts = false
		}
		if strings.HasPrefix(kind, "sync-") && rapid.Bool().Draw(rt, "onNewDoc") {
			sc.Pre = nil
			sc.Branch = false
		}
		if !sc.AllowConflicts {
			sc.Branch = false
		}
		render := sc.String()
		var violation string
		var herr error
		kit.Guard(rt, "C11", "Rejections", func() string { return render }, func() {
			violation, herr = vfC11Reject(t, sc, kind, rec)
		})
		if herr != nil {
			if vfIsInconclusive(herr) {
				rec.Inconclusive()
				kit.InconclusiveLine("C11", "%v (%s)", herr, render)
				rt.Skip()
			}
			rt.Fatalf("harness error (not a verdict): %v\nscenario: %s", herr, render)
		}
		if violation != "" {
			kit.Violation(rt, "C11", "Rejections", render, "%s", violation)
		}
		rec.Case(render, true, "reject="+kind)
	})
}

func vfC11Reject(t testing.TB, sc vfC11Scenario, kind string, rec *kit.Rec) (violation string, err error) {
	wd, err := vfC11Build(t, sc)
	if err != nil {
		return "", err
	}
	defer wd.close()
	if kind == "session-disabled-user" {
		pw := "pw-dis"
		cfg := vfC11PrincCfg(wd, "dis", []string{"A"}, nil, &pw)
		cfg.Disabled = base.Ptr(true)
		if _, _, err := wd.env.DBC.UpdatePrincipal(wd.env.Ctx, cfg, true, true); err != nil {
			return "", err
		}
		if _, err := wd.env.DBC.Authenticator(wd.env.Ctx).GetUser("dis"); err != nil {
			return "", err
		}
	}
	if err := wd.settle(); err != nil {
		return "", err
	}
	pre, err := wd.w.Snapshot(wd.env.Ctx)
	if err != nil {
		return "", err
	}
	wd.w.Arm(nil)
	rerr := vfC11RejectedOp(kind, sc)(wd)
	trace := wd.w.MarkedTrace()
	wd.w.Disarm()
	if ie, ok := rerr.(kit.InconclusiveErr); ok {
		return "", ie
	}
	if rerr == nil {
		return "", fmt.Errorf("generated request of kind %s was accepted; the generator is wrong (trace %s)", kind, vs.Render(trace))
	}
	post, err := wd.w.Snapshot(wd.env.Ctx)
	if err != nil {
		return "", err
	}
	diff, residue := vfC11StateDiff(pre, post)
	for _, r := range residue {
		rec.Class("allowed-residue="+r, 1)
	}
	desc := fmt.Sprintf("result=%v; trace: %s", rerr, vs.Render(trace))
	if len(diff) > 0 {
		return fmt.Sprintf("request was refused (%v) but left the bucket changed:\n%s\n[%s]", rerr, strings.Join(diff, "\n"), desc), nil
	}
	s0, s1 := vfC11Counter(pre), vfC11Counter(post)
	if s1 > s0 {
		rec.Class("refused-after-reserving-sequence", 1)
		if missing := vfC11Unaccounted(post, s0, s1); len(missing) > 0 {
			if kind == "role-delete-missing" && kit.Known("C11", vfC11SigRoleSeq) {
				rec.Excluded(vfC11SigRoleSeq)
			} else {
				return fmt.Sprintf("request was refused (%v) after reserving sequence(s) %v and did not publish them as unused [%s]", rerr, missing, desc), nil
			}
		}
	}
	if msg := wd.checkLeaves(); msg != "" {
		return fmt.Sprintf("request was refused (%v) but %s [%s]", rerr, msg, desc), nil
	}
	// the document under the refused write is still served as before
	if len(sc.Pre) > 0 && !strings.HasPrefix(kind, "user-") && !strings.HasPrefix(kind, "session-") && !strings.HasPrefix(kind, "role-") {
		if msg := wd.checkDoc("d1", wd.curRev, wd.cur, true, false); msg != "" {
			return fmt.Sprintf("after a refused request (%v) the previous revision is no longer served completely: %s [%s]", rerr, msg, desc), nil
		}
	}
	return "", nil
}

// ---------------------------------------------------------------------------------------------
// regression runs of the listed findings: each executes the minimal reproduction with the exclusions
// switched off; a finding that still fails is reported as KNOWN-FINDING (never as a violation) when it
// is listed as open, and as a violation otherwise.

type vfC11Repro struct {
	sig     string
	sc      vfC11Scenario
	fault   func(tr []vs.Op) int // position to fail in the reference trace (0 = no fault)
	action  vs.Action
}

func vfC11FirstOp(t vs.OpType, keyPrefix string) func(tr []vs.Op) int {
	return func(tr []vs.Op) int {
		for _, o := range tr {
			if o.Type == t && strings.HasPrefix(o.Key, keyPrefix) {
				return o.Index
			}
		}
		return -1
	}
}

func TestVerif_C11_Findings(t *testing.T) {
	rec := kit.New("C11", "Findings")
	defer rec.Flush()
	restore := SuspendSequenceBatching()
	defer restore()
	vfC11NoGate = true
	defer func() { vfC11NoGate = false }()
	mk := base.DefaultMetadataKeys
	live := vfC11DocState{V: 1, Chans: []string{"A"}}
	repros := []vfC11Repro{
		{sig: vfC11SigInval, sc: vfC11Scenario{Kind: "create", DefaultColl: true, New: vfC11DocState{V: 1, Chans: []string{"A"}, Grant: "user"}}, fault: vfC11FirstOp(vs.OpSubdocInsert, mk.UserKey("alice")), action: vs.FailBefore},
		{sig: vfC11SigPrincSeq, sc: vfC11Scenario{Kind: "user-update", DefaultColl: true, PUpd: vfC11PrincUpd{Chans: []string{"B"}, Disabled: -1}}, fault: vfC11FirstOp(vs.OpWriteCas, mk.UserKey("alice")), action: vs.FailBefore},
		{sig: vfC11SigRoleSeq, sc: vfC11Scenario{Kind: "role-delete", DefaultColl: true, Purge: true}, fault: vfC11FirstOp(vs.OpDelete, mk.RoleKey("r1")), action: vs.FailBefore},
		{sig: vfC11SigCasSave, sc: vfC11Scenario{Kind: "role-delete", DefaultColl: true, Purge: false}, fault: vfC11FirstOp(vs.OpWriteCas, mk.RoleKey("r1")), action: vs.FailBefore},
		{sig: vfC11SigEmail, sc: vfC11Scenario{Kind: "user-create", DefaultColl: true, PUpd: vfC11PrincUpd{Chans: []string{"A"}, Disabled: -1, Email: "x@example.com"}}, fault: vfC11FirstOp(vs.OpSet, mk.UserEmailKey("")), action: vs.FailBefore},
		{sig: vfC11SigRevBody, sc: vfC11Scenario{Kind: "push", DefaultColl: true, AllowConflicts: true, Pre: []vfC11DocState{{V: 1, Chans: []string{"A"}, Big: true}, {V: 2, Chans: []string{"A"}, Big: true}}, New: vfC11DocState{V: 3, Chans: []string{"A"}, Big: true}, PushParent: 0}, fault: vfC11FirstOp(vs.OpAddRaw, base.RevBodyPrefix), action: vs.FailBefore},
		{sig: vfC11SigExtDel, sc: vfC11Scenario{Kind: "import", DefaultColl: true, Pre: []vfC11DocState{live}, New: vfC11DocState{V: 2, Chans: []string{"A"}}, External: "delete", ImportVia: "put"}, fault: func([]vs.Op) int { return 0 }},
	}
	for _, r := range repros {
		st := &vfC11Stats{classes: map[string]int{}, residue: map[string]int{}, excluded: map[string]int{}, swallowed: map[string]int{}}
		op := vfC11MakeOp(r.sc)
		render := "regression " + r.sig + ": " + r.sc.String()
		baseRun, violation, err := vfC11Execute(t, r.sc, op, nil, nil, st, rec)
		if err != nil {
			kit.InconclusiveLine("C11", "regression %s: %v", r.sig, err)
			rec.Inconclusive()
			continue
		}
		k := r.fault(baseRun.trace)
		if k > 0 && violation == "" {
			_, violation, err = vfC11Execute(t, r.sc, op, map[int]vs.Action{k: r.action}, baseRun.res, st, rec)
			if err != nil {
				kit.InconclusiveLine("C11", "regression %s: %v", r.sig, err)
				rec.Inconclusive()
				continue
			}
			render += fmt.Sprintf(" / op%d:%s", k, r.action)
		} else if k < 0 {
			kit.Note("C11", "regression %s: the reference trace no longer contains the operation to fail (%s)", r.sig, vs.Render(baseRun.trace))
		}
		rec.Case(render, true, "regression="+r.sig)
		switch {
		case violation == "":
			kit.Note("C11", "regression %s: does not reproduce any more", r.sig)
		case kit.Known("C11", r.sig):
			kit.KnownFinding("C11", r.sig, strings.ReplaceAll(violation, "\n", " | "))
		default:
			kit.Violation(t, "C11", "Findings", render, "%s", violation)
		}
	}
}
