package db

// C08 — sequence buffering delivers each change once, in order, and never hides gaps.
// Injected into package db by the /verif driver (build overlay); never part of /repo.
//
// Component under test: the real changeCache (change_cache.go) with its pending heap, received set
// and skipped-sequence skiplist, wired to a recording ChannelCache. The harness is the mutation feed:
// it hands the cache notifications (document, principal, unused single, unused range) in generated
// orders, with duplicates, with generated receive times (fresh / overdue), and fires the
// pending-entries timer (_addPendingLogs under the lock — what InsertPendingEntries does). No clock
// decides anything: "fresh" is a receive time in the far future (never old enough), "overdue" is the
// epoch (always old enough).
//
// Preconditions (DESIGN C08 P): every sequence of the window has exactly one kind and belongs to
// exactly one notification, fixed when the case is generated; a duplicate re-delivers the identical
// notification.

import (
	"container/heap"
	"context"
	"fmt"
	"math"
	"sort"
	"strings"
	"sync"
	"testing"
	"time"

	"github.com/couchbase/sync_gateway/base"
	"github.com/couchbase/sync_gateway/channels"
	kit "github.com/couchbase/sync_gateway/verifkit"
	"pgregory.net/rapid"
)

// ---------------------------------------------------------------------------------------------
// recording ChannelCache

type vfC08Delivery struct {
	sink    byte // 'D' AddToCache, 'P' AddPrincipal, 'U' AddUnusedSequence
	seq     uint64
	end     uint64 // EndSequence (unused ranges), else 0
	skipped bool
	docID   string
	// inSkippedAtDelivery: at the moment the entry reached the channel cache its sequence was still
	// listed as skipped (only probed for late entries)
	inSkippedAtDelivery bool
}

type vfC08Rec struct {
	mu      sync.Mutex
	log     []vfC08Delivery
	init    []uint64
	skipped *SkippedSequenceSkiplist // the cache's skipped list, probed at delivery time
}

var _ ChannelCache = &vfC08Rec{}

func (r *vfC08Rec) add(sink byte, e *LogEntry) {
	d := vfC08Delivery{sink: sink, seq: e.Sequence, end: e.EndSequence, skipped: e.Skipped, docID: e.DocID}
	if e.Skipped && r.skipped != nil {
		d.inSkippedAtDelivery = r.skipped.Contains(e.Sequence)
	}
	r.mu.Lock()
	r.log = append(r.log, d)
	r.mu.Unlock()
}
func (r *vfC08Rec) drain() []vfC08Delivery {
	r.mu.Lock()
	out := r.log
	r.log = nil
	r.mu.Unlock()
	return out
}
func (r *vfC08Rec) Init(initialSequence uint64) {
	r.mu.Lock()
	r.init = append(r.init, initialSequence)
	r.mu.Unlock()
}
func (r *vfC08Rec) AddToCache(ctx context.Context, change *LogEntry) []channels.ID {
	r.add('D', change)
	ids := make([]channels.ID, 0, len(change.Channels))
	for name := range change.Channels {
		ids = append(ids, channels.NewID(name, change.CollectionID))
	}
	return ids
}
func (r *vfC08Rec) AddPrincipal(change *LogEntry)      { r.add('P', change) }
func (r *vfC08Rec) AddUnusedSequence(change *LogEntry) { r.add('U', change) }
func (r *vfC08Rec) Remove(ctx context.Context, collectionID uint32, docIDs []string, startTime time.Time) int {
	return 0
}
func (r *vfC08Rec) GetChanges(ctx context.Context, ch channels.ID, options ChangesOptions) ([]*LogEntry, error) {
	return nil, nil
}
func (r *vfC08Rec) GetCachedChanges(ctx context.Context, ch channels.ID) ([]*LogEntry, error) {
	return nil, nil
}
func (r *vfC08Rec) Clear()                            {}
func (r *vfC08Rec) MaxCacheSize(context.Context) int  { return 0 }
func (r *vfC08Rec) GetHighCacheSequence() uint64      { return 0 }
func (r *vfC08Rec) Stop(context.Context)              {}
func (r *vfC08Rec) getSingleChannelCache(ctx context.Context, ch channels.ID) (SingleChannelCache, error) {
	return nil, fmt.Errorf("recording cache")
}
func (r *vfC08Rec) getBypassChannelCache(ch channels.ID) (SingleChannelCache, error) {
	return nil, fmt.Errorf("recording cache")
}

// ---------------------------------------------------------------------------------------------
// notifications and layouts

type vfC08Note struct {
	kind     byte // 'D' document, 'P' principal, 'U' unused single, 'R' unused range
	from, to uint64
}

func (n vfC08Note) String() string {
	switch n.kind {
	case 'R':
		return fmt.Sprintf("unused[%d-%d]", n.from, n.to)
	case 'U':
		return fmt.Sprintf("unused(%d)", n.from)
	case 'P':
		return fmt.Sprintf("principal(%d)", n.from)
	}
	return fmt.Sprintf("doc(%d)", n.from)
}

const (
	vfC08Fresh   = channels.FeedTimestamp(math.MaxInt64 / 2) // received "in the future": never overdue
	vfC08Overdue = channels.FeedTimestamp(1)                 // received at the epoch: always overdue
)

var vfC08MaxNums = []int{0, 1, 2, DefaultCachePendingSeqMaxNum}

// vfC08Layouts enumerates every partition of the window initial+1..initial+w into notifications
// (singles and ranges of length >= 2). kinds: nil = every kind for every single; otherwise the single
// at window offset i gets kinds[(i+rot)%len] for each rotation rot.
func vfC08Layouts(initial uint64, w int, fullKinds bool) [][]vfC08Note {
	var shapes [][]int // part lengths
	var rec func(rem int, cur []int)
	rec = func(rem int, cur []int) {
		if rem == 0 {
			shapes = append(shapes, append([]int(nil), cur...))
			return
		}
		for l := 1; l <= rem; l++ {
			rec(rem-l, append(cur, l))
		}
	}
	rec(w, nil)
	kinds := []byte{'D', 'P', 'U'}
	var out [][]vfC08Note
	for _, shape := range shapes {
		singles := 0
		for _, l := range shape {
			if l == 1 {
				singles++
			}
		}
		build := func(pick func(single, offset int) byte) []vfC08Note {
			var notes []vfC08Note
			pos, si := initial+1, 0
			for _, l := range shape {
				if l == 1 {
					notes = append(notes, vfC08Note{kind: pick(si, int(pos-initial-1)), from: pos, to: pos})
					si++
				} else {
					notes = append(notes, vfC08Note{kind: 'R', from: pos, to: pos + uint64(l) - 1})
				}
				pos += uint64(l)
			}
			return notes
		}
		if fullKinds {
			total := 1
			for i := 0; i < singles; i++ {
				total *= 3
			}
			for code := 0; code < total; code++ {
				out = append(out, build(func(single, _ int) byte {
					c := code
					for i := 0; i < single; i++ {
						c /= 3
					}
					return kinds[c%3]
				}))
			}
		} else {
			rots := 3
			if singles == 0 {
				rots = 1
			}
			for rot := 0; rot < rots; rot++ {
				out = append(out, build(func(_, offset int) byte { return kinds[(offset+rot)%3] }))
			}
		}
	}
	return out
}

func vfC08LayoutString(notes []vfC08Note) string {
	parts := make([]string, len(notes))
	for i, n := range notes {
		parts[i] = n.String()
	}
	return strings.Join(parts, " ")
}

// ---------------------------------------------------------------------------------------------
// simulation = real changeCache + recorder + reference model

type vfC08Sim struct {
	c       *changeCache
	rec     *vfC08Rec
	ctx     context.Context
	initial uint64
	w       int
	notes   []vfC08Note
	noteOf  []int // window offset (seq-initial-1) -> note index

	// model
	arrived     uint64  // bit per note: the notification reached the cache at least once
	delivered   []uint8 // per window offset: how often the sequence reached the channel cache
	lastNonLate uint64  // highest sequence delivered as a regular (not late) entry
	dups        int     // duplicates that changed the cache state
	prevH       uint64
	prevStable  uint64

	// observations of the last event
	lateArrival   bool // a sequence that had been skipped arrived
	dupOfPending  bool // a duplicate arrived while the first copy was still pending
	stableDropped bool
}

type vfC08Env struct {
	dbc *DatabaseContext
	ctx context.Context
}

func vfC08Options(maxNum int) *CacheOptions {
	o := DefaultCacheOptions()
	o.CachePendingSeqMaxNum = maxNum
	return &o
}

// vfC08NewCache builds a stand-alone changeCache the way DatabaseContext does (Init + Start).
func vfC08NewCache(env *vfC08Env, rec *vfC08Rec, initial uint64, maxNum int) (*changeCache, error) {
	c := &changeCache{}
	if err := c.Init(env.ctx, env.dbc, rec, nil, vfC08Options(maxNum), env.dbc.MetadataKeys); err != nil {
		return nil, err
	}
	rec.skipped = c.skippedSeqs
	if err := c.Start(initial); err != nil {
		return nil, err
	}
	return c, nil
}

func vfC08NewSim(env *vfC08Env, c *changeCache, rec *vfC08Rec, initial uint64, notes []vfC08Note) *vfC08Sim {
	w := int(notes[len(notes)-1].to - initial)
	s := &vfC08Sim{c: c, rec: rec, ctx: env.ctx, initial: initial, w: w, notes: notes, noteOf: make([]int, w), delivered: make([]uint8, w),
		lastNonLate: initial, prevH: initial, prevStable: initial}
	for i, n := range notes {
		for q := n.from; q <= n.to; q++ {
			s.noteOf[q-initial-1] = i
		}
	}
	return s
}

// clone copies the complete cache state into a fresh changeCache without background tasks (the
// exhaustive explorer branches on it). Entries are deep-copied: the cache mutates them.
func (s *vfC08Sim) clone() *vfC08Sim {
	n := *s
	n.delivered = append([]uint8(nil), s.delivered...)
	n.rec = &vfC08Rec{}
	o := s.c
	o.lock.RLock()
	c := &changeCache{
		db: o.db, logCtx: o.logCtx, nextSequence: o.nextSequence, initialSequence: o.initialSequence,
		receivedSeqs: make(map[uint64]struct{}, len(o.receivedSeqs)), skippedSeqs: vfC08GetList(),
		options: o.options, initTime: o.initTime, channelCache: n.rec, lastAddPendingTime: o.lastAddPendingTime,
		internalStats: o.internalStats, sgCfgPrefix: o.sgCfgPrefix, metaKeys: o.metaKeys,
	}
	c.started.Set(true)
	for k := range o.receivedSeqs {
		c.receivedSeqs[k] = struct{}{}
	}
	c.pendingLogs = make(LogPriorityQueue, 0, len(o.pendingLogs)+2)
	for _, e := range o.pendingLogs {
		cp := *e
		c.pendingLogs = append(c.pendingLogs, &cp)
	}
	for e := o.skippedSeqs.list.Front(); e != nil; e = e.Next() {
		_, _ = c.skippedSeqs.list.Set(e.Key())
	}
	c.skippedSeqs.NumCumulativeSkippedSequences = o.skippedSeqs.NumCumulativeSkippedSequences
	o.lock.RUnlock()
	n.rec.skipped = c.skippedSeqs
	n.c = c
	return &n
}

// Creating a skiplist seeds a random source (dominant cost of a copy), so the explorer recycles the
// lists of discarded copies: a list emptied through its own Remove is indistinguishable from a new one.
var vfC08ListPool []*SkippedSequenceSkiplist

func vfC08GetList() *SkippedSequenceSkiplist {
	if l := len(vfC08ListPool); l > 0 {
		sl := vfC08ListPool[l-1]
		vfC08ListPool = vfC08ListPool[:l-1]
		return sl
	}
	return NewSkippedSequenceSkiplist()
}

// recycle retires a copy made by clone (single-threaded explorer only).
func (s *vfC08Sim) recycle() {
	sl := s.c.skippedSeqs
	for el := sl.list.Front(); el != nil; el = sl.list.Front() {
		if _, _, err := sl.list.Remove(el.Key()); err != nil {
			return // do not reuse a list that cannot be emptied
		}
	}
	if sl.list.GetLength() != 0 || sl.list.GetNumSequencesInList() != 0 || sl.list.GetLastElement() != nil {
		return
	}
	sl.NumCumulativeSkippedSequences = 0
	s.c.skippedSeqs = nil
	vfC08ListPool = append(vfC08ListPool, sl)
}

func (s *vfC08Sim) noteArrived(i int) bool { return s.arrived&(1<<uint(i)) != 0 }

func (s *vfC08Sim) pendingHas(seq uint64) bool {
	s.c.lock.RLock()
	defer s.c.lock.RUnlock()
	for _, e := range s.c.pendingLogs {
		if e.Sequence == seq {
			return true
		}
	}
	return false
}

// deliver hands notification i to the cache through the entry point the feed uses for its kind.
func (s *vfC08Sim) deliver(i int, ts channels.FeedTimestamp) {
	n := s.notes[i]
	switch n.kind {
	case 'D':
		s.c.processEntry(s.ctx, &LogEntry{Sequence: n.from, DocID: fmt.Sprintf("doc%d", n.from), RevID: "1-a", TimeReceived: ts,
			Channels: channels.ChannelMap{fmt.Sprintf("ch%d", n.from%2): nil}})
	case 'P':
		s.c.processEntry(s.ctx, &LogEntry{Sequence: n.from, DocID: fmt.Sprintf("_user/u%d", n.from), TimeReceived: ts, IsPrincipal: true})
	case 'U':
		s.c.releaseUnusedSequence(s.ctx, n.from, ts)
	case 'R':
		s.c.releaseUnusedSequenceRange(s.ctx, n.from, n.to, ts)
	}
}

func (s *vfC08Sim) tickNow() {
	s.c.lock.Lock()
	_ = s.c._addPendingLogs(s.ctx)
	s.c.lock.Unlock()
}

// ageAll lets time pass: everything that is pending becomes overdue.
func (s *vfC08Sim) ageAll() {
	s.c.lock.Lock()
	for _, e := range s.c.pendingLogs {
		e.TimeReceived = vfC08Overdue
	}
	s.c.lock.Unlock()
}

func (s *vfC08Sim) high() uint64 { return s.c.getNextSequence() - 1 }

// arrive delivers notification i (first copy or duplicate), then judges the resulting state.
func (s *vfC08Sim) arrive(i int, ts channels.FeedTimestamp) string {
	n := s.notes[i]
	h0 := s.high()
	wasArrived := s.noteArrived(i)
	s.lateArrival = !wasArrived && n.from <= h0
	s.dupOfPending = wasArrived && s.pendingHas(n.from)
	s.deliver(i, ts)
	s.arrived |= 1 << uint(i)
	return s.check(h0, i, wasArrived)
}

func (s *vfC08Sim) tick() string {
	h0 := s.high()
	s.lateArrival, s.dupOfPending = false, false
	s.tickNow()
	return s.check(h0, -1, false)
}

// check is the oracle, evaluated after every event. h0 = high-water mark before the event;
// ev = index of the notification that just arrived (-1 for a timer tick); evWasArrived = it was a duplicate.
func (s *vfC08Sim) check(h0 uint64, ev int, evWasArrived bool) string {
	if bad := s.judgeDeliveries(s.rec.drain(), func(d vfC08Delivery, ni int) bool {
		// late = the sequence had been given up on (skipped) before this event and arrives now
		return ni == ev && !evWasArrived && s.notes[ni].from <= h0
	}); bad != "" {
		return bad
	}
	return s.judgeState(h0)
}

// judgeDeliveries validates what reached the channel cache, in delivery order. wantLate decides for a
// delivery whether the statement requires it to be marked as a late arrival.
func (s *vfC08Sim) judgeDeliveries(ds []vfC08Delivery, wantLateFn func(d vfC08Delivery, ni int) bool) string {
	initial := s.initial
	off := func(seq uint64) int { return int(seq - initial - 1) }
	for _, d := range ds {
		if d.seq <= initial || d.seq > initial+uint64(s.w) {
			return fmt.Sprintf("sequence %d, outside the window, was delivered to the channel cache", d.seq)
		}
		ni := s.noteOf[off(d.seq)]
		n := s.notes[ni]
		if !s.noteArrived(ni) {
			return fmt.Sprintf("sequence %d (%s) was delivered to the channel cache but never arrived", d.seq, n)
		}
		wantSink := map[byte]byte{'D': 'D', 'P': 'P', 'U': 'U', 'R': 'U'}[n.kind]
		if d.sink != wantSink {
			return fmt.Sprintf("%s was delivered through sink %c, want %c", n, d.sink, wantSink)
		}
		lo, hi := d.seq, d.seq
		if n.kind == 'R' {
			if d.end == 0 {
				return fmt.Sprintf("%s was delivered as a single sequence %d", n, d.seq)
			}
			hi = d.end
			if lo != n.from || hi != n.to {
				return fmt.Sprintf("%s was delivered as the range %d-%d", n, lo, hi)
			}
		} else if d.end != 0 {
			return fmt.Sprintf("%s was delivered with an end sequence %d", n, d.end)
		}
		for q := lo; q <= hi; q++ {
			s.delivered[off(q)]++
			if s.delivered[off(q)] > 1 {
				return fmt.Sprintf("sequence %d (%s) was delivered to the channel cache twice", q, n)
			}
		}
		wantLate := wantLateFn(d, ni)
		if d.skipped != wantLate {
			if wantLate {
				return fmt.Sprintf("%s arrived after being skipped but was delivered as a regular entry (Skipped=false)", n)
			}
			return fmt.Sprintf("%s was delivered as a late entry (Skipped=true) although it had not been skipped", n)
		}
		if d.skipped && n.kind != 'U' && !d.inSkippedAtDelivery {
			// the gap must stay visible (stable sequence held back) until the late entry is readable
			return fmt.Sprintf("%s arrived late: its sequence had already left the skipped list when the entry reached the channel cache (a reader in between sees the gap closed but no entry)", n)
		}
		if !d.skipped {
			if lo <= s.lastNonLate {
				return fmt.Sprintf("regular delivery out of order: %s after sequence %d", n, s.lastNonLate)
			}
			s.lastNonLate = hi
		}
	}
	return ""
}

// judgeState checks the buffering invariants on the current state (h0 = earlier high-water mark).
func (s *vfC08Sim) judgeState(h0 uint64) string {
	initial := s.initial
	off := func(seq uint64) int { return int(seq - initial - 1) }
	h := s.high()
	if h < h0 {
		return fmt.Sprintf("next sequence moved backwards: %d after %d", h+1, h0+1)
	}
	maxArrived := initial
	for i, n := range s.notes {
		if s.noteArrived(i) && n.to > maxArrived {
			maxArrived = n.to
		}
	}
	if h > maxArrived {
		return fmt.Sprintf("next sequence %d is beyond everything that arrived (highest arrived %d)", h+1, maxArrived)
	}
	// per sequence: delivered / declared unused / skipped, exactly
	minSkipped := uint64(0)
	for q := initial + 1; q <= initial+uint64(s.w); q++ {
		ni := s.noteOf[off(q)]
		n := s.notes[ni]
		inSkipped := s.c.skippedSeqs.Contains(q)
		cnt := s.delivered[off(q)]
		switch {
		case q > h:
			if cnt != 0 {
				return fmt.Sprintf("sequence %d was delivered although the high-water mark is %d", q, h)
			}
			if inSkipped {
				return fmt.Sprintf("sequence %d is in the skipped list although the high-water mark is %d", q, h)
			}
		case s.noteArrived(ni):
			if inSkipped {
				return fmt.Sprintf("%s arrived but sequence %d is still in the skipped list", n, q)
			}
			if n.kind != 'R' && cnt != 1 {
				return fmt.Sprintf("%s arrived and lies below the high-water mark %d but was never delivered to the channel cache", n, h)
			}
		default:
			if !inSkipped {
				return fmt.Sprintf("gap hidden: sequence %d (%s) has not arrived, lies below the high-water mark %d and is not in the skipped list", q, n, h)
			}
			if cnt != 0 {
				return fmt.Sprintf("sequence %d was delivered but never arrived", q)
			}
			if minSkipped == 0 {
				minSkipped = q
			}
		}
	}
	if initial > 0 && s.c.skippedSeqs.Contains(initial) {
		return fmt.Sprintf("sequence %d (the initial sequence) is in the skipped list", initial)
	}
	if s.c.skippedSeqs.Contains(initial + uint64(s.w) + 1) {
		return fmt.Sprintf("sequence %d, beyond the window, is in the skipped list", initial+uint64(s.w)+1)
	}
	// stable sequence = last contiguous sequence
	wantStable := h
	if minSkipped != 0 {
		wantStable = minSkipped - 1
	}
	s.c.lock.RLock()
	stable := s.c._getMaxStableCached(s.ctx)
	s.c.lock.RUnlock()
	if stable != wantStable {
		return fmt.Sprintf("stable sequence is %d, want %d (high-water mark %d, lowest missing sequence %d)", stable, wantStable, h, minSkipped)
	}
	for q := initial + 1; q <= stable; q++ {
		if !s.noteArrived(s.noteOf[off(q)]) {
			return fmt.Sprintf("stable sequence %d covers sequence %d which has not arrived", stable, q)
		}
	}
	s.stableDropped = stable < s.prevStable
	s.prevH, s.prevStable = h, stable
	return ""
}

// flushProbe: once time has passed for everything that is pending, one timer tick must leave nothing
// pending, and every arrived sequence delivered exactly once.
func (s *vfC08Sim) flushProbe() string {
	s.ageAll()
	if bad := s.tick(); bad != "" {
		return "after the final overdue tick: " + bad
	}
	s.c.lock.RLock()
	np := len(s.c.pendingLogs)
	nr := len(s.c.receivedSeqs)
	s.c.lock.RUnlock()
	if np != 0 {
		return fmt.Sprintf("after the final overdue tick %d entries are still pending", np)
	}
	if nr != 0 {
		return fmt.Sprintf("after the final overdue tick the received set still holds %d sequences", nr)
	}
	maxArrived := s.initial
	for i, n := range s.notes {
		if s.noteArrived(i) && n.to > maxArrived {
			maxArrived = n.to
		}
	}
	if h := s.high(); h != maxArrived {
		return fmt.Sprintf("after the final overdue tick the high-water mark is %d, highest arrived sequence %d", h, maxArrived)
	}
	// per-sequence exactness at h = maxArrived was asserted by check(): every arrived single has count 1
	return ""
}

// ---------------------------------------------------------------------------------------------
// bounded-exhaustive explorer

type vfC08Op struct {
	kind byte // 'A' arrive, 'X' duplicate, 'T' tick, 'G' time passes (everything pending becomes overdue)
	note int
	old  bool // overdue receive time
}

type vfC08Enum struct {
	t       *testing.T
	test    string
	notes   []vfC08Note
	maxNum  int
	maxDups int
	ops     []vfC08Op
	seen    map[string]struct{}
	keyBuf  []byte

	states, transitions, nontrivial, late, dupPending, skippedStates, flushes, stableDrops int64
	sample                                                                             string
}

func (e *vfC08Enum) render() string {
	var sb strings.Builder
	mn := fmt.Sprint(e.maxNum)
	if e.maxNum == DefaultCachePendingSeqMaxNum {
		mn = "default"
	}
	fmt.Fprintf(&sb, "window=[%s] maxPending=%s:", vfC08LayoutString(e.notes), mn)
	for _, o := range e.ops {
		switch o.kind {
		case 'T':
			sb.WriteString(" tick;")
		case 'G':
			sb.WriteString(" time passes (all pending overdue);")
		default:
			name := map[byte]string{'A': "arrive", 'X': "duplicate"}[o.kind]
			age := map[bool]string{true: ",overdue", false: ""}[o.old]
			fmt.Fprintf(&sb, " %s(%s%s);", name, e.notes[o.note], age)
		}
	}
	return sb.String()
}

// key = complete state of cache and model; equal keys have equal futures.
func (e *vfC08Enum) key(s *vfC08Sim) []byte {
	b := e.keyBuf[:0]
	c := s.c
	b = append(b, byte(c.nextSequence), byte(s.arrived), byte(s.arrived>>8), byte(s.lastNonLate), byte(s.dups), 0xf0)
	b = append(b, s.delivered...)
	b = append(b, 0xf1)
	for _, p := range c.pendingLogs {
		fl := byte(0)
		if p.TimeReceived == vfC08Overdue {
			fl = 1
		}
		b = append(b, byte(p.Sequence), byte(p.EndSequence), fl)
	}
	b = append(b, 0xf2)
	var rs []int
	for q := range c.receivedSeqs {
		rs = append(rs, int(q))
	}
	sort.Ints(rs)
	for _, q := range rs {
		b = append(b, byte(q))
	}
	b = append(b, 0xf3)
	for el := c.skippedSeqs.list.Front(); el != nil; el = el.Next() {
		k := el.Key()
		b = append(b, byte(k.Start), byte(k.End))
	}
	e.keyBuf = b
	return b
}

func (e *vfC08Enum) explore(s *vfC08Sim) {
	k := e.key(s)
	if _, ok := e.seen[string(k)]; ok {
		return
	}
	e.seen[string(k)] = struct{}{}
	e.states++
	if s.c.skippedSeqs.list.GetLength() > 0 {
		e.skippedStates++
	}
	parentKey := string(k)

	step := func(o vfC08Op) {
		c := s.clone()
		e.ops = append(e.ops, o)
		var bad string
		kit.Guard(e.t, "C08", e.test, e.render, func() {
			switch o.kind {
			case 'T':
				bad = c.tick()
			case 'G':
				c.lateArrival, c.dupOfPending = false, false
				c.ageAll()
			default:
				ts := vfC08Fresh
				if o.old {
					ts = vfC08Overdue
				}
				bad = c.arrive(o.note, ts)
			}
		})
		if bad != "" {
			kit.Violation(e.t, "C08", e.test, e.render(), "%s", bad)
		}
		e.transitions++
		if c.lateArrival || c.dupOfPending {
			e.nontrivial++
			if c.lateArrival {
				e.late++
			} else {
				e.dupPending++
			}
			if e.sample == "" && len(e.ops) >= 4 {
				e.sample = e.render()
			}
		}
		if c.stableDropped {
			e.stableDrops++
		}
		if o.kind == 'X' {
			// a duplicate that left the cache untouched is not charged against the duplicate budget
			if string(e.key(c)) == parentKey {
				e.ops = e.ops[:len(e.ops)-1]
				c.recycle()
				return
			}
			c.dups++
		}
		e.explore(c)
		e.ops = e.ops[:len(e.ops)-1]
		c.recycle()
	}

	step(vfC08Op{kind: 'T'})
	step(vfC08Op{kind: 'G'})
	for i := range e.notes {
		for _, old := range []bool{false, true} {
			if !s.noteArrived(i) {
				step(vfC08Op{kind: 'A', note: i, old: old})
			} else if s.dups < e.maxDups {
				step(vfC08Op{kind: 'X', note: i, old: old})
			}
		}
	}
	// quiescence probe on a copy: time passes, the timer fires
	f := s.clone()
	e.ops = append(e.ops, vfC08Op{kind: 'T'})
	var bad string
	kit.Guard(e.t, "C08", e.test, func() string { return e.render() + " (all pending overdue)" }, func() { bad = f.flushProbe() })
	if bad != "" {
		kit.Violation(e.t, "C08", e.test, strings.TrimSuffix(e.render(), " tick;")+" time passes (all pending overdue); tick;", "%s", bad)
	}
	e.ops = e.ops[:len(e.ops)-1]
	e.flushes++
	f.recycle()
}

func vfC08OpenEnv(t *testing.T) (*vfC08Env, func()) {
	env, err := vfOpen(t, vfDBConfig{})
	if err != nil {
		fmt.Printf("\nVERIF-INCONCLUSIVE C08 cannot open database: %v\n", err)
		t.Skipf("cannot open database: %v", err)
	}
	return &vfC08Env{dbc: env.DBC, ctx: env.Ctx}, env.Close
}

// TestVerif_C08_Exhaustive explores every state reachable by any order of arrivals (fresh or already
// overdue), duplicates and timer ticks, for every partition of a window of up to W sequences into
// notifications and every CachePendingSeqMaxNum in {0,1,2,default}; the oracle runs after every event
// and a quiescence probe on every state.
func TestVerif_C08_Exhaustive(t *testing.T) {
	rec := kit.New("C08", "Exhaustive")
	defer rec.Flush()
	env, closeEnv := vfC08OpenEnv(t)
	defer closeEnv()
	maxW := kit.Param("w", 5)
	fullKindsUpTo := kit.Param("fullkinds", 4)
	maxDups := kit.Param("dups", 1)
	initial := uint64(kit.Param("initial", 3))
	shard, shards := kit.Shard()
	item := 0
	var transitions, nontrivial int64
	for w := maxW; w >= 1; w-- {
		layouts := vfC08Layouts(initial, w, w <= fullKindsUpTo)
		if shard == 0 {
			rec.Class(fmt.Sprintf("layouts_w=%d", w), int64(len(layouts)))
		}
		for _, notes := range layouts {
			item++
			if item%shards != shard {
				continue
			}
			for _, maxNum := range vfC08MaxNums {
				r := &vfC08Rec{}
				root, err := vfC08NewCache(env, r, initial, maxNum)
				if err != nil {
					kit.InconclusiveLine("C08", "cannot start change cache: %v", err)
					t.Skip()
				}
				if len(r.init) != 1 || r.init[0] != initial {
					kit.Violation(t, "C08", "Exhaustive", fmt.Sprintf("Start(%d)", initial), "channel cache initialised with %v", r.init)
				}
				s0 := vfC08NewSim(env, root, r, initial, notes)
				s := s0.clone() // explore on copies without background tasks
				root.Stop(env.ctx)
				e := &vfC08Enum{t: t, test: "Exhaustive", notes: notes, maxNum: maxNum, maxDups: maxDups, seen: map[string]struct{}{}}
				e.explore(s)
				transitions += e.transitions
				nontrivial += e.nontrivial
				rec.Class(fmt.Sprintf("states_w=%d", w), e.states)
				rec.Class(fmt.Sprintf("transitions_maxPending=%d", maxNum), e.transitions)
				rec.Class("states", e.states)
				rec.Class("states_with_skipped_sequences", e.skippedStates)
				rec.Class("events_late_arrival", e.late)
				rec.Class("events_duplicate_of_pending", e.dupPending)
				rec.Class("quiescence_probes", e.flushes)
				rec.Class("events_lowering_stable_sequence(observed, not asserted)", e.stableDrops)
				hasRange := false
				for _, n := range notes {
					if n.kind == 'R' {
						hasRange = true
					}
				}
				if hasRange {
					rec.Class("transitions_on_windows_with_unused_ranges", e.transitions)
				}
				if e.sample != "" && w >= 3 {
					rec.Sample(e.sample)
				}
			}
		}
	}
	// one evaluation = one event applied to one distinct reachable state, judged by the full oracle
	rec.Bulk(transitions, nontrivial)
	if shards == 1 {
		rec.SetExhaustive()
	}
}

// ---------------------------------------------------------------------------------------------
// rapid: larger windows, random layouts, late arrivals, time passing

func vfC08GenNotes(rt *rapid.T, initial uint64, maxW int) []vfC08Note {
	w := rapid.IntRange(1, maxW).Draw(rt, "window")
	var notes []vfC08Note
	pos := initial + 1
	end := initial + uint64(w)
	for pos <= end {
		rem := int(end - pos + 1)
		k := rapid.SampledFrom([]byte{'D', 'D', 'D', 'P', 'U', 'R'}).Draw(rt, "kind")
		if k == 'R' && rem >= 2 {
			l := rapid.IntRange(2, min(rem, 5)).Draw(rt, "rangeLen")
			notes = append(notes, vfC08Note{kind: 'R', from: pos, to: pos + uint64(l) - 1})
			pos += uint64(l)
			continue
		}
		if k == 'R' {
			k = 'U'
		}
		notes = append(notes, vfC08Note{kind: k, from: pos, to: pos})
		pos++
	}
	return notes
}

func vfC08MaxNumString(n int) string {
	if n == DefaultCachePendingSeqMaxNum {
		return "default"
	}
	return fmt.Sprint(n)
}

// TestVerif_C08_Random: one fresh changeCache (Init + Start) per case; window up to 12 sequences;
// events: arrival (fresh/overdue), duplicate, timer tick, time passing; some notifications arrive
// only after they were skipped, some never.
func TestVerif_C08_Random(t *testing.T) {
	rec := kit.New("C08", "Random")
	defer rec.Flush()
	env, closeEnv := vfC08OpenEnv(t)
	defer closeEnv()
	maxW := kit.Param("w", 12)
	rapid.Check(t, func(rt *rapid.T) {
		initial := rapid.SampledFrom([]uint64{0, 1, 7, 1000}).Draw(rt, "initial")
		notes := vfC08GenNotes(rt, initial, maxW)
		maxNum := rapid.SampledFrom([]int{0, 1, 2, 5, DefaultCachePendingSeqMaxNum}).Draw(rt, "maxPending")
		r := &vfC08Rec{}
		c, err := vfC08NewCache(env, r, initial, maxNum)
		if err != nil {
			rec.Inconclusive()
			kit.InconclusiveLine("C08", "cannot start change cache: %v", err)
			rt.Skip()
		}
		defer c.Stop(env.ctx)
		s := vfC08NewSim(env, c, r, initial, notes)
		ops := []string{fmt.Sprintf("initial=%d window=[%s] maxPending=%s", initial, vfC08LayoutString(notes), vfC08MaxNumString(maxNum))}
		render := func() string { return strings.Join(ops, "; ") }
		late, dupPending, skippedSeen, ranges, ticks := 0, 0, false, 0, 0
		for _, n := range notes {
			if n.kind == 'R' {
				ranges++
			}
		}
		judge := func(bad string) {
			if bad != "" {
				kit.Violation(rt, "C08", "Random", render(), "%s", bad)
			}
			if s.lateArrival {
				late++
			}
			if s.dupOfPending {
				dupPending++
			}
			if s.c.skippedSeqs.list.GetLength() > 0 {
				skippedSeen = true
			}
		}
		pickTS := func(rt *rapid.T) (channels.FeedTimestamp, string) {
			if rapid.IntRange(0, 3).Draw(rt, "overdue") == 0 {
				return vfC08Overdue, ",overdue"
			}
			return vfC08Fresh, ""
		}
		rt.Repeat(map[string]func(*rapid.T){
			"arrive": func(rt *rapid.T) {
				var cands []int
				for i := range notes {
					if !s.noteArrived(i) {
						cands = append(cands, i)
					}
				}
				if len(cands) == 0 {
					rt.Skip()
				}
				// bias towards the feed order with local disorder; any notification may still be picked
				var i int
				if rapid.IntRange(0, 2).Draw(rt, "near") > 0 {
					i = cands[rapid.IntRange(0, min(2, len(cands)-1)).Draw(rt, "nearIdx")]
				} else {
					i = cands[rapid.IntRange(0, len(cands)-1).Draw(rt, "anyIdx")]
				}
				ts, tsName := pickTS(rt)
				ops = append(ops, fmt.Sprintf("arrive(%s%s)", notes[i], tsName))
				var bad string
				kit.Guard(rt, "C08", "Random", render, func() { bad = s.arrive(i, ts) })
				judge(bad)
			},
			"duplicate": func(rt *rapid.T) {
				var cands []int
				for i := range notes {
					if s.noteArrived(i) {
						cands = append(cands, i)
					}
				}
				if len(cands) == 0 || s.dups >= 3 {
					rt.Skip()
				}
				i := cands[rapid.IntRange(0, len(cands)-1).Draw(rt, "idx")]
				ts, tsName := pickTS(rt)
				ops = append(ops, fmt.Sprintf("duplicate(%s%s)", notes[i], tsName))
				s.dups++
				var bad string
				kit.Guard(rt, "C08", "Random", render, func() { bad = s.arrive(i, ts) })
				judge(bad)
			},
			"tick": func(rt *rapid.T) {
				ops = append(ops, "tick")
				ticks++
				var bad string
				kit.Guard(rt, "C08", "Random", render, func() { bad = s.tick() })
				judge(bad)
			},
			"timePasses": func(rt *rapid.T) {
				ops = append(ops, "time passes (all pending overdue)")
				s.ageAll()
			},
		})
		ops = append(ops, "time passes (all pending overdue)", "tick")
		var bad string
		kit.Guard(rt, "C08", "Random", render, func() { bad = s.flushProbe() })
		judge(bad)
		classes := []string{"maxPending=" + vfC08MaxNumString(maxNum)}
		if late > 0 {
			classes = append(classes, "late_arrival")
		}
		if dupPending > 0 {
			classes = append(classes, "duplicate_of_pending")
		}
		if skippedSeen {
			classes = append(classes, "skipped_sequences_seen")
		}
		if ranges > 0 {
			classes = append(classes, "unused_ranges")
		}
		if s.w > 6 {
			classes = append(classes, "window>6")
		}
		rec.Case(render(), late > 0 || dupPending > 0, classes...)
	})
}

// silence unused-import guards when pieces are compiled out
var _ = heap.Init
var _ = base.TestCtx
