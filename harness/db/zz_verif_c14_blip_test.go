package db

// C14, replication clause — a replication client can download an attachment only while it is being
// sent a revision that references it. State machine over the BlipSyncContext's allow-list
// bookkeeping (addAllowedAttachments when a revision is sent, removeAllowedAttachments when the
// client has answered) and the real getAttachment handler, on a real database with documents whose
// revisions share digests. The sending path itself (sendRevisionWithProperties, which needs a live
// BLIP peer) is not driven: the calls it makes around a send are issued directly, with the
// attachment list it would compute (ToAttachmentStorageMeta of the revision's attachments).
// Injected into package db by the /verif driver (build overlay); never part of /repo.

import (
	"bytes"
	"context"
	"errors"
	"fmt"
	"sort"
	"strings"
	"testing"

	"github.com/couchbase/go-blip"
	kit "github.com/couchbase/sync_gateway/verifkit"
	"pgregory.net/rapid"
)

type vfC14Send struct {
	doc     string
	rev     string
	meta    []AttachmentStorageMeta
	digests []string
}

func TestVerif_C14_Allowed(t *testing.T) {
	const test = "Allowed"
	rec := kit.New(vfC14ID, test)
	defer rec.Flush()
	rapid.Check(t, func(rt *rapid.T) {
		var ops []string
		render := func() string { return strings.Join(ops, "; ") }
		fail := func(format string, args ...any) { kit.Violation(rt, vfC14ID, test, render(), format, args...) }
		harness := func(format string, args ...any) {
			rt.Fatalf("HARNESS (not a verdict): %s\ncase: %s", fmt.Sprintf(format, args...), render())
		}

		env, err := vfOpen(t, vfDBConfig{})
		if err != nil {
			harness("open: %v", err)
		}
		defer env.Close()
		ctx := env.Ctx

		// documents: 2-3 ids, 1-3 linear revisions each, attachments a/b from the shared pool
		type revAtts struct {
			rev  string
			atts map[string]int
		}
		docIDs := []string{"d1", "d2", "d3"}[:rapid.IntRange(2, 3).Draw(rt, "ndocs")]
		revs := map[string][]revAtts{}
		for _, id := range docIDs {
			n := rapid.IntRange(1, 3).Draw(rt, id+"-nrevs")
			parent := ""
			for i := 0; i < n; i++ {
				atts := map[string]int{}
				body := Body{"n": i}
				am := map[string]any{}
				for _, name := range vfC14Names {
					if k := rapid.IntRange(0, 5).Draw(rt, fmt.Sprintf("%s-%d-%s", id, i, name)); k < len(vfC14Pool) {
						atts[name] = k
						am[name] = map[string]any{"data": append([]byte{}, vfC14Pool[k]...)}
					}
				}
				if len(am) > 0 {
					body[BodyAttachments] = am
				}
				if parent != "" {
					body[BodyRev] = parent
				}
				rev, _, err := env.Coll.Put(ctx, id, body)
				if err != nil {
					harness("setup Put(%s): %v", id, err)
				}
				parent = rev
				revs[id] = append(revs[id], revAtts{rev: rev, atts: atts})
				var as []string
				for _, name := range vfC14Names {
					if k, ok := atts[name]; ok {
						as = append(as, fmt.Sprintf("%s=pool%d", name, k))
					}
				}
				ops = append(ops, fmt.Sprintf("put(%s #%d %s)", id, i+1, strings.Join(as, " ")))
			}
		}

		proto := rapid.SampledFrom([]CBMobileSubprotocolVersion{CBMobileReplicationV2, CBMobileReplicationV3, CBMobileReplicationV4}).Draw(rt, "subprotocol")
		ops = append(ops, fmt.Sprintf("subprotocol=%d", proto))
		cctx, cancel := context.WithCancelCause(ctx)
		defer cancel(errors.New("case done"))
		bctx, bc, err := NewSGBlipContext(cctx, "", nil, nil)
		if err != nil {
			harness("NewSGBlipContext: %v", err)
		}
		bsc, err := NewBlipSyncContext(bctx, bc, env.DB, nil, cancel)
		if err != nil {
			harness("NewBlipSyncContext: %v", err)
		}
		defer bsc.Close()
		bsc.activeCBMobileSubprotocol = proto
		bh := newBlipHandler(bctx, bsc, env.DB, bsc.incrementSerialNumber())
		bh.collection = env.Coll

		var inflight []vfC14Send
		nontrivial := false
		classes := map[string]bool{}

		// allowed: is some revision being sent that references the digest (per document from V3 on,
		// by digest alone in V2 where the request carries no document id)?
		allowed := func(doc, digest string) bool {
			for _, s := range inflight {
				if proto >= CBMobileReplicationV3 && s.doc != doc {
					continue
				}
				for _, d := range s.digests {
					if d == digest {
						return true
					}
				}
			}
			return false
		}

		get := func(doc, digest string, content []byte, log bool) {
			props := blip.Properties{"Profile": MessageGetAttachment, GetAttachmentDigest: digest}
			if proto >= CBMobileReplicationV3 {
				props[GetAttachmentID] = doc
			}
			rq := blip.NewParsedIncomingMessage(nil, blip.RequestType, props, nil)
			var herr error
			kit.Guard(rt, vfC14ID, test, render, func() { herr = bh.handleGetAttachment(rq) })
			want := allowed(doc, digest)
			if log {
				ops = append(ops, fmt.Sprintf("get(%s %s)=%v", doc, digest, herr == nil))
			}
			if !want {
				classes["get-refused"] = true
				if herr == nil {
					fail("getAttachment(%s, %s) was served although no revision referencing it is being sent (in flight: %v)", doc, digest, vfC14Inflight(inflight))
				}
				return
			}
			classes["get-served"] = true
			if herr != nil {
				fail("getAttachment(%s, %s) refused (%v) while a revision referencing it is being sent (in flight: %v)", doc, digest, herr, vfC14Inflight(inflight))
			}
			body, berr := rq.Response().Body()
			if berr != nil {
				harness("response body: %v", berr)
			}
			if !bytes.Equal(body, content) {
				fail("getAttachment(%s, %s) returned %x, the attachment was written as %x", doc, digest, body, content)
			}
		}

		rt.Repeat(map[string]func(*rapid.T){
			"send": func(rt *rapid.T) {
				doc := rapid.SampledFrom(docIDs).Draw(rt, "doc")
				ra := revs[doc][rapid.IntRange(0, len(revs[doc])-1).Draw(rt, "rev")]
				rev, err := env.Coll.GetRev(ctx, doc, ra.rev, false, nil)
				if err != nil {
					harness("GetRev(%s,%s): %v", doc, ra.rev, err)
				}
				meta := ToAttachmentStorageMeta(rev.Attachments)
				s := vfC14Send{doc: doc, rev: ra.rev, meta: meta}
				for _, name := range vfC14Names {
					if k, ok := ra.atts[name]; ok {
						s.digests = append(s.digests, vfC14Digest(vfC14Pool[k]))
					}
				}
				if len(meta) != len(s.digests) {
					harness("revision %s/%s: %d attachments listed, written with %d", doc, ra.rev, len(meta), len(s.digests))
				}
				// overlapping sends that share a digest are the interesting part
				for _, o := range inflight {
					for _, d := range o.digests {
						for _, e := range s.digests {
							if d == e {
								nontrivial = true
								classes["overlapping-sends-share-digest"] = true
							}
						}
					}
				}
				if len(s.digests) == 2 && s.digests[0] == s.digests[1] {
					classes["two-names-one-digest"] = true
				}
				bsc.addAllowedAttachments(doc, ra.rev, meta, proto)
				inflight = append(inflight, s)
				ops = append(ops, fmt.Sprintf("send(%s %s %v)", doc, ra.rev, s.digests))
			},
			"done": func(rt *rapid.T) {
				if len(inflight) == 0 {
					rt.Skip()
				}
				i := rapid.IntRange(0, len(inflight)-1).Draw(rt, "which")
				s := inflight[i]
				bsc.removeAllowedAttachments(s.doc, s.meta, proto)
				inflight = append(inflight[:i:i], inflight[i+1:]...)
				ops = append(ops, fmt.Sprintf("done(%s %s)", s.doc, s.rev))
			},
			"get": func(rt *rapid.T) {
				doc := rapid.SampledFrom(append(append([]string{}, docIDs...), "nodoc")).Draw(rt, "doc")
				k := rapid.IntRange(0, len(vfC14Pool)-1).Draw(rt, "content")
				get(doc, vfC14Digest(vfC14Pool[k]), vfC14Pool[k], true)
			},
			"": func(rt *rapid.T) {
				// after every step: every (document, pool digest) pair answers as the in-flight set says
				for _, doc := range docIDs {
					for k := range vfC14Pool {
						get(doc, vfC14Digest(vfC14Pool[k]), vfC14Pool[k], false)
					}
				}
			},
		})
		cs := []string{fmt.Sprintf("subprotocol=%d", proto)}
		for k := range classes {
			cs = append(cs, k)
		}
		sort.Strings(cs)
		rec.Case(render(), nontrivial, cs...)
	})
}

func vfC14Inflight(in []vfC14Send) []string {
	var out []string
	for _, s := range in {
		out = append(out, fmt.Sprintf("%s/%s%v", s.doc, s.rev, s.digests))
	}
	return out
}
