package db

// C13 — a pulling client's copy always matches the user's current access.
// Reference model (written from the property statement, no gateway code involved) and the
// protocol-following client. Injected into package db by the /verif driver; never part of /repo.

import (
	"fmt"
	"sort"
	"strings"
)

// ---------------------------------------------------------------------------------------------
// operations (the generated alphabet; also used verbatim by the regression reproductions)

type vfC13Op struct {
	Kind string // put | del | user | role | delrole | pull

	ID    string   // document id (put, del) or principal name (user, role, delrole)
	Chans []string // put: channels of the new revision
	GU    []string // put: access() grantees ("u", "v", "role:r1", …)
	GC    []string // put: access() channels
	RU    []string // put: role() users
	RR    []string // put: role() roles ("role:r1", …)

	SetChans bool     // user/role: replace the admin channels with PChans
	PChans   []string //
	SetRoles bool     // user: replace the admin roles with PRoles
	PRoles   []string //

	Limits []int // pull: page limit per page (the last one repeats); 0 = unlimited
}

func (o vfC13Op) String() string {
	switch o.Kind {
	case "put":
		s := fmt.Sprintf("put %s chans=%s", o.ID, vfJoin(o.Chans))
		if len(o.GU) > 0 && len(o.GC) > 0 {
			s += fmt.Sprintf(" access(%s,%s)", vfJoin(o.GU), vfJoin(o.GC))
		}
		if len(o.RU) > 0 && len(o.RR) > 0 {
			s += fmt.Sprintf(" role(%s,%s)", vfJoin(o.RU), vfJoin(o.RR))
		}
		return s
	case "del":
		return "del " + o.ID
	case "user", "role":
		s := o.Kind + " " + o.ID
		if o.SetChans {
			s += " chans=" + vfJoin(o.PChans)
		}
		if o.SetRoles {
			s += " roles=" + vfJoin(o.PRoles)
		}
		return s
	case "delrole":
		return "delrole " + o.ID
	case "pull":
		return fmt.Sprintf("pull limits=%v", o.Limits)
	case "load":
		return "load"
	}
	return "?" + o.Kind
}

// ---------------------------------------------------------------------------------------------
// model

type vfC13ChanEntry struct {
	Active bool
	Seq    uint64 // sequence at which the document joined (Active) or left (!Active) the channel
	ByDel  bool   // left because the document was deleted
}

// End 0 = still open. Stamp (access periods only): the channel's grant sequence when the period
// ended - the earliest source still present then, which is where the recorded period starts.
type vfC13Span struct{ Start, End, Stamp uint64 }

func vfC13SpansOverlap(a, b vfC13Span) bool {
	start := a.Start
	if b.Start > start {
		start = b.Start
	}
	end := ^uint64(0)
	if a.End != 0 {
		end = a.End
	}
	if b.End != 0 && b.End < end {
		end = b.End
	}
	return start < end
}

type vfC13Doc struct {
	Hist    map[string][]vfC13Span // per channel: the periods the document has been in it
	Rev     string
	Seq     uint64
	Deleted bool
	Chans   map[string]vfC13ChanEntry
	Access  map[string]map[string]uint64 // grantee -> channel -> sequence since which this document grants it
	Roles   map[string]map[string]uint64 // user -> role name -> sequence since which this document grants it
}

type vfC13Princ struct {
	Exists  bool
	Deleted bool   // roles only: deleted (not purged)
	Created uint64 // sequence of the (latest) creation
	Chans   map[string]uint64
	Roles   map[string]uint64 // users only: admin roles
	// roles only: channel -> the latest sequence at which the role (in its current incarnation)
	// conferred the channel; frozen when the role is deleted
	Had map[string]uint64
}

type vfC13Model struct {
	Docs  map[string]*vfC13Doc
	Users map[string]*vfC13Princ
	Roles map[string]*vfC13Princ
	Seq   uint64 // highest sequence observed so far
	// per user and channel: the latest sequence at which the user had NO access to the channel
	Gap map[string]map[string]uint64
	// per user and channel: the periods during which the user had access
	Periods map[string]map[string][]vfC13Span
	// per user and role: the sequence since which the user has been assigned the role without
	// interruption (whatever the sources)
	MemStart map[string]map[string]uint64
	// per user and role: the latest sequence at which the user was assigned the role
	MemLast map[string]map[string]uint64
	// per user and role: the end of the most recent closed assignment period (0 = none)
	MemPrevEnd map[string]map[string]uint64
	// per user: the model sequences at which the user and the roles then assigned were loaded by a
	// request of that user (every load records pending grant-history entries)
	Loads map[string][]uint64
	// per user and channel: the grant sequence (earliest current source) after the previous operation
	CurStamp map[string]map[string]uint64
}

func vfC13NewModel() *vfC13Model {
	return &vfC13Model{Docs: map[string]*vfC13Doc{}, Users: map[string]*vfC13Princ{}, Roles: map[string]*vfC13Princ{}, Gap: map[string]map[string]uint64{}, Periods: map[string]map[string][]vfC13Span{}, MemStart: map[string]map[string]uint64{}, MemLast: map[string]map[string]uint64{},
		MemPrevEnd: map[string]map[string]uint64{}, Loads: map[string][]uint64{}, CurStamp: map[string]map[string]uint64{}}
}

// NoteLoad records that a request of the user loaded the user and the roles assigned right now.
func (m *vfC13Model) NoteLoad(user string) { m.Loads[user] = append(m.Loads[user], m.Seq) }

// LoadedWithin: was the user loaded at a moment from..to (from inclusive, to exclusive; to 0 = open)?
func (m *vfC13Model) LoadedWithin(user string, from, to uint64) bool {
	for _, l := range m.Loads[user] {
		if l >= from && (to == 0 || l < to) {
			return true
		}
	}
	return false
}

func vfC13CopySpans(m map[string][]vfC13Span) map[string][]vfC13Span {
	out := make(map[string][]vfC13Span, len(m))
	for k, v := range m {
		out[k] = append([]vfC13Span{}, v...)
	}
	return out
}

func vfC13CopyU64(m map[string]uint64) map[string]uint64 {
	out := make(map[string]uint64, len(m))
	for k, v := range m {
		out[k] = v
	}
	return out
}

func vfC13Copy2(m map[string]map[string]uint64) map[string]map[string]uint64 {
	out := make(map[string]map[string]uint64, len(m))
	for k, v := range m {
		out[k] = vfC13CopyU64(v)
	}
	return out
}

func (p *vfC13Princ) clone() *vfC13Princ {
	q := *p
	q.Chans = vfC13CopyU64(p.Chans)
	q.Roles = vfC13CopyU64(p.Roles)
	q.Had = vfC13CopyU64(p.Had)
	return &q
}

func (m *vfC13Model) Clone() *vfC13Model {
	c := vfC13NewModel()
	c.Seq = m.Seq
	for id, d := range m.Docs {
		nd := *d
		nd.Chans = make(map[string]vfC13ChanEntry, len(d.Chans))
		for k, v := range d.Chans {
			nd.Chans[k] = v
		}
		nd.Access = vfC13Copy2(d.Access)
		nd.Roles = vfC13Copy2(d.Roles)
		nd.Hist = vfC13CopySpans(d.Hist)
		c.Docs[id] = &nd
	}
	for n, p := range m.Users {
		c.Users[n] = p.clone()
	}
	for n, p := range m.Roles {
		c.Roles[n] = p.clone()
	}
	c.Gap = vfC13Copy2(m.Gap)
	c.MemStart = vfC13Copy2(m.MemStart)
	c.MemLast = vfC13Copy2(m.MemLast)
	c.MemPrevEnd = vfC13Copy2(m.MemPrevEnd)
	c.CurStamp = vfC13Copy2(m.CurStamp)
	for u, l := range m.Loads {
		c.Loads[u] = append([]uint64{}, l...)
	}
	for u, p := range m.Periods {
		c.Periods[u] = vfC13CopySpans(p)
	}
	return c
}

// WouldChange says whether the operation changes anything (a principal update that changes nothing
// allocates no sequence and is answered without a write).
func (m *vfC13Model) WouldChange(o vfC13Op) bool {
	sameSet := func(cur map[string]uint64, want []string) bool {
		if len(cur) != len(vfC13Set(want)) {
			return false
		}
		for _, w := range want {
			if _, ok := cur[w]; !ok {
				return false
			}
		}
		return true
	}
	switch o.Kind {
	case "user":
		u := m.Users[o.ID]
		if u == nil || !u.Exists {
			return true
		}
		if o.SetChans && !sameSet(u.Chans, o.PChans) {
			return true
		}
		if o.SetRoles && !sameSet(u.Roles, o.PRoles) {
			return true
		}
		return false
	case "role":
		r := m.Roles[o.ID]
		if r == nil || !r.Exists || r.Deleted {
			return true
		}
		return o.SetChans && !sameSet(r.Chans, o.PChans)
	case "delrole":
		r := m.Roles[o.ID]
		return r != nil && r.Exists && !r.Deleted
	case "pull", "load":
		return false
	}
	return true
}

func vfC13Set(ss []string) map[string]bool {
	out := map[string]bool{}
	for _, s := range ss {
		out[s] = true
	}
	return out
}

func vfC13Stamp(cur map[string]uint64, want []string, seq uint64) map[string]uint64 {
	out := map[string]uint64{}
	for _, w := range want {
		if s, ok := cur[w]; ok {
			out[w] = s
		} else {
			out[w] = seq
		}
	}
	return out
}

// Apply performs the operation at sequence seq (the sequence the gateway reported for it; for
// look-ahead on a clone any value above everything seen so far). rev is the new revision id of a
// document write.
func (m *vfC13Model) Apply(o vfC13Op, seq uint64, rev string) {
	if seq > m.Seq {
		m.Seq = seq
	}
	switch o.Kind {
	case "put":
		old := m.Docs[o.ID]
		nd := &vfC13Doc{Rev: rev, Seq: seq, Chans: map[string]vfC13ChanEntry{}, Access: map[string]map[string]uint64{}, Roles: map[string]map[string]uint64{}}
		want := vfC13Set(o.Chans)
		nd.Hist = map[string][]vfC13Span{}
		if old != nil {
			nd.Hist = vfC13CopySpans(old.Hist)
			for c, e := range old.Chans {
				if e.Active && !want[c] {
					nd.Chans[c] = vfC13ChanEntry{Active: false, Seq: seq}
					nd.closeHist(c, seq)
				} else {
					nd.Chans[c] = e
				}
			}
		}
		for c := range want {
			if e, ok := nd.Chans[c]; !ok || !e.Active {
				nd.Chans[c] = vfC13ChanEntry{Active: true, Seq: seq}
				nd.Hist[c] = append(nd.Hist[c], vfC13Span{Start: seq})
			}
		}
		if len(o.GU) > 0 && len(o.GC) > 0 {
			for _, g := range o.GU {
				var cur map[string]uint64
				if old != nil {
					cur = old.Access[g]
				}
				nd.Access[g] = vfC13Stamp(cur, o.GC, seq)
			}
		}
		if len(o.RU) > 0 && len(o.RR) > 0 {
			rr := make([]string, 0, len(o.RR))
			for _, r := range o.RR {
				rr = append(rr, strings.TrimPrefix(r, "role:"))
			}
			for _, u := range o.RU {
				var cur map[string]uint64
				if old != nil {
					cur = old.Roles[u]
				}
				nd.Roles[u] = vfC13Stamp(cur, rr, seq)
			}
		}
		m.Docs[o.ID] = nd
	case "del":
		old := m.Docs[o.ID]
		nd := &vfC13Doc{Rev: rev, Seq: seq, Deleted: true, Chans: map[string]vfC13ChanEntry{}, Access: map[string]map[string]uint64{}, Roles: map[string]map[string]uint64{}}
		nd.Hist = map[string][]vfC13Span{}
		if old != nil {
			nd.Hist = vfC13CopySpans(old.Hist)
			for c, e := range old.Chans {
				if e.Active {
					nd.Chans[c] = vfC13ChanEntry{Active: false, Seq: seq, ByDel: true}
					nd.closeHist(c, seq)
				} else {
					nd.Chans[c] = e
				}
			}
		}
		m.Docs[o.ID] = nd
	case "user":
		u := m.Users[o.ID]
		if u == nil {
			u = &vfC13Princ{Chans: map[string]uint64{}, Roles: map[string]uint64{}}
			m.Users[o.ID] = u
		}
		if !u.Exists {
			u.Exists = true
			u.Created = seq
		}
		if o.SetChans {
			u.Chans = vfC13Stamp(u.Chans, o.PChans, seq)
		}
		if o.SetRoles {
			u.Roles = vfC13Stamp(u.Roles, o.PRoles, seq)
		}
	case "role":
		r := m.Roles[o.ID]
		if r == nil || !r.Exists || r.Deleted {
			had := map[string]uint64{}
			if r != nil {
				had = vfC13CopyU64(r.Had) // what earlier incarnations conferred stays relevant to revocation
			}
			r = &vfC13Princ{Exists: true, Created: seq, Chans: map[string]uint64{}, Roles: map[string]uint64{}, Had: had}
			m.Roles[o.ID] = r
		}
		if o.SetChans {
			r.Chans = vfC13Stamp(r.Chans, o.PChans, seq)
		}
	case "delrole":
		r := m.Roles[o.ID]
		if r != nil && r.Exists && !r.Deleted {
			r.Deleted = true
		}
	}
	m.noteGaps()
}

func (d *vfC13Doc) closeHist(c string, seq uint64) {
	h := d.Hist[c]
	if n := len(h); n > 0 && h[n-1].End == 0 {
		h[n-1].End = seq
	}
}

// roleLive: the role exists and is not deleted.
func (m *vfC13Model) roleLive(name string) bool {
	r := m.Roles[name]
	return r != nil && r.Exists && !r.Deleted
}

// roleChans: channels a role confers, with the sequence since which it does (earliest source).
func (m *vfC13Model) roleChans(role string) map[string]uint64 {
	out := map[string]uint64{}
	r := m.Roles[role]
	if r == nil || !r.Exists || r.Deleted {
		return out
	}
	add := func(c string, s uint64) {
		if s < r.Created {
			s = r.Created // a role confers nothing before it exists
		}
		if cur, ok := out[c]; !ok || s < cur {
			out[c] = s
		}
	}
	for c, s := range r.Chans {
		add(c, s)
	}
	for _, id := range vfSortedKeys(m.Docs) {
		d := m.Docs[id]
		if d.Deleted {
			continue
		}
		for c, s := range d.Access["role:"+role] {
			add(c, s)
		}
	}
	return out
}

// userRoles: roles assigned to the user (admin or by a live document), whether or not the role
// exists, with the sequence since which the assignment holds (earliest source).
func (m *vfC13Model) userRoles(user string) map[string]uint64 {
	out := map[string]uint64{}
	u := m.Users[user]
	if u == nil || !u.Exists {
		return out
	}
	add := func(r string, s uint64) {
		if cur, ok := out[r]; !ok || s < cur {
			out[r] = s
		}
	}
	for r, s := range u.Roles {
		add(r, s)
	}
	for _, id := range vfSortedKeys(m.Docs) {
		d := m.Docs[id]
		if d.Deleted {
			continue
		}
		for r, s := range d.Roles[user] {
			add(r, s)
		}
	}
	return out
}

// Effective: the channels the user can read now, with the start of the earliest current source
// (the statement: admin grants ∪ grants by current live revisions ∪ the same for every existing role
// held ∪ the public channel).
func (m *vfC13Model) Effective(user string) map[string]uint64 {
	out := map[string]uint64{"!": 1}
	u := m.Users[user]
	if u == nil || !u.Exists {
		return out
	}
	add := func(c string, s uint64) {
		if cur, ok := out[c]; !ok || s < cur {
			out[c] = s
		}
	}
	for c, s := range u.Chans {
		add(c, s)
	}
	for _, id := range vfSortedKeys(m.Docs) {
		d := m.Docs[id]
		if d.Deleted {
			continue
		}
		for c, s := range d.Access[user] {
			add(c, s)
		}
	}
	for r, since := range m.userRoles(user) {
		if !m.roleLive(r) {
			continue
		}
		for c, s := range m.roleChans(r) {
			if s < since {
				s = since
			}
			add(c, s)
		}
	}
	return out
}

// Sources lists, per channel, the individual grant sources the user currently has (used to
// restrict the monotone family and to fingerprint "access may have changed").
func (m *vfC13Model) Sources(user string) map[string]map[string]bool {
	out := map[string]map[string]bool{}
	add := func(c, src string) {
		if out[c] == nil {
			out[c] = map[string]bool{}
		}
		out[c][src] = true
	}
	u := m.Users[user]
	if u == nil || !u.Exists {
		return out
	}
	for c := range u.Chans {
		add(c, "admin")
	}
	for _, id := range vfSortedKeys(m.Docs) {
		d := m.Docs[id]
		if d.Deleted {
			continue
		}
		for c := range d.Access[user] {
			add(c, "doc:"+id)
		}
	}
	memb := map[string][]string{}
	for r := range u.Roles {
		memb[r] = append(memb[r], "admin")
	}
	for _, id := range vfSortedKeys(m.Docs) {
		d := m.Docs[id]
		if d.Deleted {
			continue
		}
		for r := range d.Roles[user] {
			memb[r] = append(memb[r], "doc:"+id)
		}
	}
	for r, via := range memb {
		if !m.roleLive(r) {
			continue
		}
		role := m.Roles[r]
		for _, v := range via {
			for c := range role.Chans {
				add(c, "role:"+r+"<"+v+">/admin")
			}
			for _, id := range vfSortedKeys(m.Docs) {
				d := m.Docs[id]
				if d.Deleted {
					continue
				}
				for c := range d.Access["role:"+r] {
					add(c, "role:"+r+"<"+v+">/doc:"+id)
				}
			}
		}
	}
	return out
}

func (m *vfC13Model) Fingerprint(user string) string {
	src := m.Sources(user)
	var parts []string
	for _, c := range vfSortedKeys(src) {
		parts = append(parts, c+"="+vfJoin(vfSortedKeys(src[c])))
	}
	// role assignments matter even while the role confers nothing
	parts = append(parts, "roles="+vfJoin(vfSortedKeys(m.userRoles(user))))
	return strings.Join(parts, ";")
}

// MixedSourceChange: going from m to post, does some channel of the user both lose and gain a
// source (a grant-source switch, or loss and re-grant inside one operation)?
func (m *vfC13Model) MixedSourceChange(post *vfC13Model, user string) bool {
	a, b := m.Sources(user), post.Sources(user)
	chans := map[string]bool{}
	for c := range a {
		chans[c] = true
	}
	for c := range b {
		chans[c] = true
	}
	for c := range chans {
		lost, gained := false, false
		for s := range a[c] {
			if !b[c][s] {
				lost = true
			}
		}
		for s := range b[c] {
			if !a[c][s] {
				gained = true
			}
		}
		if lost && gained {
			return true
		}
	}
	return false
}

func (m *vfC13Model) noteGaps() {
	for name, r := range m.Roles {
		if !r.Exists || r.Deleted {
			continue
		}
		if r.Had == nil {
			r.Had = map[string]uint64{}
		}
		for c := range m.roleChans(name) {
			r.Had[c] = m.Seq
		}
	}
	for name, u := range m.Users {
		if !u.Exists {
			continue
		}
		if m.Gap[name] == nil {
			m.Gap[name] = map[string]uint64{}
		}
		if m.Periods[name] == nil {
			m.Periods[name] = map[string][]vfC13Span{}
		}
		if m.MemStart[name] == nil {
			m.MemStart[name] = map[string]uint64{}
		}
		if m.MemLast[name] == nil {
			m.MemLast[name] = map[string]uint64{}
		}
		assigned := m.userRoles(name)
		for r := range assigned {
			if m.MemStart[name][r] == 0 {
				m.MemStart[name][r] = m.Seq
			}
			m.MemLast[name][r] = m.Seq
		}
		if m.MemPrevEnd[name] == nil {
			m.MemPrevEnd[name] = map[string]uint64{}
		}
		for r := range m.MemStart[name] {
			if _, ok := assigned[r]; !ok {
				delete(m.MemStart[name], r)
				m.MemPrevEnd[name][r] = m.Seq
			}
		}
		eff := m.Effective(name)
		for _, c := range vfC13AllChans {
			p := m.Periods[name][c]
			open := len(p) > 0 && p[len(p)-1].End == 0
			if m.CurStamp[name] == nil {
				m.CurStamp[name] = map[string]uint64{}
			}
			if stamp, ok := eff[c]; !ok {
				m.Gap[name][c] = m.Seq
				if open {
					p[len(p)-1].End = m.Seq
					p[len(p)-1].Stamp = m.CurStamp[name][c]
				}
				delete(m.CurStamp[name], c)
			} else {
				if !open {
					m.Periods[name][c] = append(p, vfC13Span{Start: m.Seq})
				}
				m.CurStamp[name][c] = stamp
			}
		}
	}
}

var vfC13AllChans = []string{"A", "B", "C"}

// Visible: can the user see the document's current revision now?
func (m *vfC13Model) Visible(user, id string) bool {
	d := m.Docs[id]
	if d == nil || d.Deleted {
		return false
	}
	eff := m.Effective(user)
	for c, e := range d.Chans {
		if !e.Active {
			continue
		}
		if _, ok := eff[c]; ok {
			return true
		}
	}
	return false
}

func (m *vfC13Model) VisibleSet(user string) map[string]string {
	out := map[string]string{}
	for id, d := range m.Docs {
		if m.Visible(user, id) {
			out[id] = d.Rev
		}
	}
	return out
}

func vfC13RenderHeld(h map[string]string) string {
	ids := make([]string, 0, len(h))
	for id := range h {
		ids = append(ids, id)
	}
	sort.Strings(ids)
	parts := make([]string, 0, len(ids))
	for _, id := range ids {
		r := h[id]
		if i := strings.IndexByte(r, '-'); i > 0 {
			r = r[:i]
		}
		parts = append(parts, id+"@"+r)
	}
	return vfJoin(parts)
}

func (m *vfC13Model) DescribeDoc(id string) string {
	d := m.Docs[id]
	if d == nil {
		return id + ": absent"
	}
	var cs []string
	for _, c := range vfSortedKeys(d.Chans) {
		e := d.Chans[c]
		if e.Active {
			cs = append(cs, fmt.Sprintf("%s(in since %d)", c, e.Seq))
		} else {
			cs = append(cs, fmt.Sprintf("%s(left at %d)", c, e.Seq))
		}
	}
	return fmt.Sprintf("%s: rev %s seq %d deleted=%v channels %s", id, d.Rev, d.Seq, d.Deleted, vfJoin(cs))
}

func (m *vfC13Model) DescribeAccess(user string) string {
	eff := m.Effective(user)
	var cs []string
	for _, c := range vfSortedKeys(eff) {
		cs = append(cs, fmt.Sprintf("%s(since %d)", c, eff[c]))
	}
	src := m.Sources(user)
	var ss []string
	for _, c := range vfSortedKeys(src) {
		ss = append(ss, c+"<-"+vfJoin(vfSortedKeys(src[c])))
	}
	return fmt.Sprintf("model access of %s: %s sources %s", user, vfJoin(cs), vfJoin(ss))
}
