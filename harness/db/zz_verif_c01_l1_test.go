package db

// C01 layer 1 — one channel cache (singleChannelCacheImpl) against a reference model.
// Injected into package db by the /verif driver (build overlay); never part of /repo.
//
// The model owns the "bucket truth" of one channel: for every document the latest entry that was
// written (sequence, revision, flags). Entries reach the cache either immediately (append), late
// (held back, then inserted), or through the query stub, which serves the truth for a sequence
// range exactly as the contract of getChangesInChannelFromQuery says. After every action the
// structural invariants from the header of channel_cache_single.go are checked, and every read is
// checked against may/must bounds.

import (
	"context"
	"fmt"
	"sort"
	"strings"
	"testing"
	"time"

	"github.com/couchbase/sync_gateway/base"
	"github.com/couchbase/sync_gateway/channels"
	kit "github.com/couchbase/sync_gateway/verifkit"
	"pgregory.net/rapid"
)

const vfC01FlagMask = channels.Deleted | channels.Removed

type vfC01Ent struct {
	seq       uint64
	doc, rev  string
	flags     uint8 // Deleted / Removed as the channel's log shows them
	ancient   bool  // generator-owned age: ancient entries are older than any cache age and than the "between" purge time
	delivered bool  // handed to the cache through addToCache
}

func (e *vfC01Ent) active() bool { return e.flags&vfC01FlagMask == 0 }

func (e *vfC01Ent) String() string {
	f := ""
	if e.flags&channels.Deleted != 0 {
		f += "D"
	}
	if e.flags&channels.Removed != 0 {
		f += "R"
	}
	return fmt.Sprintf("%s@%d%s", e.doc, e.seq, f)
}

type vfC01L1 struct {
	ctx     context.Context
	cache   *singleChannelCacheImpl
	docs    []string
	next    uint64               // next sequence the "database" allocates
	hist    map[uint64]*vfC01Ent // every entry ever written (the may set)
	truth   map[string]*vfC01Ent // latest written entry per document still in the bucket
	held    []uint64             // written, not yet delivered
	n1ql    bool                 // flavour of the query stub under active_only
	queries int
	ops     []string

	initialValidFrom uint64
	lastValidFrom    uint64
	prunes           int
	lateDisplace     int
	queryAfterPrune  int
	classes          map[string]int
}

var vfC01AncientTS = channels.FeedTimestamp(1)

func (m *vfC01L1) ts(ancient bool) channels.FeedTimestamp {
	if ancient {
		return vfC01AncientTS
	}
	return channels.NewFeedTimestampFromNow()
}

func (m *vfC01L1) logEntry(e *vfC01Ent, fresh bool) *LogEntry {
	return &LogEntry{Sequence: e.seq, DocID: e.doc, RevID: e.rev, Flags: e.flags, TimeReceived: m.ts(e.ancient && !fresh), CollectionID: 0}
}

// truthRange returns the bucket truth of the channel for start <= seq <= end, ascending.
func (m *vfC01L1) truthRange(start, end uint64) []*vfC01Ent {
	var out []*vfC01Ent
	for _, d := range m.docs {
		if e := m.truth[d]; e != nil && e.seq >= start && e.seq <= end {
			out = append(out, e)
		}
	}
	sort.Slice(out, func(i, j int) bool { return out[i].seq < out[j].seq })
	return out
}

// getChangesInChannelFromQuery is the ChannelQueryHandler stub: the contract of the real function
// over the model's truth. Under active_only it behaves either like the index-backed query (only
// active rows, at most limit) or like the view-backed loop (all rows, fetched in pages of limit
// until limit active rows were seen or the range is exhausted).
func (m *vfC01L1) getChangesInChannelFromQuery(ctx context.Context, channelName string, startSeq, endSeq uint64, limit int, activeOnly bool) (LogEntries, error) {
	m.queries++
	all := m.truthRange(startSeq, endSeq)
	var sel []*vfC01Ent
	switch {
	case !activeOnly:
		sel = all
		if limit > 0 && len(sel) > limit {
			sel = sel[:limit]
		}
	case m.n1ql:
		for _, e := range all {
			if e.active() {
				sel = append(sel, e)
				if limit > 0 && len(sel) >= limit {
					break
				}
			}
		}
	default:
		if limit == 0 {
			sel = all
		} else {
			actives := 0
			for i := 0; i < len(all); {
				j := i + limit
				if j > len(all) {
					j = len(all)
				}
				for _, e := range all[i:j] {
					if e.active() {
						actives++
					}
				}
				sel = append(sel, all[i:j]...)
				i = j
				if actives >= limit {
					break
				}
			}
		}
	}
	if len(sel) == 0 {
		return nil, nil
	}
	out := make(LogEntries, 0, len(sel))
	for _, e := range sel {
		out = append(out, m.logEntry(e, true)) // query rows are stamped "now" by the real function
	}
	return out, nil
}

func (m *vfC01L1) render() string { return strings.Join(m.ops, "; ") }

func (m *vfC01L1) fail(rt *rapid.T, format string, args ...any) {
	kit.Violation(rt, "C01", "L1", m.render(), format+"\ncache: %s", append(args, m.dump())...)
}

func (m *vfC01L1) dump() string {
	var b strings.Builder
	fmt.Fprintf(&b, "validFrom=%d logs=[", m.cache.validFrom)
	for i, l := range m.cache.logs {
		if i > 0 {
			b.WriteString(" ")
		}
		if l == nil {
			b.WriteString("<nil>")
			continue
		}
		fmt.Fprintf(&b, "%s@%d/%s/f%d", l.DocID, l.Sequence, l.RevID, l.Flags&vfC01FlagMask)
	}
	b.WriteString("] ids=" + vfJoin(vfSortedKeys(m.cache.cachedDocIDs)))
	return b.String()
}

func (m *vfC01L1) class(name string) { m.classes[name]++ }

// write allocates the next sequence for a generated change of one document.
func (m *vfC01L1) write(rt *rapid.T) *vfC01Ent {
	doc := rapid.SampledFrom(m.docs).Draw(rt, "doc")
	kind := rapid.SampledFrom([]string{"act", "act", "act", "del", "rem", "remdel"}).Draw(rt, "kind")
	anc := rapid.Bool().Draw(rt, "ancient")
	e := &vfC01Ent{seq: m.next, doc: doc, rev: fmt.Sprintf("r%d", m.next), ancient: anc}
	m.next++
	switch kind {
	case "del":
		e.flags = channels.Deleted
	case "rem":
		e.flags = channels.Removed
	case "remdel":
		e.flags = channels.Removed | channels.Deleted
	}
	m.hist[e.seq] = e
	m.truth[doc] = e
	return e
}

func (m *vfC01L1) deliver(e *vfC01Ent) {
	le := m.logEntry(e, false)
	isRemoval := e.flags&channels.Removed != 0
	le.Flags &^= channels.Removed // addToCache sets the flag on its own copy for removals
	m.cache.addToCache(m.ctx, le, isRemoval)
	e.delivered = true
}

func (m *vfC01L1) cachedSeqOf(doc string) (uint64, bool) {
	for _, l := range m.cache.logs {
		if l != nil && l.DocID == doc {
			return l.Sequence, true
		}
	}
	return 0, false
}

func vfC01AgeTag(anc bool) string {
	if anc {
		return "old"
	}
	return "new"
}

func (m *vfC01L1) actAppend(rt *rapid.T) {
	e := m.write(rt)
	m.ops = append(m.ops, fmt.Sprintf("append(%s,%s)", e, vfC01AgeTag(e.ancient)))
	kit.Guard(rt, "C01", "L1", m.render, func() { m.deliver(e) })
	m.class("append")
}

func (m *vfC01L1) actHold(rt *rapid.T) {
	if len(m.held) >= 3 {
		rt.Skip()
	}
	e := m.write(rt)
	m.held = append(m.held, e.seq)
	m.ops = append(m.ops, fmt.Sprintf("hold(%s,%s)", e, vfC01AgeTag(e.ancient)))
	m.class("hold")
}

func (m *vfC01L1) actLate(rt *rapid.T) {
	if len(m.held) == 0 {
		rt.Skip()
	}
	i := rapid.IntRange(0, len(m.held)-1).Draw(rt, "held")
	seq := m.held[i]
	m.held = append(m.held[:i:i], m.held[i+1:]...)
	e := m.hist[seq]
	m.ops = append(m.ops, fmt.Sprintf("late(%s)", e))
	if other, ok := m.cachedSeqOf(e.doc); ok && other != e.seq && e.seq >= m.cache.validFrom {
		m.lateDisplace++
		m.class("late-displace")
	}
	kit.Guard(rt, "C01", "L1", m.render, func() { m.deliver(e) })
	m.class("late")
}

func (m *vfC01L1) actPruneAge(rt *rapid.T) {
	m.ops = append(m.ops, "pruneAge")
	kit.Guard(rt, "C01", "L1", m.render, func() { m.cache.pruneCacheAge(m.ctx) })
	m.class("prune-age")
}

func (m *vfC01L1) actPurge(rt *rapid.T) {
	n := rapid.IntRange(1, 2).Draw(rt, "n")
	var ids []string
	for i := 0; i < n; i++ {
		ids = append(ids, rapid.SampledFrom(m.docs).Draw(rt, "doc"))
	}
	when := rapid.SampledFrom([]string{"before-all", "between", "after-all"}).Draw(rt, "start")
	var start time.Time
	switch when {
	case "before-all":
		start = time.Unix(0, 0)
	case "between":
		start = time.Unix(1000, 0)
	default:
		start = time.Now().Add(time.Hour)
	}
	m.ops = append(m.ops, fmt.Sprintf("purge(%s,%s)", vfJoin(ids), when))
	// model: the document leaves the bucket when its latest entry is not newer than the purge
	for _, d := range ids {
		if e := m.truth[d]; e != nil && (when == "after-all" || (when == "between" && e.ancient)) {
			m.truth[d] = nil
		}
	}
	kit.Guard(rt, "C01", "L1", m.render, func() { m.cache.Remove(m.ctx, 0, ids, start) })
	m.class("purge")
}

func (m *vfC01L1) actPrepend(rt *rapid.T) {
	from := rapid.Uint64Range(1, m.next).Draw(rt, "from")
	to := rapid.Uint64Range(from, m.next+1).Draw(rt, "to")
	limit := rapid.IntRange(0, 4).Draw(rt, "limit")
	before := m.queries
	res, _ := m.getChangesInChannelFromQuery(m.ctx, "ch", from, to, limit, false)
	m.queries = before
	validTo := to
	if limit != 0 && len(res) >= limit {
		validTo = res[len(res)-1].Sequence
	}
	m.ops = append(m.ops, fmt.Sprintf("prepend(%d..%d,limit=%d,n=%d)", from, validTo, limit, len(res)))
	kit.Guard(rt, "C01", "L1", m.render, func() { m.cache.prependChanges(m.ctx, res, from, validTo) })
	m.class("prepend")
}

func (m *vfC01L1) actRead(rt *rapid.T) {
	vf := m.cache.validFrom
	cands := []uint64{0, 0}
	if vf > 0 {
		cands = append(cands, vf-1)
	}
	if vf > 1 {
		cands = append(cands, vf-2)
	}
	cands = append(cands, vf, vf+1, rapid.Uint64Range(0, m.next).Draw(rt, "anyseq"))
	since := rapid.SampledFrom(cands).Draw(rt, "since")
	limit := rapid.IntRange(0, 4).Draw(rt, "limit")
	ao := rapid.IntRange(0, 3).Draw(rt, "ao") == 0
	op := fmt.Sprintf("read(since=%d,limit=%d,active_only=%v)", since, limit, ao)
	m.ops = append(m.ops, op)
	qBefore := m.queries
	var rows []*LogEntry
	var err error
	kit.Guard(rt, "C01", "L1", m.render, func() {
		rows, err = m.cache.GetChanges(m.ctx, ChangesOptions{Since: SequenceID{Seq: since}, Limit: limit, ActiveOnly: ao, ChangesCtx: m.ctx})
	})
	if err != nil {
		m.fail(rt, "%s returned error %v", op, err)
	}
	var got []string
	for _, r := range rows {
		if r == nil {
			m.fail(rt, "%s returned a nil row", op)
		}
		got = append(got, fmt.Sprintf("%s@%d/f%d", r.DocID, r.Sequence, r.Flags&vfC01FlagMask))
	}
	m.ops[len(m.ops)-1] = op + "->" + vfJoin(got)
	if m.queries > qBefore {
		m.class("read-query")
		if m.prunes > 0 {
			m.queryAfterPrune++
		}
	} else {
		m.class("read-cache")
	}
	// shape: after since, strictly ascending, one row per document, every row was written with these flags
	prev := since
	seen := map[string]bool{}
	bySeq := map[uint64]bool{}
	for _, r := range rows {
		if r.Sequence <= prev {
			m.fail(rt, "%s: row %s@%d is not after the previous position %d (rows must be after since and strictly ascending)", op, r.DocID, r.Sequence, prev)
		}
		prev = r.Sequence
		if seen[r.DocID] {
			m.fail(rt, "%s: document %s returned twice", op, r.DocID)
		}
		seen[r.DocID] = true
		bySeq[r.Sequence] = true
		h := m.hist[r.Sequence]
		if h == nil || h.doc != r.DocID || h.rev != r.RevID || h.flags != r.Flags&vfC01FlagMask {
			m.fail(rt, "%s: row %s@%d rev %s flags %d was never written in this form (written at that sequence: %v)", op, r.DocID, r.Sequence, r.RevID, r.Flags&vfC01FlagMask, h)
		}
	}
	// must: the latest delivered entry of a document that is still the bucket's truth
	complete := limit == 0 || len(rows) < limit
	var last uint64
	if len(rows) > 0 {
		last = rows[len(rows)-1].Sequence
	}
	for _, d := range m.docs {
		e := m.truth[d]
		if e == nil || !e.delivered || e.seq <= since || (ao && !e.active()) {
			continue
		}
		if !complete && e.seq > last {
			continue
		}
		if !bySeq[e.seq] {
			m.fail(rt, "%s: current entry %s of document %s (delivered, still the bucket's truth) is missing from the answer", op, e, d)
		}
	}
}

// invariants promised in the header of channel_cache_single.go
func (m *vfC01L1) invariants(rt *rapid.T) {
	c := m.cache
	if c.validFrom > m.lastValidFrom {
		m.prunes++
		m.class("validfrom-raised")
	}
	m.lastValidFrom = c.validFrom
	ids := map[string]bool{}
	var prev uint64
	for i, l := range c.logs {
		if l == nil {
			m.fail(rt, "nil entry at logs[%d]", i)
		}
		if i > 0 && l.Sequence <= prev {
			m.fail(rt, "logs not strictly ascending at index %d (%d after %d)", i, l.Sequence, prev)
		}
		prev = l.Sequence
		if ids[l.DocID] {
			m.fail(rt, "document %s has more than one entry in the cache", l.DocID)
		}
		ids[l.DocID] = true
	}
	if len(c.logs) > c.options.ChannelCacheMaxLength {
		m.fail(rt, "cache holds %d entries, max length is %d", len(c.logs), c.options.ChannelCacheMaxLength)
	}
	for id := range ids {
		if _, ok := c.cachedDocIDs[id]; !ok {
			m.fail(rt, "document %s is in logs but not in cachedDocIDs", id)
		}
	}
	for _, id := range vfSortedKeys(c.cachedDocIDs) {
		if !ids[id] {
			m.fail(rt, "document %s is in cachedDocIDs but has no entry in logs", id)
		}
	}
	// completeness from the validity point
	for _, d := range m.docs {
		e := m.truth[d]
		if e == nil || !e.delivered || e.seq < c.validFrom {
			continue
		}
		found := false
		for _, l := range c.logs {
			if l.Sequence == e.seq {
				found = l.DocID == e.doc && l.RevID == e.rev && l.Flags&vfC01FlagMask == e.flags
				break
			}
		}
		if !found {
			m.fail(rt, "completeness: delivered current entry %s (rev %s flags %d) is at or after validFrom=%d but not in the cache", e, e.rev, e.flags, c.validFrom)
		}
	}
}

var vfC01L1Stats *base.CacheStats

func vfC01CacheStats(t testing.TB) *base.CacheStats {
	if vfC01L1Stats != nil {
		return vfC01L1Stats
	}
	stats, err := base.NewSyncGatewayStats()
	if err != nil {
		t.Fatalf("NewSyncGatewayStats: %v", err)
	}
	dbstats, err := stats.NewDBStats("vfc01", false, false, false, false, nil, nil)
	if err != nil {
		t.Fatalf("NewDBStats: %v", err)
	}
	vfC01L1Stats = dbstats.Cache()
	return vfC01L1Stats
}

// TestVerif_C01_L1: state machine on one channel cache.
func TestVerif_C01_L1(t *testing.T) {
	rec := kit.New("C01", "L1")
	defer rec.Flush()
	stats := vfC01CacheStats(t)
	ctx := base.TestCtx(t)
	rapid.Check(t, func(rt *rapid.T) {
		m := &vfC01L1{ctx: ctx, docs: []string{"d0", "d1", "d2", "d3", "d4", "d5"}, hist: map[uint64]*vfC01Ent{}, truth: map[string]*vfC01Ent{}, classes: map[string]int{}}
		maxLen := rapid.IntRange(1, 6).Draw(rt, "maxLen")
		minLen := rapid.IntRange(0, maxLen).Draw(rt, "minLen") // 0 = keep the default (50): no age pruning
		pre := rapid.IntRange(0, 4).Draw(rt, "preHistory")
		m.n1ql = rapid.Bool().Draw(rt, "n1qlStub")
		m.next = 1
		// history that existed before this channel's cache was created: only reachable by query
		for i := 0; i < pre; i++ {
			e := m.write(rt)
			e.delivered = true
		}
		m.initialValidFrom = m.next
		m.lastValidFrom = m.next
		opts := ChannelCacheOptions{ChannelCacheMaxLength: maxLen, ChannelCacheMinLength: minLen, ChannelCacheAge: 10000 * time.Hour, MaxNumChannels: 10}
		m.cache = newChannelCacheWithOptions(ctx, m, channels.NewID("ch", 0), m.next, opts, stats)
		m.ops = append(m.ops, fmt.Sprintf("cfg(max=%d,min=%d,validFrom=%d,n1ql=%v,pre=%s)", maxLen, minLen, m.next, m.n1ql, vfC01RenderEnts(m.truthRange(0, m.next))))
		rt.Repeat(map[string]func(*rapid.T){
			"append":   m.actAppend,
			"append2":  m.actAppend,
			"append3":  m.actAppend,
			"hold":     m.actHold,
			"late":     m.actLate,
			"read":     m.actRead,
			"read2":    m.actRead,
			"read3":    m.actRead,
			"pruneAge": m.actPruneAge,
			"purge":    m.actPurge,
			"prepend":  m.actPrepend,
			"":         m.invariants,
		})
		nontrivial := m.queryAfterPrune > 0 || m.lateDisplace > 0
		var cls []string
		if m.queryAfterPrune > 0 {
			cls = append(cls, "case:query-read-after-prune")
		}
		if m.lateDisplace > 0 {
			cls = append(cls, "case:late-insert-displacement")
		}
		rec.Case(m.render(), nontrivial, cls...)
		for _, k := range vfSortedKeys(m.classes) {
			rec.Class("op:"+k, int64(m.classes[k]))
		}
	})
}

func vfC01RenderEnts(es []*vfC01Ent) string {
	var s []string
	for _, e := range es {
		s = append(s, e.String())
	}
	return vfJoin(s)
}
