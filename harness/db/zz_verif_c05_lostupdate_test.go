package db

// C05 — acknowledged writes are never lost; with conflicts disallowed one accepted child per parent.
// Injected into package db by the /verif driver (build overlay); never part of /repo.
//
// Deterministic mode (TestVerif_C05_Interleave): N clients doing read-modify-write on 1-2 shared documents.
// A generated tree of operations is executed; an instrumented write runs, through the fault store's hook
// (i.e. exactly between the read and the compare-and-swap write of updateAndReturnDoc), a generated list of
// COMPLETE operations of other clients, which may themselves be instrumented (nesting depth <= 2), and may
// in addition be answered with an injected CAS mismatch at any retry.
// Multi-node mode (TestVerif_C05_MultiNode): the deterministic mode over 2-3 gateway nodes (DatabaseContexts
// with their own sequence allocators and change caches) on ONE bucket, with real sequence batching; clients are
// assigned to nodes by the generator, window operations may run on another node than the hooked write.
// Concurrent mode (TestVerif_C05_Concurrent): the same clients as free-running goroutines.
// Oracle: a history checker over the acknowledgements (see vfC05World.finalCheck).

import (
	"context"
	"errors"
	"fmt"
	"net/http"
	"runtime"
	"sort"
	"strconv"
	"strings"
	"sync"
	"testing"
	"time"

	sgbucket "github.com/couchbase/sg-bucket"
	"github.com/couchbase/sync_gateway/base"
	kit "github.com/couchbase/sync_gateway/verifkit"
	vs "github.com/couchbase/sync_gateway/verifstore"
	"pgregory.net/rapid"
)

// vfC05SigResurrect: a write that turns a deleted document live again is stored with insert semantics
// (WriteResurrectionWithXattrs carries no CAS); if another client's acknowledged write changed the
// tombstone meanwhile and the document is (again) deleted at that moment, it is overwritten.
const vfC05SigResurrect = "resurrection-write-overwrites-concurrent-tombstone-write"

const vfC05MaxTries = 4 // write attempts of one instrumented operation that can carry a hook / an injected CAS failure

// vfC05Op is one generated client operation.
type vfC05Op struct {
	id     int
	client int
	doc    int
	kind   string // read | put | push | pushnc | del | pushdel | multi-node only: relay | warm | idle
	pick   int    // which leaf a read remembers when the document is in conflict
	win    bool   // pushed revision ids get a digest that sorts high (true) or low (false)
	yield  int    // concurrent mode: scheduler yields before the operation
	window int    // concurrent mode over the fault store: scheduler yields inside the read -> CAS-write window

	// multi-node mode: a push may carry ONE intermediate revision the gateway has not seen (history
	// [new, mid, parent], as a replicator that only relays leaf revisions sends it); relay is the push of
	// exactly that intermediate revision [mid, parent] by another replicator relaying from the same source,
	// generated only inside the window of its target
	extra bool
	relay *vfC05Op

	// clock-ahead dimension (the node's hybrid logical clock runs a few ms ahead of the bucket's clock): every
	// write is followed by a post-commit re-stamp (UpdateXattrs guarded by the CAS of the write itself).
	// restampHook runs immediately before that re-stamp, failRestamp answers it with an injected CAS mismatch;
	// fresh = the client re-reads the document first (a complete read-modify-write)
	restampHook []*vfC05Op
	failRestamp bool
	fresh       bool

	instrumented bool
	hooks        [][]*vfC05Op // hooks[k] runs immediately before the (k+1)-th CAS write of this operation
	failCas      []bool       // failCas[k]: the (k+1)-th CAS write of a given kind is answered with a CAS mismatch
}

func (o *vfC05Op) label() string { return "op" + strconv.Itoa(o.id) }

func (o *vfC05Op) render() string {
	s := fmt.Sprintf("c%d.%s(d%d", o.client, o.kind, o.doc)
	if o.kind == "read" && o.pick > 0 {
		s += fmt.Sprintf(",leaf%d", o.pick)
	}
	if strings.HasPrefix(o.kind, "push") {
		if o.win {
			s += ",hi"
		} else {
			s += ",lo"
		}
		if o.extra {
			s += ",+mid"
		}
	}
	if o.kind == "relay" && o.relay != nil {
		s += fmt.Sprintf(",mid-of#%d", o.relay.id)
	}
	if o.fresh {
		s += ",reread"
	}
	s += ")#" + strconv.Itoa(o.id)
	if o.yield > 0 {
		s += fmt.Sprintf("~%d", o.yield)
	}
	if o.window > 0 {
		s += fmt.Sprintf("~w%d", o.window)
	}
	if o.instrumented && len(o.hooks) > 0 {
		var tries []string
		for k := range o.hooks {
			t := fmt.Sprintf("try%d:", k+1)
			if o.failCas[k] {
				t += "failcas"
			}
			var inner []string
			for _, n := range o.hooks[k] {
				inner = append(inner, n.render())
			}
			t += "{" + strings.Join(inner, "; ") + "}"
			tries = append(tries, t)
		}
		s += "[" + strings.Join(tries, " ") + "]"
	}
	if o.instrumented && (o.failRestamp || len(o.restampHook) > 0) {
		t := "[restamp:"
		if o.failRestamp {
			t += "failcas"
		}
		var inner []string
		for _, n := range o.restampHook {
			inner = append(inner, n.render())
		}
		s += t + "{" + strings.Join(inner, "; ") + "}]"
	}
	return s
}

type vfC05Gen struct {
	clients, docs int
	allow         bool
	next          int
	multi         bool // multi-node mode: extra kinds
	skew          bool // clock-ahead dimension: re-stamp windows are generated
	inRestamp     bool // generating the window of a re-stamp
}

var vfC05Kinds = []string{"read", "read", "put", "put", "put", "put", "push", "pushnc", "del", "pushdel"}

// multi-node mode: more pushes (half of them carrying an intermediate revision), allocator traffic on the
// client's node (warm = a write to a private document, idle = the node's idle release of its reserved batch)
var vfC05KindsMulti = []string{"read", "read", "put", "put", "put", "push", "push", "pushnc", "pushnc", "del", "pushdel", "warm", "warm", "idle"}

func (g *vfC05Gen) ops(rt *rapid.T, depth int, busy []int, n int, focus int, encl *vfC05Op) []*vfC05Op {
	var free []int
	for c := 0; c < g.clients; c++ {
		b := false
		for _, x := range busy {
			if x == c {
				b = true
			}
		}
		if !b {
			free = append(free, c)
		}
	}
	if len(free) == 0 {
		return nil
	}
	var out []*vfC05Op
	for i := 0; i < n; i++ {
		o := &vfC05Op{id: g.next}
		g.next++
		o.client = rapid.SampledFrom(free).Draw(rt, "client")
		o.doc = focus
		if g.docs > 1 && (focus < 0 || rapid.IntRange(0, 4).Draw(rt, "otherdoc") == 0) {
			o.doc = rapid.IntRange(0, g.docs-1).Draw(rt, "doc")
		} else if focus < 0 {
			o.doc = 0
		}
		if g.multi {
			o.kind = rapid.SampledFrom(vfC05KindsMulti).Draw(rt, "kind")
			if encl != nil && encl.extra && o.doc == encl.doc && rapid.IntRange(0, 1).Draw(rt, "relay") == 0 {
				o.kind, o.relay = "relay", encl
			}
			if strings.HasPrefix(o.kind, "push") {
				o.extra = rapid.Bool().Draw(rt, "mid")
			}
		} else {
			o.kind = rapid.SampledFrom(vfC05Kinds).Draw(rt, "kind")
		}
		if o.kind == "read" && g.allow {
			o.pick = rapid.IntRange(0, 2).Draw(rt, "leaf")
		}
		if strings.HasPrefix(o.kind, "push") {
			o.win = rapid.Bool().Draw(rt, "hi")
		}
		if g.skew && g.inRestamp && o.kind != "read" && o.kind != "warm" && o.kind != "idle" {
			o.fresh = rapid.IntRange(0, 2).Draw(rt, "reread") != 0
		}
		if o.kind != "read" && o.kind != "warm" && o.kind != "idle" && depth < 2 && rapid.IntRange(0, 9).Draw(rt, "instrument") < 6 {
			o.instrumented = true
			tries := rapid.IntRange(1, 3).Draw(rt, "tries")
			for k := 0; k < tries; k++ {
				o.failCas = append(o.failCas, rapid.IntRange(0, 3).Draw(rt, "failcas") == 0)
				nn := rapid.IntRange(0, 2).Draw(rt, "nested")
				o.hooks = append(o.hooks, g.ops(rt, depth+1, append(append([]int{}, busy...), o.client), nn, o.doc, o))
			}
			if g.skew {
				o.failRestamp = rapid.Bool().Draw(rt, "failRestamp")
				nn := rapid.IntRange(0, 2).Draw(rt, "restampNested")
				was := g.inRestamp
				g.inRestamp = true
				o.restampHook = g.ops(rt, depth+1, append(append([]int{}, busy...), o.client), nn, o.doc, nil)
				g.inRestamp = was
			}
		}
		out = append(out, o)
	}
	return out
}

// ---------------------------------------------------------------------------------------------
// execution

type vfC05Known struct {
	known bool
	rev   string
}

type vfC05Ack struct {
	op, client, doc int
	kind            string
	named           string // parent revision the writer named ("" = none named)
	mid             string // intermediate revision the push carried between named and rev ("" = none)
	rev             string
	node            int
	seq             uint64
	deleted         bool
	unused          []uint64
	v               int
}

type vfC05Rej struct {
	op, client, doc int
	kind            string
	status          int
	err             string
	rev             string // revision id of a rejected push
	rosmarRace      bool   // rosmar's update loop gave up on a tombstone race the gocb loop retries (see assumptions)
}

// vfC05Node is one gateway node's handle on the shared bucket.
type vfC05Node struct {
	ctx  context.Context
	dbc  *DatabaseContext
	coll *DatabaseCollectionWithUser
}

// window returns the node's reserved-but-not-handed-out sequence window (classification only).
func (n *vfC05Node) window() (last, max uint64) {
	a := n.dbc.sequences
	a.mutex.Lock()
	defer a.mutex.Unlock()
	return a.last, a.max
}

type vfC05Chain struct{ mid, parent string }

type vfC05World struct {
	nodes  []*vfC05Node // nodes[0] is env's database; further nodes share the bucket (multi-node mode)
	nodeOf []int        // client -> node
	env    *vfEnv
	w      *vs.Bucket
	allow  bool
	docs   []string

	mu        sync.Mutex
	know      [][]vfC05Known // [client][doc]; a client only touches its own row
	acks      []vfC05Ack
	rejs      []vfC05Rej
	log       []string
	problems  []string // oracle failures noticed while other code is on the stack; raised by the caller
	attempts  map[string]int
	windowAck map[int]bool // op id -> an acknowledged same-document write landed inside one of its windows
	// clock-ahead dimension
	commitPos             map[int]int // op id -> position its acknowledgement takes in commit order (its write was stored before its re-stamp window opened)
	restampSeen           bool        // a re-stamp write of an instrumented operation was observed
	restampWindow         bool        // operations ran inside a re-stamp window
	restampLost           bool        // an acknowledged same-document write landed inside a re-stamp window: the re-stamp must lose its CAS race
	restampFailInj        bool        // a re-stamp was answered with an injected CAS mismatch
	restampAfterLeftAhead bool        // a same-document write landed in a re-stamp window and its own re-stamp was failed: the stored version stays ahead of its CAS
	// multi-node mode
	inflight  map[int]vfC05Chain // push with an intermediate revision that is executing: op id -> chain
	warmSeqs  map[uint64]string  // sequences acknowledged to warm-up writes of private documents
	warmN     int
	lastSeq   map[int]uint64 // doc -> sequence of the last acknowledged write (classification only)
	crossNode bool           // an acknowledged same-document window write ran on another node than the hooked write
	behind    bool           // ... and the hooked node's next reserved number was not above that write's sequence
	inHand    bool           // ... and the hooked node still held reserved numbers at that moment
	firstPass bool           // a write started on a node whose next reserved number is not above the document's sequence
	relayed   bool           // a relayed intermediate revision was acknowledged inside its target's window
	legal     bool           // a hooked write was acknowledged although a same-document window write was acknowledged
	idled     bool
	behindOp  map[int]bool // op id -> "behind" held in one of its windows
	behindAck bool         // ... and that write was acknowledged (its retry was legal)
	started   time.Time    // multi-node mode: start of the case (slow-case guard of the feed check only)
	// known-finding avoidance (only when vfC05SigResurrect is listed as open)
	avoid      bool
	resWindow  map[int]int  // doc -> number of enclosing CAS windows that end in a resurrection write
	delLock    sync.RWMutex // concurrent mode: deleting writes run alone
	concurrent bool
	excluded   int
	rosmarRace bool
	retried    bool
	depth2     bool
	failcas    bool
	infra      string
}

func (w *vfC05World) logf(format string, args ...any) {
	w.mu.Lock()
	w.log = append(w.log, fmt.Sprintf(format, args...))
	w.mu.Unlock()
}

func (w *vfC05World) history() string {
	w.mu.Lock()
	defer w.mu.Unlock()
	return strings.Join(w.log, "; ")
}

func vfC05NotFound(err error) bool {
	if base.IsDocNotFoundError(err) {
		return true
	}
	status, _ := base.ErrorAsHTTPStatus(err)
	return status == http.StatusNotFound
}

func vfC05Gen1(rev string) int {
	i := strings.IndexByte(rev, '-')
	if i <= 0 {
		return 0
	}
	n, _ := strconv.Atoi(rev[:i])
	return n
}

func vfC05Digest(rev string) string {
	i := strings.IndexByte(rev, '-')
	if i < 0 {
		return rev
	}
	return rev[i+1:]
}

// exec runs one operation to completion on the calling goroutine. ctx carries the fault-store marker
// when the operation is instrumented.
func (w *vfC05World) exec(o *vfC05Op, depth int) {
	nodeIdx := 0
	if o.client < len(w.nodeOf) {
		nodeIdx = w.nodeOf[o.client]
	}
	node := w.nodes[nodeIdx]
	ctx := node.ctx
	if o.instrumented {
		ctx = vs.MarkAs(node.ctx, o.label())
	}
	if depth == 2 {
		w.mu.Lock()
		w.depth2 = true
		w.mu.Unlock()
	}
	switch o.kind {
	case "warm":
		w.warmWrite(nodeIdx)
		return
	case "idle":
		// what the node's idle timer (releaseSequenceMonitor, parked in this mode) does after 1.5 s without a reservation
		node.dbc.sequences.releaseUnusedSequences(node.ctx)
		w.mu.Lock()
		w.idled = true
		w.log = append(w.log, fmt.Sprintf("n%d.idle-release", nodeIdx))
		w.mu.Unlock()
		return
	}
	docID := w.docs[o.doc]
	k := w.know[o.client][o.doc]
	kind := o.kind
	var relayed vfC05Chain
	if kind == "relay" {
		w.mu.Lock()
		ch, ok := w.inflight[o.relay.id]
		w.mu.Unlock()
		if ok {
			relayed = ch
		} else {
			kind = "put" // the target is not a push with an intermediate revision in this execution
		}
	}
	if o.fresh && kind != "read" {
		if doc, err := node.coll.GetDocument(node.ctx, docID, DocUnmarshalAll); err == nil {
			w.know[o.client][o.doc] = vfC05Known{known: true, rev: doc.GetRevTreeID()}
		} else if vfC05NotFound(err) {
			w.know[o.client][o.doc] = vfC05Known{}
		}
		k = w.know[o.client][o.doc]
		w.logf("c%d.reread(d%d)=%q", o.client, o.doc, k.rev)
	}
	if kind != "read" && kind != "put" && kind != "relay" && !k.known {
		kind = "put" // nothing read yet: the only sensible write is a create
	}
	if len(w.nodes) > 1 && kind != "read" {
		last, max := node.window()
		w.mu.Lock()
		if last < max && last+1 <= w.lastSeq[o.doc] {
			w.firstPass = true
		}
		w.mu.Unlock()
	}
	if w.avoid && (kind == "del" || kind == "pushdel") {
		if w.concurrent {
			w.delLock.Lock()
			defer w.delLock.Unlock()
		} else {
			w.mu.Lock()
			inWindow := w.resWindow[o.doc] > 0
			if inWindow {
				w.excluded++
				w.log = append(w.log, fmt.Sprintf("c%d.%s(d%d)#%d=skipped(known finding %s)", o.client, kind, o.doc, o.id, vfC05SigResurrect))
			}
			w.mu.Unlock()
			if inWindow {
				return
			}
		}
	} else if w.avoid && w.concurrent && kind != "read" {
		w.delLock.RLock()
		defer w.delLock.RUnlock()
	}
	switch kind {
	case "read":
		doc, err := node.coll.GetDocument(node.ctx, docID, DocUnmarshalAll)
		if err != nil {
			if vfC05NotFound(err) {
				w.know[o.client][o.doc] = vfC05Known{}
				w.logf("c%d.read(d%d)=missing", o.client, o.doc)
				return
			}
			w.mu.Lock()
			w.infra = fmt.Sprintf("read of %s failed: %v", docID, err)
			w.mu.Unlock()
			return
		}
		rev := doc.GetRevTreeID()
		if o.pick > 0 {
			leaves := doc.History.GetLeaves()
			sort.Strings(leaves)
			if len(leaves) > 1 {
				rev = leaves[o.pick%len(leaves)]
			}
		}
		w.know[o.client][o.doc] = vfC05Known{known: true, rev: rev}
		w.logf("c%d.read(d%d)=%s", o.client, o.doc, rev)
		return
	case "put", "del":
		body := Body{"v": o.id}
		if kind == "del" {
			body = Body{BodyDeleted: true}
		}
		if k.known {
			body[BodyRev] = k.rev
		}
		rev, doc, err := node.coll.Put(ctx, docID, body)
		w.outcome(o, kind, k, "", "", rev, doc, err)
	case "relay":
		// another replicator relays the intermediate revision of the target push with its true ancestry
		hist := []string{relayed.mid, relayed.parent}
		doc, rev, err := node.coll.PutExistingRevWithBody(ctx, docID, Body{"v": o.id}, hist, true, ExistingVersionWithUpdateToHLV)
		if err == nil && doc == nil {
			// "no new revisions to add": legitimate only when the revision was acknowledged to another relay before
			w.mu.Lock()
			seen := false
			for _, a := range w.acks {
				if a.doc == o.doc && (a.rev == relayed.mid || a.mid == relayed.mid) {
					seen = true
				}
			}
			if seen {
				w.log = append(w.log, fmt.Sprintf("c%d@n%d.relay(d%d,%s)#%d=already-known", o.client, nodeIdx, o.doc, relayed.mid, o.id))
			} else {
				w.problems = append(w.problems, fmt.Sprintf("relay #%d of revision %s, which no acknowledged write created, was answered as already known", o.id, relayed.mid))
			}
			w.mu.Unlock()
			return
		}
		if err == nil && rev != relayed.mid {
			w.mu.Lock()
			w.problems = append(w.problems, fmt.Sprintf("relay #%d of %s acknowledged as %s", o.id, relayed.mid, rev))
			w.mu.Unlock()
		}
		w.outcome(o, kind, vfC05Known{known: true, rev: relayed.parent}, relayed.mid, "", rev, doc, err)
	default: // push, pushnc, pushdel
		body := Body{"v": o.id}
		if kind == "pushdel" {
			body = Body{BodyDeleted: true}
		}
		c := "0"
		if o.win {
			c = "f"
		}
		newRev := fmt.Sprintf("%d-%s%031x", vfC05Gen1(k.rev)+1, c, o.id+1)
		// the client names its parent; the rest of the ancestry is not needed to locate the branch point
		hist := []string{newRev, k.rev}
		mid := ""
		if o.extra {
			mid = fmt.Sprintf("%d-8%031x", vfC05Gen1(k.rev)+1, o.id+1)
			newRev = fmt.Sprintf("%d-%s%031x", vfC05Gen1(k.rev)+2, c, o.id+1)
			hist = []string{newRev, mid, k.rev}
			w.mu.Lock()
			w.inflight[o.id] = vfC05Chain{mid: mid, parent: k.rev}
			w.mu.Unlock()
			defer func() {
				w.mu.Lock()
				delete(w.inflight, o.id)
				w.mu.Unlock()
			}()
		}
		doc, rev, err := node.coll.PutExistingRevWithBody(ctx, docID, body, hist, kind == "pushnc", ExistingVersionWithUpdateToHLV)
		if err == nil && doc == nil {
			// "no new revisions to add": cannot happen with unique digests
			w.mu.Lock()
			w.problems = append(w.problems, fmt.Sprintf("push #%d of fresh revision %s was answered as already known", o.id, newRev))
			w.mu.Unlock()
			return
		}
		if err == nil && rev != newRev {
			w.mu.Lock()
			w.problems = append(w.problems, fmt.Sprintf("push #%d of %s acknowledged as %s", o.id, newRev, rev))
			w.mu.Unlock()
		}
		w.outcome(o, kind, k, newRev, mid, rev, doc, err)
	}
}

// warmWrite is a write to a private document through the given node: it moves the node's allocator
// (reserving a batch when the node has none in hand).
func (w *vfC05World) warmWrite(nodeIdx int) {
	node := w.nodes[nodeIdx]
	w.mu.Lock()
	w.warmN++
	id := fmt.Sprintf("warm%d", w.warmN)
	w.mu.Unlock()
	_, doc, err := node.coll.Put(node.ctx, id, Body{"warm": true})
	w.mu.Lock()
	defer w.mu.Unlock()
	if err != nil || doc == nil {
		w.infra = fmt.Sprintf("warm-up write of %s on node %d failed: %v", id, nodeIdx, err)
		return
	}
	if prev, dup := w.warmSeqs[doc.Sequence]; dup {
		w.problems = append(w.problems, fmt.Sprintf("writes of %s and %s were both acknowledged with sequence %d", prev, id, doc.Sequence))
	}
	w.warmSeqs[doc.Sequence] = id
	w.log = append(w.log, fmt.Sprintf("n%d.warm(%s)@%d", nodeIdx, id, doc.Sequence))
}

func (w *vfC05World) outcome(o *vfC05Op, kind string, k vfC05Known, pushedRev, mid, rev string, doc *Document, err error) {
	w.mu.Lock()
	defer w.mu.Unlock()
	nodeIdx := 0
	if o.client < len(w.nodeOf) {
		nodeIdx = w.nodeOf[o.client]
	}
	at := ""
	if len(w.nodes) > 1 {
		at = "@n" + strconv.Itoa(nodeIdx)
	}
	named := ""
	if k.known {
		named = k.rev
	}
	if err != nil {
		status, _ := base.ErrorAsHTTPStatus(err)
		var missing sgbucket.MissingError
		race := errors.As(err, &missing) && strings.Contains(err.Error(), "deleteBody=true when the document is a tombstone")
		if race {
			w.rosmarRace = true
		}
		w.rejs = append(w.rejs, vfC05Rej{op: o.id, client: o.client, doc: o.doc, kind: kind, status: status, err: err.Error(), rev: pushedRev, rosmarRace: race})
		w.log = append(w.log, fmt.Sprintf("c%d%s.%s(d%d,parent=%q)#%d=ERR%d", o.client, at, kind, o.doc, named, o.id, status))
		return
	}
	if doc == nil {
		w.problems = append(w.problems, fmt.Sprintf("write #%d acknowledged without a document", o.id))
		return
	}
	a := vfC05Ack{op: o.id, client: o.client, doc: o.doc, kind: kind, named: named, mid: mid, rev: rev, node: nodeIdx, seq: doc.Sequence,
		deleted: kind == "del" || kind == "pushdel", unused: append([]uint64{}, doc.UnusedSequences...), v: o.id}
	if pos, ok := w.commitPos[o.id]; ok && pos <= len(w.acks) {
		// the write was stored before the operations of its re-stamp window: commit order, not completion order
		w.acks = append(w.acks, vfC05Ack{})
		copy(w.acks[pos+1:], w.acks[pos:])
		w.acks[pos] = a
		if w.lastSeq[o.doc] < doc.Sequence {
			w.lastSeq[o.doc] = doc.Sequence
		}
	} else {
		w.acks = append(w.acks, a)
		w.lastSeq[o.doc] = doc.Sequence
	}
	w.know[o.client][o.doc] = vfC05Known{known: true, rev: rev}
	if w.windowAck[o.id] {
		w.legal = true
	}
	if w.behindOp[o.id] {
		w.behindAck = true
	}
	via := ""
	if mid != "" {
		via = ",via=" + mid
	}
	w.log = append(w.log, fmt.Sprintf("c%d%s.%s(d%d,parent=%q%s)#%d=%s@%d", o.client, at, kind, o.doc, named, via, o.id, rev, doc.Sequence))
}

// plan builds the fault-store rules for every instrumented operation in the tree below o.
func (w *vfC05World) plan(o *vfC05Op, depth int, rules *[]vs.Rule) {
	if !o.instrumented {
		return
	}
	op := o
	hookFor := func(typ vs.OpType) func() {
		return func() { w.runHook(op, depth, typ) }
	}
	for _, typ := range []vs.OpType{vs.OpWriteWithXattrs, vs.OpWriteTombstoneWithXattrs, vs.OpWriteResurrectionWithXattrs} {
		for n := 1; n <= vfC05MaxTries; n++ {
			f := vs.Fault{Hook: hookFor(typ)}
			if n <= len(o.failCas) && o.failCas[n-1] {
				f.Action = vs.FailCas
			}
			*rules = append(*rules, vs.Rule{Type: typ, Key: w.docs[o.doc], Label: o.label(), Nth: n, Fault: f})
		}
	}
	for n := 1; n <= vfC05MaxTries; n++ {
		// failRestamp fails the re-stamp at EVERY attempt the code under test makes (the unchanged tree makes one)
		f := vs.Fault{Hook: hookFor(vs.OpUpdateXattrs)}
		if o.failRestamp {
			f.Action = vs.FailCas
		}
		*rules = append(*rules, vs.Rule{Type: vs.OpUpdateXattrs, Key: w.docs[o.doc], Label: o.label(), Nth: n, Fault: f})
	}
	for _, hs := range o.hooks {
		for _, n := range hs {
			w.plan(n, depth+1, rules)
		}
	}
	for _, n := range o.restampHook {
		w.plan(n, depth+1, rules)
	}
}

// runHook is what happens inside op's read -> CAS-write window, immediately before its k-th CAS write
// (of primitive type typ): the generated complete operations of other clients.
func (w *vfC05World) runHook(op *vfC05Op, depth int, typ vs.OpType) {
	if typ == vs.OpUpdateXattrs {
		w.runRestampHook(op, depth)
		return
	}
	w.mu.Lock()
	k := w.attempts[op.label()]
	w.attempts[op.label()] = k + 1
	w.mu.Unlock()
	if k >= len(op.hooks) {
		return
	}
	guard := w.avoid && typ == vs.OpWriteResurrectionWithXattrs
	w.mu.Lock()
	before := len(w.acks)
	if guard {
		w.resWindow[op.doc]++
	}
	w.mu.Unlock()
	for _, n := range op.hooks[k] {
		w.exec(n, depth+1)
	}
	w.mu.Lock()
	if guard {
		w.resWindow[op.doc]--
	}
	hookedNode := 0
	if op.client < len(w.nodeOf) {
		hookedNode = w.nodeOf[op.client]
	}
	var last, max uint64
	if len(w.nodes) > 1 {
		w.mu.Unlock()
		last, max = w.nodes[hookedNode].window()
		w.mu.Lock()
	}
	for _, a := range w.acks[before:] {
		if a.doc == op.doc {
			w.retried = true // a complete write of another client landed inside the window: the CAS write must fail
			w.windowAck[op.id] = true
			if a.kind == "relay" {
				w.relayed = true
			}
			if a.node != hookedNode {
				w.crossNode = true
				// the retry abandons the sequence of the first pass and takes the node's next number
				if last < max {
					w.inHand = true
					if last+1 <= a.seq {
						w.behind = true
						w.behindOp[op.id] = true
					}
				}
			}
		}
	}
	w.mu.Unlock()
}

// runRestampHook is what happens between op's stored write and its post-commit re-stamp (clock-ahead
// dimension): complete operations of other clients. op's write is already committed, so its acknowledgement
// takes the commit position BEFORE everything acknowledged in here. A same-document write in here makes the
// re-stamp lose its CAS race (legal); nothing in the history may change either way.
func (w *vfC05World) runRestampHook(op *vfC05Op, depth int) {
	w.mu.Lock()
	w.restampSeen = true
	if _, set := w.commitPos[op.id]; set {
		w.mu.Unlock()
		return // a second re-stamp of one operation: nothing generated for it
	}
	before := len(w.acks)
	w.commitPos[op.id] = before
	w.mu.Unlock()
	for _, n := range op.restampHook {
		w.exec(n, depth+1)
	}
	w.mu.Lock()
	if len(op.restampHook) > 0 {
		w.restampWindow = true
	}
	for _, a := range w.acks[before:] {
		if a.doc == op.doc {
			w.restampLost = true
			for _, n := range op.restampHook {
				if n.id == a.op && n.instrumented && n.failRestamp {
					w.restampAfterLeftAhead = true
				}
			}
		}
	}
	w.mu.Unlock()
}

// ---------------------------------------------------------------------------------------------
// oracle

type vfC05Rev struct {
	parent  string
	deleted bool
	seq     uint64
	v       int
	op      int  // the acknowledged write that created the revision
	carried bool // intermediate revision created by the push that carried it (no body of its own)
}

// vfC05ModelWinner: the leaf maximising (not deleted, generation, digest).
func vfC05ModelWinner(revs map[string]*vfC05Rev) string {
	hasChild := map[string]bool{}
	for _, r := range revs {
		hasChild[r.parent] = true
	}
	best := ""
	for _, id := range vfSortedKeys(revs) {
		if hasChild[id] {
			continue
		}
		if best == "" {
			best = id
			continue
		}
		a, b := revs[id], revs[best]
		switch {
		case a.deleted != b.deleted:
			if !a.deleted {
				best = id
			}
		case vfC05Gen1(id) != vfC05Gen1(best):
			if vfC05Gen1(id) > vfC05Gen1(best) {
				best = id
			}
		case vfC05Digest(id) > vfC05Digest(best):
			best = id
		}
	}
	return best
}

// finalCheck is the history checker. ordered says the acknowledgement list is in commit order
// (deterministic mode); it returns the first failure, or an InconclusiveErr.
func (w *vfC05World) finalCheck(ordered bool) error {
	if w.infra != "" {
		return kit.InconclusiveErr{Msg: w.infra}
	}
	if len(w.problems) > 0 {
		return fmt.Errorf("%s", w.problems[0])
	}
	// every acknowledged write has its own sequence
	seqOwner := map[uint64]int{}
	for _, a := range w.acks {
		if a.seq == 0 {
			return fmt.Errorf("write #%d (%s) acknowledged with sequence 0", a.op, a.rev)
		}
		if prev, dup := seqOwner[a.seq]; dup {
			return fmt.Errorf("writes #%d and #%d were both acknowledged with sequence %d", prev, a.op, a.seq)
		}
		seqOwner[a.seq] = a.op
	}
	for _, seq := range vfC05SortedSeqs(w.warmSeqs) {
		if op, dup := seqOwner[seq]; dup {
			return fmt.Errorf("write #%d and the write of %s were both acknowledged with sequence %d", op, w.warmSeqs[seq], seq)
		}
	}
	for d, docID := range w.docs {
		revs := map[string]*vfC05Rev{}
		var last uint64
		nAcks := 0
		for _, a := range w.acks {
			if a.doc != d {
				continue
			}
			nAcks++
			if prev, dup := revs[a.rev]; dup {
				return fmt.Errorf("%s: revision %s acknowledged twice (sequences %d and %d)", docID, a.rev, prev.seq, a.seq)
			}
			parent := a.named
			if a.mid != "" {
				// the push carried an intermediate revision: it creates it unless an earlier acknowledged
				// write (a relay inside its window) already did
				if _, have := revs[a.mid]; !have {
					revs[a.mid] = &vfC05Rev{parent: a.named, seq: a.seq, op: a.op, carried: true}
				}
				parent = a.mid
			}
			revs[a.rev] = &vfC05Rev{parent: parent, deleted: a.deleted, seq: a.seq, v: a.v, op: a.op}
			if a.seq > last {
				last = a.seq
			}
		}
		doc, err := w.env.Coll.GetDocument(w.env.Ctx, docID, DocUnmarshalAll)
		if err != nil {
			if nAcks == 0 && (vfC05NotFound(err)) {
				continue
			}
			return fmt.Errorf("%s: %d acknowledged writes but the document cannot be read: %v", docID, nAcks, err)
		}
		if nAcks == 0 {
			return fmt.Errorf("%s: no acknowledged write, but the document exists with revision %s", docID, doc.GetRevTreeID())
		}
		// every acknowledged revision is in the history with the parent its writer named
		for _, a := range w.acks {
			if a.doc != d {
				continue
			}
			info, ok := doc.History[a.rev]
			if !ok {
				return fmt.Errorf("%s: acknowledged write #%d (%s, sequence %d) is missing from the final revision history %v", docID, a.op, a.rev, a.seq, vfC05TreeString(doc.History))
			}
			if a.mid != "" {
				minfo, ok := doc.History[a.mid]
				if !ok {
					return fmt.Errorf("%s: intermediate revision %s of acknowledged push #%d is missing from the final revision history %v", docID, a.mid, a.op, vfC05TreeString(doc.History))
				}
				if info.Parent != a.mid || minfo.Parent != a.named || minfo.Deleted {
					return fmt.Errorf("%s: acknowledged push #%d named the ancestry %s <- %s <- %s but is stored as %s <- %q, %s <- %q (deleted=%v)", docID, a.op, a.named, a.mid, a.rev, a.rev, info.Parent, a.mid, minfo.Parent, minfo.Deleted)
				}
			} else if a.named != "" {
				if info.Parent != a.named {
					return fmt.Errorf("%s: acknowledged write #%d (%s) named parent %s but is stored under parent %q", docID, a.op, a.rev, a.named, info.Parent)
				}
			} else if info.Parent != "" {
				// no parent named (create): allowed on top of a deleted revision only
				p, ok := revs[info.Parent]
				if !ok || !p.deleted {
					return fmt.Errorf("%s: create #%d (%s) without a parent is stored under parent %q which is not an acknowledged deletion", docID, a.op, a.rev, info.Parent)
				}
				revs[a.rev].parent = info.Parent
			}
			if info.Deleted != a.deleted {
				return fmt.Errorf("%s: acknowledged write #%d (%s) deleted=%v but stored deleted=%v", docID, a.op, a.rev, a.deleted, info.Deleted)
			}
			// own sequence greater than that of the write it superseded
			pid := revs[a.rev].parent
			if p, ok := revs[pid]; ok && p.op == a.op {
				pid = p.parent // the intermediate revision was created by this very write
			}
			if p, ok := revs[pid]; ok && a.seq <= p.seq {
				return fmt.Errorf("%s: write #%d (%s) has sequence %d, not greater than sequence %d of its parent %s (write #%d)", docID, a.op, a.rev, a.seq, p.seq, pid, p.op)
			}
		}
		// in commit order every acknowledged write's sequence exceeds that of the write it superseded
		if ordered {
			var prev uint64
			for _, a := range w.acks {
				if a.doc != d {
					continue
				}
				if a.seq <= prev {
					return fmt.Errorf("%s: write #%d (%s) was acknowledged with sequence %d, not greater than the sequence %d of the write it superseded", docID, a.op, a.rev, a.seq, prev)
				}
				prev = a.seq
			}
		}
		// rejected writers leave no trace: the history holds the acknowledged revisions and nothing else
		for _, id := range vfSortedKeys(doc.History) {
			if _, ok := revs[id]; !ok {
				return fmt.Errorf("%s: final history holds revision %s which no acknowledged write created; history %v", docID, id, vfC05TreeString(doc.History))
			}
		}
		for _, r := range w.rejs {
			if _, created := revs[r.rev]; created {
				continue // a relayed intermediate revision that an acknowledged write created
			}
			if r.doc == d && r.rev != "" && doc.History.contains(r.rev) {
				return fmt.Errorf("%s: rejected push #%d left its revision %s in the history", docID, r.op, r.rev)
			}
		}
		// conflict-free mode: one accepted child per parent, i.e. a single chain of length #acks
		if !w.allow {
			child := map[string]string{}
			for _, id := range vfSortedKeys(revs) {
				p := revs[id].parent
				if other, dup := child[p]; dup {
					return fmt.Errorf("%s: conflicts are disallowed but parent %q has two acknowledged children %s and %s", docID, p, other, id)
				}
				child[p] = id
			}
			n, cur := 0, ""
			for {
				nx, ok := child[cur]
				if !ok {
					break
				}
				n++
				cur = nx
			}
			// one revision per acknowledged write, plus the intermediate revisions that pushes carried themselves
			carried := 0
			for _, r := range revs {
				if r.carried {
					carried++
				}
			}
			if n != nAcks+carried {
				return fmt.Errorf("%s: conflicts are disallowed but the acknowledged revisions do not form one chain (chain from the root has %d of %d acknowledged writes + %d carried intermediate revisions)", docID, n, nAcks, carried)
			}
			for _, r := range w.rejs {
				if r.doc == d && r.status != http.StatusConflict && !r.rosmarRace {
					return fmt.Errorf("%s: unacknowledged write #%d was answered %d (%s), not a conflict error", docID, r.op, r.status, r.err)
				}
			}
		}
		// winner, sequence, unused sequences
		want := vfC05ModelWinner(revs)
		if doc.GetRevTreeID() != want {
			return fmt.Errorf("%s: current revision is %s, the acknowledged history makes %s the winner; history %v", docID, doc.GetRevTreeID(), want, vfC05TreeString(doc.History))
		}
		if doc.Sequence != last {
			return fmt.Errorf("%s: document sequence is %d, the last acknowledged write got %d", docID, doc.Sequence, last)
		}
		unused := append([]uint64{}, doc.UnusedSequences...)
		for _, a := range w.acks {
			if a.doc == d {
				unused = append(unused, a.unused...)
			}
		}
		for _, u := range unused {
			if op, clash := seqOwner[u]; clash {
				return fmt.Errorf("%s: sequence %d is recorded as unused on the document but was acknowledged to write #%d", docID, u, op)
			}
		}
		if !revs[want].deleted {
			body, err := w.env.Coll.Get1xBody(w.env.Ctx, docID)
			if err != nil {
				return fmt.Errorf("%s: current revision %s cannot be read: %v", docID, want, err)
			}
			if fmt.Sprint(body["v"]) != strconv.Itoa(revs[want].v) {
				return fmt.Errorf("%s: current revision %s carries v=%v, its writer #%d wrote v=%d", docID, want, body["v"], revs[want].v, revs[want].v)
			}
		}
	}
	// after quiescence the changes feed of EVERY node announces each document's final revision at its final sequence
	if len(w.nodes) > 1 {
		// a node's reserved numbers stay out until here; a cache that has waited for them longer than
		// CachePendingSeqMaxWait (5 s) gives up on them and handles later arrivals on another path. A
		// case that was stalled that long (machine load) is not decided on the feed.
		if !w.started.IsZero() && time.Since(w.started) > 3*time.Second {
			return kit.InconclusiveErr{Msg: "the case was stalled for more than 3 s before quiescence (pending-sequence wait of the change caches)"}
		}
		// with real batching each node holds reserved numbers; give them back now, as each node's idle
		// timer (releaseSequenceMonitor, parked in this mode) would after 1.5 s without a reservation
		for _, n := range w.nodes {
			n.dbc.sequences.releaseUnusedSequences(n.ctx)
		}
		// a node's own last allocation says nothing about the other nodes: the bucket's counter is the
		// high-water mark of everything handed out
		counter, err := w.env.DBC.sequences.getSequence(w.env.Ctx)
		if err != nil {
			return kit.InconclusiveErr{Msg: "reading the sequence counter: " + err.Error()}
		}
		for i, n := range w.nodes {
			if err := vfC05WaitSeq(n.dbc, counter); err != nil {
				return kit.InconclusiveErr{Msg: fmt.Sprintf("node %d: %v", i, err)}
			}
		}
	} else if err := w.env.WaitCache(); err != nil {
		return err
	}
	for i, n := range w.nodes {
		if err := w.feedCheck(i, n); err != nil {
			return err
		}
	}
	return nil
}

// vfC05WaitSeq: bounded wait for a node's change cache; expiry is INCONCLUSIVE.
func vfC05WaitSeq(dbc *DatabaseContext, seq uint64) error {
	deadline := time.Now().Add(vfWaitBound)
	for {
		if dbc.changeCache.getNextSequence() >= seq+1 {
			return nil
		}
		if time.Now().After(deadline) {
			return kit.InconclusiveErr{Msg: fmt.Sprintf("change cache did not reach sequence %d within %v (next=%d)", seq, vfWaitBound, dbc.changeCache.getNextSequence())}
		}
		time.Sleep(time.Millisecond)
	}
}

// feedCheck: one node's since-0 changes feed against the stored documents.
func (w *vfC05World) feedCheck(idx int, n *vfC05Node) error {
	at := ""
	if len(w.nodes) > 1 {
		at = fmt.Sprintf(" (changes feed of node %d)", idx)
	}
	rows, err := vfChanges(n.ctx, n.coll, nil, ChangesOptions{})
	if err != nil {
		if vfIsInconclusive(err) {
			return err
		}
		return fmt.Errorf("changes feed failed%s: %v", at, err)
	}
	for _, docID := range w.docs {
		var mine []*ChangeEntry
		for _, r := range rows {
			if r.ID == docID {
				mine = append(mine, r)
			}
		}
		doc, err := w.env.Coll.GetDocument(w.env.Ctx, docID, DocUnmarshalAll)
		if err != nil {
			if len(mine) != 0 {
				return fmt.Errorf("%s: never acknowledged, but announced on the changes feed%s", docID, at)
			}
			continue
		}
		if len(mine) != 1 {
			var all []string
			for _, r := range rows {
				all = append(all, fmt.Sprintf("%s@%s", r.ID, r.Seq.String()))
			}
			return fmt.Errorf("%s: since-0 changes feed has %d rows for the document, want 1 (all rows: %v)%s", docID, len(mine), all, at)
		}
		row := mine[0]
		if row.Seq.Seq != doc.Sequence {
			return fmt.Errorf("%s: changes feed announces the document at sequence %d, its final sequence is %d%s", docID, row.Seq.Seq, doc.Sequence, at)
		}
		if len(row.Changes) != 1 || row.Changes[0]["rev"] != doc.GetRevTreeID() {
			return fmt.Errorf("%s: changes feed announces %v, the final revision is %s%s", docID, row.Changes, doc.GetRevTreeID(), at)
		}
		if row.Deleted != doc.History[doc.GetRevTreeID()].Deleted {
			return fmt.Errorf("%s: changes feed deleted=%v, final revision deleted=%v%s", docID, row.Deleted, doc.History[doc.GetRevTreeID()].Deleted, at)
		}
	}
	return nil
}

func vfC05SortedSeqs(m map[uint64]string) []uint64 {
	out := make([]uint64, 0, len(m))
	for k := range m {
		out = append(out, k)
	}
	sort.Slice(out, func(i, j int) bool { return out[i] < out[j] })
	return out
}

func vfC05TreeString(t RevTree) string {
	var parts []string
	for _, id := range vfSortedKeys(t) {
		s := id + "<-" + t[id].Parent
		if t[id].Deleted {
			s += "(del)"
		}
		parts = append(parts, s)
	}
	return "[" + strings.Join(parts, " ") + "]"
}

func vfC05Open(t *testing.T, allow bool, wrap bool) (*vfEnv, *vs.Bucket, error) {
	var w *vs.Bucket
	cfg := vfDBConfig{Mutate: func(o *DatabaseContextOptions) { o.AllowConflicts = base.Ptr(allow) }}
	if wrap {
		cfg.WrapBucket = func(b base.Bucket) base.Bucket {
			w = vs.Wrap(b)
			w.SetTraceUnmarked(false)
			return w
		}
	}
	env, err := vfOpen(t, cfg)
	return env, w, err
}

// vfC05OpenSecondNode opens another DatabaseContext with the same name on the same (wrapped) bucket, as a
// second gateway node of the cluster would (the REST tests do the same through NoCloseClone).
func vfC05OpenSecondNode(t *testing.T, env *vfEnv, w *vs.Bucket, allow bool) (n *vfC05Node, err error) {
	defer func() {
		if p := recover(); p != nil {
			err = fmt.Errorf("panic while opening the second node: %v", p)
		}
	}()
	opts := vfProductOptions()
	AddOptionsFromEnvironmentVariables(&opts)
	opts.Scopes = GetScopesOptions(t, env.Bucket, 1)
	opts.AllowConflicts = base.Ptr(allow)
	ctx := base.TestCtx(t)
	dbc, err := NewDatabaseContext(ctx, env.DBC.Name, base.NoCloseClone(w), false, opts)
	if err != nil {
		return nil, err
	}
	ctx = dbc.AddDatabaseLogContext(ctx)
	if err := dbc.StartOnlineProcesses(ctx); err != nil {
		dbc.Close(ctx)
		return nil, err
	}
	database, _ := CreateDatabase(dbc)
	ctx = addDatabaseAndTestUserContext(ctx, database)
	var dc *DatabaseCollection
	for _, c := range dbc.CollectionByID {
		dc = c
	}
	if dc == nil || len(dbc.CollectionByID) != 1 {
		dbc.Close(ctx)
		return nil, fmt.Errorf("second node: expected one collection, have %d", len(dbc.CollectionByID))
	}
	coll := &DatabaseCollectionWithUser{DatabaseCollection: dc}
	ctx = coll.AddCollectionContext(ctx)
	if _, err := dc.UpdateSyncFun(ctx, vfDefaultSyncFn); err != nil {
		dbc.Close(ctx)
		return nil, err
	}
	return &vfC05Node{ctx: ctx, dbc: dbc, coll: coll}, nil
}

func vfC05NewWorld(env *vfEnv, w *vs.Bucket, allow bool, clients, docs int) *vfC05World {
	world := &vfC05World{env: env, w: w, allow: allow, attempts: map[string]int{}, resWindow: map[int]int{},
		windowAck: map[int]bool{}, commitPos: map[int]int{}, inflight: map[int]vfC05Chain{}, warmSeqs: map[uint64]string{}, lastSeq: map[int]uint64{}, behindOp: map[int]bool{}}
	world.nodes = []*vfC05Node{{ctx: env.Ctx, dbc: env.DBC, coll: env.Coll}}
	world.nodeOf = make([]int, clients)
	for d := 0; d < docs; d++ {
		world.docs = append(world.docs, fmt.Sprintf("doc%d", d))
	}
	world.know = make([][]vfC05Known, clients)
	for c := range world.know {
		world.know[c] = make([]vfC05Known, docs)
	}
	return world
}

func vfC05Classes(w *vfC05World, extra ...string) (classes []string, nontrivial bool) {
	classes = append(classes, extra...)
	rejected := len(w.rejs) > 0
	if w.retried {
		classes = append(classes, "retried-after-cas-mismatch")
	}
	if rejected {
		classes = append(classes, "writer-rejected")
	}
	if w.depth2 {
		classes = append(classes, "nesting-depth-2")
	}
	if w.failcas {
		classes = append(classes, "injected-cas-failure")
	}
	if w.rosmarRace {
		classes = append(classes, "rosmar-tombstone-race-not-retried")
	}
	for _, a := range w.acks {
		if a.deleted {
			classes = append(classes, "acknowledged-delete")
			break
		}
	}
	for _, a := range w.acks {
		if strings.HasPrefix(a.kind, "push") {
			classes = append(classes, "acknowledged-push")
			break
		}
	}
	return classes, w.retried && rejected
}

// TestVerif_C05_Interleave: deterministic schedule exploration (one gateway node, sequence batching pinned to 1).
func TestVerif_C05_Interleave(t *testing.T) {
	rec := kit.New("C05", "Interleave")
	defer rec.Flush()
	restore := SuspendSequenceBatching()
	defer restore()
	rapid.Check(t, func(rt *rapid.T) {
		g := &vfC05Gen{}
		skewMs := vfC05DrawSkew(rt)
		g.skew = skewMs > 0
		g.allow = rapid.IntRange(0, 3).Draw(rt, "allowConflicts") == 0
		g.clients = rapid.IntRange(2, 4).Draw(rt, "clients")
		g.docs = rapid.IntRange(1, 2).Draw(rt, "docs")
		seeded := rapid.IntRange(0, 3).Draw(rt, "seeded") != 0
		nTop := rapid.IntRange(2, 8).Draw(rt, "ops")
		if g.skew && nTop > 5 {
			nTop = 5 // every write of such a case waits out the clock gap
		}
		top := g.ops(rt, 0, nil, nTop, -1, nil)
		var planParts []string
		for _, o := range top {
			planParts = append(planParts, o.render())
		}
		render := fmt.Sprintf("allowConflicts=%v clients=%d docs=%d seeded=%v: %s", g.allow, g.clients, g.docs, seeded, strings.Join(planParts, "; "))
		if g.skew {
			render = fmt.Sprintf("clockAhead=%dms ", skewMs) + render
		}

		env, w, err := vfC05Open(t, g.allow, true)
		if err != nil {
			rec.Inconclusive()
			kit.InconclusiveLine("C05", "cannot open database: %v", err)
			rt.Skip("no database")
		}
		defer env.Close()
		world := vfC05NewWorld(env, w, g.allow, g.clients, g.docs)
		world.avoid = kit.Known("C05", vfC05SigResurrect)
		vfC05SetSkew(world, skewMs)
		vfC05Run(rt, rec, "Interleave", render, world, top, seeded, g.clients)
		mode := "mode=conflict-free"
		if g.allow {
			mode = "mode=conflicts-allowed"
		}
		classes, nontrivial := vfC05Classes(world, mode, fmt.Sprintf("clients=%d", g.clients))
		classes = append(classes, vfC05SkewClasses(world, skewMs)...)
		for i := 0; i < world.excluded; i++ {
			rec.Excluded(vfC05SigResurrect)
		}
		rec.Case(render, nontrivial, classes...)
	})
}

// vfC05DrawSkew: clock-ahead dimension. In 1 of 4 cases every node's hybrid logical clock runs 4-20 ms ahead of
// the bucket's clock (constant per case), so every write generates a version ahead of the CAS it is given and
// goes through the post-commit correction (sleep out the gap, re-stamp guarded by the CAS of its own write).
func vfC05DrawSkew(rt *rapid.T) int {
	if rapid.IntRange(0, 3).Draw(rt, "clockAhead") != 0 {
		return 0
	}
	return rapid.IntRange(4, 20).Draw(rt, "clockAheadMs")
}

func vfC05SetSkew(w *vfC05World, skewMs int) {
	if skewMs <= 0 {
		return
	}
	skew := uint64(time.Duration(skewMs) * time.Millisecond)
	for _, n := range w.nodes {
		n.dbc.hlc.SetClockForTest(func() uint64 { return sgbucket.HLCWallClock() + skew })
	}
}

func vfC05SkewClasses(w *vfC05World, skewMs int) (classes []string) {
	if skewMs <= 0 {
		return nil
	}
	classes = append(classes, "clock-ahead")
	for _, c := range []struct {
		on   bool
		name string
	}{
		{w.restampSeen, "clock-ahead:re-stamp-write-observed"},
		{w.restampWindow, "clock-ahead:operations-in-re-stamp-window"},
		{w.restampLost, "clock-ahead:re-stamp-lost-cas-race-to-acknowledged-write"},
		{w.restampFailInj, "clock-ahead:re-stamp-injected-cas-failure"},
		{w.restampAfterLeftAhead, "clock-ahead:re-stamp-lost-to-write-whose-version-stays-ahead-of-cas"},
	} {
		if c.on {
			classes = append(classes, c.name)
		}
	}
	return classes
}

// vfC05Run executes a generated operation tree deterministically and runs the history checker.
func vfC05Run(rt *rapid.T, rec *kit.Rec, test, render string, world *vfC05World, top []*vfC05Op, seeded bool, clients int) {
	w := world.w
	fail := func(format string, args ...any) {
		kit.Violation(rt, "C05", test, render, "%s\nexecution: %s", fmt.Sprintf(format, args...), world.history())
	}
	if seeded {
		// every document exists and every client has read it: the clients start from one parent
		for d := range world.docs {
			seed := &vfC05Op{id: 1000 + d, client: 0, doc: d, kind: "put"}
			world.exec(seed, 0)
			for c := 1; c < clients; c++ {
				world.exec(&vfC05Op{id: 2000, client: c, doc: d, kind: "read"}, 0)
			}
		}
	}
	for _, o := range top {
		var rules []vs.Rule
		world.plan(o, 0, &rules)
		w.Arm(&vs.Plan{Rules: rules})
		kit.Guard(rt, "C05", test, func() string { return render + "\nexecution: " + world.history() }, func() { world.exec(o, 0) })
		for _, op := range w.MarkedTrace() {
			if op.Type == vs.OpUpdateXattrs {
				// the post-commit re-stamp: a metadata-only CAS write, not a retry of the update
				if op.Action == vs.FailCas {
					world.restampFailInj = true
				}
				continue
			}
			if op.Action == vs.FailCas {
				world.failcas = true
				world.retried = true
			}
		}
		w.Disarm()
		if len(world.problems) > 0 {
			fail("%s", world.problems[0])
		}
	}
	if err := world.finalCheck(true); err != nil {
		if vfIsInconclusive(err) {
			rec.Inconclusive()
			kit.InconclusiveLine("C05", "%v", err)
			rt.Skip("inconclusive")
		}
		fail("%v", err)
	}
}

// TestVerif_C05_MultiNode: the deterministic mode over a cluster - 2 (sometimes 3) gateway nodes share one
// bucket, each with its own sequence allocator (real batching: a node holds several reserved numbers while
// another node's numbers run ahead) and its own change cache. The generator assigns the clients to nodes, so
// the complete write forced into a read -> CAS window may come from another node than the hooked write.
func TestVerif_C05_MultiNode(t *testing.T) {
	rec := kit.New("C05", "MultiNode")
	defer rec.Flush()
	oldFreq := MaxSequenceIncrFrequency
	defer func() { MaxSequenceIncrFrequency = oldFreq }()
	rapid.Check(t, func(rt *rapid.T) {
		g := &vfC05Gen{multi: true}
		skewMs := vfC05DrawSkew(rt)
		g.skew = skewMs > 0
		nNodes := 2
		if rapid.IntRange(0, 3).Draw(rt, "threeNodes") == 0 {
			nNodes = 3
		}
		// batch growth is driven by the time between two reservations (below MaxSequenceIncrFrequency the
		// batch doubles, 1 -> 2 -> 4 -> 8 -> 10); a generated case runs in milliseconds, so make the regime a
		// generated choice instead of a matter of machine load
		growth := rapid.IntRange(0, 4).Draw(rt, "batchGrowth") != 0
		if growth {
			MaxSequenceIncrFrequency = time.Hour
		} else {
			MaxSequenceIncrFrequency = 0 // every reservation takes a single number (as SuspendSequenceBatching)
		}
		g.allow = rapid.IntRange(0, 3).Draw(rt, "allowConflicts") == 0
		g.clients = rapid.IntRange(2, 4).Draw(rt, "clients")
		g.docs = rapid.IntRange(1, 2).Draw(rt, "docs")
		nodeOf := make([]int, g.clients)
		distinct := false
		for c := range nodeOf {
			nodeOf[c] = rapid.IntRange(0, nNodes-1).Draw(rt, "nodeOfClient")
			if nodeOf[c] != nodeOf[0] {
				distinct = true
			}
		}
		if !distinct {
			nodeOf[g.clients-1] = (nodeOf[0] + 1) % nNodes
		}
		// allocator history before the clients start: writes to private documents on generated nodes, so that
		// the nodes hold reserved batches of different sizes in a generated order
		warm := rapid.SliceOfN(rapid.IntRange(0, nNodes-1), 0, 8).Draw(rt, "warmUpWrites")
		seeded := rapid.IntRange(0, 7).Draw(rt, "seeded") != 0
		top := g.ops(rt, 0, nil, rapid.IntRange(2, 6).Draw(rt, "ops"), -1, nil)
		var planParts []string
		for _, o := range top {
			planParts = append(planParts, o.render())
		}
		render := fmt.Sprintf("nodes=%d batchGrowth=%v clientNodes=%v warmUp=%v allowConflicts=%v clients=%d docs=%d seeded=%v: %s",
			nNodes, growth, nodeOf, warm, g.allow, g.clients, g.docs, seeded, strings.Join(planParts, "; "))
		if g.skew {
			render = fmt.Sprintf("clockAhead=%dms ", skewMs) + render
		}

		env, w, err := vfC05Open(t, g.allow, true)
		if err != nil {
			rec.Inconclusive()
			kit.InconclusiveLine("C05", "cannot open database: %v", err)
			rt.Skip("no database")
		}
		defer env.Close()
		world := vfC05NewWorld(env, w, g.allow, g.clients, g.docs)
		world.avoid = kit.Known("C05", vfC05SigResurrect)
		copy(world.nodeOf, nodeOf)
		for len(world.nodes) < nNodes {
			n, err := vfC05OpenSecondNode(t, env, w, g.allow)
			if err != nil {
				rec.Inconclusive()
				kit.InconclusiveLine("C05", "cannot open node %d: %v", len(world.nodes), err)
				rt.Skip("no further node")
			}
			defer n.dbc.Close(n.ctx)
			world.nodes = append(world.nodes, n)
		}
		for _, n := range world.nodes {
			// idle release is a generated operation ("idle"); the timer would make it a matter of machine load
			n.dbc.sequences.mutex.Lock()
			n.dbc.sequences.releaseSequenceWait = time.Hour
			n.dbc.sequences.mutex.Unlock()
		}
		vfC05SetSkew(world, skewMs)
		world.started = time.Now()
		for _, nd := range warm {
			world.warmWrite(nd)
		}
		if world.infra == "" {
			vfC05Run(rt, rec, "MultiNode", render, world, top, seeded, g.clients)
		} else {
			rec.Inconclusive()
			kit.InconclusiveLine("C05", "%s", world.infra)
			rt.Skip("warm-up failed")
		}
		mode := "mode=conflict-free"
		if g.allow {
			mode = "mode=conflicts-allowed"
		}
		classes, nontrivial := vfC05Classes(world, mode, fmt.Sprintf("clients=%d", g.clients), fmt.Sprintf("nodes=%d", nNodes), fmt.Sprintf("batchGrowth=%v", growth))
		for _, c := range []struct {
			on   bool
			name string
		}{
			{world.crossNode, "cross-node-window-write"},
			{world.inHand, "cross-node-retry-with-reserved-numbers-in-hand"},
			{world.behind, "cross-node-retry-next-reserved-number-behind-other-node"},
			{world.behindAck, "cross-node-retry-behind-other-node-and-acknowledged"},
			{world.behindAck && !g.allow, "conflict-free:cross-node-retry-behind-other-node-and-acknowledged"},
			{world.firstPass, "first-pass-next-reserved-number-behind-document"},
			{world.relayed, "relayed-intermediate-landed-in-window"},
			{world.legal, "hooked-write-acknowledged-after-window-write"},
			{world.legal && !g.allow, "conflict-free:hooked-write-acknowledged-after-window-write"},
			{world.idled, "idle-release"},
		} {
			if c.on {
				classes = append(classes, c.name)
			}
		}
		for _, a := range world.acks {
			if a.mid != "" {
				classes = append(classes, "acknowledged-push-with-intermediate")
				break
			}
		}
		classes = append(classes, vfC05SkewClasses(world, skewMs)...)
		for i := 0; i < world.excluded; i++ {
			rec.Excluded(vfC05SigResurrect)
		}
		rec.Case(render, nontrivial, classes...)
	})
}

// TestVerif_C05_Concurrent: the same clients as free-running goroutines (run with -race in the thorough
// tier). The schedule is not controlled, so the acknowledgement history is printed on failure.
func TestVerif_C05_Concurrent(t *testing.T) {
	rec := kit.New("C05", "Concurrent")
	defer rec.Flush()
	restore := SuspendSequenceBatching()
	defer restore()
	rapid.Check(t, func(rt *rapid.T) {
		allow := rapid.IntRange(0, 3).Draw(rt, "allowConflicts") == 0
		wrap := rapid.Bool().Draw(rt, "faultStoreLoops")
		nClients := rapid.IntRange(2, 8).Draw(rt, "clients")
		nDocs := rapid.IntRange(1, 2).Draw(rt, "docs")
		rereadOnConflict := rapid.Bool().Draw(rt, "rereadOnConflict")
		kinds := []string{"read", "put", "put", "put", "push", "pushnc", "del", "pushdel"}
		id := 0
		progs := make([][]*vfC05Op, nClients)
		var planParts []string
		for c := 0; c < nClients; c++ {
			n := rapid.IntRange(2, 6).Draw(rt, "opsPerClient")
			var parts []string
			for i := 0; i < n; i++ {
				o := &vfC05Op{id: id, client: c}
				id++
				o.doc = rapid.IntRange(0, nDocs-1).Draw(rt, "doc")
				o.kind = rapid.SampledFrom(kinds).Draw(rt, "kind")
				o.win = rapid.Bool().Draw(rt, "hi")
				o.yield = rapid.IntRange(0, 3).Draw(rt, "yield")
				o.instrumented = wrap && o.kind != "read" // marked context: write attempts show up in the trace
				if o.instrumented {
					o.window = rapid.IntRange(0, 40).Draw(rt, "windowYields")
				}
				if allow && o.kind == "read" {
					o.pick = rapid.IntRange(0, 2).Draw(rt, "leaf")
				}
				progs[c] = append(progs[c], o)
				parts = append(parts, o.render())
			}
			planParts = append(planParts, fmt.Sprintf("client%d{%s}", c, strings.Join(parts, "; ")))
		}
		render := fmt.Sprintf("allowConflicts=%v faultStoreLoops=%v docs=%d rereadOnConflict=%v: %s", allow, wrap, nDocs, rereadOnConflict, strings.Join(planParts, " || "))

		env, w, err := vfC05Open(t, allow, wrap)
		if err != nil {
			rec.Inconclusive()
			kit.InconclusiveLine("C05", "cannot open database: %v", err)
			rt.Skip("no database")
		}
		defer env.Close()
		world := vfC05NewWorld(env, w, allow, nClients, nDocs)
		world.avoid = kit.Known("C05", vfC05SigResurrect)
		world.concurrent = true
		for d := range world.docs {
			world.exec(&vfC05Op{id: 1000 + d, client: 0, doc: d, kind: "put"}, 0)
			for c := 1; c < nClients; c++ {
				world.exec(&vfC05Op{id: 2000, client: c, doc: d, kind: "read"}, 0)
			}
		}
		if wrap {
			// widen every write's read -> CAS-write window by a generated number of scheduler yields
			var rules []vs.Rule
			for _, prog := range progs {
				for _, o := range prog {
					if !o.instrumented || o.window == 0 {
						continue
					}
					n := o.window
					hook := func() {
						for i := 0; i < n; i++ {
							runtime.Gosched()
						}
					}
					for _, typ := range []vs.OpType{vs.OpWriteWithXattrs, vs.OpWriteTombstoneWithXattrs, vs.OpWriteResurrectionWithXattrs} {
						for nth := 1; nth <= vfC05MaxTries; nth++ {
							rules = append(rules, vs.Rule{Type: typ, Label: o.label(), Nth: nth, Fault: vs.Fault{Hook: hook}})
						}
					}
				}
			}
			w.Arm(&vs.Plan{Rules: rules})
		}
		start := make(chan struct{})
		var wg sync.WaitGroup
		panics := make(chan string, nClients)
		for c := 0; c < nClients; c++ {
			wg.Add(1)
			go func(prog []*vfC05Op) {
				defer wg.Done()
				defer func() {
					if p := recover(); p != nil {
						panics <- fmt.Sprint(p)
					}
				}()
				<-start
				for _, o := range prog {
					for i := 0; i < o.yield; i++ {
						runtime.Gosched()
					}
					world.mu.Lock()
					before := len(world.rejs)
					world.mu.Unlock()
					world.exec(o, 0)
					if rereadOnConflict && o.kind != "read" {
						world.mu.Lock()
						conflicted := false
						for _, r := range world.rejs[before:] {
							if r.op == o.id {
								conflicted = true
							}
						}
						world.mu.Unlock()
						if conflicted {
							world.exec(&vfC05Op{id: 3000 + o.id, client: o.client, doc: o.doc, kind: "read"}, 0)
						}
					}
				}
			}(progs[c])
		}
		close(start)
		wg.Wait()
		fail := func(format string, args ...any) {
			kit.Violation(rt, "C05", "Concurrent", render, "%s\nacknowledgement history: %s", fmt.Sprintf(format, args...), world.history())
		}
		select {
		case p := <-panics:
			fail("panic in a client: %s", p)
		default:
		}
		if err := world.finalCheck(false); err != nil {
			if vfIsInconclusive(err) {
				rec.Inconclusive()
				kit.InconclusiveLine("C05", "%v", err)
				rt.Skip("inconclusive")
			}
			fail("%v", err)
		}
		mode := "mode=conflict-free"
		if allow {
			mode = "mode=conflicts-allowed"
		}
		// with the fault store's explicit loops every CAS write attempt is in the trace: a CAS write that
		// failed with a CAS mismatch = a retry. Over raw rosmar retries are not observable from outside.
		if wrap {
			for _, op := range w.MarkedTrace() {
				switch op.Type {
				case vs.OpWriteWithXattrs, vs.OpWriteTombstoneWithXattrs, vs.OpWriteResurrectionWithXattrs:
					if op.Err != nil && (base.IsCasMismatch(op.Err) || errors.Is(op.Err, sgbucket.ErrKeyExists)) {
						world.retried = true // the update loop re-runs the callback after this
					}
				}
			}
		}
		classes, nontrivial := vfC05Classes(world, mode, fmt.Sprintf("clients=%d", nClients), fmt.Sprintf("faultStoreLoops=%v", wrap))
		if !wrap {
			nontrivial = len(world.rejs) > 0
		}
		if world.avoid {
			rec.Excluded(vfC05SigResurrect + " (deleting writes serialised against other writes)")
		}
		rec.Case(render, nontrivial, classes...)
	})
}

// TestVerif_C05_Known: deterministic minimal reproduction of the listed finding (regression only; the
// generated families decide). c0 creates and deletes the document; c0 then re-creates it (a resurrection
// write) and, inside that write's read -> write window, c1 deletes the tombstone again (acknowledged).
func TestVerif_C05_Known(t *testing.T) {
	rec := kit.New("C05", "Known")
	defer rec.Flush()
	defer SuspendSequenceBatching()()
	for _, allow := range []bool{false, true} {
		env, w, err := vfC05Open(t, allow, true)
		if err != nil {
			rec.Inconclusive()
			kit.InconclusiveLine("C05", "cannot open database: %v", err)
			return
		}
		world := vfC05NewWorld(env, w, allow, 2, 1)
		script := []*vfC05Op{
			{id: 1, client: 0, doc: 0, kind: "put"},
			{id: 2, client: 0, doc: 0, kind: "del"},
			{id: 3, client: 1, doc: 0, kind: "read"},
			{id: 4, client: 0, doc: 0, kind: "put", instrumented: true, failCas: []bool{false},
				hooks: [][]*vfC05Op{{{id: 5, client: 1, doc: 0, kind: "del"}}}},
		}
		var parts []string
		for _, o := range script {
			parts = append(parts, o.render())
			var rules []vs.Rule
			world.plan(o, 0, &rules)
			w.Arm(&vs.Plan{Rules: rules})
			world.exec(o, 0)
			w.Disarm()
		}
		render := fmt.Sprintf("allowConflicts=%v: %s", allow, strings.Join(parts, "; "))
		ferr := world.finalCheck(true)
		env.Close()
		rec.Class("reproductions", 1)
		switch {
		case ferr != nil && vfIsInconclusive(ferr):
			rec.Inconclusive()
			kit.InconclusiveLine("C05", "reproduction could not be decided: %v", ferr)
		case ferr != nil && kit.Known("C05", vfC05SigResurrect):
			rec.Class("reproductions.still-failing", 1)
			if allow {
				continue // same shape, reported once
			}
			kit.KnownFinding("C05", vfC05SigResurrect, fmt.Sprintf("%s [reproduction: %s; execution: %s] -> %v", kit.KnownWhat("C05", vfC05SigResurrect), render, world.history(), ferr))
		case ferr != nil:
			kit.Note("C05", "reproduction of %s fails but the signature is not listed as open; the generated families decide: %v", vfC05SigResurrect, ferr)
		default:
			kit.Note("C05", "reproduction of %s holds now (finding repaired?): %s", vfC05SigResurrect, render)
		}
	}
	rec.Sample("deterministic reproduction of the listed known finding (regression only, decides nothing)")
}
