package db

import (
	"fmt"
	"strings"
	"testing"

	"github.com/couchbase/sync_gateway/base"
	vs "github.com/couchbase/sync_gateway/verifstore"
)

func vfC14ProbeDump(t *testing.T, env *vfEnv, w *vs.Bucket, id string, revs ...string) {
	env.DBC.FlushRevisionCacheForTest()
	for _, r := range append([]string{""}, revs...) {
		b, err := env.Coll.Get1xRevBody(env.Ctx, id, r, false, nil)
		t.Logf("  GET %s rev=%q -> %v err=%v", id, r, b, err)
	}
	snap, _ := w.Snapshot(env.Ctx)
	for _, d := range snap.Docs {
		if strings.HasPrefix(d.Key, base.Att2Prefix) {
			t.Logf("  att %s live=%v", d.Key[len(d.Key)-34:], d.HasBody)
		}
		if d.Key == id {
			t.Logf("  doc body=%s _globalSync=%s", d.Body, d.Xattrs["_globalSync"])
		}
	}
}

func TestVerif_C14_Probe(t *testing.T) {
	for _, ccv := range []bool{false} {
		var w *vs.Bucket
		env, err := vfOpen(t, vfDBConfig{Mutate: func(o *DatabaseContextOptions) { o.AllowConflicts = base.Ptr(true) },
			WrapBucket: func(b base.Bucket) base.Bucket { w = vs.Wrap(b); return w }})
		if err != nil {
			t.Fatal(err)
		}
		env.DBC.CachedCCVEnabled.Store(ccv)
		ctx := env.Ctx
		put := func(id string, body Body) string {
			rev, _, err := env.Coll.Put(ctx, id, body)
			t.Logf("put %s -> %s %v", id, rev, err)
			return rev
		}
		push := func(id string, body Body, hist ...string) {
			_, rev, err := env.Coll.PutExistingRevWithBody(ctx, id, body, hist, false, ExistingVersionWithUpdateToHLV)
			t.Logf("push %s -> %s %v", id, rev, err)
		}
		att := func(s string) map[string]any { return map[string]any{"att": map[string]any{"data": []byte(s)}} }
		// case C: W1 (winner, att X) demoted by W2 (att Y) on another branch; W2 tombstoned -> W1 promoted
		r1 := put("c", Body{"v": 1})
		push("c", Body{"v": 2, "_attachments": att("XXXX")}, "2-aaa", r1)
		vfC14ProbeDump(t, env, w, "c", "2-aaa")
		push("c", Body{"v": 3, "_attachments": att("YYYY")}, "3-bbb", "2-bbb", r1)
		t.Logf("after 3-bbb wins")
		vfC14ProbeDump(t, env, w, "c", "2-aaa", "3-bbb")
		r4 := put("c", Body{"_rev": "3-bbb", "_deleted": true})
		t.Logf("after tombstoning 3-bbb: %s", r4)
		vfC14ProbeDump(t, env, w, "c", "2-aaa", r4)
		r5 := put("c", Body{"_rev": "2-aaa", "v": 5, "_attachments": map[string]any{"att": map[string]any{"stub": true, "revpos": 2, "digest": Sha1DigestKey([]byte("XXXX"))}}})
		t.Logf("after update of 2-aaa with stub: %s", r5)
		vfC14ProbeDump(t, env, w, "c", r5)
		fmt.Println()
		env.Close()
	}
}
