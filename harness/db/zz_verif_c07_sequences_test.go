package db

// C07 — sequence numbers are unique, per-document increasing, and fully accounted.
// Injected into package db by the /verif driver (build overlay); never part of /repo.
//
//  TestVerif_C07_Allocator     rapid state machine: 1..3 sequenceAllocators on one data store
//  TestVerif_C07_AllocatorConc goroutines on shared allocators, checked at quiescence
//  TestVerif_C07_Writes        rapid state machine on a real database: document writes with every
//                              outcome reachable without storage faults, principal operations
//  TestVerif_C07_KnownFindings minimal replays of the listed findings

import (
	"context"
	"encoding/binary"
	"fmt"
	"sort"
	"strconv"
	"strings"
	"sync"
	"testing"
	"time"

	sgbucket "github.com/couchbase/sg-bucket"
	"github.com/couchbase/sync_gateway/auth"
	"github.com/couchbase/sync_gateway/base"
	kit "github.com/couchbase/sync_gateway/verifkit"
	vs "github.com/couchbase/sync_gateway/verifstore"
	"pgregory.net/rapid"
)

const vfC07SigDeleteRole = "delete-role-purge-leaks-sequence"
const vfC07SigUpdatePrincipal = "update-principal-save-error-leaks-sequence"
const vfC07SigRetryUnused = "cas-retry-unused-sequences-dropped-when-a-later-attempt-fails"

// ---------------------------------------------------------------------------------------------
// unused-sequence documents as the bucket holds them

type vfC07Unused struct {
	singles map[uint64]bool
	ranges  [][2]uint64
}

func vfC07RangeScanStore(ds base.DataStore) (sgbucket.RangeScanStore, error) {
	for i := 0; i < 4; i++ {
		if rss, ok := ds.(sgbucket.RangeScanStore); ok {
			return rss, nil
		}
		if lds, ok := ds.(*base.LeakyDataStore); ok {
			ds = lds.GetUnderlyingDataStore()
			continue
		}
		break
	}
	return nil, fmt.Errorf("data store %T cannot be listed", ds)
}

// vfC07ReadUnused lists and parses the single and range unused-sequence documents. A document whose
// key and body disagree, or that is malformed, is reported as a problem (the feed reads the key).
func vfC07ReadUnused(ctx context.Context, ds base.DataStore, keys *base.MetadataKeys) (u vfC07Unused, problem string, err error) {
	u.singles = map[uint64]bool{}
	rss, err := vfC07RangeScanStore(ds)
	if err != nil {
		return u, "", err
	}
	list := func(prefix string) (map[string][]byte, error) {
		it, err := rss.Scan(ctx, sgbucket.NewRangeScanForPrefix(prefix), sgbucket.ScanOptions{})
		if err != nil {
			return nil, err
		}
		out := map[string][]byte{}
		for item := it.Next(ctx); item != nil; item = it.Next(ctx) {
			out[item.ID] = item.Body
		}
		if e := it.Err(); e != nil {
			return nil, e
		}
		_ = it.Close(ctx)
		return out, nil
	}
	singles, err := list(keys.UnusedSeqPrefix())
	if err != nil {
		return u, "", err
	}
	for _, k := range vfSortedKeys(singles) {
		n, perr := strconv.ParseUint(strings.TrimPrefix(k, keys.UnusedSeqPrefix()), 10, 64)
		body := singles[k]
		if perr != nil || len(body) != 8 || binary.LittleEndian.Uint64(body) != n {
			return u, fmt.Sprintf("unused-sequence document %q is malformed (body % x)", k, body), nil
		}
		u.singles[n] = true
	}
	ranges, err := list(keys.UnusedSeqRangePrefix())
	if err != nil {
		return u, "", err
	}
	for _, k := range vfSortedKeys(ranges) {
		parts := strings.Split(strings.TrimPrefix(k, keys.UnusedSeqRangePrefix()), ":")
		body := ranges[k]
		var from, to uint64
		var e1, e2 error
		if len(parts) == 2 {
			from, e1 = strconv.ParseUint(parts[0], 10, 64)
			to, e2 = strconv.ParseUint(parts[1], 10, 64)
		}
		if len(parts) != 2 || e1 != nil || e2 != nil || len(body) != 16 || binary.LittleEndian.Uint64(body[:8]) != from || binary.LittleEndian.Uint64(body[8:]) != to || from > to {
			return u, fmt.Sprintf("unused-sequence range document %q is malformed (body % x)", k, body), nil
		}
		u.ranges = append(u.ranges, [2]uint64{from, to})
	}
	sort.Slice(u.ranges, func(i, j int) bool { return u.ranges[i][0] < u.ranges[j][0] })
	return u, "", nil
}

func (u vfC07Unused) covers(n uint64) (single bool, ranges int) {
	for _, r := range u.ranges {
		if r[0] <= n && n <= r[1] {
			ranges++
		}
	}
	return u.singles[n], ranges
}

func (u vfC07Unused) String() string {
	var s []string
	for _, n := range vfC07Sorted(u.singles) {
		s = append(s, strconv.FormatUint(n, 10))
	}
	for _, r := range u.ranges {
		s = append(s, fmt.Sprintf("%d-%d", r[0], r[1]))
	}
	return "{" + strings.Join(s, " ") + "}"
}

func vfC07Sorted(m map[uint64]bool) []uint64 {
	out := make([]uint64, 0, len(m))
	for n := range m {
		out = append(out, n)
	}
	sort.Slice(out, func(i, j int) bool { return out[i] < out[j] })
	return out
}

// vfC07ParkTimer keeps the allocator's idle-release timer from firing during a case: idle release
// is an explicit generated action (the function the timer would call is called directly).
func vfC07ParkTimer(a *sequenceAllocator) {
	a.mutex.Lock()
	a.releaseSequenceWait = time.Hour
	a.mutex.Unlock()
}

func (a *sequenceAllocator) vfC07Window() (last, max uint64) {
	a.mutex.Lock()
	defer a.mutex.Unlock()
	return a.last, a.max
}

// ---------------------------------------------------------------------------------------------
// allocator level

type vfC07Alloc struct {
	a    *sequenceAllocator
	live bool
}

type vfC07AllocEnv struct {
	ctx   context.Context
	ds    base.DataStore
	stats *base.DatabaseStats
	keys  *base.MetadataKeys
}

func (e *vfC07AllocEnv) newAllocator() (*sequenceAllocator, error) {
	a, err := newSequenceAllocator(e.ctx, e.ds, e.stats, e.keys)
	if err != nil {
		return nil, err
	}
	vfC07ParkTimer(a)
	return a, nil
}

// vfC07Partition checks {1..counter} = handed-out (+) released (+) live windows, pairwise disjoint.
// handed: every number an allocator ever returned; userReleased: those given back with releaseSequence.
func vfC07Partition(e *vfC07AllocEnv, allocs []*vfC07Alloc, handed map[uint64]int, userReleased map[uint64]bool) (problem string, err error) {
	counter, err := base.GetCounter(e.ctx, e.ds, e.keys.SyncSeqKey())
	if err != nil {
		return "", err
	}
	u, problem, err := vfC07ReadUnused(e.ctx, e.ds, e.keys)
	if err != nil || problem != "" {
		return problem, err
	}
	type win struct {
		i         int
		last, max uint64
	}
	var wins []win
	for i, al := range allocs {
		last, max := al.a.vfC07Window()
		if last > max {
			return fmt.Sprintf("allocator %d: last handed out %d is beyond its reserved maximum %d", i, last, max), nil
		}
		if !al.live && last != max {
			return fmt.Sprintf("stopped allocator %d still holds the window %d..%d", i, last+1, max), nil
		}
		if max > counter {
			return fmt.Sprintf("allocator %d holds numbers up to %d, the shared counter is %d", i, max, counter), nil
		}
		if last < max {
			wins = append(wins, win{i, last, max})
		}
	}
	describe := func() string {
		var w []string
		for _, x := range wins {
			w = append(w, fmt.Sprintf("a%d:%d..%d", x.i, x.last+1, x.max))
		}
		return fmt.Sprintf("counter=%d unused-docs=%s windows=%s", counter, u, vfJoin(w))
	}
	for n := range handed {
		if n > counter || n == 0 {
			return fmt.Sprintf("number %d was handed out but the shared counter is %d", n, counter), nil
		}
	}
	for n := uint64(1); n <= counter; n++ {
		single, inRanges := u.covers(n)
		inWins := 0
		for _, x := range wins {
			if x.last < n && n <= x.max {
				inWins++
			}
		}
		_, isHanded := handed[n]
		switch {
		case isHanded && (inRanges > 0 || inWins > 0):
			return fmt.Sprintf("number %d was handed out by allocator %d and is also %s (%s)", n, handed[n], map[bool]string{true: "published as unused in a range document", false: "still in a live window"}[inRanges > 0], describe()), nil
		case isHanded && userReleased[n] != single:
			if single {
				return fmt.Sprintf("number %d is held by a caller but an unused-sequence document exists for it (%s)", n, describe()), nil
			}
			return fmt.Sprintf("number %d was released by its caller but no unused-sequence document exists (%s)", n, describe()), nil
		case isHanded:
		case single:
			return fmt.Sprintf("an unused-sequence document exists for %d, which was never handed out (%s)", n, describe()), nil
		case inRanges+inWins == 0:
			return fmt.Sprintf("number %d was reserved from the shared counter but is neither handed out, nor published as unused, nor in a live window (%s)", n, describe()), nil
		case inRanges+inWins > 1:
			return fmt.Sprintf("number %d is accounted %d times (ranges %d, windows %d) (%s)", n, inRanges+inWins, inRanges, inWins, describe()), nil
		}
	}
	for _, r := range u.ranges {
		if r[1] > counter {
			return fmt.Sprintf("range document %d-%d exceeds the shared counter %d", r[0], r[1], counter), nil
		}
	}
	return "", nil
}

func vfC07Stats(name string) (*base.DatabaseStats, error) {
	sgw, err := base.NewSyncGatewayStats()
	if err != nil {
		return nil, err
	}
	dbstats, err := sgw.NewDBStats(name, false, false, false, false, nil, nil)
	if err != nil {
		return nil, err
	}
	return dbstats.Database(), nil
}

// TestVerif_C07_Allocator: deterministic interleavings of next / nextGreaterThan / release /
// idle release / stop / (re)start over 1..3 allocators sharing one counter.
func TestVerif_C07_Allocator(t *testing.T) {
	rec := kit.New("C07", "Allocator")
	defer rec.Flush()
	ctx := base.TestCtx(t)
	bucket := base.GetTestBucket(t)
	defer bucket.Close(ctx)
	stats, err := vfC07Stats("vfc07alloc")
	if err != nil {
		t.Fatalf("harness: %v", err)
	}
	oldFreq := MaxSequenceIncrFrequency
	defer func() { MaxSequenceIncrFrequency = oldFreq }()
	caseNo := 0
	rapid.Check(t, func(rt *rapid.T) {
		caseNo++
		e := &vfC07AllocEnv{ctx: ctx, ds: bucket.GetMetadataStore(), stats: stats, keys: base.NewMetadataKeys(fmt.Sprintf("vfa%d", caseNo))}
		growth := rapid.SampledFrom([]bool{true, false, true}).Draw(rt, "batchGrowth")
		if growth {
			MaxSequenceIncrFrequency = time.Hour // every reserve counts as "too frequent": batches double up to the maximum
		} else {
			MaxSequenceIncrFrequency = 0
		}
		var ops []string
		render := func() string { return strings.Join(ops, "; ") }
		ops = append(ops, fmt.Sprintf("config(batchGrowth=%v)", growth))
		fail := func(format string, args ...any) { kit.Violation(rt, "C07", "Allocator", render(), format, args...) }
		infra := func(what string, err error) {
			rec.Inconclusive()
			kit.InconclusiveLine("C07", "%s: %v", what, err)
			rt.Skip()
		}
		var allocs []*vfC07Alloc
		defer func() {
			for _, al := range allocs {
				if al.live {
					al.live = false
					al.a.Stop(ctx)
				}
			}
		}()
		start := func() {
			a, err := e.newAllocator()
			if err != nil {
				infra("newSequenceAllocator", err)
			}
			allocs = append(allocs, &vfC07Alloc{a: a, live: true})
			ops = append(ops, fmt.Sprintf("start(a%d)", len(allocs)-1))
		}
		n0 := rapid.IntRange(1, 3).Draw(rt, "allocators")
		for i := 0; i < n0; i++ {
			start()
		}
		handed := map[uint64]int{}
		userReleased := map[uint64]bool{}
		classes := map[string]int{}
		nontrivial := false
		liveOnes := func() []int {
			var out []int
			for i, al := range allocs {
				if al.live {
					out = append(out, i)
				}
			}
			return out
		}
		pick := func() int {
			l := liveOnes()
			if len(l) == 0 {
				// every allocator is stopped: a node (re)starts; the stop action keeps one alive once the
				// bound of six allocators per case is reached, so this is always possible
				start()
				l = liveOnes()
			}
			return l[rapid.IntRange(0, len(l)-1).Draw(rt, "allocator")]
		}
		got := func(i int, what string, seq uint64) {
			if prev, dup := handed[seq]; dup {
				fail("%s on allocator %d returned %d, which allocator %d had already handed out", what, i, seq, prev)
			}
			handed[seq] = i
		}
		next := func(rt *rapid.T) {
			i := pick()
			var seq uint64
			var err error
			kit.Guard(rt, "C07", "Allocator", render, func() { seq, err = allocs[i].a.nextSequence(ctx) })
			ops = append(ops, fmt.Sprintf("next(a%d)=%d", i, seq))
			if err != nil {
				infra("nextSequence", err)
			}
			got(i, "nextSequence", seq)
			classes["next"]++
		}
		greater := func(rt *rapid.T) {
			i := pick()
			last, max := allocs[i].a.vfC07Window()
			counter, err := base.GetCounter(ctx, e.ds, e.keys.SyncSeqKey())
			if err != nil {
				infra("GetCounter", err)
			}
			var x uint64
			where := rapid.SampledFrom([]string{"below", "inside", "inside", "above", "above", "beyond"}).Draw(rt, "where")
			switch {
			case where == "below" || (where == "inside" && last == max):
				where = "below"
				x = rapid.Uint64Range(0, last).Draw(rt, "x")
			case where == "inside":
				x = rapid.Uint64Range(last, max-1).Draw(rt, "x")
			case where == "above":
				x = rapid.Uint64Range(max, counter+2).Draw(rt, "x")
			default:
				x = counter + rapid.Uint64Range(1, 25).Draw(rt, "beyondBy")
			}
			var seq, released uint64
			kit.Guard(rt, "C07", "Allocator", render, func() { seq, released, err = allocs[i].a.nextSequenceGreaterThan(ctx, x) })
			ops = append(ops, fmt.Sprintf("nextGreaterThan(a%d,%d)=%d released=%d", i, x, seq, released))
			if err != nil {
				infra("nextSequenceGreaterThan", err)
			}
			if seq <= x {
				fail("nextSequenceGreaterThan(%d) on allocator %d returned %d", x, i, seq)
			}
			got(i, "nextSequenceGreaterThan", seq)
			classes["greater-"+where]++
			if released > 0 {
				nontrivial = true
				classes["greater-released-part-of-a-batch"]++
			}
		}
		actions := map[string]func(*rapid.T){
			"next": next, "next2": next, "next3": next,
			"greater": greater, "greater2": greater,
			"release": func(rt *rapid.T) {
				var held []uint64
				for n := range handed {
					if !userReleased[n] {
						held = append(held, n)
					}
				}
				if len(held) == 0 {
					rt.Skip()
				}
				sort.Slice(held, func(a, b int) bool { return held[a] < held[b] })
				n := held[rapid.IntRange(0, len(held)-1).Draw(rt, "which")]
				i := pick()
				var err error
				kit.Guard(rt, "C07", "Allocator", render, func() { err = allocs[i].a.releaseSequence(ctx, n) })
				ops = append(ops, fmt.Sprintf("release(a%d,%d)", i, n))
				if err != nil {
					infra("releaseSequence", err)
				}
				userReleased[n] = true
				classes["release"]++
			},
			"idle": func(rt *rapid.T) {
				i := pick()
				last, max := allocs[i].a.vfC07Window()
				kit.Guard(rt, "C07", "Allocator", render, func() { allocs[i].a.releaseUnusedSequences(ctx) })
				ops = append(ops, fmt.Sprintf("idle-release(a%d)", i))
				classes["idle-release"]++
				if last < max {
					classes["idle-release-nonempty"]++
				}
			},
			"stop": func(rt *rapid.T) {
				if len(liveOnes()) <= 1 && len(allocs) >= 6 {
					rt.Skip() // keep one allocator alive once no further one may start
				}
				i := pick()
				kit.Guard(rt, "C07", "Allocator", render, func() { allocs[i].a.Stop(ctx) })
				allocs[i].live = false
				ops = append(ops, fmt.Sprintf("stop(a%d)", i))
				classes["stop"]++
			},
			"start": func(rt *rapid.T) {
				if len(liveOnes()) >= 3 || len(allocs) >= 6 {
					rt.Skip()
				}
				start()
				classes["start"]++
			},
			"": func(rt *rapid.T) {
				problem, err := vfC07Partition(e, allocs, handed, userReleased)
				if err != nil {
					infra("reading the bucket", err)
				}
				if problem != "" {
					fail("%s", problem)
				}
			},
		}
		rt.Repeat(actions)
		for i, al := range allocs {
			if al.live {
				kit.Guard(rt, "C07", "Allocator", render, func() { al.a.Stop(ctx) })
				al.live = false
				ops = append(ops, fmt.Sprintf("stop(a%d)", i))
			}
		}
		problem, err := vfC07Partition(e, allocs, handed, userReleased)
		if err != nil {
			infra("reading the bucket", err)
		}
		if problem != "" {
			fail("after every allocator stopped: %s", problem)
		}
		cls := []string{fmt.Sprintf("allocators=%d", len(allocs)), fmt.Sprintf("batchGrowth=%v", growth)}
		for _, k := range vfSortedKeys(classes) {
			rec.Class(k, int64(classes[k]))
		}
		rec.Case(render(), nontrivial, cls...)
	})
}

// TestVerif_C07_AllocatorConc: goroutines on 1..3 shared allocators; uniqueness on every returned
// number, the partition at quiescence and after stop.
func TestVerif_C07_AllocatorConc(t *testing.T) {
	rec := kit.New("C07", "AllocatorConc")
	defer rec.Flush()
	ctx := base.TestCtx(t)
	bucket := base.GetTestBucket(t)
	defer bucket.Close(ctx)
	stats, err := vfC07Stats("vfc07conc")
	if err != nil {
		t.Fatalf("harness: %v", err)
	}
	oldFreq := MaxSequenceIncrFrequency
	defer func() { MaxSequenceIncrFrequency = oldFreq }()
	caseNo := 0
	type op struct {
		kind  string
		alloc int
		off   int
	}
	rapid.Check(t, func(rt *rapid.T) {
		caseNo++
		e := &vfC07AllocEnv{ctx: ctx, ds: bucket.GetMetadataStore(), stats: stats, keys: base.NewMetadataKeys(fmt.Sprintf("vfc%d", caseNo))}
		growth := rapid.SampledFrom([]bool{true, false, true}).Draw(rt, "batchGrowth")
		MaxSequenceIncrFrequency = 0
		if growth {
			MaxSequenceIncrFrequency = time.Hour
		}
		nA := rapid.IntRange(1, 3).Draw(rt, "allocators")
		nG := rapid.IntRange(2, 4).Draw(rt, "goroutines")
		var allocs []*vfC07Alloc
		for i := 0; i < nA; i++ {
			a, err := e.newAllocator()
			if err != nil {
				rec.Inconclusive()
				kit.InconclusiveLine("C07", "newSequenceAllocator: %v", err)
				rt.Skip()
			}
			allocs = append(allocs, &vfC07Alloc{a: a, live: true})
		}
		defer func() {
			for _, al := range allocs {
				if al.live {
					al.live = false
					al.a.Stop(ctx)
				}
			}
		}()
		plans := make([][]op, nG)
		render := []string{fmt.Sprintf("config(batchGrowth=%v,allocators=%d)", growth, nA)}
		for g := range plans {
			n := rapid.IntRange(5, 30).Draw(rt, "nops")
			var names []string
			for k := 0; k < n; k++ {
				o := op{kind: rapid.SampledFrom([]string{"next", "next", "next", "greater", "greater", "release", "idle"}).Draw(rt, "kind"), alloc: rapid.IntRange(0, nA-1).Draw(rt, "alloc"), off: rapid.IntRange(-3, 14).Draw(rt, "off")}
				plans[g] = append(plans[g], o)
				names = append(names, fmt.Sprintf("%s(a%d,%+d)", o.kind, o.alloc, o.off))
			}
			render = append(render, fmt.Sprintf("G%d[%s]", g, strings.Join(names, " ")))
		}
		caseRender := strings.Join(render, "; ")
		var mu sync.Mutex
		handed := map[uint64]int{}
		userReleased := map[uint64]bool{}
		var problems []string
		report := func(format string, args ...any) {
			mu.Lock()
			problems = append(problems, fmt.Sprintf(format, args...))
			mu.Unlock()
		}
		var wg sync.WaitGroup
		for g := range plans {
			wg.Add(1)
			go func(g int) {
				defer wg.Done()
				defer func() {
					if x := recover(); x != nil {
						report("panic in the allocator: %v", x)
					}
				}()
				var mine []uint64
				var lastSeen uint64
				record := func(what string, i int, seq uint64) {
					mu.Lock()
					if prev, dup := handed[seq]; dup {
						problems = append(problems, fmt.Sprintf("%s on allocator %d returned %d, which allocator %d had already handed out", what, i, seq, prev))
					}
					handed[seq] = i
					mu.Unlock()
					mine = append(mine, seq)
					lastSeen = seq
				}
				for _, o := range plans[g] {
					a := allocs[o.alloc].a
					switch o.kind {
					case "next":
						seq, err := a.nextSequence(ctx)
						if err != nil {
							report("infra: nextSequence: %v", err)
							return
						}
						record("nextSequence", o.alloc, seq)
					case "greater":
						x := uint64(0)
						if int64(lastSeen)+int64(o.off) > 0 {
							x = uint64(int64(lastSeen) + int64(o.off))
						}
						seq, _, err := a.nextSequenceGreaterThan(ctx, x)
						if err != nil {
							report("infra: nextSequenceGreaterThan: %v", err)
							return
						}
						if seq <= x {
							report("nextSequenceGreaterThan(%d) on allocator %d returned %d", x, o.alloc, seq)
						}
						record("nextSequenceGreaterThan", o.alloc, seq)
					case "release":
						if len(mine) == 0 {
							continue
						}
						n := mine[len(mine)-1]
						mine = mine[:len(mine)-1]
						if err := a.releaseSequence(ctx, n); err != nil {
							report("infra: releaseSequence: %v", err)
							return
						}
						mu.Lock()
						userReleased[n] = true
						mu.Unlock()
					case "idle":
						a.releaseUnusedSequences(ctx)
					}
				}
			}(g)
		}
		done := make(chan struct{})
		go func() { wg.Wait(); close(done) }()
		select {
		case <-done:
		case <-time.After(vfWaitBound):
			rec.Inconclusive()
			kit.InconclusiveLine("C07", "allocator goroutines did not finish within %v", vfWaitBound)
			rt.Skip()
		}
		sort.Strings(problems)
		for _, p := range problems {
			if strings.HasPrefix(p, "infra:") {
				rec.Inconclusive()
				kit.InconclusiveLine("C07", "%s", p)
				rt.Skip()
			}
		}
		if len(problems) > 0 {
			kit.Violation(rt, "C07", "AllocatorConc", caseRender, "%s", problems[0])
		}
		check := func(when string) {
			problem, err := vfC07Partition(e, allocs, handed, userReleased)
			if err != nil {
				rec.Inconclusive()
				kit.InconclusiveLine("C07", "reading the bucket: %v", err)
				rt.Skip()
			}
			if problem != "" {
				kit.Violation(rt, "C07", "AllocatorConc", caseRender, "%s: %s", when, problem)
			}
		}
		check("at quiescence")
		for _, al := range allocs {
			al.live = false
			al.a.Stop(ctx)
		}
		check("after every allocator stopped")
		rec.Case(caseRender, nA >= 2 || nG >= 2, fmt.Sprintf("allocators=%d", nA), fmt.Sprintf("goroutines=%d", nG))
	})
}

// ---------------------------------------------------------------------------------------------
// write level

const vfC07SyncFn = `function(doc, oldDoc, meta) {
	if (doc.reject) { throw({forbidden: "rejected by the sync function"}); }
	channel(doc.chan);
	if (doc.grantUser) { access(doc.grantUser, doc.chan); }
	if (doc.grantRole) { access("role:" + doc.grantRole, doc.chan); }
}`

type vfC07World struct {
	rt        kit.TB // *rapid.T in the generated test, *testing.T in the replays
	env       *vfEnv
	leaky     *base.LeakyDataStore
	ops       []string
	ack       map[uint64]string // sequence -> the acknowledged write that carries it
	docUnus   map[uint64]string // sequence -> document whose stored unused_sequences listed it
	docSeq    map[string]uint64 // current sequence of each document / principal, as acknowledged
	docRev    map[string]string
	docRevs   map[string][]string // earlier revisions (stale parents for conflicts)
	roles     map[string]string   // name -> "live" / "deleted" / "purged"
	users     map[string]bool
	base      uint64
	classes   map[string]int
	nontriv   bool
	armedKey  string
	armedFns  []func() // other clients' writes, one per compare-and-swap window of the next write
	inInter   bool
	opCtx     context.Context // context of the operation under test (marked for the fault store); nil = env.Ctx
	uncertain map[uint64]bool // numbers reserved by an operation that ended in a storage timeout (outcome unknown)
	test      string
}

func vfC07PushRev(ctx context.Context, docID, parent string, body Body) string {
	gen, _ := ParseRevID(ctx, parent)
	return fmt.Sprintf("%d-%08x", gen+1, kit.Hash(fmt.Sprintf("%s/%s/%v", docID, parent, body["n"]))&0xffffffff)
}

func (w *vfC07World) render() string { return strings.Join(w.ops, "; ") }
func (w *vfC07World) op(format string, args ...any) {
	w.ops = append(w.ops, fmt.Sprintf(format, args...))
}
func (w *vfC07World) fail(format string, args ...any) {
	test := w.test
	if test == "" {
		test = "Writes"
	}
	kit.Violation(w.rt, "C07", test, w.render(), format, args...)
}

// ctx is the context of the operation under test; everything the harness does on the side
// (read-backs, other clients' writes) uses env.Ctx, which the fault store leaves alone.
func (w *vfC07World) ctx() context.Context {
	if w.opCtx != nil {
		return w.opCtx
	}
	return w.env.Ctx
}

func vfC07IsTimeout(err error) bool { return err != nil && base.IsTimeoutError(err) }

// reconcileDoc: after a write whose outcome is unknown (storage timeout) the bucket decides whether
// it happened. If it did, it counts as a write carrying its sequence (which no other write may get).
func (w *vfC07World) reconcileDoc(label, docID string) {
	sd, err := w.env.Coll.GetDocSyncData(w.env.Ctx, docID)
	if err != nil || sd.Sequence == 0 || sd.Sequence <= w.docSeq["doc:"+docID] {
		w.classes["timeout-not-applied"]++
		return
	}
	w.classes["timeout-applied"]++
	w.acknowledge(fmt.Sprintf("%s(%s) [timed out, applied]=%s", label, docID, sd.GetRevTreeID()), "doc:"+docID, sd.Sequence, sd.UnusedSequences)
	if w.docRev[docID] != "" {
		w.docRevs[docID] = append(w.docRevs[docID], w.docRev[docID])
	}
	w.docRev[docID] = sd.GetRevTreeID()
}

func (w *vfC07World) acknowledge(what string, key string, seq uint64, unused []uint64) {
	if seq == 0 {
		w.fail("%s was acknowledged without a sequence number", what)
	}
	if prev, dup := w.ack[seq]; dup {
		w.fail("%s received sequence %d, which %s already carries", what, seq, prev)
	}
	if prev, dup := w.docUnus[seq]; dup {
		w.fail("%s received sequence %d, which %s lists as unused", what, seq, prev)
	}
	if old := w.docSeq[key]; seq <= old {
		w.fail("%s received sequence %d, not greater than the sequence %d of the version it replaces", what, seq, old)
	}
	w.ack[seq] = what
	w.docSeq[key] = seq
	for _, n := range unused {
		if prev, dup := w.ack[n]; dup {
			w.fail("%s lists %d as an unused sequence, but %s carries it", what, n, prev)
		}
		w.docUnus[n] = what
	}
}

// stored re-reads a document's sync metadata from the bucket (what the feed will see).
func (w *vfC07World) storedDoc(docID string) (seq uint64, unused []uint64) {
	sd, err := w.env.Coll.GetDocSyncData(w.env.Ctx, docID)
	if err != nil {
		w.fail("acknowledged write to %s cannot be read back: %v", docID, err)
	}
	return sd.Sequence, sd.UnusedSequences
}

type vfC07Outcome struct {
	kind string // ok / forbidden / conflict / other
	err  error
}

func vfC07Classify(err error) string {
	if err == nil {
		return "ok"
	}
	status, _ := base.ErrorAsHTTPStatus(err)
	switch status {
	case 403:
		return "forbidden"
	case 409:
		return "conflict"
	case 404:
		return "notfound"
	case 400:
		return "badrequest"
	}
	return "other"
}

// write performs one document write through the public write path and folds the outcome into the
// model. parent "" creates; tombstone deletes.
func (w *vfC07World) write(label, docID, parent string, body Body, tombstone bool) string {
	var newRev string
	var doc *Document
	var err error
	kit.Guard(w.rt, "C07", "Writes", w.render, func() {
		if label == "raced-push" || label == "interloper-same-push" {
			// a replicated revision (new_edits=false): a child of parent with a client-made revision id;
			// with conflicts allowed it is accepted as a branch when parent is no longer a leaf
			rev := vfC07PushRev(w.env.Ctx, docID, parent, body)
			ctx := w.ctx()
			history := []string{rev}
			if parent != "" {
				history = append(history, parent)
			}
			doc, newRev, err = w.env.Coll.PutExistingRevWithBody(ctx, docID, body, history, false, ExistingVersionWithUpdateToHLV)
		} else if tombstone {
			newRev, doc, err = w.env.Coll.DeleteDoc(w.ctx(), docID, DocVersion{RevTreeID: parent})
		} else {
			if parent != "" {
				body[BodyRev] = parent
			}
			newRev, doc, err = w.env.Coll.Put(w.ctx(), docID, body)
		}
	})
	kind := vfC07Classify(err)
	if err == nil && doc == nil {
		// the pushed revision was already known (another client pushed the same revision first): a no-op
		kind = "alreadyknown"
	}
	if vfC07IsTimeout(err) {
		kind = "timeout"
	} else if vs.IsInjected(err) {
		kind = "storageerror"
	}
	w.op("%s(%s,parent=%s)=%s", label, docID, parent, kind)
	w.classes["write-"+kind]++
	if vfC07IsTimeout(err) {
		w.reconcileDoc(label, docID)
	}
	if err != nil || doc == nil {
		return kind
	}
	seq, unused := w.storedDoc(docID)
	if doc != nil && doc.Sequence != seq {
		// the interloper may have written after us only if we ran first; here the acknowledged write is the last one
		w.fail("%s(%s) was acknowledged with sequence %d, the stored document carries %d", label, docID, doc.Sequence, seq)
	}
	w.acknowledge(fmt.Sprintf("%s(%s)=%s", label, docID, newRev), "doc:"+docID, seq, unused)
	if len(unused) > 0 {
		w.classes["write-ok-with-unused-sequences"]++
		w.nontriv = true
	}
	if w.docRev[docID] != "" {
		w.docRevs[docID] = append(w.docRevs[docID], w.docRev[docID])
	}
	w.docRev[docID] = newRev
	return kind
}

func vfC07GenBody(rt *rapid.T, reject bool) Body {
	b := Body{"chan": rapid.SampledFrom([]string{"A", "B", "C"}).Draw(rt, "chan"), "n": rapid.IntRange(0, 1000).Draw(rt, "n")}
	if reject {
		b["reject"] = true
	}
	switch rapid.IntRange(0, 5).Draw(rt, "grant") {
	case 0:
		b["grantUser"] = rapid.SampledFrom([]string{"u1", "u2"}).Draw(rt, "grantUser")
	case 1:
		b["grantRole"] = rapid.SampledFrom([]string{"r1", "r2"}).Draw(rt, "grantRole")
	}
	return b
}

// installInterlopers hooks the compare-and-swap window of document writes: after a write's update
// callback ran (so it has reserved its sequence) and before its compare-and-swap, the next queued
// other-client write for that key is executed.
func (w *vfC07World) installInterlopers() error {
	lds, ok := base.AsLeakyDataStore(w.env.Coll.dataStore)
	if !ok {
		return fmt.Errorf("collection data store is %T, not the leaky wrapper", w.env.Coll.dataStore)
	}
	lds.SetUpdateCallback(func(key string) {
		if len(w.armedFns) > 0 && key == w.armedKey && !w.inInter {
			fn := w.armedFns[0]
			w.armedFns = w.armedFns[1:]
			w.inInter = true // the interloper's own write is not interfered with
			defer func() { w.inInter = false }()
			fn()
		}
	})
	return nil
}

func vfC07NewWorld(tb kit.TB, env *vfEnv) *vfC07World {
	return &vfC07World{rt: tb, env: env, ack: map[uint64]string{}, docUnus: map[uint64]string{}, docSeq: map[string]uint64{}, docRev: map[string]string{},
		docRevs: map[string][]string{}, roles: map[string]string{}, users: map[string]bool{}, classes: map[string]int{}}
}

// account is the quiescence check: every number reserved since the case started is on an
// acknowledged write, in a stored document's unused sequences, or in an unused-sequence document.
func (w *vfC07World) account(when string) {
	if problem := w.accountProblem(when); problem != "" {
		w.fail("%s", problem)
	}
}

func (w *vfC07World) accountProblem(when string) string {
	dbc := w.env.DBC
	kit.Guard(w.rt, "C07", "Writes", w.render, func() { dbc.sequences.releaseUnusedSequences(w.env.Ctx) }) // what the idle timer does
	counter, err := base.GetCounter(w.env.Ctx, dbc.MetadataStore, dbc.MetadataKeys.SyncSeqKey())
	if err != nil {
		panic(kit.InconclusiveErr{Msg: "GetCounter: " + err.Error()})
	}
	u, problem, err := vfC07ReadUnused(w.env.Ctx, dbc.MetadataStore, dbc.MetadataKeys)
	if err != nil {
		panic(kit.InconclusiveErr{Msg: "listing unused-sequence documents: " + err.Error()})
	}
	if problem != "" {
		return fmt.Sprintf("%s: %s", when, problem)
	}
	if last, max := dbc.sequences.vfC07Window(); last != max {
		return fmt.Sprintf("%s: the allocator still holds %d..%d after an idle release", when, last+1, max)
	}
	for n := w.base + 1; n <= counter; n++ {
		single, ranges := u.covers(n)
		published := single || ranges > 0
		switch {
		case w.ack[n] != "" && published:
			return fmt.Sprintf("%s: sequence %d is carried by %s and is also published as unused (unused-sequence documents %s)", when, n, w.ack[n], u)
		case w.ack[n] != "" || published || w.docUnus[n] != "":
		case w.uncertain[n]:
			// reserved by an operation whose storage call timed out: may be stored or absent (the statement's exception)
		default:
			return fmt.Sprintf("%s: sequence %d was reserved (counter=%d) but is neither on an acknowledged write, nor in a document's unused sequences, nor in an unused-sequence document %s — the change feed will wait for it", when, n, counter, u)
		}
	}
	for n, what := range w.ack {
		if n > counter {
			return fmt.Sprintf("%s: %s carries sequence %d, the shared counter is %d", when, what, n, counter)
		}
	}
	return ""
}

func (w *vfC07World) principalSeq(name string, isUser bool) (uint64, bool) {
	a := w.env.DBC.Authenticator(w.env.Ctx)
	if isUser {
		u, err := a.GetUser(name)
		if err != nil || u == nil {
			return 0, false
		}
		return u.Sequence(), true
	}
	r, err := a.GetRoleIncDeleted(name)
	if err != nil || r == nil {
		return 0, false
	}
	return r.Sequence(), true
}

func (w *vfC07World) updatePrincipal(name string, isUser bool, cfg *auth.PrincipalConfig, label string) string {
	key := "role:" + name
	if isUser {
		key = "user:" + name
	}
	before, existed := w.principalSeq(name, isUser)
	var err error
	kit.Guard(w.rt, "C07", "Writes", w.render, func() { _, _, err = w.env.DBC.UpdatePrincipal(w.ctx(), cfg, isUser, true) })
	kind := vfC07Classify(err)
	if vfC07IsTimeout(err) {
		kind = "timeout"
	} else if vs.IsInjected(err) {
		kind = "storageerror"
	}
	w.op("%s=%s", label, kind)
	w.classes["principal-"+kind]++
	if vfC07IsTimeout(err) {
		// outcome unknown: the bucket decides
		if after, ok := w.principalSeq(name, isUser); ok && after != before && after > w.docSeq[key] {
			w.classes["timeout-applied"]++
			w.acknowledge(label+" [timed out, applied]", key, after, nil)
			if isUser {
				w.users[name] = true
			} else {
				w.roles[name] = "live"
			}
		} else {
			w.classes["timeout-not-applied"]++
		}
	}
	if err != nil {
		return kind
	}
	after, ok := w.principalSeq(name, isUser)
	if !ok {
		w.fail("%s succeeded but the principal cannot be read back", label)
	}
	if !existed || after != before {
		w.acknowledge(label, key, after, nil)
	}
	if isUser {
		w.users[name] = true
	} else {
		w.roles[name] = "live"
	}
	return kind
}

func TestVerif_C07_Writes(t *testing.T) {
	rec := kit.New("C07", "Writes")
	defer rec.Flush()
	knownDR := kit.Known("C07", vfC07SigDeleteRole)
	knownUP := kit.Known("C07", vfC07SigUpdatePrincipal)
	knownRU := kit.Known("C07", vfC07SigRetryUnused)
	oldFreq := MaxSequenceIncrFrequency
	defer func() { MaxSequenceIncrFrequency = oldFreq }()
	rapid.Check(t, func(rt *rapid.T) {
		growth := rapid.SampledFrom([]bool{true, false, true}).Draw(rt, "batchGrowth")
		MaxSequenceIncrFrequency = 0
		if growth {
			MaxSequenceIncrFrequency = time.Hour
		}
		allowConflicts := rapid.Bool().Draw(rt, "allowConflicts")
		defaultColl := rapid.Bool().Draw(rt, "defaultCollection")
		// ---------------------------------------------------------------------------------------
		// Storage errors, CAS-mismatch errors and timeouts at the storage operations of a write are
		// injected by TestVerif_C07_WritesFault (fault store, job "writesfault"). This test keeps the
		// fault-free outcomes; the only interference generated in the compare-and-swap window here is
		// another client's complete write (LeakyBucket UpdateCallback, the repository's own test
		// double), which yields the retried / conflicted-after-reserve outcomes.
		// ---------------------------------------------------------------------------------------
		env, err := vfOpen(t, vfDBConfig{SyncFn: vfC07SyncFn, DefaultCollection: defaultColl,
			Mutate:     func(o *DatabaseContextOptions) { o.AllowConflicts = base.Ptr(allowConflicts) },
			WrapBucket: func(b base.Bucket) base.Bucket { return base.NewLeakyBucket(b, base.LeakyBucketConfig{}) }})
		if err != nil {
			rec.Inconclusive()
			kit.InconclusiveLine("C07", "open database: %v", err)
			rt.Skip()
		}
		defer env.Close()
		vfC07ParkTimer(env.DBC.sequences)
		w := vfC07NewWorld(rt, env)
		defer func() {
			if x := recover(); x != nil {
				if ie, ok := x.(kit.InconclusiveErr); ok {
					rec.Inconclusive()
					kit.InconclusiveLine("C07", "%s", ie.Msg)
					rt.Skip()
				}
				panic(x)
			}
		}()
		if err := w.installInterlopers(); err != nil {
			panic(kit.InconclusiveErr{Msg: err.Error()})
		}
		w.op("config(batchGrowth=%v,allowConflicts=%v,defaultCollection=%v)", growth, allowConflicts, defaultColl)
		// numbers reserved while the database opened are not part of the case
		env.DBC.sequences.releaseUnusedSequences(env.Ctx)
		w.base, err = base.GetCounter(env.Ctx, env.DBC.MetadataStore, env.DBC.MetadataKeys.SyncSeqKey())
		if err != nil {
			panic(kit.InconclusiveErr{Msg: "GetCounter: " + err.Error()})
		}

		docIDs := []string{"d1", "d2", "d3"}
		parentOf := func(docID string) string {
			cur := w.docRev[docID]
			if cur != "" && len(w.docRevs[docID]) > 0 && rapid.IntRange(0, 4).Draw(rt, "staleParent") == 0 {
				return rapid.SampledFrom(w.docRevs[docID]).Draw(rt, "parent")
			}
			return cur
		}
		plainWrite := func(rt *rapid.T) {
			docID := rapid.SampledFrom(docIDs).Draw(rt, "doc")
			parent := parentOf(docID)
			tomb := parent != "" && rapid.IntRange(0, 5).Draw(rt, "delete") == 0
			reject := !tomb && rapid.IntRange(0, 5).Draw(rt, "reject") == 0
			label := "put"
			if tomb {
				label = "delete"
			}
			w.write(label, docID, parent, vfC07GenBody(rt, reject), tomb)
		}
		racedWrite := func(rt *rapid.T) {
			// other clients' complete writes land between this write's read and its compare-and-swap
			// (one per attempt): the write has reserved a sequence each time it loses the race
			docID := rapid.SampledFrom(docIDs).Draw(rt, "doc")
			parent := w.docRev[docID]
			body := vfC07GenBody(rt, false)
			label := "raced-put"
			if allowConflicts && rapid.Bool().Draw(rt, "asPush") {
				label = "raced-push"
			}
			nInter := rapid.IntRange(1, 2).Draw(rt, "interlopers")
			var innerKinds []string
			w.armedKey = docID
			for k := 0; k < nInter; k++ {
				inner := vfC07GenBody(rt, false)
				samePush := label == "raced-push" && rapid.IntRange(0, 2).Draw(rt, "sameRevision") == 0
				if samePush && k == 1 && knownRU {
					// third attempt cancelled after two reservations: the listed finding
					rec.Excluded(vfC07SigRetryUnused)
					samePush = false
				}
				w.armedFns = append(w.armedFns, func() {
					w.op("  [in a CAS window of the next write]")
					if samePush {
						// another replicator delivers the very same revision first
						innerKinds = append(innerKinds, "same:"+w.write("interloper-same-push", docID, parent, body, false))
					} else {
						innerKinds = append(innerKinds, w.write("interloper-put", docID, w.docRev[docID], inner, false))
					}
				})
			}
			kind := w.write(label, docID, parent, body, false)
			w.armedFns = nil
			w.classes[label+"-"+kind+"-after-"+strings.Join(innerKinds, "+")]++
			for _, ik := range innerKinds {
				if strings.HasSuffix(ik, "ok") {
					// the outer write had reserved a sequence before its compare-and-swap failed
					w.nontriv = true
				}
			}
		}
		principal := func(rt *rapid.T) {
			isUser := rapid.Bool().Draw(rt, "isUser")
			name := rapid.SampledFrom([]string{"r1", "r2"}).Draw(rt, "role")
			if isUser {
				name = rapid.SampledFrom([]string{"u1", "u2"}).Draw(rt, "user")
			}
			cfg := &auth.PrincipalConfig{Name: base.Ptr(name)}
			var chans []string
			for i, n := 0, rapid.IntRange(0, 2).Draw(rt, "nchan"); i < n; i++ {
				chans = append(chans, rapid.SampledFrom([]string{"A", "B", "C", "D"}).Draw(rt, "chan"))
			}
			bad := rapid.IntRange(0, 5).Draw(rt, "invalidName") == 0
			if bad && knownUP {
				rec.Excluded(vfC07SigUpdatePrincipal)
				bad = false
			}
			if bad {
				// rejected by the principal's validation inside Save, after the sequence was reserved
				chans = append(chans, "x,y")
				w.classes["principal-update-with-invalid-channel"]++
				w.nontriv = true
			}
			cfg.ExplicitChannels = base.SetFromArray(chans)
			if isUser {
				if !w.users[name] {
					cfg.Password = base.Ptr("password-" + name)
				}
				if rapid.Bool().Draw(rt, "setRoles") {
					cfg.ExplicitRoleNames = base.SetFromArray([]string{rapid.SampledFrom([]string{"r1", "r2"}).Draw(rt, "adminRole")})
				}
				if rapid.IntRange(0, 3).Draw(rt, "toggleDisabled") == 0 {
					cfg.Disabled = base.Ptr(rapid.Bool().Draw(rt, "disabled"))
				}
			}
			kind := "role"
			if isUser {
				kind = "user"
			}
			w.updatePrincipal(name, isUser, cfg, fmt.Sprintf("update-%s(%s,chans=%s)", kind, name, vfJoin(chans)))
		}
		deleteRole := func(rt *rapid.T) {
			name := rapid.SampledFrom([]string{"r1", "r2"}).Draw(rt, "role")
			purge := rapid.Bool().Draw(rt, "purge")
			state := w.roles[name]
			if purge && state == "live" && knownDR {
				rec.Excluded(vfC07SigDeleteRole)
				purge = false
			}
			var err error
			kit.Guard(rt, "C07", "Writes", w.render, func() { err = env.DBC.DeleteRole(env.Ctx, name, purge) })
			kind := vfC07Classify(err)
			w.op("delete-role(%s,purge=%v,was=%s)=%s", name, purge, state, kind)
			w.classes[fmt.Sprintf("delete-role-purge=%v-%s", purge, kind)]++
			if err != nil {
				return
			}
			if purge {
				w.roles[name] = "purged"
				delete(w.docSeq, "role:"+name)
				if state == "live" {
					w.nontriv = true // a sequence was reserved and the role document removed
				}
				return
			}
			seq, ok := w.principalSeq(name, false)
			if !ok {
				w.fail("delete-role(%s) succeeded but the deleted role cannot be read back", name)
			}
			w.acknowledge(fmt.Sprintf("delete-role(%s)", name), "role:"+name, seq, nil)
			w.roles[name] = "deleted"
		}
		rt.Repeat(map[string]func(*rapid.T){
			"write": plainWrite, "write2": plainWrite, "write3": plainWrite,
			"raced": racedWrite, "raced2": racedWrite,
			"principal": principal, "principal2": principal,
			"deleterole": deleteRole,
			"quiesce": func(rt *rapid.T) {
				w.op("quiesce")
				w.account("at quiescence")
			},
		})
		w.op("quiesce")
		w.account("at the end")
		for _, k := range vfSortedKeys(w.classes) {
			rec.Class(k, int64(w.classes[k]))
		}
		rec.Case(w.render(), w.nontriv, fmt.Sprintf("batchGrowth=%v", growth), fmt.Sprintf("allowConflicts=%v", allowConflicts), fmt.Sprintf("defaultCollection=%v", defaultColl))
	})
}

// TestVerif_C07_KnownFindings replays the minimal reproduction of each listed finding through the
// real API and prints KNOWN-FINDING while it still reproduces.
func TestVerif_C07_KnownFindings(t *testing.T) {
	rec := kit.New("C07", "KnownFindings")
	defer rec.Flush()
	replay := func(sig, render string, setup, act func(env *vfEnv) error) {
		restore := SuspendSequenceBatching()
		defer restore()
		env, err := vfOpen(t, vfDBConfig{SyncFn: vfC07SyncFn, DefaultCollection: true})
		if err != nil {
			kit.InconclusiveLine("C07", "open database: %v", err)
			return
		}
		defer env.Close()
		vfC07ParkTimer(env.DBC.sequences)
		if err := setup(env); err != nil {
			kit.InconclusiveLine("C07", "replay setup: %v", err)
			return
		}
		env.DBC.sequences.releaseUnusedSequences(env.Ctx)
		before, _ := base.GetCounter(env.Ctx, env.DBC.MetadataStore, env.DBC.MetadataKeys.SyncSeqKey())
		actErr := act(env)
		env.DBC.sequences.releaseUnusedSequences(env.Ctx)
		after, _ := base.GetCounter(env.Ctx, env.DBC.MetadataStore, env.DBC.MetadataKeys.SyncSeqKey())
		u, _, err := vfC07ReadUnused(env.Ctx, env.DBC.MetadataStore, env.DBC.MetadataKeys)
		if err != nil {
			kit.InconclusiveLine("C07", "listing unused-sequence documents: %v", err)
			return
		}
		rec.Case(render, false, "regression-replays")
		var lost []string
		stored := map[uint64]bool{}
		a := env.DBC.Authenticator(env.Ctx)
		for _, name := range []string{"r1"} {
			if r, _ := a.GetRoleIncDeleted(name); r != nil {
				stored[r.Sequence()] = true
			}
		}
		if usr, _ := a.GetUser("u1"); usr != nil {
			stored[usr.Sequence()] = true
		}
		for n := before + 1; n <= after; n++ {
			single, ranges := u.covers(n)
			if !single && ranges == 0 && !stored[n] {
				lost = append(lost, strconv.FormatUint(n, 10))
			}
		}
		if len(lost) == 0 {
			return
		}
		what := fmt.Sprintf("%s (result: %v): sequence %s was reserved (counter %d -> %d) but is neither stored on a principal nor published as unused %s", render, actErr, strings.Join(lost, ","), before, after, u)
		if kit.Known("C07", sig) {
			kit.KnownFinding("C07", sig, what)
			return
		}
		kit.Violation(t, "C07", "KnownFindings", render, "%s", what)
	}
	func() {
		render := "allow_conflicts; push(d1, rev R) loses its compare-and-swap to put(d1), retries (second sequence), loses to another push of R, third attempt: revision already known"
		restore := SuspendSequenceBatching()
		defer restore()
		env, err := vfOpen(t, vfDBConfig{SyncFn: vfC07SyncFn, DefaultCollection: true,
			Mutate:     func(o *DatabaseContextOptions) { o.AllowConflicts = base.Ptr(true) },
			WrapBucket: func(b base.Bucket) base.Bucket { return base.NewLeakyBucket(b, base.LeakyBucketConfig{}) }})
		if err != nil {
			kit.InconclusiveLine("C07", "open database: %v", err)
			return
		}
		defer env.Close()
		vfC07ParkTimer(env.DBC.sequences)
		w := vfC07NewWorld(t, env)
		if err := w.installInterlopers(); err != nil {
			kit.InconclusiveLine("C07", "%v", err)
			return
		}
		env.DBC.sequences.releaseUnusedSequences(env.Ctx)
		w.base, _ = base.GetCounter(env.Ctx, env.DBC.MetadataStore, env.DBC.MetadataKeys.SyncSeqKey())
		body := Body{"chan": "A", "n": 1}
		w.armedKey = "d1"
		w.armedFns = []func(){
			func() { w.write("interloper-put", "d1", "", Body{"chan": "A", "n": 2}, false) },
			func() { w.write("interloper-same-push", "d1", "", body, false) },
		}
		w.write("raced-push", "d1", "", body, false)
		w.armedFns = nil
		rec.Case(render, false, "regression-replays")
		if problem := w.accountProblem("after the write returned"); problem != "" {
			if kit.Known("C07", vfC07SigRetryUnused) {
				kit.KnownFinding("C07", vfC07SigRetryUnused, render+": "+problem)
				return
			}
			kit.Violation(t, "C07", "KnownFindings", w.render(), "%s", problem)
		}
	}()
	mkRole := func(env *vfEnv) error {
		_, _, err := env.DBC.UpdatePrincipal(env.Ctx, &auth.PrincipalConfig{Name: base.Ptr("r1"), ExplicitChannels: base.SetOf("A")}, false, true)
		return err
	}
	replay(vfC07SigDeleteRole, "update-role(r1,[A]); DatabaseContext.DeleteRole(r1, purge=true)", mkRole,
		func(env *vfEnv) error { return env.DBC.DeleteRole(env.Ctx, "r1", true) })
	replay(vfC07SigUpdatePrincipal, `update-role(r1,[A]); UpdatePrincipal(role r1, admin_channels ["x,y"]) -> 400 from Save`, mkRole,
		func(env *vfEnv) error {
			_, _, err := env.DBC.UpdatePrincipal(env.Ctx, &auth.PrincipalConfig{Name: base.Ptr("r1"), ExplicitChannels: base.SetOf("x,y")}, false, true)
			return err
		})
}

// ---------------------------------------------------------------------------------------------
// write level with generated storage outcomes (fault store)

// TestVerif_C07_WritesFault: the same accounting oracle as TestVerif_C07_Writes, with a generated
// fault plan armed for one operation at a time: at the k-th marked storage operation on the key of
// the document / principal under test the store fails before applying (generic error), reports a
// CAS mismatch, times out without applying, or applies and then times out; optionally another
// client's complete write runs in the same read -> compare-and-swap window. Numbers reserved by an
// operation in which a storage timeout fired are exempt from "must be accounted" (the statement's
// exception) but still must not be handed to a second write.
func TestVerif_C07_WritesFault(t *testing.T) {
	rec := kit.New("C07", "WritesFault")
	defer rec.Flush()
	knownUP := kit.Known("C07", vfC07SigUpdatePrincipal)
	oldFreq := MaxSequenceIncrFrequency
	defer func() { MaxSequenceIncrFrequency = oldFreq }()
	rapid.Check(t, func(rt *rapid.T) {
		growth := rapid.SampledFrom([]bool{true, false, true}).Draw(rt, "batchGrowth")
		MaxSequenceIncrFrequency = 0
		if growth {
			MaxSequenceIncrFrequency = time.Hour
		}
		allowConflicts := rapid.Bool().Draw(rt, "allowConflicts")
		defaultColl := rapid.Bool().Draw(rt, "defaultCollection")
		var wb *vs.Bucket
		env, err := vfOpen(t, vfDBConfig{SyncFn: vfC07SyncFn, DefaultCollection: defaultColl,
			Mutate:     func(o *DatabaseContextOptions) { o.AllowConflicts = base.Ptr(allowConflicts) },
			WrapBucket: func(b base.Bucket) base.Bucket { wb = vs.Wrap(b); return wb }})
		if err != nil {
			rec.Inconclusive()
			kit.InconclusiveLine("C07", "open database: %v", err)
			rt.Skip()
		}
		defer env.Close()
		vfC07ParkTimer(env.DBC.sequences)
		w := vfC07NewWorld(rt, env)
		w.test = "WritesFault"
		w.uncertain = map[uint64]bool{}
		defer func() {
			if x := recover(); x != nil {
				if ie, ok := x.(kit.InconclusiveErr); ok {
					rec.Inconclusive()
					kit.InconclusiveLine("C07", "%s", ie.Msg)
					rt.Skip()
				}
				panic(x)
			}
		}()
		w.op("config(batchGrowth=%v,allowConflicts=%v,defaultCollection=%v)", growth, allowConflicts, defaultColl)
		env.DBC.sequences.releaseUnusedSequences(env.Ctx)
		w.base, err = base.GetCounter(env.Ctx, env.DBC.MetadataStore, env.DBC.MetadataKeys.SyncSeqKey())
		if err != nil {
			panic(kit.InconclusiveErr{Msg: "GetCounter: " + err.Error()})
		}
		marked := vs.Mark(env.Ctx)
		authn := env.DBC.Authenticator(env.Ctx)
		docIDs := []string{"d1", "d2"}

		// faulted arms a generated plan addressed at the storage operations on key, runs the
		// operation under test with the marked context and folds what the trace shows into the model.
		faulted := func(rt *rapid.T, key string, failBeforeOnlyOnReads bool, interloper func()) {
			var rules []vs.Rule
			var desc []string
			for k, n := 0, rapid.IntRange(1, 2).Draw(rt, "faults"); k < n; k++ {
				r := vs.Rule{Key: key, Nth: rapid.SampledFrom([]int{1, 2, 2, 2, 3, 4, 4, 5}).Draw(rt, "nth")}
				r.Fault.Action = rapid.SampledFrom([]vs.Action{vs.FailBefore, vs.FailCas, vs.FailCas, vs.TimeoutBefore, vs.TimeoutAfter, vs.Pass}).Draw(rt, "action")
				if r.Fault.Action == vs.FailBefore && failBeforeOnlyOnReads {
					// a generic error from a principal's Save is the listed finding; keep generic errors on its reads
					rec.Excluded(vfC07SigUpdatePrincipal)
					r.Type = vs.OpGetRaw
				}
				hook := ""
				if interloper != nil && (r.Fault.Action == vs.Pass || rapid.IntRange(0, 2).Draw(rt, "withInterloper") == 0) {
					r.Fault.Hook = interloper
					hook = "+other-client-write"
				}
				rules = append(rules, r)
				desc = append(desc, fmt.Sprintf("op#%d%s:%s%s", r.Nth, map[bool]string{true: "(" + string(r.Type) + ")", false: ""}[r.Type != ""], r.Fault.Action, hook))
			}
			w.op("arm[%s on %s]", strings.Join(desc, ","), key)
			wb.Arm(&vs.Plan{Rules: rules})
			w.opCtx = marked
		}
		// settle is called right after the operation under test returned
		settle := func(lastBefore uint64) {
			w.opCtx = nil
			trace := wb.MarkedTrace()
			wb.Disarm()
			timeoutFired, anyFault := false, false
			for _, o := range trace {
				if o.Hooked {
					w.classes["fault:other-client-write@"+string(o.Type)]++
				}
				if o.Action == vs.Pass || o.Ignored {
					continue
				}
				anyFault = true
				w.classes["fault:"+o.Action.String()+"@"+string(o.Type)+map[bool]string{true: "/" + o.Via, false: ""}[o.Via != ""]]++
				if o.Action == vs.TimeoutBefore || o.Action == vs.TimeoutAfter {
					timeoutFired = true
				}
			}
			lastAfter, _ := env.DBC.sequences.vfC07Window()
			if anyFault && lastAfter > lastBefore {
				w.nontriv = true
				w.classes["faulted-operation-had-reserved-a-sequence"]++
			}
			if timeoutFired {
				for n := lastBefore + 1; n <= lastAfter; n++ {
					w.uncertain[n] = true
				}
			}
			if !anyFault {
				w.classes["fault-not-reached"]++
			}
		}
		lastNow := func() uint64 { l, _ := env.DBC.sequences.vfC07Window(); return l }

		docWrite := func(rt *rapid.T) {
			docID := rapid.SampledFrom(docIDs).Draw(rt, "doc")
			parent := w.docRev[docID]
			if parent != "" && len(w.docRevs[docID]) > 0 && rapid.IntRange(0, 5).Draw(rt, "staleParent") == 0 {
				parent = rapid.SampledFrom(w.docRevs[docID]).Draw(rt, "parent")
			}
			tomb := parent != "" && rapid.IntRange(0, 5).Draw(rt, "delete") == 0
			body := vfC07GenBody(rt, !tomb && rapid.IntRange(0, 7).Draw(rt, "reject") == 0)
			label := "put"
			switch {
			case tomb:
				label = "delete"
			case allowConflicts && rapid.Bool().Draw(rt, "asPush"):
				label = "raced-push"
			}
			inner := vfC07GenBody(rt, false)
			interloper := func() {
				ctx := w.opCtx
				w.opCtx = nil
				w.op("  [another client, inside the window]")
				w.write("interloper-put", docID, w.docRev[docID], inner, false)
				w.opCtx = ctx
			}
			faulted(rt, docID, false, interloper)
			before := lastNow()
			kind := w.write(label, docID, parent, body, tomb)
			settle(before)
			if kind == "ok" || kind == "alreadyknown" {
				return
			}
			// whatever the outcome was reported as, a storage timeout may have left the write applied
			w.reconcileIfApplied(label, docID)
		}
		principal := func(rt *rapid.T) {
			isUser := rapid.Bool().Draw(rt, "isUser")
			name := rapid.SampledFrom([]string{"r1", "r2"}).Draw(rt, "role")
			key := authn.DocIDForRole(name)
			if isUser {
				name = rapid.SampledFrom([]string{"u1", "u2"}).Draw(rt, "user")
				key = authn.DocIDForUser(name)
			}
			cfg := &auth.PrincipalConfig{Name: base.Ptr(name)}
			var chans []string
			for i, n := 0, rapid.IntRange(0, 2).Draw(rt, "nchan"); i < n; i++ {
				chans = append(chans, rapid.SampledFrom([]string{"A", "B", "C", "D"}).Draw(rt, "chan"))
			}
			cfg.ExplicitChannels = base.SetFromArray(chans)
			if isUser {
				if !w.users[name] {
					cfg.Password = base.Ptr("password-" + name)
				}
				if rapid.Bool().Draw(rt, "setRoles") {
					cfg.ExplicitRoleNames = base.SetFromArray([]string{rapid.SampledFrom([]string{"r1", "r2"}).Draw(rt, "adminRole")})
				}
			}
			kind := "role"
			if isUser {
				kind = "user"
			}
			// another admin updating the same principal inside the window makes the CAS mismatch real
			other := &auth.PrincipalConfig{Name: base.Ptr(name), ExplicitChannels: base.SetOf(fmt.Sprintf("other%d", len(w.ops)))}
			if isUser && !w.users[name] {
				other.Password = base.Ptr("password-" + name)
			}
			interloper := func() {
				ctx := w.opCtx
				w.opCtx = nil
				w.op("  [another admin, inside the window]")
				w.updatePrincipal(name, isUser, other, fmt.Sprintf("interloper-update-%s(%s)", kind, name))
				w.opCtx = ctx
			}
			faulted(rt, key, knownUP, interloper)
			before := lastNow()
			w.updatePrincipal(name, isUser, cfg, fmt.Sprintf("update-%s(%s,chans=%s)", kind, name, vfJoin(chans)))
			settle(before)
		}
		deleteRole := func(rt *rapid.T) {
			name := rapid.SampledFrom([]string{"r1", "r2"}).Draw(rt, "role")
			purge := rapid.IntRange(0, 3).Draw(rt, "purge") == 0
			state := w.roles[name]
			seqBefore, _ := w.principalSeq(name, false)
			faulted(rt, authn.DocIDForRole(name), false, nil)
			before := lastNow()
			var err error
			kit.Guard(rt, "C07", "WritesFault", w.render, func() { err = env.DBC.DeleteRole(w.ctx(), name, purge) })
			settle(before)
			kind := vfC07Classify(err)
			if vfC07IsTimeout(err) {
				kind = "timeout"
			} else if vs.IsInjected(err) {
				kind = "storageerror"
			}
			w.op("delete-role(%s,purge=%v,was=%s)=%s", name, purge, state, kind)
			w.classes[fmt.Sprintf("delete-role-purge=%v-%s", purge, kind)]++
			r, _ := authn.GetRoleIncDeleted(name)
			switch {
			case r == nil:
				if state != "" {
					w.roles[name] = "purged"
					delete(w.docSeq, "role:"+name)
				}
			case r.IsDeleted() && r.Sequence() != seqBefore:
				// the delete is stored (acknowledged, or applied before a timeout)
				w.acknowledge(fmt.Sprintf("delete-role(%s)=%s", name, kind), "role:"+name, r.Sequence(), nil)
				w.roles[name] = "deleted"
			case err == nil && !purge && state == "live":
				w.fail("delete-role(%s) succeeded but the stored role is not marked deleted with a new sequence", name)
			}
		}
		plain := func(rt *rapid.T) {
			// fault-free traffic in between
			docID := rapid.SampledFrom(docIDs).Draw(rt, "doc")
			w.write("put", docID, w.docRev[docID], vfC07GenBody(rt, false), false)
		}
		rt.Repeat(map[string]func(*rapid.T){
			"docwrite": docWrite, "docwrite2": docWrite, "docwrite3": docWrite,
			"principal": principal, "principal2": principal,
			"deleterole": deleteRole,
			"plain":      plain,
			"quiesce": func(rt *rapid.T) {
				w.op("quiesce")
				w.account("at quiescence")
			},
		})
		w.op("quiesce")
		w.account("at the end")
		for _, k := range vfSortedKeys(w.classes) {
			rec.Class(k, int64(w.classes[k]))
		}
		rec.Case(w.render(), w.nontriv, fmt.Sprintf("batchGrowth=%v", growth), fmt.Sprintf("allowConflicts=%v", allowConflicts), fmt.Sprintf("defaultCollection=%v", defaultColl))
	})
}

// reconcileIfApplied: see reconcileDoc; used when the reported outcome was not recognisably a timeout.
func (w *vfC07World) reconcileIfApplied(label, docID string) {
	sd, err := w.env.Coll.GetDocSyncData(w.env.Ctx, docID)
	if err != nil || sd.Sequence == 0 || sd.Sequence <= w.docSeq["doc:"+docID] {
		return
	}
	if !w.uncertain[sd.Sequence] {
		w.fail("%s(%s) reported a failure (no storage timeout involved) but the bucket holds a new revision %s with sequence %d", label, docID, sd.GetRevTreeID(), sd.Sequence)
	}
	w.reconcileDoc(label, docID)
}
