package db

// C08 — concurrent-delivery variant and system clause. Overlay only; never part of /repo.

import (
	"fmt"
	"sort"
	"strings"
	"sync"
	"testing"
	"time"

	"github.com/couchbase/sync_gateway/base"
	"github.com/couchbase/sync_gateway/channels"
	kit "github.com/couchbase/sync_gateway/verifkit"
	"pgregory.net/rapid"
)

// ---------------------------------------------------------------------------------------------
// concurrent delivery from several feed workers (thorough tier, -race build)

type vfC08Item struct {
	note int
	ts   channels.FeedTimestamp
	dup  bool
}

// TestVerif_C08_Concurrent: three feed workers deliver disjoint parts of a window (plus duplicates)
// concurrently while a fourth goroutine fires the timer and lets time pass. The schedule is not
// controlled; the oracle is order-independent: the delivery log (appended under the cache lock) must
// be a legal one, and the final state must satisfy the same invariants as in the sequential checks.
func TestVerif_C08_Concurrent(t *testing.T) {
	rec := kit.New("C08", "Concurrent")
	defer rec.Flush()
	env, closeEnv := vfC08OpenEnv(t)
	defer closeEnv()
	rapid.Check(t, func(rt *rapid.T) {
		initial := rapid.SampledFrom([]uint64{0, 3, 500}).Draw(rt, "initial")
		notes := vfC08GenNotes(rt, initial, 12)
		maxNum := rapid.SampledFrom([]int{0, 1, 2, 5, DefaultCachePendingSeqMaxNum}).Draw(rt, "maxPending")
		const workers = 3
		plans := make([][]vfC08Item, workers)
		var assigned uint64
		var desc []string
		for i := range notes {
			if rapid.IntRange(0, 7).Draw(rt, "never") == 0 {
				continue // never arrives: must end up skipped if anything later arrives
			}
			ts := vfC08Fresh
			if rapid.IntRange(0, 3).Draw(rt, "overdue") == 0 {
				ts = vfC08Overdue
			}
			w := rapid.IntRange(0, workers-1).Draw(rt, "worker")
			plans[w] = append(plans[w], vfC08Item{note: i, ts: ts})
			assigned |= 1 << uint(i)
			if rapid.IntRange(0, 4).Draw(rt, "dup") == 0 {
				w2 := rapid.IntRange(0, workers-1).Draw(rt, "dupWorker")
				plans[w2] = append(plans[w2], vfC08Item{note: i, ts: ts, dup: true})
			}
		}
		for w := range plans {
			plans[w] = rapid.Permutation(plans[w]).Draw(rt, fmt.Sprintf("order%d", w))
			var parts []string
			for _, it := range plans[w] {
				age := ""
				if it.ts == vfC08Overdue {
					age = ",overdue"
				}
				parts = append(parts, notes[it.note].String()+age)
			}
			desc = append(desc, fmt.Sprintf("worker%d=[%s]", w, strings.Join(parts, " ")))
		}
		ticks := rapid.IntRange(0, 6).Draw(rt, "ticks")
		render := fmt.Sprintf("initial=%d window=[%s] maxPending=%s %s timerTicks=%d (concurrent)", initial, vfC08LayoutString(notes), vfC08MaxNumString(maxNum), strings.Join(desc, " "), ticks)

		r := &vfC08Rec{}
		c, err := vfC08NewCache(env, r, initial, maxNum)
		if err != nil {
			rec.Inconclusive()
			kit.InconclusiveLine("C08", "cannot start change cache: %v", err)
			rt.Skip()
		}
		defer c.Stop(env.ctx)
		s := vfC08NewSim(env, c, r, initial, notes)

		start := make(chan struct{})
		var wg sync.WaitGroup
		panics := make(chan any, workers+1)
		run := func(f func()) {
			wg.Add(1)
			go func() {
				defer wg.Done()
				defer func() {
					if p := recover(); p != nil {
						panics <- p
					}
				}()
				<-start
				f()
			}()
		}
		for w := range plans {
			plan := plans[w]
			run(func() {
				for _, it := range plan {
					s.deliver(it.note, it.ts)
				}
			})
		}
		run(func() {
			for i := 0; i < ticks; i++ {
				if i%2 == 1 {
					s.ageAll()
				}
				s.tickNow()
			}
		})
		close(start)
		done := make(chan struct{})
		go func() { wg.Wait(); close(done) }()
		select {
		case <-done:
		case <-time.After(vfWaitBound):
			rec.Inconclusive()
			kit.InconclusiveLine("C08", "concurrent deliveries did not finish within %v", vfWaitBound)
			rt.Skip()
		}
		select {
		case p := <-panics:
			kit.Violation(rt, "C08", "Concurrent", render, "panic in the change cache: %v", p)
		default:
		}

		// judge the delivery log: late <=> the sequence lies below something already delivered regularly
		s.arrived = assigned
		log := r.drain()
		lateSeen := 0
		for _, d := range log {
			if d.skipped {
				lateSeen++
			}
		}
		if bad := s.judgeDeliveries(log, func(d vfC08Delivery, ni int) bool { return d.seq < s.lastNonLate }); bad != "" {
			kit.Violation(rt, "C08", "Concurrent", render, "%s", bad)
		}
		if bad := s.judgeState(initial); bad != "" {
			kit.Violation(rt, "C08", "Concurrent", render, "%s", bad)
		}
		if bad := s.flushProbe(); bad != "" {
			kit.Violation(rt, "C08", "Concurrent", render, "%s", bad)
		}
		classes := []string{"maxPending=" + vfC08MaxNumString(maxNum)}
		if lateSeen > 0 {
			classes = append(classes, "late_arrival")
		}
		if s.c.skippedSeqs.list.GetLength() > 0 {
			classes = append(classes, "ends_with_skipped_sequences")
		}
		rec.Case(render, lateSeen > 0, classes...)
	})
}

// ---------------------------------------------------------------------------------------------
// system clause: a real database, a real slow writer, the real changes feed

type vfC08Gate struct {
	mu      sync.Mutex
	hold    map[string]chan struct{}
	entered chan string
}

func (g *vfC08Gate) callback(key string) {
	g.mu.Lock()
	ch := g.hold[key]
	delete(g.hold, key) // first pass only: a retry of the same write is not held again
	g.mu.Unlock()
	if ch != nil {
		g.entered <- key
		<-ch
	}
}

func vfC08WaitFor(what string, cond func() bool) error {
	deadline := time.Now().Add(vfWaitBound)
	for !cond() {
		if time.Now().After(deadline) {
			return kit.InconclusiveErr{Msg: what + " did not happen within " + vfWaitBound.String()}
		}
		time.Sleep(time.Millisecond)
	}
	return nil
}

func vfC08RowIDs(rows []*ChangeEntry) (ids []string, render string) {
	var parts []string
	for _, r := range rows {
		ids = append(ids, r.ID)
		parts = append(parts, fmt.Sprintf("%s@%s", r.ID, r.Seq.String()))
	}
	return ids, "[" + strings.Join(parts, " ") + "]"
}

const vfC08SigGapAtSeq1 = "gap-at-sequence-1"

// vfC08RegressGapAtSequence1 executes the minimal reproduction of the listed finding directly (no
// library): sequence 1 held by a slow writer, sequences 2 and 3 written, 1 skipped. While the entry
// is listed and the shape still fails it prints the KNOWN-FINDING line; the generated search decides
// (as a VIOLATION) when the entry is not listed.
func vfC08RegressGapAtSequence1(t *testing.T) {
	gate := &vfC08Gate{hold: map[string]chan struct{}{}, entered: make(chan string, 1)}
	env, err := vfOpen(t, vfDBConfig{
		WrapBucket: func(b base.Bucket) base.Bucket {
			return base.NewLeakyBucket(b, base.LeakyBucketConfig{UpdateCallback: gate.callback})
		},
		Mutate: func(o *DatabaseContextOptions) { o.CacheOptions.CachePendingSeqMaxNum = 1 },
	})
	if err != nil {
		kit.InconclusiveLine("C08", "regression: %v", err)
		return
	}
	hold := make(chan struct{})
	var once sync.Once
	release := func() { once.Do(func() { close(hold) }) }
	defer env.Close()
	defer release()
	gate.mu.Lock()
	gate.hold["w1"] = hold
	gate.mu.Unlock()
	done := make(chan error, 1)
	go func() {
		_, _, err := env.Coll.Put(env.Ctx, "w1", Body{"channels": []any{"A"}})
		done <- err
	}()
	select {
	case <-gate.entered:
	case <-time.After(vfWaitBound):
		kit.InconclusiveLine("C08", "regression: slow writer did not reach the storage write")
		return
	}
	var last uint64
	for _, id := range []string{"d2", "d3"} {
		_, doc, err := env.Coll.Put(env.Ctx, id, Body{"channels": []any{"A"}})
		if err != nil {
			kit.InconclusiveLine("C08", "regression: put %s: %v", id, err)
			return
		}
		last = doc.Sequence
	}
	if last != 3 {
		kit.InconclusiveLine("C08", "regression: expected the third write to get sequence 3, got %d", last)
		return
	}
	if err := env.WaitSeq(last); err != nil {
		kit.InconclusiveLine("C08", "regression: %v", err)
		return
	}
	rows, err := vfChanges(env.Ctx, env.Coll, []string{"A"}, ChangesOptions{})
	if err != nil || len(rows) == 0 {
		kit.InconclusiveLine("C08", "regression: changes: %v (%d rows)", err, len(rows))
		return
	}
	tok := rows[0].Seq
	release()
	select {
	case <-done:
	case <-time.After(vfWaitBound):
		kit.InconclusiveLine("C08", "regression: slow writer did not finish")
		return
	}
	if err := vfC08WaitFor("late arrival of #1", func() bool { return !env.DBC.changeCache.WasSkipped(1) }); err != nil {
		kit.InconclusiveLine("C08", "regression: %v", err)
		return
	}
	rows2, err := vfChanges(env.Ctx, env.Coll, []string{"A"}, ChangesOptions{Since: SequenceID{Seq: tok.SafeSequence()}})
	if err != nil {
		kit.InconclusiveLine("C08", "regression: changes: %v", err)
		return
	}
	ids, r2 := vfC08RowIDs(rows2)
	found := false
	for _, id := range ids {
		if id == "w1" {
			found = true
		}
	}
	reproduces := tok.SafeSequence() != 0 && !found
	switch {
	case reproduces && kit.Known("C08", vfC08SigGapAtSeq1):
		kit.KnownFinding("C08", vfC08SigGapAtSeq1, fmt.Sprintf("sequence 1 skipped; first row token %s resumes at %d; resuming there returns %s without the late document w1@1", tok.String(), tok.SafeSequence(), r2))
	case !reproduces && kit.Known("C08", vfC08SigGapAtSeq1):
		kit.Note("C08", "listed finding %s no longer reproduces (token %s, resumed rows %s)", vfC08SigGapAtSeq1, tok.String(), r2)
	}
}

// TestVerif_C08_System: documents are written through the real write path; some writers are held
// between sequence allocation and the storage write (a slow writer), later writers overtake them, the
// pending limit forces the cache to give up on the held sequences (skip). Then: every row of a changes
// response that lies beyond the gap carries the last contiguous sequence; after the slow writers
// finish, resuming from the resume position of ANY token of that response (and from last_seq) returns
// every late document.
func TestVerif_C08_System(t *testing.T) {
	rec := kit.New("C08", "System")
	defer rec.Flush()
	restore := SuspendSequenceBatching() // dense sequences: one number per write
	defer restore()
	vfC08RegressGapAtSequence1(t)
	rapid.Check(t, func(rt *rapid.T) {
		nPre := rapid.IntRange(0, 3).Draw(rt, "docsBefore")
		if nPre == 0 && kit.Known("C08", vfC08SigGapAtSeq1) {
			// listed finding: a gap at the very first sequence cannot be expressed in a token; keep the
			// rest of the search going by starting the gap at sequence 2
			rec.Excluded(vfC08SigGapAtSeq1)
			nPre = 1
		}
		nSlow := rapid.IntRange(1, 3).Draw(rt, "slowWriters")
		maxNum := rapid.SampledFrom([]int{1, 2}).Draw(rt, "maxPending")
		nAfter := rapid.IntRange(maxNum+1, maxNum+3).Draw(rt, "docsAfter")
		defaultColl := rapid.Bool().Draw(rt, "defaultCollection")
		ops := []string{fmt.Sprintf("maxPending=%d defaultCollection=%v", maxNum, defaultColl)}
		render := func() string { return strings.Join(ops, "; ") }
		inconclusive := func(err error) {
			rec.Inconclusive()
			kit.InconclusiveLine("C08", "%v (case: %s)", err, render())
			rt.Skip()
		}

		gate := &vfC08Gate{hold: map[string]chan struct{}{}, entered: make(chan string, 8)}
		env, err := vfOpen(t, vfDBConfig{
			DefaultCollection: defaultColl,
			WrapBucket: func(b base.Bucket) base.Bucket {
				return base.NewLeakyBucket(b, base.LeakyBucketConfig{UpdateCallback: gate.callback})
			},
			Mutate: func(o *DatabaseContextOptions) { o.CacheOptions.CachePendingSeqMaxNum = maxNum },
		})
		if err != nil {
			inconclusive(err)
		}
		released := map[string]bool{}
		gates := map[string]chan struct{}{}
		defer func() {
			for k, ch := range gates {
				if !released[k] {
					close(ch)
				}
			}
			env.Close()
		}()
		cc := env.DBC.changeCache
		put := func(id, ch string) (uint64, error) {
			_, doc, err := env.Coll.Put(env.Ctx, id, Body{"channels": []any{ch}})
			if err != nil {
				return 0, err
			}
			return doc.Sequence, nil
		}
		chanOf := func(i int) string { return []string{"A", "B"}[i%2] }

		seqOf := map[string]uint64{}
		for i := 0; i < nPre; i++ {
			id := fmt.Sprintf("pre%d", i)
			seq, err := put(id, chanOf(i))
			if err != nil {
				inconclusive(fmt.Errorf("put %s: %w", id, err))
			}
			seqOf[id] = seq
			ops = append(ops, fmt.Sprintf("put(%s)=#%d", id, seq))
		}
		if err := env.WaitCache(); err != nil {
			inconclusive(err)
		}
		// slow writers: each allocates its sequence, then is held before the storage write
		type slowRes struct {
			id  string
			seq uint64
			err error
		}
		results := make(chan slowRes, nSlow)
		var slowIDs []string
		for i := 0; i < nSlow; i++ {
			id := fmt.Sprintf("late%d", i)
			slowIDs = append(slowIDs, id)
			ch := make(chan struct{})
			gates[id] = ch
			gate.mu.Lock()
			gate.hold[id] = ch
			gate.mu.Unlock()
			go func(i int) {
				seq, err := put(id, chanOf(i))
				results <- slowRes{id: id, seq: seq, err: err}
			}(i)
			select {
			case <-gate.entered:
			case <-time.After(vfWaitBound):
				inconclusive(fmt.Errorf("slow writer %s did not reach the storage write", id))
			}
			ops = append(ops, fmt.Sprintf("put(%s) held after sequence allocation", id))
		}
		var lastAfter uint64
		for i := 0; i < nAfter; i++ {
			id := fmt.Sprintf("after%d", i)
			seq, err := put(id, chanOf(i))
			if err != nil {
				inconclusive(fmt.Errorf("put %s: %w", id, err))
			}
			seqOf[id] = seq
			lastAfter = seq
			ops = append(ops, fmt.Sprintf("put(%s)=#%d", id, seq))
		}
		// the held sequences are exactly those between the last "pre" and the first "after" write
		firstGap := seqOf["after0"] - uint64(nSlow)
		if err := env.WaitSeq(lastAfter); err != nil {
			inconclusive(err)
		}
		for q := firstGap; q < firstGap+uint64(nSlow); q++ {
			if !cc.WasSkipped(q) {
				kit.Violation(rt, "C08", "System", render(), "sequence %d is held by a slow writer, later sequences up to %d are cached, but it is not in the skipped list", q, lastAfter)
			}
		}
		// read while the gap is open
		reqChans := rapid.SampledFrom([][]string{{"A"}, {"B"}, {"A", "B"}, {"*"}}).Draw(rt, "channels")
		rows, err := vfChanges(env.Ctx, env.Coll, reqChans, ChangesOptions{})
		if err != nil {
			if vfIsInconclusive(err) {
				inconclusive(err)
			}
			kit.Violation(rt, "C08", "System", render(), "changes request failed: %v", err)
		}
		_, rowsR := vfC08RowIDs(rows)
		ops = append(ops, fmt.Sprintf("changes(%v)=%s", reqChans, rowsR))
		low := firstGap - 1
		var tokens []SequenceID
		for _, row := range rows {
			tokens = append(tokens, row.Seq)
			if row.Seq.Seq > low && row.Seq.SafeSequence() != low {
				kit.Violation(rt, "C08", "System", render(), "row %s@%s lies beyond the open gap (sequences %d..%d missing) but its resume position is %d, want the last contiguous sequence %d",
					row.ID, row.Seq.String(), firstGap, firstGap+uint64(nSlow)-1, row.Seq.SafeSequence(), low)
			}
			if row.Seq.Seq <= low && row.Seq.SafeSequence() > low {
				kit.Violation(rt, "C08", "System", render(), "row %s@%s resumes at %d, beyond the last contiguous sequence %d", row.ID, row.Seq.String(), row.Seq.SafeSequence(), low)
			}
		}
		// release the slow writers in a generated order; after each, resume from every token
		order := rapid.Permutation(slowIDs).Draw(rt, "releaseOrder")
		var arrivedLate []string
		deferred, resumes := 0, 0
		for _, id := range order {
			close(gates[id])
			released[id] = true
			var res slowRes
			select {
			case res = <-results:
			case <-time.After(vfWaitBound):
				inconclusive(fmt.Errorf("slow writer %s did not finish", id))
			}
			if res.err != nil {
				inconclusive(fmt.Errorf("slow writer %s failed: %w", res.id, res.err))
			}
			seqOf[res.id] = res.seq
			arrivedLate = append(arrivedLate, res.id)
			ops = append(ops, fmt.Sprintf("released put(%s)=#%d", res.id, res.seq))
			if res.seq < firstGap || res.seq >= firstGap+uint64(nSlow) {
				inconclusive(fmt.Errorf("slow writer %s got sequence %d outside the expected gap %d..%d", res.id, res.seq, firstGap, firstGap+uint64(nSlow)-1))
			}
			if err := vfC08WaitFor(fmt.Sprintf("late arrival of #%d", res.seq), func() bool { return !cc.WasSkipped(res.seq) }); err != nil {
				inconclusive(err)
			}
			want := map[string]bool{}
			for _, lid := range arrivedLate {
				idx := 0
				fmt.Sscanf(lid, "late%d", &idx)
				ch := chanOf(idx)
				for _, rc := range reqChans {
					if rc == "*" || rc == ch {
						want[lid] = true
					}
				}
			}
			gapClosed := len(arrivedLate) == nSlow
			for ti, tok := range tokens {
				// (a) the statement's clause: resume from the last contiguous sequence the token exposes.
				// (b) the token itself as `since`: while part of the gap is still open the feed defers late
				//     arrivals by design ("won't be sent until low arrives or is abandoned"), so (b) is
				//     asserted only once the whole gap has closed, and observed before that.
				for vi, since := range []SequenceID{{Seq: tok.SafeSequence()}, tok} {
					if vi == 1 && tok.LowSeq == 0 {
						continue // identical to (a)
					}
					rows2, err := vfChanges(env.Ctx, env.Coll, reqChans, ChangesOptions{Since: since})
					if err != nil {
						if vfIsInconclusive(err) {
							inconclusive(err)
						}
						kit.Violation(rt, "C08", "System", render(), "changes request since %s failed: %v", since.String(), err)
					}
					ids, r2 := vfC08RowIDs(rows2)
					got := map[string]bool{}
					for _, x := range ids {
						got[x] = true
					}
					var missing []string
					for lid := range want {
						// a late document at or below the resume position was not promised by this token
						if seqOf[lid] > since.SafeSequence() && !got[lid] {
							missing = append(missing, lid)
						}
					}
					sort.Strings(missing)
					if len(missing) > 0 {
						if vi == 1 && !gapClosed {
							deferred++
							continue
						}
						kit.Violation(rt, "C08", "System", render(), "resuming from token #%d of the response (%s, since=%s) misses late arrival(s) %v: got %s", ti, tok.String(), since.String(), missing, r2)
					}
					resumes++
				}
			}
		}
		classes := []string{fmt.Sprintf("slowWriters=%d", nSlow), fmt.Sprintf("tokens=%d", len(tokens))}
		compound := 0
		for _, tok := range tokens {
			if tok.LowSeq != 0 {
				compound++
			}
		}
		if compound > 0 {
			classes = append(classes, "response_with_low_sequence")
		}
		if low == 0 {
			classes = append(classes, "gap_at_first_sequence")
		}
		if deferred > 0 {
			classes = append(classes, "compound_since_defers_late_arrival_while_gap_open(by design)")
		}
		_ = resumes
		// non-trivial: a response taken while the gap was open had a compound token, and a late arrival was then fetched from it
		rec.Case(render(), compound > 0 && len(arrivedLate) > 0, classes...)
	})
}
