package db

// C01 layer 4 — continuous / long-poll delivery.
//   L4Wake: state-based check of the wake-up protocol (no timing): once a write has reached the
//           cache, the change listener's counter of every channel key the write touched is above
//           its value before the write, so a ChangeWaiter created earlier over an overlapping key
//           set cannot block.
//   L4Cont: bounded end-to-end run (thorough tier, -race): a continuous feed racing two writers
//           must deliver every row of the final one-shot answer; a timeout is INCONCLUSIVE.
// Injected into package db by the /verif driver (build overlay); never part of /repo.

import (
	"context"
	"fmt"
	"sort"
	"strings"
	"sync"
	"testing"
	"time"

	"github.com/couchbase/sync_gateway/base"
	"github.com/couchbase/sync_gateway/channels"
	kit "github.com/couchbase/sync_gateway/verifkit"
	"pgregory.net/rapid"
)

type vfC01Waiter struct {
	name string
	keys map[string]bool
	w    *ChangeWaiter
}

type vfC01Wake struct {
	*vfC01World
	collID     uint32
	waiters    []*vfC01Waiter
	barrierRev string
	checked    int
	removals   int
}

func (k *vfC01Wake) id(ch string) channels.ID { return channels.NewID(ch, k.collID) }

func (k *vfC01Wake) count(ch string) uint64 {
	return k.env.DBC.mutationListener.CurrentCount([]channels.ID{k.id(ch)})
}

var vfC01WakeKeys = []string{"A", "B", "C", "!", "*"}

func (k *vfC01Wake) newWaiter(name string, userName string, chans []string) {
	var waiter *ChangeWaiter
	l := k.env.DBC.mutationListener
	keys := map[string]bool{}
	for _, c := range chans {
		keys[c] = true
	}
	if userName == "-" {
		// bare waiter on channel keys only
		var ids []channels.ID
		for _, c := range chans {
			ids = append(ids, k.id(c))
		}
		waiter = l.NewWaiter(ids, false)
	} else {
		// the way SimpleMultiChangesFeed builds it: user keys first, then the available channels
		coll, _, err := k.env.AsUser(userName)
		if err != nil {
			k.inconclusive("loading user %q: %v", userName, err)
		}
		waiter = coll.startChangeWaiter(false)
		waiter.UpdateChannels(k.collID, channels.AtSequence(base.SetOf(chans...), 1))
	}
	k.waiters = append(k.waiters, &vfC01Waiter{name: name, keys: keys, w: waiter})
}

// barrier: a further write in the same collection. rosmar delivers one collection's feed events
// sequentially, so once the barrier's sequence is cached the callback of every earlier write —
// including its notification — has returned. No clock is involved.
func (k *vfC01Wake) barrier() {
	b := Body{"channels": []any{"ZB"}}
	if k.barrierRev != "" {
		b[BodyRev] = k.barrierRev
	}
	rev, _, err := k.env.Coll.Put(k.env.Ctx, "zz_barrier", b)
	if err != nil {
		k.inconclusive("barrier write: %v", err)
	}
	k.barrierRev = rev
	if err := k.env.WaitCache(); err != nil {
		k.inconclusive("%v", err)
	}
}

// wrap turns a write action into: snapshot counters, write, barrier, check.
func (k *vfC01Wake) wrap(write func(*rapid.T)) func(*rapid.T) {
	return func(rt *rapid.T) {
		k.begin(rt)
		before := map[string]uint64{}
		for _, c := range vfC01WakeKeys {
			before[c] = k.count(c)
		}
		seqBefore := map[string]uint64{}
		curBefore := map[string]string{}
		for _, id := range k.ids {
			seqBefore[id] = k.docs[id].seq
			curBefore[id] = vfJoin(vfSortedKeys(k.docs[id].cur))
		}
		write(rt)
		var d *vfC01Doc
		for _, id := range k.ids {
			if k.docs[id].seq != seqBefore[id] {
				d = k.docs[id]
			}
		}
		if d == nil {
			return // the write was refused: nothing changed, nothing to wake
		}
		k.barrier()
		touched := map[string]bool{"*": true}
		removedFrom := 0
		for c := range d.cur {
			touched[c] = true
		}
		for c, l := range d.left {
			if l.seq == d.seq {
				touched[c] = true
				removedFrom++
			}
		}
		if removedFrom > 0 {
			k.removals++
		}
		op := k.ops[len(k.ops)-1]
		for _, c := range vfSortedKeys(touched) {
			if after := k.count(c); after <= before[c] {
				k.fail("after %s reached the cache (document now at #%d, was in %s, now in %s) the listener counter of channel key %q is %d, not above its value %d before the write: a feed waiting on that channel is not woken", op, d.seq, curBefore[d.id], vfJoin(vfSortedKeys(d.cur)), c, after, before[c])
			}
		}
		for _, wt := range k.waiters {
			overlap := false
			for c := range touched {
				if wt.keys[c] {
					overlap = true
				}
			}
			if !overlap {
				continue
			}
			cur := k.env.DBC.mutationListener.CurrentCount(wt.w.keys)
			if cur == wt.w.lastCounter {
				k.fail("after %s reached the cache, waiter %s (keys %s) still sees counter %d: its Wait would block although a channel it listens to changed", op, wt.name, vfJoin(vfSortedKeys(wt.keys)), cur)
			}
			// the state says Wait cannot block; take the wake-up the way the feed loop does
			if res := wt.w.Wait(k.env.Ctx); res != WaiterHasChanges {
				k.fail("after %s reached the cache, waiter %s Wait() returned %d, not WaiterHasChanges", op, wt.name, res)
			}
		}
		k.checked++
	}
}

// TestVerif_C01_L4Wake: wake-up protocol, state-based.
func TestVerif_C01_L4Wake(t *testing.T) {
	rec := kit.New("C01", "L4Wake")
	defer rec.Flush()
	defer SuspendSequenceBatching()()
	rapid.Check(t, func(rt *rapid.T) {
		c := vfC01DrawCfg(rt, false)
		w := vfC01NewWorld(t, rt, rec, "L4Wake", c)
		defer w.env.Close()
		for _, def := range vfC01UserDefs {
			if err := w.createUser(def.name, def.chans); err != nil {
				w.inconclusive("create user %s: %v", def.name, err)
			}
		}
		k := &vfC01Wake{vfC01World: w, collID: w.env.Coll.GetCollectionID()}
		k.barrier()
		for _, c := range vfC01WakeKeys {
			k.newWaiter("key:"+c, "-", []string{c})
		}
		k.newWaiter("admin:*", "", []string{"*"})
		k.newWaiter("uA", "uA", []string{"A", "!"})
		k.newWaiter("uAB", "uAB", []string{"A", "B", "!"})
		k.newWaiter("uStar", "uStar", []string{"*", "!"})
		k.newWaiter("uNone", "uNone", []string{"!"})
		rt.Repeat(map[string]func(*rapid.T){
			"create":    k.wrap(w.actCreate),
			"update":    k.wrap(w.actUpdate),
			"move":      k.wrap(w.actMove),
			"move2":     k.wrap(w.actMove),
			"delete":    k.wrap(w.actDelete),
			"resurrect": k.wrap(w.actResurrect),
			"conflict":  k.wrap(w.actConflict),
		})
		if w.dead {
			rt.Skip()
		}
		var cls []string
		if k.removals > 0 {
			cls = append(cls, "case:write-that-leaves-a-channel")
		}
		rec.Case(w.render(), k.removals > 0, cls...)
		rec.Class("writes-checked", int64(k.checked))
		rec.Class("writes-leaving-a-channel", int64(k.removals))
		for _, n := range vfSortedKeys(w.classes) {
			rec.Class(n, int64(w.classes[n]))
		}
	})
}

// ---------------------------------------------------------------------------------------------
// bounded end-to-end continuous feed

type vfC01PlanOp struct {
	doc     string
	chans   []string
	deleted bool
}

type vfC01Produced struct {
	mu   sync.Mutex
	revs map[string]bool // "id rev"
	errs []string
}

func vfC01RunWriter(env *vfEnv, plan []vfC01PlanOp, out *vfC01Produced) {
	cur := map[string]string{}   // doc -> current revision
	dead := map[string]bool{}    // doc -> current revision is a tombstone
	for i, op := range plan {
		b := Body{"n": i}
		if rev := cur[op.doc]; rev != "" {
			b[BodyRev] = rev
		}
		deleted := op.deleted && cur[op.doc] != "" && !dead[op.doc]
		if deleted {
			b[BodyDeleted] = true
		} else {
			arr := make([]any, len(op.chans))
			for j, c := range op.chans {
				arr[j] = c
			}
			b["channels"] = arr
		}
		rev, _, err := env.Coll.Put(env.Ctx, op.doc, b)
		out.mu.Lock()
		if err != nil {
			out.errs = append(out.errs, fmt.Sprintf("put %s: %v", op.doc, err))
			out.mu.Unlock()
			return
		}
		out.revs[op.doc+" "+rev] = true
		out.mu.Unlock()
		cur[op.doc] = rev
		dead[op.doc] = deleted
	}
}

// TestVerif_C01_L4Cont: a continuous feed racing two writers delivers every row of the final
// one-shot answer without being re-issued (bounded; timeout = inconclusive).
func TestVerif_C01_L4Cont(t *testing.T) {
	rec := kit.New("C01", "L4Cont")
	defer rec.Flush()
	defer SuspendSequenceBatching()()
	rapid.Check(t, func(rt *rapid.T) {
		c := vfC01DrawCfg(rt, false)
		w := vfC01NewWorld(t, rt, rec, "L4Cont", c)
		defer w.env.Close()
		for _, def := range vfC01UserDefs {
			if err := w.createUser(def.name, def.chans); err != nil {
				w.inconclusive("create user %s: %v", def.name, err)
			}
		}
		q := w.drawReq(rt)
		q.activeOnly = false
		plans := make([][]vfC01PlanOp, 2)
		for wi := range plans {
			n := rapid.IntRange(2, 8).Draw(rt, "nops")
			for i := 0; i < n; i++ {
				op := vfC01PlanOp{doc: fmt.Sprintf("d%d", wi*2+rapid.IntRange(0, 1).Draw(rt, "doc"))}
				op.deleted = rapid.IntRange(0, 4).Draw(rt, "del") == 0
				op.chans = w.drawChans(rt)
				plans[wi] = append(plans[wi], op)
			}
		}
		w.ops = append(w.ops, fmt.Sprintf("continuous(%s) racing writers %v", q, plans))
		// an initial document so that the feed starts with something behind it
		if rapid.Bool().Draw(rt, "seed") {
			if _, _, err := w.env.Coll.Put(w.env.Ctx, "d4", Body{"channels": []any{"A", "!"}}); err != nil {
				w.inconclusive("seed write: %v", err)
			}
		}
		coll, _, err := w.env.AsUser(q.user)
		if err != nil {
			w.inconclusive("loading user: %v", err)
		}
		cctx, cancel := context.WithCancel(w.env.Ctx)
		defer cancel()
		feed, err := coll.MultiChangesFeed(w.env.Ctx, base.SetOf(q.chans...), ChangesOptions{Continuous: true, Wait: true, ChangesCtx: cctx})
		if err != nil || feed == nil {
			w.fail("continuous feed did not start: %v", err)
		}
		var mu sync.Mutex
		var got []vfC01Row
		var feedErr error
		iterations := 0
		feedDone := make(chan struct{})
		go func() {
			defer close(feedDone)
			sawRows := false
			for e := range feed {
				mu.Lock()
				switch {
				case e == nil:
					if sawRows {
						iterations++
						sawRows = false
					}
				case e.Err != nil:
					feedErr = e.Err
				default:
					got = append(got, vfC01Rows([]*ChangeEntry{e})...)
					sawRows = true
				}
				mu.Unlock()
			}
		}()
		produced := &vfC01Produced{revs: map[string]bool{}}
		var wg sync.WaitGroup
		for _, p := range plans {
			wg.Add(1)
			go func(p []vfC01PlanOp) {
				defer wg.Done()
				vfC01RunWriter(w.env, p, produced)
			}(p)
		}
		wg.Wait()
		if len(produced.errs) > 0 {
			cancel()
			w.env.DBC.NotifyTerminatedChanges(w.env.Ctx, q.user)
			w.inconclusive("writer failed: %s", strings.Join(produced.errs, "; "))
		}
		if err := w.env.WaitCache(); err != nil {
			cancel()
			w.env.DBC.NotifyTerminatedChanges(w.env.Ctx, q.user)
			w.inconclusive("%v", err)
		}
		final := w.changes(q, SequenceID{}, 0)
		missing := func() []string {
			mu.Lock()
			defer mu.Unlock()
			var miss []string
			for _, f := range final {
				removed := map[string]bool{}
				found := false
				for _, r := range got {
					if r.id == f.id && r.rev == f.rev && r.deleted == f.deleted {
						found = true
						for _, c := range r.removed {
							removed[c] = true
						}
					}
				}
				for _, c := range f.removed {
					if !removed[c] {
						found = false
					}
				}
				if !found {
					miss = append(miss, f.String())
				}
			}
			return miss
		}
		deadline := time.Now().Add(vfWaitBound)
		var miss []string
		for {
			if miss = missing(); len(miss) == 0 {
				break
			}
			if time.Now().After(deadline) {
				break
			}
			time.Sleep(time.Millisecond)
		}
		// end the request the way a disconnecting client does: cancel, then wake the waiter
		cancel()
		w.env.DBC.NotifyTerminatedChanges(w.env.Ctx, q.user)
		select {
		case <-feedDone:
		case <-time.After(vfWaitBound):
			w.inconclusive("cancelled continuous feed did not stop within %v", vfWaitBound)
		}
		mu.Lock()
		defer mu.Unlock()
		if feedErr != nil {
			w.fail("continuous feed reported an error: %v", feedErr)
		}
		if len(miss) > 0 {
			// unbounded "eventually" cannot be decided: report, do not judge
			w.rec.Inconclusive()
			kit.InconclusiveLine("C01", "continuous feed had not delivered %v within %v (delivered %s)", miss, vfWaitBound, vfC01RenderRows(got))
			rt.Skip()
		}
		// nothing foreign: every delivered document revision was produced by a writer
		for _, r := range got {
			if strings.HasPrefix(r.id, "_user/") {
				continue
			}
			key := r.id + " " + strings.TrimSuffix(r.rev, " revoked")
			if !produced.revs[key] && r.id != "d4" {
				w.fail("continuous feed delivered %s, a revision no writer produced", r)
			}
		}
		sort.Strings(miss)
		var cls []string
		if iterations > 1 {
			cls = append(cls, "case:woken-at-least-once")
		}
		rec.Case(w.render(), iterations > 1, cls...)
		rec.Class("feed-iterations", int64(iterations))
		rec.Class("rows-delivered", int64(len(got)))
	})
}
