package db

// C10 — version vectors order revisions soundly and survive encoding.
// Injected into package db by the /verif driver (build overlay); never part of /repo.
//
//  (i)   TestVerif_C10_Histories: generated histories of edit / pull / merge (plus node restarts and
//        rejected conflicts) over replicas A, B, C on the real HybridLogicalVector API, mirrored by
//        classic per-replica version vectors (ground truth written from the property statement).
//  (ii)  TestVerif_C10_CodecExhaustive / TestVerif_C10_CodecRandom: persisted delta form and wire form
//        round trips over all structurally valid vectors of a small universe and over random 64-bit ones.
//  (iii) FuzzVerif_C10_Wire / FuzzVerif_C10_Deltas: native fuzzing of the two parsers with the
//        round-trip oracle inside (thorough tier).

import (
	"context"
	"encoding/json"
	"fmt"
	"maps"
	"math"
	"math/big"
	"sort"
	"strconv"
	"strings"
	"testing"
	"time"
	"unicode/utf8"

	"github.com/couchbase/go-blip"
	sgbucket "github.com/couchbase/sg-bucket"
	kit "github.com/couchbase/sync_gateway/verifkit"
	"pgregory.net/rapid"
)

const vfC10SigEqualMerge = "equal-merge-sets-pull-lowers-source"
const vfC10SigMergeOnlyLegacy = "merge-only-history-with-rev-tree-ids-rejected"

// ---------------------------------------------------------------------------------------------
// rendering

func vfC10RenderMap(m HLVVersions) string {
	if m == nil {
		return "nil"
	}
	keys := make([]string, 0, len(m))
	for k := range m {
		keys = append(keys, k)
	}
	sort.Strings(keys)
	parts := make([]string, 0, len(keys))
	for _, k := range keys {
		parts = append(parts, fmt.Sprintf("%x@%s", m[k], k))
	}
	return "{" + strings.Join(parts, ",") + "}"
}

func vfC10Render(h *HybridLogicalVector) string {
	if h == nil {
		return "<none>"
	}
	return fmt.Sprintf("cv=%x@%s mv=%s pv=%s", h.Version, h.SourceID, vfC10RenderMap(h.MergeVersions), vfC10RenderMap(h.PreviousVersions))
}

func vfC10RenderVV(m map[string]uint64) string { return vfC10RenderMap(HLVVersions(m)) }

// ---------------------------------------------------------------------------------------------
// (i) histories against classic version vectors

type vfC10Replica struct {
	name   string // also the source id (A, B, C are in the base64 alphabet the product uses)
	hlv    *HybridLogicalVector
	vv     map[string]uint64 // ground truth: highest value of every source this replica has seen
	hlc    *sgbucket.HybridLogicalClock
	now    uint64            // wall clock fed to the replica's clock
	maxGen uint64            // highest value this replica ever generated for its own source
	last   map[string]uint64 // last observed GetValue per source (for "never lowered")
}

func (r *vfC10Replica) restart() {
	r.hlc = sgbucket.NewHybridLogicalClock()
	r.hlc.SetClockForTest(func() uint64 { return r.now })
}

type vfC10World struct {
	t    kit.TB
	test string
	ctx  context.Context
	reps []*vfC10Replica
	ops  []string
	rec  *kit.Rec

	concurrentPulls, equalMergePulls, merges, accepts, known, rejected, creates, excluded int
}

func vfC10NewWorld(t kit.TB, test string, rec *kit.Rec) *vfC10World {
	w := &vfC10World{t: t, test: test, ctx: context.Background(), rec: rec}
	for _, n := range []string{"A", "B", "C"} {
		r := &vfC10Replica{name: n, vv: map[string]uint64{}, last: map[string]uint64{}}
		r.restart()
		w.reps = append(w.reps, r)
	}
	return w
}

func (w *vfC10World) fail(format string, args ...any) {
	kit.Violation(w.t, "C10", w.test, strings.Join(w.ops, "; "), format, args...)
}

func (w *vfC10World) state() string {
	var sb strings.Builder
	for _, r := range w.reps {
		fmt.Fprintf(&sb, "\n  %s: %s   seen=%s", r.name, vfC10Render(r.hlv), vfC10RenderVV(r.vv))
	}
	return sb.String()
}

// generate produces the next local version exactly as documentUpdateFunc / resolveDocMergeHLV do:
// clock.Now(floor) with the floor taken from the vector(s) by the code's own maxValueForSource.
func (w *vfC10World) generate(r *vfC10Replica, clk uint64, incoming *HybridLogicalVector) uint64 {
	r.now = clk
	var floor uint64
	if r.hlv != nil {
		floor = r.hlv.maxValueForSource(r.name)
	}
	if incoming != nil {
		floor = max(floor, incoming.maxValueForSource(r.name))
	}
	v := r.hlc.Now(floor)
	if v <= r.maxGen {
		w.ops = append(w.ops, fmt.Sprintf("generate %s clock=%x floor=%x -> %x", r.name, clk, floor, v))
		w.fail("versions generated locally do not strictly increase for source %s: new value %x after %x (floor taken from the vector: %x)%s", r.name, v, r.maxGen, floor, w.state())
	}
	return v
}

func (w *vfC10World) edit(r *vfC10Replica, clk uint64) {
	v := w.generate(r, clk, nil)
	w.ops = append(w.ops, fmt.Sprintf("edit %s clock=%x -> %x@%s", r.name, clk, v, r.name))
	if r.hlv == nil {
		r.hlv = &HybridLogicalVector{} // updateHLV on a document without a vector
	}
	if err := r.hlv.AddVersion(Version{SourceID: r.name, Value: v}); err != nil {
		w.fail("AddVersion of a freshly generated version failed: %v%s", err, w.state())
	}
	r.maxGen = v
	r.vv[r.name] = v
	if r.hlv.SourceID != r.name || r.hlv.Version != v {
		w.fail("after a local edit the current version is %x@%s, want %x@%s", r.hlv.Version, r.hlv.SourceID, v, r.name)
	}
	if len(r.hlv.MergeVersions) != 0 {
		w.fail("a local edit is not a merge, but the vector still records merge versions: %s", vfC10Render(r.hlv))
	}
}

func vfC10Seen(vv map[string]uint64, src string, val uint64) bool {
	have, ok := vv[src]
	return ok && have >= val
}

func vfC10StatusName(s HLVConflictStatus) string {
	switch s {
	case HLVNoConflict:
		return "accept"
	case HLVConflict:
		return "conflict"
	case HLVNoConflictRevAlreadyPresent:
		return "already-known"
	}
	return fmt.Sprintf("status(%d)", s)
}

// pull: dst receives src's current revision. resolve: 0 = a detected conflict is rejected (no resolver,
// nothing changes), 1 = it is merged locally. wire: the vector travels through the wire form.
func (w *vfC10World) pull(dst, src *vfC10Replica, wire bool, resolve int, clk uint64) {
	tag := fmt.Sprintf("pull %s<-%s", dst.name, src.name)
	if wire {
		tag += " wire"
	}
	if src.hlv == nil {
		w.ops = append(w.ops, tag+" (nothing to send)")
		return
	}
	incoming := src.hlv.Copy()
	if wire {
		got, legacy, rendered, err := vfC10ViaWire(src.hlv, nil)
		if err != nil || len(legacy) != 0 || !got.Equal(src.hlv) {
			w.ops = append(w.ops, tag)
			w.fail("vector %s does not survive the wire form %s: parsed %s legacy=%v err=%v", vfC10Render(src.hlv), rendered, vfC10Render(got), legacy, err)
		}
		incoming = got
	}
	icvS, icvV := incoming.GetCurrentVersion()

	if dst.hlv == nil {
		// PutExistingCurrentVersion on a document that does not exist locally
		w.ops = append(w.ops, tag+" => create")
		dst.hlv = NewHybridLogicalVector()
		dst.hlv.UpdateWithIncomingHLV(incoming)
		maps.Copy(dst.vv, src.vv)
		w.creates++
		if !dst.hlv.Equal(src.hlv) {
			w.fail("a replica without the document received %s and stored %s", vfC10Render(src.hlv), vfC10Render(dst.hlv))
		}
		return
	}

	lcvS, lcvV := dst.hlv.GetCurrentVersion()
	localBefore, incBefore := dst.hlv.Copy(), incoming.Copy()
	status := IsInConflict(w.ctx, dst.hlv, incoming)
	if !dst.hlv.Equal(localBefore) || !incoming.Equal(incBefore) {
		w.ops = append(w.ops, tag)
		w.fail("IsInConflict modified its arguments: local %s -> %s, incoming %s -> %s", vfC10Render(localBefore), vfC10Render(dst.hlv), vfC10Render(incBefore), vfC10Render(incoming))
	}

	// ground truth, from the classic version vectors only
	localSeenIncoming := vfC10Seen(dst.vv, icvS, icvV)
	incomingSeenLocal := vfC10Seen(src.vv, lcvS, lcvV)
	sameMerge := len(dst.hlv.MergeVersions) != 0 && len(incoming.MergeVersions) != 0 && maps.Equal(dst.hlv.MergeVersions, incoming.MergeVersions)
	var want HLVConflictStatus
	switch {
	case localSeenIncoming:
		want = HLVNoConflictRevAlreadyPresent
	case incomingSeenLocal:
		want = HLVNoConflict
	case sameMerge:
		want = HLVNoConflict
	default:
		want = HLVConflict
	}
	concurrent := !localSeenIncoming && !incomingSeenLocal
	if concurrent {
		w.concurrentPulls++
	}
	w.ops = append(w.ops, fmt.Sprintf("%s => %s", tag, vfC10StatusName(status)))
	if status != want {
		w.fail("incoming %s against local %s is reported as %q, ground truth says %q (local has seen the incoming current version: %v; sender has seen the local current version: %v; same recorded merge: %v)%s",
			vfC10Render(incoming), vfC10Render(dst.hlv), vfC10StatusName(status), vfC10StatusName(want), localSeenIncoming, incomingSeenLocal, sameMerge, w.state())
	}

	switch status {
	case HLVNoConflictRevAlreadyPresent:
		w.known++ // update cancelled, nothing changes
	case HLVNoConflict:
		if concurrent {
			w.equalMergePulls++
			w.rec.Class("pull:accept-equal-merge-sets", 1)
			// the shape of the open finding: the local current version's source has an older entry in the
			// incoming (= equal) merge set
			if mv, ok := incoming.MergeVersions[lcvS]; ok && mv < lcvV {
				w.rec.Class("pull:accept-equal-merge-sets/local-cv-source-in-merge-set", 1)
				if kit.Known("C10", vfC10SigEqualMerge) {
					w.rec.Excluded(vfC10SigEqualMerge)
					w.excluded++
					w.ops[len(w.ops)-1] += " (known finding: not applied)"
					return
				}
			}
		}
		w.accepts++
		dst.hlv.UpdateWithIncomingHLV(incoming)
		for s, v := range src.vv {
			dst.vv[s] = max(dst.vv[s], v)
		}
		if dst.hlv.SourceID != icvS || dst.hlv.Version != icvV {
			w.fail("after accepting %x@%s the current version is %x@%s", icvV, icvS, dst.hlv.Version, dst.hlv.SourceID)
		}
		if len(incBefore.MergeVersions) != 0 {
			if len(dst.hlv.MergeVersions) == 0 {
				w.rec.Class("pull:accept-of-a-merge/merge-record-invalidated-by-newer-local-knowledge", 1)
			} else {
				w.rec.Class("pull:accept-of-a-merge/merge-record-kept", 1)
			}
		}
		if len(dst.hlv.MergeVersions) != 0 && !maps.Equal(dst.hlv.MergeVersions, incBefore.MergeVersions) {
			w.fail("after accepting %s the vector records merge %s which the accepted revision does not", vfC10Render(incBefore), vfC10RenderMap(dst.hlv.MergeVersions))
		}
	case HLVConflict:
		if resolve == 0 {
			w.rejected++
			w.ops[len(w.ops)-1] += " rejected"
			return
		}
		w.merges++
		v := w.generate(dst, clk, incoming)
		w.ops[len(w.ops)-1] += fmt.Sprintf(" merged clock=%x -> %x@%s", clk, v, dst.name)
		merged := dst.hlv.Copy() // resolveDocMergeHLV
		if err := merged.MergeWithIncomingHLV(Version{SourceID: dst.name, Value: v}, incoming); err != nil {
			w.fail("MergeWithIncomingHLV with a freshly generated version failed: %v%s", err, w.state())
		}
		dst.hlv = merged
		dst.maxGen = v
		for s, sv := range src.vv {
			dst.vv[s] = max(dst.vv[s], sv)
		}
		dst.vv[dst.name] = v
		if merged.SourceID != dst.name || merged.Version != v {
			w.fail("after a merge the current version is %x@%s, want %x@%s", merged.Version, merged.SourceID, v, dst.name)
		}
		wantMV := HLVVersions{lcvS: lcvV, icvS: icvV}
		if !maps.Equal(merged.MergeVersions, wantMV) {
			w.fail("merge of local %x@%s and incoming %x@%s records merge versions %s, want %s", lcvV, lcvS, icvV, icvS, vfC10RenderMap(merged.MergeVersions), vfC10RenderMap(wantMV))
		}
	default:
		w.fail("IsInConflict returned an unknown status %d", status)
	}
}

// invariants checks every replica against its ground-truth vector after every event.
func (w *vfC10World) invariants() {
	for _, r := range w.reps {
		h := r.hlv
		if h == nil {
			continue
		}
		universe := map[string]bool{}
		for _, x := range w.reps {
			universe[x.name] = true
		}
		if !universe[h.SourceID] {
			w.fail("replica %s: current version has an invented source %q: %s", r.name, h.SourceID, vfC10Render(h))
		}
		for s := range h.PreviousVersions {
			if !universe[s] {
				w.fail("replica %s: invented source %q in previous versions: %s", r.name, s, vfC10Render(h))
			}
			if _, dup := h.MergeVersions[s]; dup {
				w.fail("replica %s: source %s listed twice (previous and merge versions): %s", r.name, s, vfC10Render(h))
			}
			if s == h.SourceID {
				w.fail("replica %s: source %s listed twice (current and previous versions): %s", r.name, s, vfC10Render(h))
			}
		}
		for s, v := range h.MergeVersions {
			if !universe[s] {
				w.fail("replica %s: invented source %q in merge versions: %s", r.name, s, vfC10Render(h))
			}
			if s == h.SourceID && v >= h.Version {
				w.fail("replica %s: merge version %x@%s is not older than the current version of the same source: %s", r.name, v, s, vfC10Render(h))
			}
		}
		for s := range universe {
			got, found := h.GetValue(s)
			want, seen := r.vv[s]
			switch {
			case seen && !found:
				w.fail("replica %s lost source %s (has seen %x@%s): %s%s", r.name, s, want, s, vfC10Render(h), w.state())
			case !seen && found:
				w.fail("replica %s records %x@%s which it has never seen: %s%s", r.name, got, s, vfC10Render(h), w.state())
			case seen && got < want:
				w.fail("replica %s has seen %x@%s but its vector records only %x@%s (lost/lowered): %s%s", r.name, want, s, got, s, vfC10Render(h), w.state())
			case seen && got > want:
				w.fail("replica %s records %x@%s but has only seen up to %x@%s (invented): %s%s", r.name, got, s, want, s, vfC10Render(h), w.state())
			}
			if found {
				if prev, ok := r.last[s]; ok && got < prev {
					w.fail("replica %s: value of source %s lowered from %x to %x: %s", r.name, s, prev, got, vfC10Render(h))
				}
				r.last[s] = got
			} else if prev, ok := r.last[s]; ok {
				w.fail("replica %s: source %s (was %x) disappeared: %s", r.name, s, prev, vfC10Render(h))
			}
		}
		// every vector a history produces must also survive both encodings
		vfC10CheckPersist(w.t, w.test, h, func() string { return strings.Join(w.ops, "; ") })
		vfC10CheckWire(w.t, w.test, h, nil, func() string { return strings.Join(w.ops, "; ") })
	}
}

func vfC10ClockGen() *rapid.Generator[uint64] {
	return rapid.Custom(func(t *rapid.T) uint64 {
		// wall clocks in units of the logical-counter width; 0 = a clock far behind (the floor decides)
		return rapid.Uint64Range(0, 24).Draw(t, "clock") << sgbucket.HLCLogicalBits
	})
}

func vfC10RunHistory(t *rapid.T, rec *kit.Rec) {
	w := vfC10NewWorld(t, "Histories", rec)
	idx := rapid.IntRange(0, 2)
	n := rapid.IntRange(1, 14).Draw(t, "events")
	step := func(f func()) {
		kit.Guard(t, "C10", "Histories", func() string { return strings.Join(w.ops, "; ") }, f)
		w.invariants()
	}
	used := 0
	// Generated on purpose: two replicas that independently merge the same pair, so that a later pull
	// between them takes the "concurrent but equal merge sets" acceptance path.
	if n >= 6 && rapid.IntRange(0, 4).Draw(t, "preamble") == 0 {
		p := rapid.Permutation([]int{0, 1, 2}).Draw(t, "roles")
		x, y, z := w.reps[p[0]], w.reps[p[1]], w.reps[p[2]]
		step(func() { w.edit(x, vfC10ClockGen().Draw(t, "clock")) })
		step(func() { w.edit(y, vfC10ClockGen().Draw(t, "clock")) })
		step(func() { w.pull(z, y, rapid.Bool().Draw(t, "wire"), 1, vfC10ClockGen().Draw(t, "clock")) })
		step(func() { w.pull(z, x, rapid.Bool().Draw(t, "wire"), 1, vfC10ClockGen().Draw(t, "clock")) })
		step(func() { w.pull(x, y, rapid.Bool().Draw(t, "wire"), 1, vfC10ClockGen().Draw(t, "clock")) })
		used = 5
	}
	for i := used; i < n; i++ {
		switch k := rapid.IntRange(0, 19).Draw(t, "kind"); {
		case k < 7:
			r := w.reps[idx.Draw(t, "replica")]
			clk := vfC10ClockGen().Draw(t, "clock")
			step(func() { w.edit(r, clk) })
		case k < 18:
			d := idx.Draw(t, "dst")
			s := (d + rapid.IntRange(1, 2).Draw(t, "srcOffset")) % 3
			wire := rapid.Bool().Draw(t, "wire")
			resolve := rapid.IntRange(0, 3).Draw(t, "resolve") // 1/4 rejected
			if resolve > 1 {
				resolve = 1
			}
			clk := vfC10ClockGen().Draw(t, "clock")
			step(func() { w.pull(w.reps[d], w.reps[s], wire, resolve, clk) })
		default:
			r := w.reps[idx.Draw(t, "replica")]
			w.ops = append(w.ops, "restart "+r.name)
			r.restart()
		}
	}
	classes := []string{}
	if w.concurrentPulls > 0 {
		classes = append(classes, "case:concurrent-pull")
	}
	if w.equalMergePulls > 0 {
		classes = append(classes, "case:equal-merge-sets-pull")
	}
	if w.merges > 1 {
		classes = append(classes, "case:two-or-more-merges")
	}
	rec.Class("pull:accept", int64(w.accepts))
	rec.Class("pull:conflict-merged", int64(w.merges))
	rec.Class("pull:conflict-rejected", int64(w.rejected))
	rec.Class("pull:already-known", int64(w.known))
	rec.Class("pull:create", int64(w.creates))
	// N: a pull between replicas that had both edited since their last common version
	rec.Case(strings.Join(w.ops, "; "), w.concurrentPulls > 0, classes...)
}

// vfC10ReproEqualMerge is the minimal deterministic reproduction of candidate finding §5a-7 on the real
// API (7 events). It returns the description of what went wrong, or "" when the tree behaves.
func vfC10ReproEqualMerge() string {
	ctx := context.Background()
	a, c := &HybridLogicalVector{}, &HybridLogicalVector{}
	_ = a.AddVersion(Version{SourceID: "A", Value: 6}) // A edits
	_ = a.AddVersion(Version{SourceID: "A", Value: 7}) // A edits
	_ = c.AddVersion(Version{SourceID: "C", Value: 10}) // C edits
	b := NewHybridLogicalVector()
	b.UpdateWithIncomingHLV(c.Copy()) // B pulls C (new document)
	if s := IsInConflict(ctx, b, a.Copy()); s != HLVConflict {
		return fmt.Sprintf("setup: B(%s) pulling A(%s) is %s, expected a conflict", vfC10Render(b), vfC10Render(a), vfC10StatusName(s))
	}
	if err := b.MergeWithIncomingHLV(Version{SourceID: "B", Value: 11}, a.Copy()); err != nil { // B pulls A: merge
		return "setup: " + err.Error()
	}
	if s := IsInConflict(ctx, a, c.Copy()); s != HLVConflict {
		return fmt.Sprintf("setup: A pulling C is %s, expected a conflict", vfC10StatusName(s))
	}
	if err := a.MergeWithIncomingHLV(Version{SourceID: "A", Value: 12}, c.Copy()); err != nil { // A pulls C: merge
		return "setup: " + err.Error()
	}
	before := vfC10Render(a)
	if s := IsInConflict(ctx, a, b.Copy()); s != HLVNoConflict { // A pulls B: equal merge sets
		return fmt.Sprintf("A(%s) pulling B(%s) is %s, the statement says accept (same recorded merge)", before, vfC10Render(b), vfC10StatusName(s))
	}
	a.UpdateWithIncomingHLV(b.Copy())
	if v, ok := a.GetValue("A"); !ok || v < 12 {
		return fmt.Sprintf("A edits to 6@A, 7@A; C edits to a@C; B pulls C then A and merges to b@B mv{7@A,a@C}; A pulls C and merges to c@A mv{a@C,7@A}; A pulls B (equal merge sets => accepted): replica A held %s and now holds %s — source A lowered from c to %x (found=%v), the replica's own current version c@A is lost", before, vfC10Render(a), v, ok)
	}
	return ""
}

func TestVerif_C10_Histories(t *testing.T) {
	rec := kit.New("C10", "Histories")
	defer rec.Flush()
	if what := vfC10ReproEqualMerge(); what != "" {
		if kit.Known("C10", vfC10SigEqualMerge) {
			kit.KnownFinding("C10", vfC10SigEqualMerge, what)
		} else {
			kit.Note("C10", "deterministic reproduction fails and is not listed as a known finding (the generated histories decide): %s", what)
		}
	} else if kit.Known("C10", vfC10SigEqualMerge) {
		kit.Note("C10", "known finding %s no longer reproduces; its entry can be marked fixed", vfC10SigEqualMerge)
	}
	if shard, _ := kit.Shard(); shard == 0 {
		what, err := vfC10ReproEqualMergeDB(t)
		switch {
		case err != nil:
			kit.Note("C10", "database-level reproduction of %s did not get through its set-up: %v", vfC10SigEqualMerge, err)
		case what != "" && kit.Known("C10", vfC10SigEqualMerge):
			kit.KnownFinding("C10", vfC10SigEqualMerge, "[through document writes] "+what)
		case what != "":
			kit.Note("C10", "database-level reproduction fails and is not listed as a known finding (the generated histories decide): %s", what)
		}
	}
	rapid.Check(t, func(rt *rapid.T) { vfC10RunHistory(rt, rec) })
}

// ---------------------------------------------------------------------------------------------
// (ii) codecs

// vfC10ViaWire carries a vector exactly as a rev message does: rev = current version string,
// history = ToHistoryForHLV() (followed by rev-tree ids when the peer still holds a legacy revision),
// joined by blipRevMessageProperties and re-assembled by GetHLVFromRevMessage.
func vfC10ViaWire(h *HybridLogicalVector, legacy []string) (got *HybridLogicalVector, legacyOut []string, rendered string, err error) {
	bsc := &BlipSyncContext{activeCBMobileSubprotocol: CBMobileReplicationV4, clientType: BLIPClientTypeSGR2}
	in := revHistoryInput{hlvHistory: h.ToHistoryForHLV()}
	if len(legacy) > 0 {
		// "local has HLV, remote is legacy": the current rev-tree id and its ancestors follow the HLV history
		in.remoteIsLegacyRev, in.revID, in.revTreeHistory = true, legacy[0], legacy[1:]
	}
	history, _ := bsc.buildRevHistory(in)
	props, err := blipRevMessageProperties(history, false, SequenceID{Seq: 1}, "", nil)
	if err != nil {
		return nil, nil, "", err
	}
	msg := blip.NewRequest()
	msg.Properties = props
	msg.Properties[RevMessageRev] = h.GetCurrentVersionString()
	rendered = fmt.Sprintf("rev=%q history=%q", msg.Properties[RevMessageRev], msg.Properties[RevMessageHistory])
	got, legacyOut, err = GetHLVFromRevMessage(msg)
	return got, legacyOut, rendered, err
}

func vfC10CheckWire(t kit.TB, test string, h *HybridLogicalVector, legacy []string, render func() string) {
	got, legacyOut, wire, err := vfC10ViaWire(h, legacy)
	if err != nil {
		kit.Violation(t, "C10", test, render(), "vector %s is sent as %s which the receiver rejects: %v", vfC10Render(h), wire, err)
	}
	if !got.Equal(h) {
		kit.Violation(t, "C10", test, render(), "vector %s is sent as %s and received as %s", vfC10Render(h), wire, vfC10Render(got))
	}
	if len(legacyOut) != len(legacy) {
		kit.Violation(t, "C10", test, render(), "vector %s sent as %s: rev-tree ids %v received as %v", vfC10Render(h), wire, legacy, legacyOut)
	}
	for i := range legacy {
		if legacy[i] != legacyOut[i] {
			kit.Violation(t, "C10", test, render(), "vector %s sent as %s: rev-tree ids %v received as %v", vfC10Render(h), wire, legacy, legacyOut)
		}
	}
}

func vfC10CheckPersist(t kit.TB, test string, h *HybridLogicalVector, render func() string) {
	b, err := h.MarshalJSON()
	if err != nil {
		kit.Violation(t, "C10", test, render(), "MarshalJSON of %s failed: %v", vfC10Render(h), err)
	}
	var got HybridLogicalVector
	if err := got.UnmarshalJSON(b); err != nil {
		kit.Violation(t, "C10", test, render(), "vector %s is stored as %s which cannot be loaded: %v", vfC10Render(h), b, err)
	}
	if !got.Equal(h) {
		kit.Violation(t, "C10", test, render(), "vector %s is stored as %s and loaded as %s", vfC10Render(h), b, vfC10Render(&got))
	}
	if got.CurrentVersionCAS != h.CurrentVersionCAS {
		kit.Violation(t, "C10", test, render(), "vector %s with cvCas %x is stored as %s and loaded with cvCas %x", vfC10Render(h), h.CurrentVersionCAS, b, got.CurrentVersionCAS)
	}
	// the delta lists on their own, read back by the product and by an independent reader of the
	// documented format (first entry full value, then non-negative differences in ascending order)
	for _, m := range []HLVVersions{h.PreviousVersions, h.MergeVersions} {
		enc := VersionsToDeltas(m)
		back, err := PersistedDeltasToMap(enc)
		if err != nil || !(len(m) == 0 && len(back) == 0 || maps.Equal(back, map[string]uint64(m))) {
			kit.Violation(t, "C10", test, render(), "versions %s delta-encode to %v which decodes to %s, %v", vfC10RenderMap(m), enc, vfC10RenderVV(back), err)
		}
		ref, err := vfC10RefDecodeDeltas(enc)
		if err != nil || !(len(m) == 0 && len(ref) == 0 || maps.Equal(ref, map[string]uint64(m))) {
			kit.Violation(t, "C10", test, render(), "versions %s are stored as %q, which a reader of the documented delta format decodes as %s, %v", vfC10RenderMap(m), enc, vfC10RenderVV(ref), err)
		}
	}
}

// vfC10RefDecodeDeltas reads a persisted pv/mv list per the documented format: "<hex>@<source>", hex =
// little-endian bytes of the value with trailing zero digits stripped; the first entry is a full value,
// every later entry the (non-negative) difference to its predecessor. No modular arithmetic: a sum
// beyond 64 bits is a malformed list.
func vfC10RefDecodeDeltas(list []string) (map[string]uint64, error) {
	out := map[string]uint64{}
	sum := new(big.Int)
	for _, item := range list {
		hx, src, ok := strings.Cut(item, "@")
		if !ok {
			return nil, fmt.Errorf("no @ in %q", item)
		}
		if len(hx)%2 == 1 {
			hx += "0"
		}
		if len(hx) > 16 || len(hx) == 0 {
			return nil, fmt.Errorf("bad hex length in %q", item)
		}
		var v uint64
		for i := 0; i < len(hx); i += 2 {
			b, err := strconv.ParseUint(hx[i:i+2], 16, 8)
			if err != nil {
				return nil, err
			}
			v |= b << (8 * uint(i/2))
		}
		sum.Add(sum, new(big.Int).SetUint64(v))
		if !sum.IsUint64() {
			return nil, fmt.Errorf("running sum exceeds 64 bits at %q (deltas are not ascending differences)", item)
		}
		out[src] = sum.Uint64()
	}
	return out, nil
}

// vfC10ReproMergeOnlyLegacy: a locally merged document (merge versions, no previous versions) sent to a
// peer that still holds a legacy revision of it. Returns "" when the tree behaves.
func vfC10ReproMergeOnlyLegacy() string {
	h := &HybridLogicalVector{}
	_ = h.AddVersion(Version{SourceID: "A", Value: 1})
	in := &HybridLogicalVector{}
	_ = in.AddVersion(Version{SourceID: "B", Value: 2})
	if err := h.MergeWithIncomingHLV(Version{SourceID: "A", Value: 3}, in); err != nil {
		return "setup: " + err.Error()
	}
	got, _, wire, err := vfC10ViaWire(h, []string{"2-abc", "1-def"})
	if err != nil {
		_ = wire
		return fmt.Sprintf("vector %s (a merge of 1@A and 2@B, no previous versions) sent to a peer that holds a legacy revision is carried as rev=3@A history=<mv>,<mv>;,2-abc,1-def (buildRevHistory joins the HLV history, which ends in ';', and the rev-tree ids with ',') and GetHLVFromRevMessage rejects it: %v", vfC10Render(h), err)
	}
	if !got.Equal(h) {
		return fmt.Sprintf("vector %s carried as %s is received as %s", vfC10Render(h), wire, vfC10Render(got))
	}
	return ""
}

var vfC10LegacySuffix = []string{"3-abc", "2-def", "1-0a1b"}

// vfC10MergeOnlyShape is the shape of the second open finding: a history that ends in the merge section
// (no previous versions) followed by rev-tree ids.
func vfC10MergeOnlyShape(h *HybridLogicalVector, legacy int) bool {
	return legacy > 0 && len(h.MergeVersions) > 0 && len(h.PreviousVersions) == 0
}

func vfC10CheckCodecs(t kit.TB, test string, rec *kit.Rec, h *HybridLogicalVector, legacy int) {
	if vfC10MergeOnlyShape(h, legacy) {
		rec.Class("shape:merge-only-history+rev-tree-ids", 1)
		if kit.Known("C10", vfC10SigMergeOnlyLegacy) {
			rec.Excluded(vfC10SigMergeOnlyLegacy)
			legacy = 0
		}
	}
	render := func() string { return fmt.Sprintf("%s cvCas=%x legacy=%d", vfC10Render(h), h.CurrentVersionCAS, legacy) }
	kit.Guard(t, "C10", test, render, func() {
		vfC10CheckPersist(t, test, h, render)
		vfC10CheckWire(t, test, h, vfC10LegacySuffix[:legacy], render)
	})
}

// vfC10EmptyMap returns the nil or the empty-but-allocated representation of "no entries" (both are
// produced by the product: NewHybridLogicalVector allocates, InvalidateMV / the parsers leave nil).
func vfC10EmptyMap(allocated bool) HLVVersions {
	if allocated {
		return HLVVersions{}
	}
	return nil
}

// TestVerif_C10_CodecExhaustive: every structurally valid vector over three source ids and values
// 0..maxval (current version; every other source absent / previous / merge; the current source optionally
// with an older merge entry; nil and empty maps; three cvCas values) through both encodings.
func TestVerif_C10_CodecExhaustive(t *testing.T) {
	rec := kit.New("C10", "CodecExhaustive")
	defer rec.Flush()
	if what := vfC10ReproMergeOnlyLegacy(); what != "" {
		if kit.Known("C10", vfC10SigMergeOnlyLegacy) {
			kit.KnownFinding("C10", vfC10SigMergeOnlyLegacy, what)
		} else {
			kit.Note("C10", "deterministic reproduction fails and is not listed as a known finding (the generated vectors decide): %s", what)
		}
	} else if kit.Known("C10", vfC10SigMergeOnlyLegacy) {
		kit.Note("C10", "known finding %s no longer reproduces; its entry can be marked fixed", vfC10SigMergeOnlyLegacy)
	}
	maxval := uint64(kit.Param("maxval", kit.Pick(4, 6)))
	shard, shards := kit.Shard()
	srcs := []string{"QQ", "b+/9Zg==", "1vLs7BmgS1quuKj6m3kVqg"}
	nv := maxval + 1
	var evals, nontrivial int64
	idx := 0
	for cvS := 0; cvS < 3; cvS++ {
		for cvV := uint64(0); cvV <= maxval; cvV++ {
			o1, o2 := srcs[(cvS+1)%3], srcs[(cvS+2)%3]
			// state of a non-current source: 0 absent, 1..nv previous with value s-1, nv+1..2nv merge
			for s1 := uint64(0); s1 <= 2*nv; s1++ {
				for s2 := uint64(0); s2 <= 2*nv; s2++ {
					// older merge entry for the current source: 0 none, k = value k-1 (< cvV)
					for own := uint64(0); own <= cvV; own++ {
						idx++
						if idx%shards != shard {
							continue
						}
						for variant := 0; variant < 4; variant++ {
							h := &HybridLogicalVector{SourceID: srcs[cvS], Version: cvV,
								PreviousVersions: vfC10EmptyMap(variant&1 != 0), MergeVersions: vfC10EmptyMap(variant&2 != 0)}
							place := func(src string, st uint64) {
								switch {
								case st == 0:
								case st <= nv:
									h.SetPreviousVersion(src, st-1)
								default:
									h.SetMergeVersion(src, st-nv-1)
								}
							}
							place(o1, s1)
							place(o2, s2)
							if own > 0 {
								h.SetMergeVersion(srcs[cvS], own-1)
							}
							h.CurrentVersionCAS = []uint64{0, 5, math.MaxUint64, cvV}[variant]
							legacy := 0
							if variant == 1 || variant == 2 {
								legacy = variant + 1 // the peer holds a legacy revision: rev-tree ids follow
							}
							vfC10CheckCodecs(t, "CodecExhaustive", rec, h, legacy)
							evals++
							if len(h.PreviousVersions)+len(h.MergeVersions) > 0 {
								nontrivial++
							}
							rec.Class(fmt.Sprintf("mv=%d,pv=%d", len(h.MergeVersions), len(h.PreviousVersions)), 1)
							if evals == 777 {
								got, _, wire, _ := vfC10ViaWire(h, nil)
								b, _ := h.MarshalJSON()
								rec.Sample(fmt.Sprintf("e.g. %s -> stored %s, wire %s -> %s", vfC10Render(h), b, wire, vfC10Render(got)))
							}
						}
					}
				}
			}
		}
	}
	rec.Bulk(evals, nontrivial)
	rec.Sample(fmt.Sprintf("all %d structurally valid vectors over sources %v with values 0..%d (shard %d/%d), each through MarshalJSON/UnmarshalJSON, the delta lists, and the rev-message form (with and without trailing rev-tree ids)", evals, srcs, maxval, shard, shards))
	if shards == 1 {
		rec.SetExhaustive()
	}
}

const vfC10B64 = "ABCDEFGHIJKLMNOPQRSTUVWXYZabcdefghijklmnopqrstuvwxyz0123456789+/"

func vfC10GenSource() *rapid.Generator[string] {
	return rapid.Custom(func(t *rapid.T) string {
		n := rapid.SampledFrom([]int{1, 2, 3, 4, 8, 22, 22, 24, 43}).Draw(t, "len")
		pad := 0
		if n%4 == 0 && n >= 4 {
			pad = rapid.IntRange(0, 2).Draw(t, "pad")
		}
		b := make([]byte, n)
		for i := range b {
			b[i] = vfC10B64[rapid.IntRange(0, 63).Draw(t, "c")]
		}
		for i := 0; i < pad; i++ {
			b[n-1-i] = '='
		}
		return string(b)
	})
}

func vfC10GenValue() *rapid.Generator[uint64] {
	return rapid.OneOf(
		rapid.Uint64Range(0, 16),
		rapid.SampledFrom([]uint64{0xff, 0x100, 0xffff, 0x10000, 0x0100000000000000, 0x00ffffffffffffff, 1 << 63, math.MaxUint64, math.MaxUint64 - 1, math.MaxInt64, 0x1000000000000000, 0x0f00000000000000, 0xf0, 0x0f, 0x1800000000000000}),
		rapid.Uint64Range(1700000000000000000, 1900000000000000000), // CAS-like nanosecond clocks
		rapid.Uint64(),
	)
}

// vfC10GenHLV draws a structurally valid vector: distinct sources, none in two of {pv, mv}, the current
// source not in pv, an optional older merge entry for the current source.
func vfC10GenHLV() *rapid.Generator[*HybridLogicalVector] {
	return rapid.Custom(func(t *rapid.T) *HybridLogicalVector {
		n := rapid.IntRange(1, 7).Draw(t, "sources")
		seen := map[string]bool{}
		var srcs []string
		for len(srcs) < n {
			s := vfC10GenSource().Draw(t, "src")
			if !seen[s] {
				seen[s] = true
				srcs = append(srcs, s)
			}
		}
		h := &HybridLogicalVector{SourceID: srcs[0], Version: vfC10GenValue().Draw(t, "cv"),
			PreviousVersions: vfC10EmptyMap(rapid.Bool().Draw(t, "pvAlloc")), MergeVersions: vfC10EmptyMap(rapid.Bool().Draw(t, "mvAlloc"))}
		for _, s := range srcs[1:] {
			v := vfC10GenValue().Draw(t, "v")
			if rapid.IntRange(0, 2).Draw(t, "where") == 0 {
				h.SetMergeVersion(s, v)
			} else {
				h.SetPreviousVersion(s, v)
			}
		}
		if h.Version > 0 && rapid.IntRange(0, 4).Draw(t, "ownMV") == 0 {
			h.SetMergeVersion(h.SourceID, rapid.Uint64Range(0, h.Version-1).Draw(t, "ownMVValue"))
		}
		h.CurrentVersionCAS = rapid.OneOf(rapid.Just(uint64(0)), rapid.Just(uint64(math.MaxUint64)), rapid.Just(h.Version), vfC10GenValue()).Draw(t, "cvCas")
		return h
	})
}

func TestVerif_C10_CodecRandom(t *testing.T) {
	rec := kit.New("C10", "CodecRandom")
	defer rec.Flush()
	rapid.Check(t, func(rt *rapid.T) {
		h := vfC10GenHLV().Draw(rt, "hlv")
		legacy := rapid.IntRange(0, 3).Draw(rt, "legacy")
		vfC10CheckCodecs(rt, "CodecRandom", rec, h, legacy)
		rec.Case(fmt.Sprintf("%s cvCas=%x legacy=%d", vfC10Render(h), h.CurrentVersionCAS, legacy), len(h.PreviousVersions)+len(h.MergeVersions) > 0,
			fmt.Sprintf("mv=%d", min(len(h.MergeVersions), 3)), fmt.Sprintf("pv=%d", min(len(h.PreviousVersions), 3)), fmt.Sprintf("legacy=%d", legacy))
	})
}

// ---------------------------------------------------------------------------------------------
// (iii) parsers on arbitrary input

// vfC10CheckWireInput: any (rev, history) pair. No panic; if the receiver accepts it, the vector it
// built re-serialises to a message that is accepted again and parses to an equal vector.
func vfC10CheckWireInput(t kit.TB, test, rev, history string) (accepted, emptySource bool) {
	render := func() string { return fmt.Sprintf("rev=%q history=%q", rev, history) }
	kit.Guard(t, "C10", test, render, func() {
		msg := blip.NewRequest()
		msg.Properties[RevMessageRev] = rev
		if history != "" {
			msg.Properties[RevMessageHistory] = history
		}
		h, _, err := GetHLVFromRevMessage(msg)
		if err != nil {
			return
		}
		if h == nil {
			kit.Violation(t, "C10", test, render(), "receiver returned neither a vector nor an error")
		}
		accepted = true
		_, emptyMV := h.MergeVersions[""]
		_, emptyPV := h.PreviousVersions[""]
		if h.SourceID == "" || emptyMV || emptyPV {
			// "5@" / "0@": the parser builds an entry with an empty source id. The product's own
			// representation treats an empty current source as "no current version" (AddVersion,
			// GetCurrentVersionString) and prints the entry 0@"" as the empty string (Version.IsEmpty) —
			// not a vector, so the statement's round trip does not apply. Counted, reported as an observation.
			emptySource = true
			return
		}
		again, legacy, wire, err := vfC10ViaWire(h, nil)
		if err != nil {
			kit.Violation(t, "C10", test, render(), "accepted as %s, which is sent as %s and then rejected: %v", vfC10Render(h), wire, err)
		}
		if !again.Equal(h) || len(legacy) != 0 {
			kit.Violation(t, "C10", test, render(), "accepted as %s, which is sent as %s and received as %s (legacy %v)", vfC10Render(h), wire, vfC10Render(again), legacy)
		}
		// and the parsed vector survives the stored form (JSON strings are UTF-8: a source id that is not
		// valid UTF-8 cannot come from the product's base64 ids and is altered by any JSON encoder)
		utf8ok := utf8.ValidString(h.SourceID)
		for _, m := range []HLVVersions{h.MergeVersions, h.PreviousVersions} {
			for src := range m {
				utf8ok = utf8ok && utf8.ValidString(src)
			}
		}
		if utf8ok {
			vfC10CheckPersist(t, test, h, render)
		}
	})
	return accepted, emptySource
}

// vfC10CheckDeltasInput: any list of strings handed to PersistedDeltasToMap.
func vfC10CheckDeltasInput(t kit.TB, test string, list []string) (accepted bool) {
	render := func() string { return fmt.Sprintf("deltas=%q", list) }
	kit.Guard(t, "C10", test, render, func() {
		m, err := PersistedDeltasToMap(list)
		if err != nil {
			return
		}
		accepted = true
		enc := VersionsToDeltas(m)
		back, err := PersistedDeltasToMap(enc)
		if err != nil || !maps.Equal(back, m) {
			kit.Violation(t, "C10", test, render(), "accepted as %s, which is stored as %q and loaded as %s, %v", vfC10RenderVV(m), enc, vfC10RenderVV(back), err)
		}
	})
	return accepted
}

var vfC10WireSeeds = [][2]string{
	{"1@abc", ""}, {"a@b", "1@c"}, {"a@b", "1@c,2@d;3@e"}, {"a@b", "1@c,2@d;"}, {"a@b", "3@e,2-abc,1-def"}, {"a@b", "1@c,2@d;3@e,2-abc"},
	{"a@b", "1@c,2@d;,2-abc"}, {"5@", ""}, {"@", ""}, {"0@x", "0@y"}, {"ffffffffffffffff@x", "10000000000000000@y"}, {" 1@x", " 2@y; 3@z"},
	{"1@x", "1@x"}, {"1@x", "2@x;3@x"}, {"1@x", "2@y,3@y;"}, {"1@x,2@y;3@z", ""}, {"1@x;", ""}, {"1@x", ";"}, {"1-abc", "1@x"}, {"1@x@y", "2@@"},
}

// vfC10FuzzTB makes a violation found inside a fuzz worker visible to the driver: worker stdout is not
// forwarded to the coordinator, only the failure message is, so the machine-readable line rides on it.
type vfC10FuzzTB struct {
	*testing.T
	test string
}

func (f vfC10FuzzTB) Fatalf(format string, args ...any) {
	msg := fmt.Sprintf(format, args...)
	j, _ := json.Marshal(map[string]any{"property": "C10", "test": f.test, "what": msg})
	f.T.Fatalf("%s\nVERIF-VIOLATION %s", msg, j)
}

func FuzzVerif_C10_Wire(f *testing.F) {
	for _, s := range vfC10WireSeeds {
		f.Add(s[0], s[1])
	}
	f.Fuzz(func(t *testing.T, rev, history string) {
		vfC10CheckWireInput(vfC10FuzzTB{t, "FuzzWire"}, "FuzzWire", rev, history)
	})
}

func FuzzVerif_C10_Deltas(f *testing.F) {
	for _, s := range []string{"", "01@a", "01@a\n02@b", "1@a\n@b", "ffffffffffffffff@a\n01@b", "0@\n0@", "zz@a", "0102030405060708@a\n1@a", "010203040506070809@a", "noat", "1@a@b"} {
		f.Add(s)
	}
	f.Fuzz(func(t *testing.T, in string) {
		var list []string
		if in != "" {
			list = strings.Split(in, "\n")
		}
		vfC10CheckDeltasInput(vfC10FuzzTB{t, "FuzzDeltas"}, "FuzzDeltas", list)
	})
}

// TestVerif_C10_ParserStrings: the same two oracles on strings assembled from hostile pieces (quick-tier
// stand-in for the fuzz targets, which only run in the thorough tier).
func TestVerif_C10_ParserStrings(t *testing.T) {
	rec := kit.New("C10", "ParserStrings")
	defer rec.Flush()
	num := rapid.OneOf(
		rapid.SampledFrom([]string{"0", "1", "a", "A", "ff", "10", "0a", "ffffffffffffffff", "10000000000000000", "", " 1", "1 ", "+1", "-1", "0x1", "1_0", "g", "٣"}),
		rapid.StringMatching(`[0-9a-f]{1,16}`),
	)
	src := rapid.OneOf(rapid.SampledFrom([]string{"x", "y", "z", "x", "", "a@b", "x y", "Revision+Tree+Encoding", "QQ=="}), vfC10GenSource())
	item := rapid.OneOf(
		rapid.Custom(func(t *rapid.T) string { return num.Draw(t, "n") + "@" + src.Draw(t, "s") }),
		rapid.Custom(func(t *rapid.T) string { return num.Draw(t, "n") + "@" + src.Draw(t, "s") }),
		rapid.Custom(func(t *rapid.T) string { return num.Draw(t, "n") + "@" + src.Draw(t, "s") }),
		rapid.SampledFrom([]string{"1-abc", "2-def", "0-abc", "-1-a", "", " ", "@", "1-abc@x"}),
	)
	section := rapid.Custom(func(t *rapid.T) string {
		n := rapid.IntRange(0, 4).Draw(t, "items")
		parts := make([]string, n)
		for i := range parts {
			parts[i] = item.Draw(t, "item")
			if rapid.IntRange(0, 5).Draw(t, "sp") == 0 {
				parts[i] = " " + parts[i]
			}
		}
		return strings.Join(parts, ",")
	})
	rapid.Check(t, func(rt *rapid.T) {
		rev := item.Draw(rt, "rev")
		if rapid.IntRange(0, 9).Draw(rt, "revExtra") == 0 {
			rev += rapid.SampledFrom([]string{",", ";", ","}).Draw(rt, "sep") + section.Draw(rt, "extra")
		}
		nsec := rapid.IntRange(0, 3).Draw(rt, "sections")
		secs := make([]string, nsec)
		for i := range secs {
			secs[i] = section.Draw(rt, "section")
		}
		history := strings.Join(secs, ";")
		acc, emptySrc := vfC10CheckWireInput(rt, "ParserStrings", rev, history)
		// delta lists: little-endian hex, stripped
		nd := rapid.IntRange(0, 4).Draw(rt, "deltas")
		list := make([]string, nd)
		for i := range list {
			list[i] = item.Draw(rt, "delta")
		}
		accD := vfC10CheckDeltasInput(rt, "ParserStrings", list)
		rec.Case(fmt.Sprintf("rev=%q history=%q deltas=%q", rev, history, list), acc && history != "" || accD && nd > 1,
			fmt.Sprintf("wire-accepted=%v", acc), fmt.Sprintf("wire-accepted-with-empty-source-id=%v", emptySrc), fmt.Sprintf("deltas-accepted=%v", accD))
	})
}

// ---------------------------------------------------------------------------------------------
// the open finding through a real document write (PutExistingCurrentVersion), for the report

// vfC10ReproEqualMergeDB drives the same history through a database: a local edit, a concurrent pushed
// revision merged by a (custom, merging) conflict resolver, then a pushed revision from a peer that
// merged the same pair. Returns what went wrong ("" = behaves), or an error when the set-up itself did
// not get that far (inconclusive, never a verdict).
func vfC10ReproEqualMergeDB(t *testing.T) (what string, err error) {
	env, err := vfOpen(t, vfDBConfig{})
	if err != nil {
		return "", err
	}
	defer env.Close()
	ctx, coll := env.Ctx, env.Coll
	own := env.DBC.EncodedSourceID
	rev1, doc, err := coll.Put(ctx, "d", Body{"v": "local"})
	if err != nil {
		return "", fmt.Errorf("put: %w", err)
	}
	t1 := doc.HLV.Version
	// a concurrent revision from peer C (has not seen ours), merged by the resolver
	merge := NewConflictResolver(func(ctx context.Context, c Conflict) (Body, error) {
		return Body{"v": "merged"}, nil
	}, nil)
	cHLV := &HybridLogicalVector{SourceID: "C", Version: t1 + 1000}
	newDoc := CreateTestDocument("d", "1-cccc", Body{"v": "remote"}, false, 0)
	newDoc.HLV = cHLV.Copy()
	_, _, _, err = coll.PutExistingCurrentVersion(ctx, PutDocOptions{NewDoc: newDoc, NewDocHLV: cHLV.Copy(), RevTreeHistory: []string{"1-cccc"}, ConflictResolver: merge, ISGRWrite: true})
	if err != nil {
		return "", fmt.Errorf("merge write: %w", err)
	}
	doc, err = coll.GetDocument(ctx, "d", DocUnmarshalAll)
	if err != nil {
		return "", err
	}
	local := doc.HLV.Copy()
	if local.SourceID != own || len(local.MergeVersions) != 2 {
		return "", fmt.Errorf("after the merge the document holds %s (own source %s, first revision %s)", vfC10Render(local), own, rev1)
	}
	t2 := local.Version
	// peer B merged the same pair independently and pushes its result
	bHLV := &HybridLogicalVector{SourceID: "B", Version: t2 + 5, MergeVersions: maps.Clone(local.MergeVersions)}
	pushed := CreateTestDocument("d", "3-bbbb", Body{"v": "merged-by-B"}, false, 0)
	pushed.HLV = bHLV.Copy()
	_, _, _, err = coll.PutExistingCurrentVersion(ctx, PutDocOptions{NewDoc: pushed, NewDocHLV: bHLV.Copy(), RevTreeHistory: []string{"3-bbbb", doc.GetRevTreeID()}, ISGRWrite: true})
	if err != nil {
		return "", fmt.Errorf("pushing the peer's merge: %w", err)
	}
	doc, err = coll.GetDocument(ctx, "d", DocUnmarshalAll)
	if err != nil {
		return "", err
	}
	if v, ok := doc.HLV.GetValue(own); !ok || v < t2 {
		lowered := "the merge entry t1"
		if v != t1 {
			lowered = fmt.Sprintf("%x", v)
		}
		return fmt.Sprintf("database with source S: Put -> cv t1@S; PutExistingCurrentVersion of a concurrent revision x@C resolved as merge -> stored _vv is cv t2@S mv{x@C,t1@S}; PutExistingCurrentVersion of y@B mv{x@C,t1@S} (a peer's merge of the same pair) is accepted and the stored _vv becomes cv y@B mv{x@C,t1@S} pv{}: the database's own source S is lowered from t2 to %s (found=%v), its current version t2@S is lost", lowered, ok), nil
	}
	return "", nil
}

// ---------------------------------------------------------------------------------------------
// (i-b) locally generated versions through the real write path

// TestVerif_C10_DBVersions: one document per case in a real database; local writes (Put: the version is
// generated by documentUpdateFunc/updateHLV from the database clock and the stored vector), pushes from
// peers that have seen the local state (PutExistingCurrentVersion, accepted: our source moves to pv),
// concurrent pushes resolved by a merging resolver (resolveDocMergeHLV generates the merge version),
// with generated wall clocks that may stand still or step back and node restarts (SetHLCClockForTest
// clears the clock's high-water mark). Ground truth: the classic version vector of the document.
func TestVerif_C10_DBVersions(t *testing.T) {
	rec := kit.New("C10", "DBVersions")
	defer rec.Flush()
	env, err := vfOpen(t, vfDBConfig{})
	if err != nil {
		kit.InconclusiveLine("C10", "cannot open database: %v", err)
		t.Skipf("inconclusive: %v", err)
	}
	defer env.Close()
	ctx, coll := env.Ctx, env.Coll
	own := env.DBC.EncodedSourceID
	// all generated versions stay a minute behind the bucket's clock so that the CAS re-stamping of
	// versions ahead of the server clock (correctVersionAheadOfCAS, a wall-clock wait) never comes into play
	base0 := (sgbucket.HLCWallClock() - uint64(time.Minute)) &^ sgbucket.HLCLogicalMask
	now := base0
	env.DBC.SetHLCClockForTest(func() uint64 { return now })
	rel := func(v uint64) string {
		if v >= base0 {
			return fmt.Sprintf("+%x", v-base0)
		}
		return fmt.Sprintf("-%x", base0-v)
	}
	merge := NewConflictResolver(func(ctx context.Context, c Conflict) (Body, error) { return Body{"v": "merged"}, nil }, nil)
	docN := 0
	rapid.Check(t, func(rt *rapid.T) {
		docN++
		docid := fmt.Sprintf("ver%d", docN)
		// every case starts from a freshly started node (no high-water mark carried over from the previous case)
		now = base0
		env.DBC.SetHLCClockForTest(func() uint64 { return now })
		var ops []string
		render := func() string { return strings.Join(ops, "; ") }
		vv := map[string]uint64{} // ground truth: highest value seen per source
		last := map[string]uint64{}
		var maxOwn uint64
		ownInHistory, lagging, merged := false, false, 0
		peerSeq := 0
		fail := func(format string, args ...any) { kit.Violation(rt, "C10", "DBVersions", render(), format, args...) }
		load := func() *Document {
			doc, err := coll.GetDocument(ctx, docid, DocUnmarshalAll)
			if err != nil {
				fail("document cannot be loaded: %v", err)
			}
			if doc.HLV == nil {
				fail("document has no version vector after a write")
			}
			return doc
		}
		check := func(doc *Document) {
			h := doc.HLV
			for s, want := range vv {
				got, found := h.GetValue(s)
				if !found || got != want {
					fail("stored vector %s: source %s is %s (found=%v), the document has seen %s", vfC10Render(h), s, rel(got), found, rel(want))
				}
				if prev, ok := last[s]; ok && got < prev {
					fail("stored vector %s: source %s lowered from %s to %s", vfC10Render(h), s, rel(prev), rel(got))
				}
				last[s] = got
			}
			for s := range h.PreviousVersions {
				if _, dup := h.MergeVersions[s]; dup || s == h.SourceID {
					fail("stored vector %s lists source %s twice", vfC10Render(h), s)
				}
				if _, ok := vv[s]; !ok {
					fail("stored vector %s records source %s which the document never saw", vfC10Render(h), s)
				}
			}
			vfC10CheckPersist(rt, "DBVersions", h, render)
			vfC10CheckWire(rt, "DBVersions", h, nil, render)
		}
		steps := rapid.IntRange(2, 8).Draw(rt, "steps")
		kit.Guard(rt, "C10", "DBVersions", render, func() {
			var doc *Document
			for s := 0; s < steps; s++ {
				kind := rapid.IntRange(0, 9).Draw(rt, "op")
				if doc == nil {
					kind = 0
				}
				switch {
				case kind < 5: // local write
					// wall clock: stands still, steps back, or advances; optionally a restart
					switch rapid.IntRange(0, 3).Draw(rt, "clock") {
					case 0:
						now = base0 + uint64(rapid.IntRange(0, 6).Draw(rt, "clockTo"))<<sgbucket.HLCLogicalBits
					case 1:
						now += uint64(rapid.IntRange(1, 3).Draw(rt, "clockAdvance")) << sgbucket.HLCLogicalBits
					}
					restart := rapid.IntRange(0, 2).Draw(rt, "restart") == 0
					if restart {
						env.DBC.SetHLCClockForTest(func() uint64 { return now })
					}
					if now <= maxOwn && maxOwn != 0 {
						lagging = true
					}
					body := Body{"v": fmt.Sprintf("local%d", s)}
					if doc != nil {
						body[BodyRev] = doc.GetRevTreeID()
					}
					_, _, err := coll.Put(ctx, docid, body)
					ops = append(ops, fmt.Sprintf("put clock=%s restart=%v err=%v", rel(now), restart, err != nil))
					if err != nil {
						fail("local write on top of the current revision failed: %v", err)
					}
					doc = load()
					if doc.HLV.SourceID != own {
						fail("after a local write the current version is %s", vfC10Render(doc.HLV))
					}
					ops[len(ops)-1] += " -> " + rel(doc.HLV.Version)
					if doc.HLV.Version <= maxOwn {
						fail("versions generated locally do not strictly increase: %s@%s issued after %s@%s (stored vector now %s)", rel(doc.HLV.Version), own, rel(maxOwn), own, vfC10Render(doc.HLV))
					}
					if _, inHist := vv[own]; inHist && len(vv) > 1 {
						ownInHistory = true
					}
					maxOwn = doc.HLV.Version
					vv[own] = maxOwn
					check(doc)
				default: // a peer pushes
					peer := rapid.SampledFrom([]string{"P1", "P2"}).Draw(rt, "peer")
					var top uint64
					for _, v := range vv {
						top = max(top, v)
					}
					pv := top + uint64(rapid.IntRange(1, 300).Draw(rt, "peerAhead"))
					peerSeq++
					var incoming *HybridLogicalVector
					concurrent := kind >= 8
					if concurrent {
						// the peer has seen an older state only (here: just its own previous versions)
						incoming = &HybridLogicalVector{SourceID: peer, Version: pv}
					} else {
						incoming = doc.HLV.Copy()
						if err := incoming.AddVersion(Version{SourceID: peer, Value: pv}); err != nil {
							fail("harness: %v", err)
						}
					}
					newDoc := CreateTestDocument(docid, "", Body{"v": fmt.Sprintf("%s-%d", peer, s)}, false, 0)
					opts := PutDocOptions{NewDoc: newDoc, NewDocHLV: incoming.Copy()}
					if concurrent {
						newDoc.RevID = fmt.Sprintf("1-%s%d", strings.ToLower(peer), peerSeq)
						newDoc.HLV = incoming.Copy()
						opts.RevTreeHistory = []string{newDoc.RevID}
						opts.ConflictResolver = merge
						opts.ISGRWrite = true
						// the merge generates a local version: same clock / restart dimensions as a local write
						switch rapid.IntRange(0, 3).Draw(rt, "mergeClock") {
						case 0:
							now = base0 + uint64(rapid.IntRange(0, 6).Draw(rt, "mergeClockTo"))<<sgbucket.HLCLogicalBits
						case 1:
							now += uint64(rapid.IntRange(1, 3).Draw(rt, "mergeClockAdvance")) << sgbucket.HLCLogicalBits
						}
						if rapid.IntRange(0, 2).Draw(rt, "mergeRestart") == 0 {
							env.DBC.SetHLCClockForTest(func() uint64 { return now })
						}
						if now <= maxOwn && maxOwn != 0 {
							lagging = true
						}
					}
					_, _, _, err := coll.PutExistingCurrentVersion(ctx, opts)
					ops = append(ops, fmt.Sprintf("push %s@%s concurrent=%v err=%v", rel(pv), peer, concurrent, err != nil))
					if err != nil {
						if concurrent {
							// the merging write needs a consistent rev-tree alignment, which is C04/C06 territory:
							// a refused merge is skipped, not judged
							rec.Class("merge-write-refused", 1)
							ops[len(ops)-1] += fmt.Sprintf(" (%v)", err)
							continue
						}
						fail("a push from a peer that has seen the local current version was refused: %v", err)
					}
					doc = load()
					vv[peer] = pv
					switch {
					case doc.HLV.SourceID == peer && doc.HLV.Version == pv:
						ops[len(ops)-1] += " accepted"
					case doc.HLV.SourceID == own && doc.HLV.Version > maxOwn:
						merged++
						ops[len(ops)-1] += " merged -> " + rel(doc.HLV.Version)
						maxOwn = doc.HLV.Version
						vv[own] = maxOwn
					case doc.HLV.SourceID == own:
						fail("merge generated %s@%s which is not above the previously generated %s@%s (stored vector %s)", rel(doc.HLV.Version), own, rel(maxOwn), own, vfC10Render(doc.HLV))
					default:
						fail("after the push the stored vector is %s", vfC10Render(doc.HLV))
					}
					check(doc)
				}
			}
		})
		classes := []string{}
		if ownInHistory {
			classes = append(classes, "local-write-with-own-source-in-history")
		}
		if lagging {
			classes = append(classes, "clock-not-ahead-of-last-own-version")
		}
		if merged > 0 {
			classes = append(classes, "merge-generated-version")
		}
		// N (write path): a local write whose own source sits in pv/mv while the wall clock is not ahead of it
		rec.Case(render(), ownInHistory && lagging, classes...)
	})
}
