package db

// C13 — listed known failing shapes: structural recognition (so the generators step around them and
// keep searching) and the plain regression reproductions.

import (
	"fmt"
	"os"
	"strconv"
	"strings"
	"testing"

	kit "github.com/couchbase/sync_gateway/verifkit"
)

const (
	// a page boundary directly after a revocation row whose document changed at or after the
	// revocation point: the row's token is printed without its trigger (n instead of t:n), and
	// resuming from n skips every row that still sorted between t:n and n
	vfC13SigPagedRevocationToken = "paged-revocation-token-loses-trigger"
	// see vfC13ShapeResumeForgetsLoss
	vfC13SigResumeForgetsLoss = "resumed-pull-forgets-earlier-loss"
	// see vfC13ShapeCoalescedInvalidation
	vfC13SigCoalescedInvalidation = "coalesced-invalidation-records-early-loss"
)

// vfC13LossyRevocationToken: the structural signature of vfC13SigPagedRevocationToken on a row.
func vfC13LossyRevocationToken(e *ChangeEntry) bool {
	return e != nil && e.Revoked && e.Seq.TriggeredBy != 0 && e.Seq.Seq >= e.Seq.TriggeredBy
}

// vfC13HeldAfterPage: the replica's held set once the plain drop rows of the page are applied (the
// boundary predicates look at what is still to be handled after the page).
func vfC13HeldAfterPage(held map[string]string, page []*ChangeEntry) map[string]string {
	out := make(map[string]string, len(held))
	for k, v := range held {
		out[k] = v
	}
	for _, e := range page {
		if e.Revoked || e.allRemoved || e.Deleted {
			delete(out, e.ID)
		}
	}
	return out
}

// vfC13ShapeResumeForgetsLoss: a page boundary directly after a row with token T. On resume the
// grant history is compared against the token (a compound token t:s: against t, or t-1 for the
// channel revoked at t) instead of the replica's position before the pull, so an access period that
// ended between that position and the token no longer counts - although its revocation rows may be
// still to come, because they are issued under the latest trigger of the channel. A held document
// that sat in a lost channel X only during such an earlier period is not revoked.
func vfC13ShapeResumeForgetsLoss(m *vfC13Model, held map[string]string, last *ChangeEntry, pullStart uint64) (sig, detail string) {
	t, s := last.Seq.TriggeredBy, last.Seq.Seq
	compound := t != 0 && s < t
	if !compound {
		t = s
	}
	eff := m.Effective(vfC13Client)
	for _, id := range vfSortedKeys(held) {
		if m.Visible(vfC13Client, id) {
			continue
		}
		d := m.Docs[id]
		if d == nil {
			continue
		}
		for _, x := range vfSortedKeys(d.Chans) {
			if _, has := eff[x]; has {
				continue
			}
			c := d.Chans[x]
			entry := c.Seq
			if c.Active {
				entry = d.Seq
			}
			if compound && entry <= s {
				continue // already delivered in this or an earlier page
			}
			periods := m.Periods[vfC13Client][x]
			if len(periods) == 0 {
				continue
			}
			lastEnd := periods[len(periods)-1].End
			safe, relevant := false, false
			for _, p := range periods {
				overlap := false
				for _, h := range d.Hist[x] {
					if vfC13SpansOverlap(p, h) {
						overlap = true
					}
				}
				if !overlap {
					continue
				}
				if p.End > pullStart {
					relevant = true // this loss happened since the pull started, its revocation belongs to this pull
				}
				if p.End > t || (compound && p.End == t && lastEnd == t) {
					safe = true
				}
			}
			if relevant && !safe {
				return vfC13SigResumeForgetsLoss, fmt.Sprintf("boundary at %s; %s (entry in %s at %d) was covered only by access periods of %s that ended at or before %d: %v", last.Seq, id, x, entry, x, t, periods)
			}
		}
	}
	return "", ""
}

// vfC13ShapeCoalescedInvalidation: a page boundary while a held document is still to be dropped,
// after the client user's grant sources changed at least twice since the pull's starting position
// with the first of those changes at or before the boundary token. Grant changes that reach a
// principal before it is next loaded are all recorded under the sequence of the first one, so a
// channel lost by a later change is recorded as lost earlier; a resume position between the two
// treats the loss as already delivered.
func vfC13ShapeCoalescedInvalidation(m *vfC13Model, held map[string]string, last *ChangeEntry, accessOps []uint64) (sig, detail string) {
	if len(accessOps) < 2 {
		return "", ""
	}
	c := last.Seq.Seq
	if t := last.Seq.TriggeredBy; t != 0 && c < t {
		c = t
	}
	if accessOps[0] > c {
		return "", ""
	}
	for _, id := range vfSortedKeys(held) {
		if !m.Visible(vfC13Client, id) {
			return vfC13SigCoalescedInvalidation, fmt.Sprintf("boundary at %s, grant sources changed at %v since the pull started, %s still to be dropped", last.Seq, accessOps, id)
		}
	}
	return "", ""
}

// installAvoidance wires the boundary-level exclusions into the world (both families).
func (r *vfC13Run) installAvoidance() {
	r.w.AvoidBoundary = func(page []*ChangeEntry) bool {
		last := page[len(page)-1]
		if vfC13LossyRevocationToken(last) && kit.Known("C13", vfC13SigPagedRevocationToken) {
			r.rec.Excluded(vfC13SigPagedRevocationToken)
			return true
		}
		held := vfC13HeldAfterPage(r.w.R.Held, page)
		if sig, _ := vfC13ShapeResumeForgetsLoss(r.w.M, held, last, r.w.PullStart); sig != "" && kit.Known("C13", sig) {
			r.rec.Excluded(sig)
			return true
		}
		if sig, _ := vfC13ShapeCoalescedInvalidation(r.w.M, held, last, r.w.AccessOps); sig != "" && kit.Known("C13", sig) {
			r.rec.Excluded(sig)
			return true
		}
		if t, s := last.Seq.TriggeredBy, last.Seq.Seq; t != 0 && s < t {
			if sig, _ := vfC13ShapeDeletedRole(r.w.M, held, s); sig != "" && kit.Known("C13", sig) {
				r.rec.Excluded(sig)
				return true
			}
			if sig, _ := vfC13ShapeRoleClip(r.w.M, held, s, r.firstAccessOp(r.w.M)); sig != "" && kit.Known("C13", sig) {
				r.rec.Excluded(sig)
				return true
			}
		}
		return false
	}
}

// ---------------------------------------------------------------------------------------------
// scripts: the rendering of a case (what a violation prints) can be parsed back and executed, which
// is how the reproductions below are written and how a printed case is minimised by hand.

func vfC13ParseList(s string) []string {
	s = strings.TrimSpace(s)
	s = strings.TrimPrefix(s, "[")
	s = strings.TrimSuffix(s, "]")
	if strings.TrimSpace(s) == "" {
		return []string{}
	}
	return strings.Fields(s)
}

// vfC13Bracket returns the text of the bracket group starting at s[i] == '[' and the index after it.
func vfC13Bracket(s string, i int) (string, int) {
	j := strings.IndexByte(s[i:], ']')
	if j < 0 {
		return s[i:], len(s)
	}
	return s[i : i+j+1], i + j + 1
}

func vfC13ParseScript(script string) (ops []vfC13Op, defaultCollection bool, err error) {
	for _, part := range strings.Split(script, ";") {
		part = strings.TrimSpace(part)
		if i := strings.Index(part, " -> "); i >= 0 {
			part = part[:i]
		}
		if part == "" {
			continue
		}
		f := strings.Fields(part)
		attr := func(name string) (string, bool) {
			i := strings.Index(part, name+"=[")
			if i < 0 {
				return "", false
			}
			g, _ := vfC13Bracket(part, i+len(name)+1)
			return g, true
		}
		call := func(name string) (a, b []string, ok bool) {
			i := strings.Index(part, name+"([")
			if i < 0 {
				return nil, nil, false
			}
			g1, j := vfC13Bracket(part, i+len(name)+1)
			k := strings.IndexByte(part[j:], '[')
			if k < 0 {
				return nil, nil, false
			}
			g2, _ := vfC13Bracket(part, j+k)
			return vfC13ParseList(g1), vfC13ParseList(g2), true
		}
		switch f[0] {
		case "open":
			defaultCollection = strings.Contains(part, "defaultCollection=true")
		case "put":
			o := vfC13Op{Kind: "put", ID: f[1], Chans: []string{}}
			if g, ok := attr("chans"); ok {
				o.Chans = vfC13ParseList(g)
			}
			if a, b, ok := call("access"); ok {
				o.GU, o.GC = a, b
			}
			if a, b, ok := call("role"); ok {
				o.RU, o.RR = a, b
			}
			ops = append(ops, o)
		case "del", "delrole":
			ops = append(ops, vfC13Op{Kind: f[0], ID: f[1]})
		case "load":
			ops = append(ops, vfC13Op{Kind: "load"})
		case "user", "role":
			o := vfC13Op{Kind: f[0], ID: f[1]}
			if g, ok := attr("chans"); ok {
				o.SetChans, o.PChans = true, vfC13ParseList(g)
			}
			if g, ok := attr("roles"); ok {
				o.SetRoles, o.PRoles = true, vfC13ParseList(g)
			}
			ops = append(ops, o)
		case "pull":
			o := vfC13Op{Kind: "pull", Limits: []int{0}}
			if g, ok := attr("limits"); ok {
				o.Limits = nil
				for _, x := range vfC13ParseList(g) {
					n, cerr := strconv.Atoi(x)
					if cerr != nil {
						return nil, false, fmt.Errorf("bad limit %q in %q", x, part)
					}
					o.Limits = append(o.Limits, n)
				}
			}
			ops = append(ops, o)
		default:
			return nil, false, fmt.Errorf("cannot parse step %q", part)
		}
	}
	return ops, defaultCollection, nil
}

// vfC13RunScript executes a script against a fresh database with nothing avoided. fail is the first
// disagreement with the property (nil = the script satisfies it).
func vfC13RunScript(t testing.TB, script string) (fail *vfC13Fail, render string, err error) {
	ops, defColl, err := vfC13ParseScript(script)
	if err != nil {
		return nil, "", err
	}
	w, err := vfC13Open(t, defColl)
	if err != nil {
		return nil, "", err
	}
	defer w.Close()
	for _, o := range ops {
		if o.Kind == "pull" {
			f, perr := w.Pull(o.Limits)
			if perr != nil {
				return nil, w.Render(), perr
			}
			if f != nil {
				return f, w.Render(), nil
			}
			continue
		}
		if derr := w.Do(o); derr != nil {
			return nil, w.Render(), derr
		}
	}
	return nil, w.Render(), nil
}

// TestVerif_C13_Script is a development aid: VERIF_C13_SCRIPT="open …; put …; pull …" runs one
// printed case and reports what the oracle says. It decides nothing.
func TestVerif_C13_Script(t *testing.T) {
	script := os.Getenv("VERIF_C13_SCRIPT")
	if script == "" {
		t.Skip("no VERIF_C13_SCRIPT")
	}
	defer SuspendSequenceBatching()()
	fail, render, err := vfC13RunScript(t, script)
	fmt.Printf("SCRIPT %s\n", render)
	switch {
	case err != nil:
		fmt.Printf("SCRIPT-RESULT error: %v\n", err)
	case fail != nil:
		fmt.Printf("SCRIPT-RESULT FAILS: %s\n", fail.What)
	default:
		fmt.Printf("SCRIPT-RESULT holds\n")
	}
}

// ---------------------------------------------------------------------------------------------
// shapes recognised before an operation runs (S-open). Each is a predicate over the model state the
// operation would produce and the replica's position; none of them looks at the gateway.

const (
	vfC13SigBackfillDeletion = "backfill-suppresses-deletion-after-regrant"
	vfC13SigBackfillRemoval  = "backfill-suppresses-removal-after-regrant"
	vfC13SigSourceSwitch     = "grant-source-switch-hides-removal"
	vfC13SigDeletedRole      = "deleted-role-access-period-ignored"
	vfC13SigRecreatedRole    = "recreated-role-keeps-old-grant-sequence"
	vfC13SigRoleClip         = "role-reassignment-clips-access-period"
	vfC13SigRecreatedHistory = "recreated-role-forgets-channel-history"
	vfC13SigRegainNoHistory  = "lost-and-regained-before-reload-leaves-no-history"
	vfC13SigStampShortens    = "grant-source-switch-shortens-access-period"
)

// vfC13ShapeBackfillHides: the replica holds a document the user will not see any more; the
// document left channel X (deletion or move) after the replica's position; the user has X, but
// every current source of X started after the document left. The channel is then back-filled from
// the new grant sequence, which leaves out deletions and removals, and nothing revokes it.
func vfC13ShapeBackfillHides(post *vfC13Model, rep *vfC13Replica) (sig, detail string) {
	pos := rep.Pos()
	eff := post.Effective(vfC13Client)
	for _, id := range vfSortedKeys(rep.Held) {
		if post.Visible(vfC13Client, id) {
			continue
		}
		d := post.Docs[id]
		if d == nil {
			continue
		}
		for _, x := range vfSortedKeys(eff) {
			c, ok := d.Chans[x]
			if !ok || c.Active {
				continue
			}
			if c.Seq > pos && eff[x] > c.Seq {
				detail = fmt.Sprintf("%s left %s at %d > position %d, %s granted since %d", id, x, c.Seq, pos, x, eff[x])
				if post.Gap[vfC13Client][x] <= pos {
					return vfC13SigSourceSwitch, detail
				}
				if c.ByDel {
					return vfC13SigBackfillDeletion, detail
				}
				return vfC13SigBackfillRemoval, detail
			}
		}
	}
	return "", ""
}

// vfC13ShapeDeletedRole: the replica holds a document the user will not see any more; the user is
// still assigned a role that has been deleted, the role conferred channel X at or after the
// position pos, and the document's entry in X is newer than pos (so its revocation depends on the
// recorded access periods). Access periods through a deleted role are not counted, so the document
// is not revoked. pos is the replica's position, or the plain part s of a compound token t:s when
// a pull is about to be resumed there.
func vfC13ShapeDeletedRole(post *vfC13Model, held map[string]string, pos uint64) (sig, detail string) {
	roles := post.userRoles(vfC13Client)
	eff := post.Effective(vfC13Client)
	for _, id := range vfSortedKeys(held) {
		if post.Visible(vfC13Client, id) {
			continue
		}
		d := post.Docs[id]
		if d == nil {
			continue
		}
		for _, rn := range vfSortedKeys(roles) {
			role := post.Roles[rn]
			if role == nil || !role.Deleted {
				continue
			}
			for _, x := range vfSortedKeys(role.Had) {
				if _, has := eff[x]; has {
					continue
				}
				c, ok := d.Chans[x]
				if !ok || role.Had[x] < pos {
					continue
				}
				entry := c.Seq
				if c.Active {
					entry = d.Seq
				}
				if entry > pos {
					return vfC13SigDeletedRole, fmt.Sprintf("%s has an entry in %s at %d > position %d, %s came through deleted role %s (until %d)", id, x, entry, pos, x, rn, role.Had[x])
				}
			}
		}
	}
	return "", ""
}

// vfC13ShapeRoleClip: the user is assigned role R with an assignment stamp newer than the replica's
// position (an older assignment source was dropped after a newer one appeared, or the assignment
// was lost and regained before the user was next loaded), and R stopped conferring channel X at or
// after that position. Past access periods through a current role
// are clipped to the current assignment stamp, so the period in which R conferred X vanishes and a
// held document whose entry in X is newer than the position is not revoked.
func vfC13ShapeRoleClip(post *vfC13Model, held map[string]string, pos, firstAccessOp uint64) (sig, detail string) {
	roles := post.userRoles(vfC13Client)
	eff := post.Effective(vfC13Client)
	for _, id := range vfSortedKeys(held) {
		if post.Visible(vfC13Client, id) {
			continue
		}
		d := post.Docs[id]
		if d == nil {
			continue
		}
		for _, rn := range vfSortedKeys(roles) {
			role := post.Roles[rn]
			stamp := roles[rn]
			if role == nil || !role.Exists {
				continue // (a deleted role counts: its channel history is clipped to the assignment stamp just the same)
			}
			// Not this shape: the current assignment has had one source since it began, and the
			// assignment before it (if it ended after the position) ended with the first grant change
			// since the position and was recorded by a load of the user before the role came back -
			// the earlier period then survives as a role-history entry.
			if post.MemStart[vfC13Client][rn] == stamp {
				prev := post.MemPrevEnd[vfC13Client][rn]
				if prev <= pos || (prev == firstAccessOp && post.LoadedWithin(vfC13Client, prev, stamp)) {
					continue
				}
			}
			cur := post.roleChans(rn)
			for _, x := range vfSortedKeys(role.Had) {
				if _, has := eff[x]; has {
					continue
				}
				if _, still := cur[x]; still {
					continue
				}
				c, ok := d.Chans[x]
				if !ok || role.Had[x] < pos || stamp <= pos {
					continue
				}
				entry := c.Seq
				if c.Active {
					entry = d.Seq
				}
				if entry > pos {
					return vfC13SigRoleClip, fmt.Sprintf("%s has an entry in %s at %d > position %d; role %s conferred %s until after %d, assigned since %d but stamped %d", id, x, entry, pos, rn, x, role.Had[x], post.MemStart[vfC13Client][rn], stamp)
				}
			}
		}
	}
	return "", ""
}

// vfC13ShapeStampShortens: the user is without channel X now; a held, no longer visible document sat
// in X during an access period that ended after the replica's position, but not during the part of
// it that begins at the channel's grant sequence as it stood when the period ended. The grant
// sequence of a channel is that of its earliest source still present, so it moves forward when an
// older source goes away while a newer one remains; the period is recorded from that later sequence
// and the document's time in the channel falls outside it.
func vfC13ShapeStampShortens(post *vfC13Model, held map[string]string, pos uint64) (sig, detail string) {
	eff := post.Effective(vfC13Client)
	for _, id := range vfSortedKeys(held) {
		if post.Visible(vfC13Client, id) {
			continue
		}
		d := post.Docs[id]
		if d == nil {
			continue
		}
		for _, x := range vfSortedKeys(d.Hist) {
			if _, has := eff[x]; has {
				continue
			}
			overlaps := func(p vfC13Span) bool {
				for _, h := range d.Hist[x] {
					if vfC13SpansOverlap(p, h) {
						return true
					}
				}
				return false
			}
			real, recorded := false, false
			for _, p := range post.Periods[vfC13Client][x] {
				if p.End == 0 || p.End <= pos {
					continue
				}
				if overlaps(p) {
					real = true
				}
				rp := p
				if rp.Stamp > rp.Start {
					rp.Start = rp.Stamp
				}
				if overlaps(rp) {
					recorded = true
				}
			}
			if real && !recorded {
				return vfC13SigStampShortens, fmt.Sprintf("%s sat in %s during an access period that is recorded from a later grant sequence only: %v (position %d)", id, x, post.Periods[vfC13Client][x], pos)
			}
		}
	}
	return "", ""
}

// vfC13ShapeRegainNoHistory: the user is without channel X now, but lost it more than once since the
// replica's position, and a held, no longer visible document sat in X only during an access period
// before the last one. A grant that is lost and present again when the principal is next loaded
// leaves no history entry (only its stamp moves), so the earlier period is unknown to the revocation
// feed and the document is not revoked.
func vfC13ShapeRegainNoHistory(post *vfC13Model, held map[string]string, pos, firstAccessOp uint64) (sig, detail string) {
	eff := post.Effective(vfC13Client)
	for _, id := range vfSortedKeys(held) {
		if post.Visible(vfC13Client, id) {
			continue
		}
		d := post.Docs[id]
		if d == nil {
			continue
		}
		for _, x := range vfSortedKeys(d.Hist) {
			if _, has := eff[x]; has {
				continue
			}
			periods := post.Periods[vfC13Client][x]
			if len(periods) < 2 {
				continue
			}
			overlaps := func(p vfC13Span) bool {
				for _, h := range d.Hist[x] {
					if vfC13SpansOverlap(p, h) {
						return true
					}
				}
				return false
			}
			if overlaps(periods[len(periods)-1]) {
				continue
			}
			for i, p := range periods[:len(periods)-1] {
				// Not this shape: the period ended with the first grant change since the position
				// (so it is recorded with its true end and an unmoved start) and the user was loaded
				// before the channel came back (so the history entry exists).
				if p.End == firstAccessOp && post.LoadedWithin(vfC13Client, p.End, periods[i+1].Start) {
					continue
				}
				if p.End > pos && overlaps(p) {
					return vfC13SigRegainNoHistory, fmt.Sprintf("%s sat in %s during %v only, %s was lost again later: %v (position %d)", id, x, p, x, periods, pos)
				}
			}
		}
	}
	return "", ""
}

// vfC13ShapeRecreatedHistory: the operation re-creates a deleted role that is assigned to the user
// and conferred channel X at or after the replica's position, in a named collection (the channel
// history of a re-created role is carried over for the default collection only). The revocation of
// X is forgotten with the history.
func vfC13ShapeRecreatedHistory(pre, post *vfC13Model, o vfC13Op, held map[string]string, pos uint64, defaultCollection bool) (sig, detail string) {
	if o.Kind != "role" || defaultCollection {
		return "", ""
	}
	role := pre.Roles[o.ID]
	if role == nil || !role.Deleted {
		return "", ""
	}
	if _, assigned := pre.userRoles(vfC13Client)[o.ID]; !assigned && pre.MemLast[vfC13Client][o.ID] < pos {
		return "", "" // the user has not held the role since the replica's position
	}
	for _, id := range vfSortedKeys(held) {
		if post.Visible(vfC13Client, id) {
			continue
		}
		d := post.Docs[id]
		if d == nil {
			continue
		}
		for _, x := range vfSortedKeys(role.Had) {
			if _, ok := d.Chans[x]; ok && role.Had[x] >= pos {
				return vfC13SigRecreatedHistory, fmt.Sprintf("%s sits in %s which deleted role %s conferred until after %d (position %d)", id, x, o.ID, role.Had[x], pos)
			}
		}
	}
	return "", ""
}

// vfC13ShapeRecreatedRole: the operation creates (or re-creates) a role the user is already
// assigned, a live document has been granting channel X to that role since before the replica's
// position, the user was without X at some point since that position, and X holds a document the
// replica does not have. The regained channel is stamped with the old sequences, so nothing is
// back-filled.
func vfC13ShapeRecreatedRole(pre, post *vfC13Model, o vfC13Op, rep *vfC13Replica) (sig, detail string) {
	if o.Kind != "role" || pre.roleLive(o.ID) {
		return "", ""
	}
	pos := rep.Pos()
	since, member := post.userRoles(vfC13Client)[o.ID]
	if !member || since > pos {
		return "", ""
	}
	preEff := pre.Effective(vfC13Client)
	for _, gid := range vfSortedKeys(post.Docs) {
		g := post.Docs[gid]
		if g.Deleted {
			continue
		}
		for _, x := range vfSortedKeys(g.Access["role:"+o.ID]) {
			if g.Access["role:"+o.ID][x] > pos {
				continue
			}
			if _, had := preEff[x]; had {
				if ps := pre.Periods[vfC13Client][x]; len(ps) > 0 && ps[len(ps)-1].End == 0 && ps[len(ps)-1].Start <= pos {
					continue // access to X has been continuous since the position, the replica is up to date with it
				}
			}
			for _, id := range vfSortedKeys(post.Docs) {
				d := post.Docs[id]
				if c, ok := d.Chans[x]; ok && c.Active && !d.Deleted && rep.Held[id] != d.Rev {
					return vfC13SigRecreatedRole, fmt.Sprintf("role %s (assigned since %d) regains %s granted by %s since %d, position %d, %s not held", o.ID, since, x, gid, g.Access["role:"+o.ID][x], pos, id)
				}
			}
		}
	}
	return "", ""
}

// avoidKnownShapes recognises, before the operation runs, that it would complete a listed known
// failing shape, counts it and steps around it: a pull first where that dissolves the shape, the
// operation dropped otherwise. With the entry removed from the findings list nothing is avoided and
// the shape fails as a violation at the next pull. Returns true when the operation must not run.
func (r *vfC13Run) avoidKnownShapes(o vfC13Op, post *vfC13Model) (drop bool) {
	first := r.firstAccessOp(post)
	for attempt := 0; ; attempt++ {
		sig, _ := vfC13ShapeBackfillHides(post, r.w.R)
		if sig == "" || !kit.Known("C13", sig) {
			sig, _ = vfC13ShapeDeletedRole(post, r.w.R.Held, r.w.R.LowPos())
		}
		if sig == "" || !kit.Known("C13", sig) {
			sig, _ = vfC13ShapeRoleClip(post, r.w.R.Held, r.w.R.LowPos(), first)
		}
		if sig == "" || !kit.Known("C13", sig) {
			sig, _ = vfC13ShapeStampShortens(post, r.w.R.Held, r.w.R.LowPos())
		}
		if sig == "" || !kit.Known("C13", sig) {
			sig, _ = vfC13ShapeRegainNoHistory(post, r.w.R.Held, r.w.R.LowPos(), first)
		}
		if sig == "" || !kit.Known("C13", sig) {
			sig, _ = vfC13ShapeRecreatedHistory(r.w.M, post, o, r.w.R.Held, r.w.R.LowPos(), r.defColl)
		}
		if sig == "" || !kit.Known("C13", sig) {
			break
		}
		if attempt > 0 || r.pullDeferred() != "" {
			// still there after a pull, or a pull is not possible right now
			r.rec.Excluded(sig + " (operation dropped)")
			return true
		}
		r.rec.Excluded(sig)
		r.excludedSteps++
		r.w.Ops = append(r.w.Ops, "(avoiding "+sig+")")
		r.pull(vfC13DrawLimits(r.rt))
	}
	if sig, _ := vfC13ShapeRecreatedRole(r.w.M, post, o, r.w.R); sig != "" && kit.Known("C13", sig) {
		r.rec.Excluded(sig)
		r.excludedSteps++
		return true
	}
	return false
}

// firstAccessOp: the sequence of the first operation since the last completed pull that changed the
// client user's grant sources (the operation being looked at, if none did so far).
func (r *vfC13Run) firstAccessOp(post *vfC13Model) uint64 {
	if len(r.w.AccessOps) > 0 {
		return r.w.AccessOps[0]
	}
	return post.Seq
}

// pullDeferred (family Witnessed only): the three back-fill shapes are transient - they hold while
// the regained channel is accessible and dissolve when it is lost again or the document becomes
// visible - so that family steps around them by not pulling while one of them is present (the
// history goes on, which is what lets it reach revocations that depend on an earlier access period).
// In family Open a pull is placed before the operation that would complete the shape instead.
// Returns the signature that currently forbids a pull, "" if none.
func (r *vfC13Run) pullDeferred() string {
	if !r.witnessed {
		return ""
	}
	if sig, _ := vfC13ShapeBackfillHides(r.w.M, r.w.R); sig != "" && kit.Known("C13", sig) {
		return sig
	}
	return ""
}

// ---------------------------------------------------------------------------------------------
// regression reproductions: one minimal deterministic history per listed finding, run against the
// real code with nothing avoided. A reproduction that still fails prints KNOWN-FINDING (never a
// violation); one that holds prints a note (the finding may have been repaired: set its status to
// "fixed" and the generators produce the shape again).

var vfC13Reproductions = []struct{ Sig, Script string }{
	{vfC13SigPagedRevocationToken, "open defaultCollection=true; user u chans=[B C]; put d2 chans=[B]; put d3 chans=[C]; pull limits=[0]; user u chans=[C]; user u chans=[]; put d2 chans=[B]; pull limits=[1]"},
	{vfC13SigResumeForgetsLoss, "open defaultCollection=true; user u chans=[A]; put d1 chans=[A]; put d2 chans=[A]; pull limits=[0]; user u chans=[]; put d2 chans=[B]; user u chans=[A]; user u chans=[]; pull limits=[1]"},
	{vfC13SigCoalescedInvalidation, "open defaultCollection=true; role r2 chans=[]; user u chans=[B]; put d2 chans=[] role([u],[role:r2]); put d3 chans=[] access([u],[A]); put d1 chans=[A]; pull limits=[0]; user u chans=[]; put d1 chans=[A]; del d3; del d2; role r2 chans=[A]; delrole r2; pull limits=[1]"},
	{vfC13SigBackfillDeletion, "open defaultCollection=true; user u chans=[C]; put d5 chans=[C]; pull limits=[0]; user u chans=[]; del d5; user u chans=[C]; pull limits=[0]"},
	{vfC13SigBackfillRemoval, "open defaultCollection=true; user u chans=[C]; put d5 chans=[C]; pull limits=[0]; user u chans=[]; put d5 chans=[B]; user u chans=[C]; pull limits=[0]"},
	{vfC13SigSourceSwitch, "open defaultCollection=true; role r1 chans=[C]; user u chans=[C]; put d5 chans=[C]; pull limits=[0]; del d5; user u chans=[C] roles=[r1]; user u chans=[] roles=[r1]; pull limits=[0]"},
	{vfC13SigDeletedRole, "open defaultCollection=true; role r1 chans=[C]; user u chans=[] roles=[r1]; put d5 chans=[C]; pull limits=[0]; put d5 chans=[C]; delrole r1; pull limits=[0]"},
	{vfC13SigRecreatedRole, "open defaultCollection=true; user u chans=[B] roles=[r1]; put d1 chans=[] access([role:r1],[C]); put d5 chans=[C]; put d2 chans=[B]; pull limits=[0]; role r1 chans=[]; pull limits=[0]"},
	{vfC13SigRoleClip, "open defaultCollection=true; role r2 chans=[B]; user u chans=[] roles=[r2]; put d5 chans=[B]; pull limits=[0]; role r2 chans=[]; put d3 chans=[] role([u],[role:r2]); user u roles=[]; del d5; pull limits=[0]"},
	{vfC13SigStampShortens, "open defaultCollection=true; user u chans=[]; put d5 chans=[C] access([u],[B C]); put d2 chans=[B]; pull limits=[0]; del d2; user u chans=[B C]; del d5; user u chans=[]; pull limits=[0]"},
	{vfC13SigRegainNoHistory, "open defaultCollection=true; user u chans=[A]; put d2 chans=[A]; pull limits=[0]; user u chans=[]; put d2 chans=[] access([u],[A]); user u roles=[r1]; del d2; pull limits=[0]"},
	{vfC13SigRecreatedHistory, "open defaultCollection=false; role r1 chans=[B]; user u chans=[] roles=[r1]; put d2 chans=[B]; pull limits=[0]; delrole r1; role r1 chans=[]; pull limits=[0]"},
}

func TestVerif_C13_Known(t *testing.T) {
	rec := kit.New("C13", "Known")
	defer rec.Flush()
	defer SuspendSequenceBatching()()
	for _, rp := range vfC13Reproductions {
		rp := rp
		t.Run(rp.Sig, func(t *testing.T) {
			fail, render, err := vfC13RunScript(t, rp.Script)
			rec.Class("reproductions", 1)
			switch {
			case err != nil:
				rec.Inconclusive()
				kit.InconclusiveLine("C13", "reproduction of %s could not run: %v", rp.Sig, err)
			case fail != nil && kit.Known("C13", rp.Sig):
				rec.Class("reproductions.still-failing", 1)
				what := fail.What
				if i := strings.Index(what, ". client holds"); i > 0 {
					what = what[:i]
				}
				kit.KnownFinding("C13", rp.Sig, fmt.Sprintf("%s [reproduction: %s] -> %s", kit.KnownWhat("C13", rp.Sig), render, what))
			case fail != nil:
				kit.Note("C13", "reproduction of %s fails but the signature is not listed as open; the generated families decide: %s", rp.Sig, fail.What)
			case !kit.Known("C13", rp.Sig):
				rec.Class("reproductions.no-longer-failing", 1)
				kit.Note("C13", "reproduction of %s no longer fails (%s): %s", rp.Sig, kit.KnownWhat("C13", rp.Sig), render)
			default:
				kit.Note("C13", "reproduction of %s no longer fails although the finding is still listed as open (repaired? set its status to fixed): %s", rp.Sig, render)
			}
		})
	}
	rec.Sample("deterministic reproductions of the listed known findings (regression only, decide nothing)")
}
