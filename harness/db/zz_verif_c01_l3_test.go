package db

// C01 layers 2/3 — whole database: the changes feed against a reference model of channel
// membership (may/must bounds on row content) and model-independent metamorphic equalities
// (paged = unpaged, repeat = first, cold = warm, resume from any handed-out token = suffix of the
// from-zero answer, strict SequenceID order).
// Injected into package db by the /verif driver (build overlay); never part of /repo.

import (
	"context"
	"fmt"
	"net/http"
	"sort"
	"strconv"
	"strings"
	"testing"
	"time"

	"github.com/couchbase/sync_gateway/auth"
	"github.com/couchbase/sync_gateway/base"
	kit "github.com/couchbase/sync_gateway/verifkit"
	"pgregory.net/rapid"
)

// ---------------------------------------------------------------------------------------------
// reference model (written from the property statement; no sequence label is ever predicted —
// sequences are the ones the writes returned)

type vfC01Rev struct {
	id, parent string
	deleted    bool
	chans      []string
	children   int
}

type vfC01Left struct {
	seq uint64
	rev string
	del bool
}

type vfC01Doc struct {
	id     string
	revs   map[string]*vfC01Rev
	winner string
	seq    uint64
	cur    map[string]bool      // channels of the current revision
	left   map[string]vfC01Left // channel -> where/when the document left it
	nextV  int
}

func (d *vfC01Doc) exists() bool { return d.winner != "" }

type vfC01User struct {
	name   string
	chans  []string          // admin grants (may contain "*")
	seq    uint64            // sequence of the user document
	grant  map[string]uint64 // channel -> sequence the grant became effective
	tokens []SequenceID      // every position this user was handed
}

func (u *vfC01User) star() bool {
	if u == nil {
		return false
	}
	_, ok := u.grant["*"]
	return ok
}

// one expected row of the from-zero answer: all entries of one document that share a sequence
type vfC01Exp struct {
	seq        uint64
	id, rev    string
	deleted    bool
	removed    []string
	hasCurrent bool // at least one non-removal entry (otherwise the row is "all removed")
	minGrant   uint64
}

func (e vfC01Exp) content() string {
	return vfC01Content(e.id, e.rev, e.deleted, e.removed)
}

func vfC01Content(id, rev string, deleted bool, removed []string) string {
	s := id + " " + rev
	if deleted {
		s += " deleted"
	}
	if len(removed) > 0 {
		s += " removed=" + strings.Join(removed, ",")
	}
	return s
}

type vfC01World struct {
	t     *testing.T
	rt    *rapid.T
	rec   *kit.Rec
	test  string
	env   *vfEnv
	docs  map[string]*vfC01Doc
	ids   []string
	users map[string]*vfC01User
	names []string // "" = admin
	ops   []string

	adminTokens []SequenceID
	dead        bool

	allowConflicts bool
	strict         bool // no writes before the grants: the from-zero answer is predicted exactly
	maxRows        int

	// classification
	queryReads, resumes, visibleMoves, coldReads, pagedReads, compoundResumes int
	classes                                                                  map[string]int
}

func (w *vfC01World) render() string { return strings.Join(w.ops, "; ") }

func (w *vfC01World) fail(format string, args ...any) {
	kit.Violation(w.rt, "C01", w.test, w.render(), format, args...)
}

// inconclusive abandons the case: a harness wait expired or a helper failed (never a verdict).
// Inside rapid's Repeat a Skip only rejects the current action, so the world is marked dead and
// every further action skips too, which makes rapid discard the case.
func (w *vfC01World) inconclusive(format string, args ...any) {
	if !w.dead {
		w.rec.Inconclusive()
		kit.InconclusiveLine("C01", format, args...)
	}
	w.dead = true
	w.rt.Skip()
}

func (w *vfC01World) begin(rt *rapid.T) {
	w.rt = rt
	if w.dead {
		rt.Skip()
	}
}

func (w *vfC01World) class(name string) { w.classes[name]++ }

var vfC01Channels = []string{"A", "B", "C", "!"}

// feeds returns the channels a request subscribes to, with the sequence since when each is
// available (scope rule of the model, DESIGN C01 P).
func (w *vfC01World) feeds(u *vfC01User, requested []string) map[string]uint64 {
	f := map[string]uint64{}
	wild := false
	for _, c := range requested {
		if c == "*" {
			wild = true
		}
	}
	if u == nil {
		// admin: the requested names are taken literally; "*" is the star channel
		for _, c := range requested {
			f[c] = 0
		}
		return f
	}
	if wild {
		for c, g := range u.grant {
			f[c] = g
		}
		return f
	}
	for _, c := range requested {
		if g, ok := u.grant[c]; ok {
			f[c] = g
		} else if g, ok := u.grant["*"]; ok {
			f[c] = g
		}
	}
	return f
}

// expected builds the from-zero answer for a feed set: per document, per channel its single log
// entry (current at the document's sequence, or the notice at the sequence it left), entries of
// one sequence merged into one row.
func (w *vfC01World) expected(f map[string]uint64) []vfC01Exp {
	var out []vfC01Exp
	chans := vfSortedKeys(f)
	for _, id := range w.ids {
		d := w.docs[id]
		if !d.exists() {
			continue
		}
		groups := map[uint64]*vfC01Exp{}
		add := func(seq uint64, rev string, deleted bool, removedFrom string, grant uint64) {
			g := groups[seq]
			if g == nil {
				g = &vfC01Exp{seq: seq, id: id, rev: rev, deleted: deleted, minGrant: grant}
				groups[seq] = g
			}
			if grant < g.minGrant {
				g.minGrant = grant
			}
			if removedFrom != "" {
				g.removed = append(g.removed, removedFrom)
			} else {
				g.hasCurrent = true
			}
		}
		win := d.revs[d.winner]
		for _, c := range chans {
			switch {
			case c == "*" || d.cur[c]:
				add(d.seq, d.winner, win.deleted, "", f[c])
			default:
				if l, ok := d.left[c]; ok {
					add(l.seq, l.rev, l.del, c, f[c])
				}
			}
		}
		for _, g := range groups {
			sort.Strings(g.removed)
			out = append(out, *g)
		}
	}
	sort.Slice(out, func(i, j int) bool {
		if out[i].seq != out[j].seq {
			return out[i].seq < out[j].seq
		}
		return out[i].id < out[j].id
	})
	return out
}

// ---------------------------------------------------------------------------------------------
// rows

type vfC01TooMany struct{ n int }

func (e vfC01TooMany) Error() string { return fmt.Sprintf("more than %d rows", e.n) }

// vfC01Changes runs a one-shot changes request and collects the rows (including the `_user/<name>`
// pseudo-row). It stops reading after maxRows rows: a feed that keeps producing rows would
// otherwise only end at the wall-clock bound.
func vfC01Changes(env *vfEnv, coll *DatabaseCollectionWithUser, chans []string, opts ChangesOptions, maxRows int) ([]*ChangeEntry, error) {
	cctx, cancel := context.WithCancel(env.Ctx)
	defer cancel()
	opts.ChangesCtx = cctx
	feed, err := coll.MultiChangesFeed(env.Ctx, base.SetOf(chans...), opts)
	if err != nil {
		return nil, err
	}
	if feed == nil {
		return nil, fmt.Errorf("nil feed")
	}
	var rows []*ChangeEntry
	timeout := time.After(vfWaitBound)
	for {
		select {
		case e, ok := <-feed:
			if !ok {
				return rows, nil
			}
			if e == nil {
				continue
			}
			if e.Err != nil {
				return rows, e.Err
			}
			rows = append(rows, e)
			if len(rows) > maxRows {
				return rows, vfC01TooMany{maxRows}
			}
		case <-timeout:
			return rows, kit.InconclusiveErr{Msg: "one-shot changes feed did not terminate"}
		}
	}
}

type vfC01Row struct {
	seq     SequenceID
	id, rev string
	deleted bool
	removed []string
}

func (r vfC01Row) content() string { return vfC01Content(r.id, r.rev, r.deleted, r.removed) }
func (r vfC01Row) String() string  { return r.seq.String() + ":" + r.content() }

func vfC01Rows(es []*ChangeEntry) []vfC01Row {
	out := make([]vfC01Row, 0, len(es))
	for _, e := range es {
		r := vfC01Row{seq: e.Seq, id: e.ID, deleted: e.Deleted}
		if len(e.Changes) > 0 {
			r.rev = e.Changes[0][ChangesVersionTypeRevTreeID]
		}
		for c := range e.Removed {
			r.removed = append(r.removed, c)
		}
		sort.Strings(r.removed)
		if e.Revoked {
			r.rev += " revoked"
		}
		out = append(out, r)
	}
	return out
}

func vfC01RenderRows(rows []vfC01Row) string {
	s := make([]string, len(rows))
	for i, r := range rows {
		s[i] = r.String()
	}
	return "[" + strings.Join(s, " | ") + "]"
}

func vfC01SameRows(a, b []vfC01Row) bool {
	if len(a) != len(b) {
		return false
	}
	for i := range a {
		if a[i].String() != b[i].String() || a[i].seq != b[i].seq {
			return false
		}
	}
	return true
}

type vfC01Req struct {
	user       string
	chans      []string
	activeOnly bool
}

func (q vfC01Req) String() string {
	u := q.user
	if u == "" {
		u = "admin"
	}
	s := fmt.Sprintf("%s,%s", u, vfJoin(q.chans))
	if q.activeOnly {
		s += ",active_only"
	}
	return s
}

// changes issues one one-shot request. Rows beyond the number of entries that can exist are a
// violation on their own (a feed that does not terminate).
func (w *vfC01World) changes(q vfC01Req, since SequenceID, limit int) []vfC01Row {
	coll, _, err := w.env.AsUser(q.user)
	if err != nil {
		w.inconclusive("loading user %q: %v", q.user, err)
	}
	// a client sends the position back as text
	since2, err := ParsePlainSequenceID(since.String())
	if err != nil {
		w.fail("token %q handed out by the feed is rejected: %v", since.String(), err)
	}
	opts := ChangesOptions{Since: since2, Limit: limit, ActiveOnly: q.activeOnly}
	before := w.env.DBC.DbStats.Cache().ViewQueries.Value()
	var es []*ChangeEntry
	kit.Guard(w.rt, "C01", w.test, w.render, func() {
		es, err = vfC01Changes(w.env, coll, q.chans, opts, w.maxRows)
	})
	if err != nil {
		if vfIsInconclusive(err) {
			w.inconclusive("%v", err)
		}
		if _, ok := err.(vfC01TooMany); ok {
			w.fail("changes(%s,since=%s,limit=%d) returned more than %d rows — more than entries exist: %s", q, since, limit, w.maxRows, vfC01RenderRows(vfC01Rows(es)))
		}
		w.fail("changes(%s,since=%s,limit=%d) failed: %v", q, since, limit, err)
	}
	if w.env.DBC.DbStats.Cache().ViewQueries.Value() > before {
		w.queryReads++
		w.class("read:query-path")
	} else {
		w.class("read:cache-only")
	}
	rows := vfC01Rows(es)
	if u := w.users[q.user]; u != nil {
		for _, r := range rows {
			u.tokens = append(u.tokens, r.seq)
		}
	}
	w.checkShape(q, since2, limit, rows)
	return rows
}

// checkShape: properties every single response has, whatever the model says.
func (w *vfC01World) checkShape(q vfC01Req, since SequenceID, limit int, rows []vfC01Row) {
	what := fmt.Sprintf("changes(%s,since=%s,limit=%d)", q, since, limit)
	if limit > 0 && len(rows) > limit {
		w.fail("%s returned %d rows: %s", what, len(rows), vfC01RenderRows(rows))
	}
	prev := since
	seen := map[string]bool{}
	for i, r := range rows {
		if !prev.Before(r.seq) {
			w.fail("%s: row %d (%s) is not after %s under SequenceID.Before (rows must follow the start position in strictly increasing order): %s", what, i, r, prev, vfC01RenderRows(rows))
		}
		prev = r.seq
		k := r.id + " " + r.rev + " @" + r.seq.String()
		if seen[k] {
			w.fail("%s: revision %s of %s listed twice at one position: %s", what, r.rev, r.id, vfC01RenderRows(rows))
		}
		seen[k] = true
		if q.activeOnly && r.deleted {
			w.fail("%s: active_only answer contains the deleted row %s", what, r)
		}
	}
}

// checkBaseline compares a from-zero, unlimited answer with the model.
func (w *vfC01World) checkBaseline(q vfC01Req, rows []vfC01Row) {
	u := w.users[q.user]
	f := w.feeds(u, q.chans)
	exp := w.expected(f)
	what := fmt.Sprintf("changes(%s,since=0)", q)
	type want struct {
		content  string
		seq      uint64
		optional bool
		used     bool
	}
	var wants []want
	for _, e := range exp {
		if q.activeOnly && (e.deleted || !e.hasCurrent) {
			continue
		}
		// a notice that is not newer than the grant of its channel is optional (back-fill omits it)
		optional := (e.deleted || len(e.removed) > 0) && e.seq <= e.minGrant
		wants = append(wants, want{content: e.content(), seq: e.seq, optional: optional})
		if e.deleted || len(e.removed) > 0 {
			w.visibleMoves++
		}
	}
	if u != nil {
		wants = append(wants, want{content: vfC01Content("_user/"+u.name, "", false, nil), seq: u.seq})
	}
	sort.SliceStable(wants, func(i, j int) bool { return wants[i].seq < wants[j].seq })
	if w.strict {
		// may: every row is an expected row; order follows the sequences the writes returned
		pos := 0
		for _, r := range rows {
			c := r.content()
			found := -1
			for j := pos; j < len(wants); j++ {
				if wants[j].content == c && !wants[j].used {
					found = j
					break
				}
			}
			if found < 0 {
				known := false
				for j := range wants {
					if wants[j].content == c {
						known = true
					}
				}
				if known {
					w.fail("%s: row %s is out of order or repeated (expected order %s); answer %s", what, r, vfC01RenderWants(wants2strings(wants)), vfC01RenderRows(rows))
				}
				w.fail("%s: row %s is not visible to the requester in this form (neither the current revision of a document in a requested visible channel nor a notice for one); expected %s; answer %s", what, r, vfC01RenderWants(wants2strings(wants)), vfC01RenderRows(rows))
			}
			wants[found].used = true
			pos = found + 1
		}
		for _, x := range wants {
			if !x.used && !x.optional {
				w.fail("%s: expected row [%s] (sequence %d) is missing; answer %s", what, x.content, x.seq, vfC01RenderRows(rows))
			}
		}
		return
	}
	// loose family (writes before the grants): back-fill rows carry compound labels and are not
	// merged with rows of other channels. may: same document revision and deleted flag as an
	// expected row, removed set contained in it; must: every non-optional expected row has a
	// counterpart, and its removal notices are all announced.
	for _, r := range rows {
		if strings.HasPrefix(r.id, "_user/") {
			if u == nil || r.id != "_user/"+u.name {
				w.fail("%s: foreign principal row %s", what, r)
			}
			continue
		}
		ok := false
		for _, e := range exp {
			if e.id == r.id && e.rev == r.rev && e.deleted == r.deleted && vfC01Subset(r.removed, e.removed) && (len(r.removed) > 0 || e.hasCurrent) {
				ok = true
				break
			}
		}
		if !ok {
			w.fail("%s: row %s is not visible to the requester in this form; model rows %s; answer %s", what, r, vfC01RenderExp(exp), vfC01RenderRows(rows))
		}
	}
	for _, e := range exp {
		if q.activeOnly && (e.deleted || !e.hasCurrent) {
			continue
		}
		needCurrent := e.hasCurrent
		needRemoved := map[string]bool{}
		for _, c := range e.removed {
			if e.seq > f[c] {
				needRemoved[c] = true
			}
		}
		if q.activeOnly {
			needRemoved = map[string]bool{}
		}
		for _, r := range rows {
			if r.id != e.id || r.rev != e.rev || r.deleted != e.deleted {
				continue
			}
			if len(r.removed) == 0 || e.hasCurrent {
				needCurrent = false
			}
			for _, c := range r.removed {
				delete(needRemoved, c)
			}
		}
		if e.deleted && e.seq <= e.minGrant {
			needCurrent = false // deletion older than the grant: optional
		}
		if needCurrent {
			w.fail("%s: expected row [%s] is missing; answer %s", what, e.content(), vfC01RenderRows(rows))
		}
		if len(needRemoved) > 0 {
			w.fail("%s: removal of %s from %s (after the grant) is not announced; answer %s", what, e.id, vfJoin(vfSortedKeys(needRemoved)), vfC01RenderRows(rows))
		}
	}
	if u != nil {
		found := false
		for _, r := range rows {
			if r.id == "_user/"+u.name {
				found = true
			}
		}
		if !found {
			w.fail("%s: the requester's own _user row is missing; answer %s", what, vfC01RenderRows(rows))
		}
	}
}

func vfC01Subset(a, b []string) bool {
	for _, x := range a {
		ok := false
		for _, y := range b {
			if x == y {
				ok = true
			}
		}
		if !ok {
			return false
		}
	}
	return true
}

func wants2strings[T any](ws []T) []string {
	out := make([]string, len(ws))
	for i, x := range ws {
		out[i] = fmt.Sprintf("%v", x)
	}
	return out
}

func vfC01RenderWants(s []string) string { return "[" + strings.Join(s, " | ") + "]" }

func vfC01RenderExp(exp []vfC01Exp) string {
	s := make([]string, len(exp))
	for i, e := range exp {
		s[i] = fmt.Sprintf("%d:%s", e.seq, e.content())
	}
	return "[" + strings.Join(s, " | ") + "]"
}

// suffix: the rows of a from-zero answer that follow a position, optionally cut at limit.
func vfC01Suffix(base []vfC01Row, since SequenceID, limit int) []vfC01Row {
	var out []vfC01Row
	for _, r := range base {
		if since.Before(r.seq) {
			out = append(out, r)
		}
	}
	if limit > 0 && len(out) > limit {
		out = out[:limit]
	}
	return out
}

// ---------------------------------------------------------------------------------------------
// writes

func (w *vfC01World) body(d *vfC01Doc, chans []string, deleted bool, parent string) Body {
	d.nextV++
	b := Body{"v": d.nextV}
	if deleted {
		b[BodyDeleted] = true
	} else {
		arr := make([]any, len(chans))
		for i, c := range chans {
			arr[i] = c
		}
		b["channels"] = arr
	}
	if parent != "" {
		b[BodyRev] = parent
	}
	return b
}

func vfC01Gen(rev string) int {
	n, _ := strconv.Atoi(strings.SplitN(rev, "-", 2)[0])
	return n
}

// modelWinner: leaf maximising (not deleted, generation, digest).
func (d *vfC01Doc) modelWinner() string {
	best := ""
	for _, id := range vfSortedKeys(d.revs) {
		r := d.revs[id]
		if r.children > 0 {
			continue
		}
		if best == "" {
			best = id
			continue
		}
		b := d.revs[best]
		switch {
		case r.deleted != b.deleted:
			if !r.deleted {
				best = id
			}
		case vfC01Gen(id) != vfC01Gen(best):
			if vfC01Gen(id) > vfC01Gen(best) {
				best = id
			}
		case strings.SplitN(id, "-", 2)[1] > strings.SplitN(best, "-", 2)[1]:
			best = id
		}
	}
	return best
}

// applied records an accepted write: revision newRev (child of parent) now exists, the database
// reported sequence seq and current revision current.
func (w *vfC01World) applied(d *vfC01Doc, newRev, parent string, deleted bool, chans []string, seq uint64, current string) {
	if _, dup := d.revs[newRev]; !dup {
		d.revs[newRev] = &vfC01Rev{id: newRev, parent: parent, deleted: deleted, chans: chans}
		if p := d.revs[parent]; p != nil {
			p.children++
		}
	}
	if mw := d.modelWinner(); mw != current {
		// revision-tree winner selection is C04's subject; follow the database and say so
		w.class("note:winner-differs-from-model")
		kit.Note("C01", "model winner %s, database reports %s for %s", mw, current, d.id)
	}
	win := d.revs[current]
	if win == nil {
		w.fail("write on %s reports current revision %s which was never written", d.id, current)
	}
	if seq <= d.seq {
		w.fail("write on %s returned sequence %d, not above the document's previous sequence %d", d.id, seq, d.seq)
	}
	newCur := map[string]bool{}
	if !win.deleted {
		for _, c := range win.chans {
			newCur[c] = true
		}
	}
	if current != d.winner {
		for c := range d.cur {
			if !newCur[c] {
				d.left[c] = vfC01Left{seq: seq, rev: current, del: win.deleted}
			}
		}
		for c := range newCur {
			delete(d.left, c)
		}
		d.cur = newCur
	}
	d.winner = current
	d.seq = seq
}

func vfC01Status(err error) int {
	status, _ := base.ErrorAsHTTPStatus(err)
	return status
}

// rejected: a refused write must be a client-class refusal, and leaves the model unchanged.
func (w *vfC01World) rejected(op string, err error) {
	st := vfC01Status(err)
	w.ops[len(w.ops)-1] += fmt.Sprintf("=>%d", st)
	w.class(fmt.Sprintf("write:rejected-%d", st))
	if st != http.StatusConflict && st != http.StatusForbidden && st != http.StatusBadRequest && st != http.StatusNotFound {
		w.inconclusive("%s failed with an unexpected error: %v", op, err)
	}
}

func (w *vfC01World) put(d *vfC01Doc, parent string, deleted bool, chans []string, kind string) {
	b := w.body(d, chans, deleted, parent)
	op := fmt.Sprintf("%s(%s,parent=%s,chans=%s,deleted=%v)", kind, d.id, parent, vfJoin(chans), deleted)
	w.ops = append(w.ops, op)
	var rev string
	var doc *Document
	var err error
	kit.Guard(w.rt, "C01", w.test, w.render, func() { rev, doc, err = w.env.Coll.Put(w.env.Ctx, d.id, b) })
	if err != nil {
		w.rejected(op, err)
		return
	}
	w.ops[len(w.ops)-1] += fmt.Sprintf("=>%s#%d", rev, doc.Sequence)
	realParent := parent
	if realParent == "" && d.exists() {
		realParent = d.winner // PUT without a revision on a tombstone extends it
	}
	w.applied(d, rev, realParent, deleted, chans, doc.Sequence, doc.GetRevTreeID())
	w.class("write:" + kind)
}

func (w *vfC01World) pushRev(d *vfC01Doc, parent string, digest string, deleted bool, chans []string) {
	gen := 1
	var history []string
	if parent != "" {
		gen = vfC01Gen(parent) + 1
		for p := parent; p != ""; p = d.revs[p].parent {
			history = append(history, p)
		}
	}
	newRev := fmt.Sprintf("%d-%s", gen, digest)
	if _, dup := d.revs[newRev]; dup {
		w.rt.Skip()
	}
	b := w.body(d, chans, deleted, "")
	op := fmt.Sprintf("push(%s,rev=%s,parent=%s,chans=%s,deleted=%v)", d.id, newRev, parent, vfJoin(chans), deleted)
	w.ops = append(w.ops, op)
	var doc *Document
	var err error
	kit.Guard(w.rt, "C01", w.test, w.render, func() {
		doc, _, err = w.env.Coll.PutExistingRevWithBody(w.env.Ctx, d.id, b, append([]string{newRev}, history...), false, ExistingVersionWithUpdateToHLV)
	})
	if err != nil {
		w.rejected(op, err)
		return
	}
	w.ops[len(w.ops)-1] += fmt.Sprintf("=>cur=%s#%d", doc.GetRevTreeID(), doc.Sequence)
	w.applied(d, newRev, parent, deleted, chans, doc.Sequence, doc.GetRevTreeID())
	w.class("write:push")
	if doc.GetRevTreeID() != newRev {
		w.class("write:push-not-winning")
	}
}

func (w *vfC01World) drawChans(rt *rapid.T) []string {
	n := rapid.SampledFrom([]int{0, 1, 1, 1, 2, 2}).Draw(rt, "nchans")
	set := map[string]bool{}
	for i := 0; i < n; i++ {
		set[rapid.SampledFrom(vfC01Channels).Draw(rt, "chan")] = true
	}
	return vfSortedKeys(set)
}

func (w *vfC01World) pickDoc(rt *rapid.T, pred func(*vfC01Doc) bool) *vfC01Doc {
	var cands []string
	for _, id := range w.ids {
		if pred(w.docs[id]) {
			cands = append(cands, id)
		}
	}
	if len(cands) == 0 {
		rt.Skip()
	}
	return w.docs[rapid.SampledFrom(cands).Draw(rt, "doc")]
}

func (w *vfC01World) hasDoc(pred func(*vfC01Doc) bool) bool {
	for _, id := range w.ids {
		if pred(w.docs[id]) {
			return true
		}
	}
	return false
}

func (d *vfC01Doc) liveLeaves() []string {
	var out []string
	for _, id := range vfSortedKeys(d.revs) {
		if r := d.revs[id]; r.children == 0 && !r.deleted {
			out = append(out, id)
		}
	}
	return out
}

func (d *vfC01Doc) winnerDeleted() bool { return d.exists() && d.revs[d.winner].deleted }

func (w *vfC01World) actCreate(rt *rapid.T) {
	w.begin(rt)
	d := w.pickDoc(rt, func(d *vfC01Doc) bool { return !d.exists() })
	w.put(d, "", false, w.drawChans(rt), "create")
}

func (w *vfC01World) actUpdate(rt *rapid.T) {
	w.begin(rt)
	d := w.pickDoc(rt, func(d *vfC01Doc) bool { return len(d.liveLeaves()) > 0 })
	leaf := d.winner
	if ll := d.liveLeaves(); len(ll) > 1 {
		leaf = rapid.SampledFrom(ll).Draw(rt, "leaf")
	}
	w.put(d, leaf, false, d.revs[leaf].chans, "update")
}

func (w *vfC01World) actMove(rt *rapid.T) {
	w.begin(rt)
	d := w.pickDoc(rt, func(d *vfC01Doc) bool { return d.exists() && !d.winnerDeleted() })
	w.put(d, d.winner, false, w.drawChans(rt), "move")
}

func (w *vfC01World) actDelete(rt *rapid.T) {
	w.begin(rt)
	d := w.pickDoc(rt, func(d *vfC01Doc) bool { return len(d.liveLeaves()) > 0 })
	leaf := d.winner
	if ll := d.liveLeaves(); len(ll) > 1 {
		leaf = rapid.SampledFrom(ll).Draw(rt, "leaf")
	}
	w.put(d, leaf, true, nil, "delete")
}

func (w *vfC01World) actResurrect(rt *rapid.T) {
	w.begin(rt)
	d := w.pickDoc(rt, func(d *vfC01Doc) bool { return d.winnerDeleted() })
	parent := ""
	if rapid.Bool().Draw(rt, "withRev") {
		parent = d.winner
	}
	w.put(d, parent, false, w.drawChans(rt), "resurrect")
}

func (w *vfC01World) actConflict(rt *rapid.T) {
	w.begin(rt)
	d := w.pickDoc(rt, func(d *vfC01Doc) bool { return d.exists() })
	revs := vfSortedKeys(d.revs)
	parent := rapid.SampledFrom(append([]string{""}, revs...)).Draw(rt, "parent")
	digest := rapid.SampledFrom([]string{"000", "aaa", "zzz"}).Draw(rt, "digest")
	deleted := rapid.IntRange(0, 4).Draw(rt, "deleted") == 0
	var chans []string
	if !deleted {
		chans = w.drawChans(rt)
	}
	w.pushRev(d, parent, digest, deleted, chans)
}

// coldStart: stop the listener, clear the change cache, start a new listener (the repository's
// RestartChangeListener(flush) recipe, returning errors instead of asserting).
func vfC01ColdStart(env *vfEnv) error {
	dbc := env.DBC
	dbc.mutationListener.Stop(env.Ctx)
	if err := dbc.changeCache.Clear(env.Ctx); err != nil {
		return err
	}
	l, err := newChangeListener(dbc.Bucket.GetName(), dbc.Options.GroupID, dbc)
	if err != nil {
		return err
	}
	l.OnChangeCallback = dbc.changeCache.DocChanged
	dbc.mutationListener = l
	return l.Start(env.Ctx, dbc.Bucket, dbc.DbStats.Database().CacheFeedMapStats.Map, dbc.Scopes, dbc.MetadataStore)
}

// vfC01WaitCompactionIdle: changeCache.Clear re-initialises the collection of channel caches, which
// only the repository's test helpers ever do. A channel-cache compaction pass (started when a tiny
// MaxNumChannels is exceeded) that collected its eviction candidates before the Clear and removes
// them after it corrupts the re-initialised list (observed: nil element in the next compaction
// pass). That interleaving cannot happen in the product, so the harness lets a running pass
// finish first. No new pass can start meanwhile: passes are started only from inside a changes
// request, and none is running here.
func vfC01WaitCompactionIdle(env *vfEnv) error {
	cc, ok := env.DBC.channelCache.(*channelCacheImpl)
	if !ok {
		return nil
	}
	deadline := time.Now().Add(vfWaitBound)
	for cc.isCompactActive() {
		if time.Now().After(deadline) {
			return kit.InconclusiveErr{Msg: "channel cache compaction still running after " + vfWaitBound.String()}
		}
		time.Sleep(time.Millisecond)
	}
	return nil
}

func (w *vfC01World) cold() {
	if err := w.env.WaitCache(); err != nil {
		w.inconclusive("%v", err)
	}
	if err := vfC01WaitCompactionIdle(w.env); err != nil {
		w.inconclusive("%v", err)
	}
	if err := vfC01ColdStart(w.env); err != nil {
		w.inconclusive("cold start: %v", err)
	}
}

func (w *vfC01World) actFlush(rt *rapid.T) {
	w.begin(rt)
	w.ops = append(w.ops, "coldstart")
	w.cold()
	w.class("coldstart")
}

// ---------------------------------------------------------------------------------------------
// reads

func (w *vfC01World) drawReq(rt *rapid.T) vfC01Req {
	q := vfC01Req{user: rapid.SampledFrom(w.names).Draw(rt, "user")}
	if rapid.IntRange(0, 2).Draw(rt, "wild") == 0 {
		q.chans = []string{"*"}
	} else {
		set := map[string]bool{}
		n := rapid.IntRange(1, 3).Draw(rt, "nreq")
		for i := 0; i < n; i++ {
			set[rapid.SampledFrom(vfC01Channels).Draw(rt, "reqchan")] = true
		}
		q.chans = vfSortedKeys(set)
	}
	q.activeOnly = rapid.IntRange(0, 3).Draw(rt, "activeOnly") == 0
	return q
}

func (w *vfC01World) actRead(rt *rapid.T) {
	w.begin(rt)
	q := w.drawReq(rt)
	u := w.users[q.user]
	since := SequenceID{}
	if u != nil && len(u.tokens) > 0 && rapid.IntRange(0, 3).Draw(rt, "fromToken") > 0 {
		pool := u.tokens
		if !w.strict && rapid.Bool().Draw(rt, "preferCompound") {
			// back-fill rows carry triggered-by tokens; they are rare in the pool, so ask for them
			var comp []SequenceID
			for _, tk := range u.tokens {
				if tk.TriggeredBy != 0 || tk.LowSeq != 0 {
					comp = append(comp, tk)
				}
			}
			if len(comp) > 0 {
				pool = comp
			}
		}
		since = pool[rapid.IntRange(0, len(pool)-1).Draw(rt, "token")]
	} else if u == nil && rapid.Bool().Draw(rt, "adminToken") {
		// the admin resumes from positions any response handed out
		var pool []SequenceID
		for _, n := range w.names {
			if x := w.users[n]; x != nil {
				pool = append(pool, x.tokens...)
			}
		}
		pool = append(pool, w.adminTokens...)
		if len(pool) > 0 {
			since = pool[rapid.IntRange(0, len(pool)-1).Draw(rt, "token")]
		}
	}
	limit := rapid.IntRange(0, 4).Draw(rt, "limit")
	mode := rapid.SampledFrom([]string{"single", "single", "paged", "repeat", "cold"}).Draw(rt, "mode")
	variantFirst := rapid.Bool().Draw(rt, "variantFirst")
	if mode == "paged" && limit == 0 {
		limit = rapid.IntRange(1, 3).Draw(rt, "pageSize")
	}
	op := fmt.Sprintf("read(%s,since=%s,limit=%d,%s,variantFirst=%v)", q, since, limit, mode, variantFirst)
	w.ops = append(w.ops, op)
	if err := w.env.WaitCache(); err != nil {
		w.inconclusive("%v", err)
	}
	variant := func() []vfC01Row {
		if mode != "paged" {
			return w.changes(q, since, limit)
		}
		var all []vfC01Row
		pos := since
		for pages := 0; ; pages++ {
			page := w.changes(q, pos, limit)
			all = append(all, page...)
			if len(page) < limit {
				return all
			}
			pos = page[len(page)-1].seq
			if pages > w.maxRows {
				w.fail("%s: paging does not terminate; rows so far %s", op, vfC01RenderRows(all))
			}
		}
	}
	var v, b []vfC01Row
	if variantFirst {
		v = variant()
		b = w.changes(q, SequenceID{}, 0)
	} else {
		b = w.changes(q, SequenceID{}, 0)
		v = variant()
	}
	if u == nil {
		for _, r := range b {
			w.adminTokens = append(w.adminTokens, r.seq)
		}
	}
	w.ops[len(w.ops)-1] = op + fmt.Sprintf("->%d/%d rows", len(v), len(b))
	w.checkBaseline(q, b)
	lim := limit
	if mode == "paged" {
		lim = 0
		w.pagedReads++
	}
	want := vfC01Suffix(b, since, lim)
	if !vfC01SameRows(v, want) {
		kind := "resuming"
		if mode == "paged" {
			kind = "paging with limit " + strconv.Itoa(limit)
		}
		w.fail("%s: %s from %s returned %s; the from-zero answer %s continues after that position with %s", op, kind, since, vfC01RenderRows(v), vfC01RenderRows(b), vfC01RenderRows(want))
	}
	if since.IsNonZero() {
		w.resumes++
		if since.TriggeredBy != 0 || since.LowSeq != 0 {
			w.compoundResumes++
			w.class("read:resume-compound-token")
		}
	}
	switch mode {
	case "repeat":
		v2 := w.changes(q, since, limit)
		if !vfC01SameRows(v2, v) {
			w.fail("%s: the same request answered differently the second time: first %s, then %s", op, vfC01RenderRows(v), vfC01RenderRows(v2))
		}
	case "cold":
		w.cold()
		w.coldReads++
		var v2, b2 []vfC01Row
		if variantFirst {
			v2 = w.changes(q, since, limit)
			b2 = w.changes(q, SequenceID{}, 0)
		} else {
			b2 = w.changes(q, SequenceID{}, 0)
			v2 = w.changes(q, since, limit)
		}
		if !vfC01SameRows(b2, b) {
			w.fail("%s: from-zero answer differs between warm and cold cache: warm %s, cold %s", op, vfC01RenderRows(b), vfC01RenderRows(b2))
		}
		if !vfC01SameRows(v2, v) {
			w.fail("%s: answer differs between warm and cold cache: warm %s, cold %s", op, vfC01RenderRows(v), vfC01RenderRows(v2))
		}
	}
	w.class("read:" + mode)
}

// ---------------------------------------------------------------------------------------------
// set-up

type vfC01Cfg struct {
	maxLen, minLen, maxChans, queryLimit int
	conflicts, defaultColl               bool
	prewrites                            int
}

func (c vfC01Cfg) String() string {
	return fmt.Sprintf("cfg(maxLen=%d,minLen=%d,maxChannels=%d,queryLimit=%d,conflicts=%v,defaultCollection=%v,prewrites=%d)", c.maxLen, c.minLen, c.maxChans, c.queryLimit, c.conflicts, c.defaultColl, c.prewrites)
}

func vfC01DrawCfg(rt *rapid.T, allowPrewrites bool) vfC01Cfg {
	c := vfC01Cfg{}
	c.maxLen = rapid.IntRange(1, 5).Draw(rt, "maxLen")
	c.minLen = rapid.IntRange(0, c.maxLen).Draw(rt, "minLen") // 0 = product default
	c.maxChans = rapid.SampledFrom([]int{1, 2, 3, 4, 0}).Draw(rt, "maxChannels") // 0 = product default
	c.queryLimit = rapid.SampledFrom([]int{1, 2, 3, 4, 5, 0}).Draw(rt, "queryLimit")
	c.conflicts = rapid.Bool().Draw(rt, "allowConflicts")
	c.defaultColl = rapid.Bool().Draw(rt, "defaultCollection")
	if allowPrewrites && rapid.IntRange(0, 3).Draw(rt, "prewriteFamily") == 0 {
		c.prewrites = rapid.IntRange(1, 4).Draw(rt, "prewrites")
	}
	return c
}

func vfC01Open(t *testing.T, c vfC01Cfg) (*vfEnv, error) {
	return vfOpen(t, vfDBConfig{
		DefaultCollection: c.defaultColl,
		SyncFn:            vfDefaultSyncFn,
		Mutate: func(o *DatabaseContextOptions) {
			o.AllowConflicts = base.Ptr(c.conflicts)
			o.CacheOptions.ChannelCacheMaxLength = c.maxLen
			if c.minLen > 0 {
				o.CacheOptions.ChannelCacheMinLength = c.minLen
			}
			if c.maxChans > 0 {
				o.CacheOptions.MaxNumChannels = c.maxChans
			}
			if c.queryLimit > 0 {
				o.CacheOptions.ChannelQueryLimit = c.queryLimit
				o.QueryPaginationLimit = c.queryLimit
			}
		},
	})
}

var vfC01UserDefs = []struct {
	name  string
	chans []string
}{{"uA", []string{"A"}}, {"uAB", []string{"A", "B"}}, {"uStar", []string{"*"}}, {"uNone", nil}}

// createUser goes through DatabaseContext.UpdatePrincipal, the path the admin REST API uses.
func (w *vfC01World) createUser(name string, chans []string) error {
	env := w.env
	set := base.SetOf(chans...)
	cfg := &auth.PrincipalConfig{Name: base.Ptr(name), Password: base.Ptr("letmein-" + name)}
	if base.IsDefaultCollection(env.Coll.ScopeName, env.Coll.Name) {
		cfg.ExplicitChannels = set
	} else {
		cfg.CollectionAccess = map[string]map[string]*auth.CollectionAccessConfig{
			env.Coll.ScopeName: {env.Coll.Name: {ExplicitChannels_: set}},
		}
	}
	_, princ, err := env.DBC.UpdatePrincipal(env.Ctx, cfg, true, false)
	if err != nil {
		return err
	}
	u := &vfC01User{name: name, chans: chans, seq: princ.Sequence(), grant: map[string]uint64{"!": 1}}
	for _, c := range chans {
		u.grant[c] = princ.Sequence()
	}
	w.users[name] = u
	w.names = append(w.names, name)
	return nil
}

func vfC01NewWorld(t *testing.T, rt *rapid.T, rec *kit.Rec, test string, c vfC01Cfg) *vfC01World {
	w := &vfC01World{t: t, rt: rt, rec: rec, test: test, docs: map[string]*vfC01Doc{}, users: map[string]*vfC01User{}, names: []string{""},
		classes: map[string]int{}, allowConflicts: c.conflicts, strict: c.prewrites == 0}
	for i := 0; i < 5; i++ {
		id := fmt.Sprintf("d%d", i)
		w.ids = append(w.ids, id)
		w.docs[id] = &vfC01Doc{id: id, revs: map[string]*vfC01Rev{}, cur: map[string]bool{}, left: map[string]vfC01Left{}}
	}
	w.maxRows = 4 * (len(w.ids)*(len(vfC01Channels)+2) + 2)
	w.ops = append(w.ops, c.String())
	env, err := vfC01Open(t, c)
	if err != nil {
		rec.Inconclusive()
		kit.InconclusiveLine("C01", "open database: %v", err)
		rt.Skip()
	}
	w.env = env
	return w
}

// TestVerif_C01_L3: whole-database state machine.
func TestVerif_C01_L3(t *testing.T) {
	rec := kit.New("C01", "L3")
	defer rec.Flush()
	defer SuspendSequenceBatching()()
	allowPrewrites := kit.Param("prewrites", 1) == 1
	rapid.Check(t, func(rt *rapid.T) {
		c := vfC01DrawCfg(rt, allowPrewrites)
		w := vfC01NewWorld(t, rt, rec, "L3", c)
		defer w.env.Close()
		// writes that precede the grants (loose family only)
		for i := 0; i < c.prewrites; i++ {
			kind := rapid.SampledFrom([]string{"create", "create", "move", "delete"}).Draw(rt, "prewrite")
			live := w.hasDoc(func(d *vfC01Doc) bool { return d.exists() && !d.winnerDeleted() })
			fresh := w.hasDoc(func(d *vfC01Doc) bool { return !d.exists() })
			switch {
			case kind == "move" && live:
				w.actMove(rt)
			case kind == "delete" && live:
				w.actDelete(rt)
			case fresh:
				w.actCreate(rt)
			}
		}
		for _, def := range vfC01UserDefs {
			if err := w.createUser(def.name, def.chans); err != nil {
				w.inconclusive("create user %s: %v", def.name, err)
			}
		}
		rt.Repeat(map[string]func(*rapid.T){
			"create":    w.actCreate,
			"update":    w.actUpdate,
			"move":      w.actMove,
			"move2":     w.actMove,
			"delete":    w.actDelete,
			"resurrect": w.actResurrect,
			"conflict":  w.actConflict,
			"coldstart": w.actFlush,
			"read":      w.actRead,
			"read2":     w.actRead,
			"read3":     w.actRead,
			"read4":     w.actRead,
		})
		if w.dead {
			rt.Skip()
		}
		nontrivial := w.visibleMoves > 0 && w.queryReads > 0 && w.resumes > 0
		var cls []string
		if w.visibleMoves > 0 {
			cls = append(cls, "case:visible-move-or-deletion")
		}
		if w.queryReads > 0 {
			cls = append(cls, "case:query-path-read")
		}
		if w.resumes > 0 {
			cls = append(cls, "case:resume-from-token")
		}
		if w.coldReads > 0 {
			cls = append(cls, "case:cold-vs-warm")
		}
		if w.pagedReads > 0 {
			cls = append(cls, "case:paged")
		}
		if !w.strict {
			cls = append(cls, "case:writes-before-grants")
		}
		if w.env.DBC.DbStats.Cache().ChannelCacheBypassCount.Value() > 0 {
			cls = append(cls, "case:bypass-cache-used")
		}
		rec.Case(w.render(), nontrivial, cls...)
		for _, k := range vfSortedKeys(w.classes) {
			rec.Class(k, int64(w.classes[k]))
		}
	})
}
