package db

// C17 — replication checkpoints never run ahead of processed changes.
// Injected into package db by the /verif driver (build overlay); never part of /repo.
//
// The component under test is the real Checkpointer (active_replicator_checkpointer.go). The harness
// plays the replication around it: a "feed" is a list of distinct sequence tokens that is strictly
// ascending under SequenceID.Before (what a changes feed hands to a replicator); events announce
// tokens (expected / already known), complete them, and fire the checkpoint timer
// (_updateCheckpointLists under the lock, exactly what CheckpointNow does before persisting the value).
// The oracle is a reference model written from the property statement: a set of announced tokens
// and a set of completed ones.

import (
	"context"
	"fmt"
	"math/bits"
	"sort"
	"strings"
	"testing"

	"github.com/couchbase/sync_gateway/base"
	kit "github.com/couchbase/sync_gateway/verifkit"
	"pgregory.net/rapid"
)

// ---------------------------------------------------------------------------------------------
// tokens and feeds

// vfC17WellFormed: a token that prints completely (String drops no field), so the persisted
// checkpoint string denotes exactly this token again when the replication restarts.
func vfC17WellFormed(s SequenceID) bool {
	if s.Seq == 0 {
		return false
	}
	if s.TriggeredBy != 0 {
		if !(s.Seq < s.TriggeredBy) {
			return false
		}
		return s.LowSeq == 0 || s.LowSeq < s.TriggeredBy
	}
	return s.LowSeq == 0 || s.LowSeq < s.Seq
}

func vfC17Form(s SequenceID) string {
	switch {
	case s.LowSeq != 0 && s.TriggeredBy != 0:
		return "low:trig:seq"
	case s.LowSeq != 0:
		return "low::seq"
	case s.TriggeredBy != 0:
		return "trig:seq"
	}
	return "seq"
}

// vfC17Universe returns every well-formed token with all fields in 0..maxField.
func vfC17Universe(maxField uint64) []SequenceID {
	var all []SequenceID
	for tb := uint64(0); tb <= maxField; tb++ {
		for low := uint64(0); low <= maxField; low++ {
			for seq := uint64(1); seq <= maxField; seq++ {
				s := SequenceID{TriggeredBy: tb, LowSeq: low, Seq: seq}
				if vfC17WellFormed(s) {
					all = append(all, s)
				}
			}
		}
	}
	return all
}

// vfC17RefKey / vfC17RefLess: the position a well-formed token denotes in a changes feed, written from
// the documented token semantics and NOT from SequenceID.Before (the checkpointer sorts with Before, so a
// feed order derived from Before would be blind to a wrong comparator): a plain token S sits at S; a
// back-fill row T:S sits at its trigger T, before the plain row T and ordered by S among rows of the same
// trigger; a token carrying a low sequence L sits at L, after the plain and back-fill rows of L, ordered
// by its remainder. The C20 check shows exhaustively that Before agrees with this order on the unchanged tree.
func vfC17RefKey(s SequenceID) []uint64 {
	rest := func(trig, seq uint64) []uint64 {
		if trig != 0 {
			return []uint64{trig, 0, seq}
		}
		return []uint64{seq, 1, 0}
	}
	if s.LowSeq != 0 {
		return append([]uint64{s.LowSeq, 2}, rest(s.TriggeredBy, s.Seq)...)
	}
	return rest(s.TriggeredBy, s.Seq)
}

func vfC17RefLess(a, b SequenceID) bool {
	ka, kb := vfC17RefKey(a), vfC17RefKey(b)
	for i := 0; i < len(ka) && i < len(kb); i++ {
		if ka[i] != kb[i] {
			return ka[i] < kb[i]
		}
	}
	return len(ka) < len(kb)
}

// vfC17StrictlyAfterAll: t can be appended to the chain (it follows every member in feed order).
func vfC17StrictlyAfterAll(chain []SequenceID, t SequenceID) bool {
	for _, c := range chain {
		if !vfC17RefLess(c, t) || c == t {
			return false
		}
	}
	return true
}

// vfC17InsertChain inserts t into a feed at its feed-order position; a token already present leaves the
// feed unchanged.
func vfC17InsertChain(chain []SequenceID, t SequenceID) ([]SequenceID, bool) {
	pos := 0
	for _, c := range chain {
		if c == t {
			return chain, false
		}
		if vfC17RefLess(c, t) {
			pos++
		}
	}
	out := make([]SequenceID, 0, len(chain)+1)
	out = append(out, chain[:pos]...)
	out = append(out, t)
	out = append(out, chain[pos:]...)
	return out, true
}

func vfC17FeedString(feed []SequenceID) string {
	parts := make([]string, len(feed))
	for i, s := range feed {
		parts[i] = s.String()
	}
	return "feed=[" + strings.Join(parts, " ") + "]"
}

// ---------------------------------------------------------------------------------------------
// the simulated replication: real Checkpointer + reference model

var vfC17Stats = CheckpointerStats{
	ExpectedSequenceLen:             &base.SgwIntStat{},
	ExpectedSequenceLenPostCleanup:  &base.SgwIntStat{},
	ProcessedSequenceLen:            &base.SgwIntStat{},
	ProcessedSequenceLenPostCleanup: &base.SgwIntStat{},
}

var vfC17Ctx = context.Background()

func vfC17NewCheckpointer(threshold int) *Checkpointer {
	return &Checkpointer{
		expectedSeqs:                   make([]SequenceID, 0, 8),
		processedSeqs:                  make(map[SequenceID]struct{}),
		idAndRevLookup:                 make(map[IDAndRev]SequenceID),
		ctx:                            vfC17Ctx,
		stats:                          vfC17Stats,
		expectedSeqCompactionThreshold: threshold,
	}
}

type vfC17Sim struct {
	feed []SequenceID
	c    *Checkpointer
	pull bool // announce / complete through the pull-side entry points (doc+rev keyed)

	// model (bit i = feed[i])
	announced uint64 // told to expect (as expected or as already known)
	known     uint64 // announced as already known
	proc      uint64 // a completion notification was delivered
	last      SequenceID
	hasLast   bool
	maxCPIdx  int // highest feed index ever returned as checkpoint, -1 if none
	dups      int // duplicate completions delivered so far

	// observations
	backwards int
	compacted bool // the last tick found entries removed by the compaction branch
	buf       []SequenceID // backing store handed to the checkpointer when this simulation is recycled
}

func vfC17NewSim(feed []SequenceID, threshold int, pull bool) *vfC17Sim {
	return &vfC17Sim{feed: feed, c: vfC17NewCheckpointer(threshold), pull: pull, maxCPIdx: -1}
}

func (s *vfC17Sim) clone() *vfC17Sim {
	n := *s
	n.buf = nil // never share a recycling buffer with the original
	c := vfC17NewCheckpointer(s.c.expectedSeqCompactionThreshold)
	c.expectedSeqs = append(c.expectedSeqs, s.c.expectedSeqs...)
	for k := range s.c.processedSeqs {
		c.processedSeqs[k] = struct{}{}
	}
	for k, v := range s.c.idAndRevLookup {
		c.idAndRevLookup[k] = v
	}
	n.c = c
	return &n
}

func (s *vfC17Sim) feedIndex(v SequenceID) int {
	for i, e := range s.feed {
		if e == v {
			return i
		}
	}
	return -1
}

// cloneInto copies s into dst (a retired simulation whose buffers are reused) or into a fresh one.
func (s *vfC17Sim) cloneInto(dst *vfC17Sim) *vfC17Sim {
	if dst == nil {
		return s.clone()
	}
	c, buf := dst.c, dst.buf
	*dst = *s
	dst.buf = buf
	if cap(dst.buf) < len(s.c.expectedSeqs)+4 {
		dst.buf = make([]SequenceID, 0, 2*len(s.c.expectedSeqs)+8)
	}
	c.expectedSeqs = append(dst.buf[:0], s.c.expectedSeqs...)
	c.expectedSeqCompactionThreshold = s.c.expectedSeqCompactionThreshold
	clear(c.processedSeqs)
	for k := range s.c.processedSeqs {
		c.processedSeqs[k] = struct{}{}
	}
	if len(c.idAndRevLookup) > 0 || len(s.c.idAndRevLookup) > 0 {
		clear(c.idAndRevLookup)
		for k, v := range s.c.idAndRevLookup {
			c.idAndRevLookup[k] = v
		}
	}
	dst.c = c
	return dst
}

func (s *vfC17Sim) done() uint64        { return s.announced & (s.known | s.proc) }
func (s *vfC17Sim) outstanding() uint64 { return s.announced &^ (s.known | s.proc) }

func vfC17DocRev(i int) IDAndRev { return IDAndRev{DocID: fmt.Sprintf("d%d", i), RevID: "1-a"} }

// expect announces the tokens with the given feed indexes as one batch, in the given order.
func (s *vfC17Sim) expect(idx []int) {
	if s.pull {
		m := make(map[IDAndRev]SequenceID, len(idx))
		for _, i := range idx {
			m[vfC17DocRev(i)] = s.feed[i]
		}
		s.c.AddExpectedSeqIDAndRevs(m)
	} else {
		seqs := make([]SequenceID, len(idx))
		for k, i := range idx {
			seqs[k] = s.feed[i]
		}
		s.c.AddExpectedSeqs(seqs...)
	}
	for _, i := range idx {
		s.announced |= 1 << uint(i)
	}
}

func (s *vfC17Sim) alreadyKnown(idx []int) {
	seqs := make([]SequenceID, len(idx))
	for k, i := range idx {
		seqs[k] = s.feed[i]
	}
	s.c.AddAlreadyKnownSeq(seqs...)
	for _, i := range idx {
		s.announced |= 1 << uint(i)
		s.known |= 1 << uint(i)
	}
}

// processed delivers a completion for feed[i]. bySeq=false (pull side only) lets the checkpointer
// resolve the token from the doc/rev pair, as for a rev message that carries no sequence.
func (s *vfC17Sim) processed(i int, bySeq bool) {
	if s.pull {
		if bySeq {
			seq := s.feed[i]
			s.c.AddProcessedSeqIDAndRev(&seq, vfC17DocRev(i))
		} else {
			s.c.AddProcessedSeqIDAndRev(nil, vfC17DocRev(i))
		}
	} else {
		s.c.AddProcessedSeq(s.feed[i])
	}
	s.proc |= 1 << uint(i)
}

// nontrivialNow: DESIGN N — some token earlier than a completed token is still outstanding.
func (s *vfC17Sim) nontrivialNow() bool {
	out, done := s.outstanding(), s.done()
	return out != 0 && done != 0 && bits.TrailingZeros64(out) < 63-bits.LeadingZeros64(done)
}

// tick fires the checkpoint timer and judges the value that would be persisted. It returns the
// checkpoint (nil = nothing to persist) and a non-empty description when the property is violated.
func (s *vfC17Sim) tick(inOrder bool) (cp *SequenceID, bad string) {
	s.c.lock.Lock()
	cp = s.c._updateCheckpointLists()
	remaining := len(s.c.expectedSeqs)
	s.c.lock.Unlock()
	if inOrder {
		// observation only: the expected list is shorter than "announced after the last checkpoint"
		// → the compaction branch has removed something
		from := s.maxCPIdx
		if cp != nil {
			if i := s.feedIndex(*cp); i > from {
				from = i
			}
		}
		s.compacted = remaining < bits.OnesCount64(s.announced&^(uint64(1)<<uint(from+1)-1))
	}
	if cp == nil {
		return nil, ""
	}
	v := *cp
	out := s.outstanding()
	// clause 1 (no run-ahead): every token the replicator was told to expect at or before the
	// checkpoint is complete. Restarting from v re-reads only what follows v.
	for i, e := range s.feed {
		if out&(1<<uint(i)) != 0 && (e == v || vfC17RefLess(e, v)) {
			return cp, fmt.Sprintf("checkpoint %s runs ahead: expected token %s (feed position %d) is at or before it and was neither processed nor already known", v.String(), e.String(), i)
		}
	}
	idx := s.feedIndex(v)
	if inOrder {
		// clause 2: the checkpoint is one of the announced tokens
		if idx < 0 || s.announced&(1<<uint(idx)) == 0 {
			return cp, fmt.Sprintf("checkpoint %s (%+v) is not a token the replicator was told to expect", v.String(), v)
		}
		// restart clause by feed position (independent of Before): nothing up to idx is skipped
		need := uint64(1)<<uint(idx+1) - 1
		if s.done()&need != need {
			return cp, fmt.Sprintf("checkpoint %s (feed position %d): a restart would skip feed positions %b (bit i = position i) that were never completed", v.String(), idx, need&^s.done())
		}
		// clause 3: persisted checkpoints never move backwards
		if s.hasLast && vfC17RefLess(v, s.last) {
			return cp, fmt.Sprintf("checkpoint moved backwards: %s after %s", v.String(), s.last.String())
		}
		if idx < s.maxCPIdx {
			return cp, fmt.Sprintf("checkpoint moved backwards in the feed: position %d after position %d", idx, s.maxCPIdx)
		}
	} else if s.hasLast && vfC17RefLess(v, s.last) {
		s.backwards++
	}
	s.last, s.hasLast = v, true
	if idx > s.maxCPIdx {
		s.maxCPIdx = idx
	}
	return cp, ""
}

// ---------------------------------------------------------------------------------------------
// bounded-exhaustive enumerator

type vfC17Op struct {
	kind byte // 'E' expect batch, 'K' already known, 'P' processed, 'D' duplicate processed, 'T' tick
	n    int
	tok  [3]int
}

func vfC17RenderOps(feed []SequenceID, thr int, ops []vfC17Op) string {
	var sb strings.Builder
	fmt.Fprintf(&sb, "%s threshold=%d:", vfC17FeedString(feed), thr)
	for _, o := range ops {
		sb.WriteString(" ")
		switch o.kind {
		case 'T':
			sb.WriteString("tick")
		default:
			names := map[byte]string{'E': "expect", 'K': "known", 'P': "processed", 'D': "dup-processed"}
			sb.WriteString(names[o.kind] + "(")
			for k := 0; k < o.n; k++ {
				if k > 0 {
					sb.WriteString(",")
				}
				sb.WriteString(feed[o.tok[k]].String())
			}
			sb.WriteString(")")
		}
		sb.WriteString(";")
	}
	return sb.String()
}

var vfC17Perms = map[int][][]int{
	1: {{0}},
	2: {{0, 1}, {1, 0}},
	3: {{0, 1, 2}, {0, 2, 1}, {1, 0, 2}, {1, 2, 0}, {2, 0, 1}, {2, 1, 0}},
}

type vfC17Enum struct {
	t       *testing.T
	test    string
	feed    []SequenceID
	index   map[SequenceID]int
	thr     int
	inOrder bool
	maxDups int // duplicate completions per history (each one multiplies the state space)
	ops     []vfC17Op
	seen    map[string]struct{}
	pool    []*vfC17Sim
	keyBuf  []byte

	states, transitions, nontrivial, nonNil, compactedTicks, backwards, maxDepth int64
	sample                                                                     string
}

func vfC17NewEnum(t *testing.T, test string, feed []SequenceID, thr int, inOrder bool) *vfC17Enum {
	e := &vfC17Enum{t: t, test: test, feed: feed, thr: thr, inOrder: inOrder, index: map[SequenceID]int{}, seen: map[string]struct{}{}}
	for i, s := range feed {
		e.index[s] = i
	}
	return e
}

// key is the complete state of the product (real checkpointer × reference model): two histories
// that reach the same key have identical futures, so each state is expanded once. Everything
// _updateCheckpointLists and the Add* entry points read is in it: the expected list in its current
// order, the processed set, and the model's sets and previous checkpoint.
func (e *vfC17Enum) key(s *vfC17Sim) []byte {
	buf := e.keyBuf[:0]
	tok := func(t SequenceID) {
		if i, ok := e.index[t]; ok {
			buf = append(buf, byte(i))
		} else {
			buf = append(buf, 0xff)
			buf = append(buf, t.String()...)
			buf = append(buf, 0xfe)
		}
	}
	buf = append(buf, byte(s.announced), byte(s.known), byte(s.proc), byte(s.dups))
	if s.hasLast {
		buf = append(buf, 1)
		tok(s.last)
	} else {
		buf = append(buf, 0)
	}
	buf = append(buf, byte(s.maxCPIdx+1), byte(len(s.c.expectedSeqs)))
	for _, t := range s.c.expectedSeqs {
		tok(t)
	}
	var pmask uint64
	var foreign []string
	for t := range s.c.processedSeqs {
		if i, ok := e.index[t]; ok {
			pmask |= 1 << uint(i)
		} else {
			foreign = append(foreign, t.String())
		}
	}
	buf = append(buf, 0xfd, byte(pmask))
	if len(foreign) > 0 {
		sort.Strings(foreign)
		buf = append(buf, strings.Join(foreign, ",")...)
	}
	e.keyBuf = buf
	return buf
}

func (e *vfC17Enum) render() string { return vfC17RenderOps(e.feed, e.thr, e.ops) }

func (e *vfC17Enum) doTick(s *vfC17Sim) {
	nt := s.nontrivialNow()
	var cp *SequenceID
	var bad string
	kit.Guard(e.t, "C17", e.test, e.render, func() {
		cp, bad = s.tick(e.inOrder)
	})
	if bad != "" {
		kit.Violation(e.t, "C17", e.test, e.render(), "%s", bad)
	}
	if nt {
		e.nontrivial++
		if e.sample == "" && cp != nil && len(e.ops) >= 6 {
			e.sample = e.render() + " -> checkpoint " + cp.String()
		}
	}
	if cp != nil {
		e.nonNil++
	}
	if s.compacted {
		e.compactedTicks++
	}
}

// explore expands state s once: every enabled event of the family is applied to a copy.
//
// in-order family: tick; expect-batch = the next 1..3 feed tokens in every order; already-known =
// the next 1..2 feed tokens in every order; processed(any outstanding token); duplicate processed
// (any token whose completion was already delivered; at most `dups` per history).
// relaxed family: tick; expect(any single unannounced token); already-known(any single unannounced
// token); processed(any token not yet completed, announced or not — completion may overtake the
// announcement, DESIGN §5a item 4); duplicate processed.
func (e *vfC17Enum) explore(s *vfC17Sim) {
	k := e.key(s)
	if _, ok := e.seen[string(k)]; ok {
		return
	}
	e.seen[string(k)] = struct{}{}
	e.states++
	if d := int64(len(e.ops)); d > e.maxDepth {
		e.maxDepth = d
	}
	n := len(e.feed)
	step := func(o vfC17Op) {
		var c *vfC17Sim
		if l := len(e.pool); l > 0 {
			c = s.cloneInto(e.pool[l-1])
			e.pool = e.pool[:l-1]
		} else {
			c = s.cloneInto(nil)
		}
		e.ops = append(e.ops, o)
		e.transitions++
		switch o.kind {
		case 'T':
			e.doTick(c)
			e.backwards += int64(c.backwards - s.backwards)
			c.backwards = 0
		default:
			kit.Guard(e.t, "C17", e.test, e.render, func() {
				switch o.kind {
				case 'E':
					c.expect(o.tok[:o.n])
				case 'K':
					c.alreadyKnown(o.tok[:o.n])
				case 'P':
					c.processed(o.tok[0], true)
				case 'D':
					c.processed(o.tok[0], true)
					c.dups++
				}
			})
		}
		e.explore(c)
		e.ops = e.ops[:len(e.ops)-1]
		e.pool = append(e.pool, c)
	}
	step(vfC17Op{kind: 'T'})
	if e.inOrder {
		next := bits.Len64(s.announced)
		for k := 1; k <= 3 && next+k <= n; k++ {
			for _, p := range vfC17Perms[k] {
				o := vfC17Op{kind: 'E', n: k}
				for j := 0; j < k; j++ {
					o.tok[j] = next + p[j]
				}
				step(o)
				if k <= 2 {
					o.kind = 'K'
					step(o)
				}
			}
		}
	} else {
		for i := 0; i < n; i++ {
			if s.announced&(1<<uint(i)) == 0 {
				step(vfC17Op{kind: 'E', n: 1, tok: [3]int{i}})
				step(vfC17Op{kind: 'K', n: 1, tok: [3]int{i}})
			}
		}
	}
	for i := 0; i < n; i++ {
		b := uint64(1) << uint(i)
		switch {
		case s.proc&b != 0:
			if s.dups < e.maxDups {
				step(vfC17Op{kind: 'D', n: 1, tok: [3]int{i}})
			}
		case s.known&b != 0:
			// a token reported as already known is never sent, so no completion follows
		case s.announced&b != 0 || !e.inOrder:
			step(vfC17Op{kind: 'P', n: 1, tok: [3]int{i}})
		}
	}
}

// vfC17Chains enumerates every feed (strict chain under Before) of exactly n tokens of the universe;
// each chain is produced once, in ascending order.
func vfC17Chains(universe []SequenceID, n int, visit func(feed []SequenceID)) {
	var rec func(chain []SequenceID)
	rec = func(chain []SequenceID) {
		if len(chain) == n {
			visit(chain)
			return
		}
		for _, t := range universe {
			if vfC17StrictlyAfterAll(chain, t) {
				rec(append(chain, t))
			}
		}
	}
	rec(make([]SequenceID, 0, n))
}

var vfC17Thresholds = []int{0, 1, 2, 100}

// vfC17FormMixed: the feed uses at least two token forms.
func vfC17FormMixed(feed []SequenceID) bool {
	for _, s := range feed[1:] {
		if vfC17Form(s) != vfC17Form(feed[0]) {
			return true
		}
	}
	return false
}

// vfC17FeedsFor returns the feeds the enumerator explores for n tokens. Up to `allUpTo` tokens:
// every chain over the universe. Above: one chain per *sequence of token forms* (the first in
// enumeration order) — the checkpointer looks at tokens only through Before and equality, so
// chains with the same form sequence are interchangeable for it.
func vfC17FeedsFor(universe []SequenceID, n, allUpTo int) [][]SequenceID {
	var feeds [][]SequenceID
	seen := map[string]bool{}
	vfC17Chains(universe, n, func(feed []SequenceID) {
		if n > allUpTo {
			forms := make([]string, n)
			for i, s := range feed {
				forms[i] = vfC17Form(s)
			}
			key := strings.Join(forms, "|")
			if seen[key] {
				return
			}
			seen[key] = true
		}
		feeds = append(feeds, append([]SequenceID(nil), feed...))
	})
	return feeds
}

func vfC17RunEnum(t *testing.T, test string, inOrder bool, maxTokens, allUpTo int) {
	rec := kit.New("C17", test)
	defer rec.Flush()
	maxField := uint64(kit.Param("maxfield", 3))
	shard, shards := kit.Shard()
	universe := vfC17Universe(maxField)
	item := 0
	var states, nontrivial int64
	for n := maxTokens; n >= 1; n-- {
		feeds := vfC17FeedsFor(universe, n, allUpTo)
		if shard == 0 {
			rec.Class(fmt.Sprintf("feeds_tokens=%d", n), int64(len(feeds)))
		}
		for _, feed := range feeds {
			item++
			if item%shards != shard {
				continue
			}
			for _, thr := range vfC17Thresholds {
				e := vfC17NewEnum(t, test, feed, thr, inOrder)
				e.maxDups = kit.Param("dups", 1)
				e.explore(vfC17NewSim(feed, thr, false))
				states += e.states
				nontrivial += e.nontrivial
				rec.Class(fmt.Sprintf("states_tokens=%d", n), e.states)
				rec.Class(fmt.Sprintf("states_threshold=%d", thr), e.states)
				rec.Class("transitions", e.transitions)
				rec.Class("ticks_returning_checkpoint", e.nonNil)
				rec.Class("ticks_after_compaction_removed_entries", e.compactedTicks)
				if !inOrder {
					rec.Class("checkpoints_moving_backwards(allowed here)", e.backwards)
				}
				if vfC17FormMixed(feed) {
					rec.Class("states_on_mixed_form_feeds", e.states)
				}
				if e.sample != "" && n >= 3 && vfC17FormMixed(feed) {
					rec.Sample(e.sample)
				}
			}
		}
	}
	// one evaluation = the oracle judged the tick of one distinct reachable state
	rec.Bulk(states, nontrivial)
	if shards == 1 {
		rec.SetExhaustive()
	}
}

// TestVerif_C17_Exhaustive: in-order family. Explicit-state exploration of every state reachable by
// any event sequence over feeds of up to `tokens` tokens × compaction thresholds {0,1,2,100}; the
// oracle judges the tick of every reachable state.
func TestVerif_C17_Exhaustive(t *testing.T) {
	vfC17RunEnum(t, "Exhaustive", true, kit.Param("tokens", 5), kit.Param("allfeeds", 4))
}

// TestVerif_C17_ExhaustiveRelaxed: relaxed family (announcements in any order, completions before
// announcements), no-run-ahead only.
func TestVerif_C17_ExhaustiveRelaxed(t *testing.T) {
	vfC17RunEnum(t, "ExhaustiveRelaxed", false, kit.Param("tokens", 3), kit.Param("allfeeds", 3))
}

// ---------------------------------------------------------------------------------------------
// rapid state machines (up to 40 tokens, thresholds crossed)

func vfC17GenToken(maxVal uint64) *rapid.Generator[SequenceID] {
	return rapid.Custom(func(t *rapid.T) SequenceID {
		switch rapid.IntRange(0, 3).Draw(t, "form") {
		case 0:
			return SequenceID{Seq: rapid.Uint64Range(1, maxVal).Draw(t, "seq")}
		case 1: // trig:seq, seq < trig
			trig := rapid.Uint64Range(2, maxVal).Draw(t, "trig")
			return SequenceID{TriggeredBy: trig, Seq: rapid.Uint64Range(1, trig-1).Draw(t, "seq")}
		case 2: // low::seq, low < seq
			seq := rapid.Uint64Range(2, maxVal).Draw(t, "seq")
			return SequenceID{LowSeq: rapid.Uint64Range(1, seq-1).Draw(t, "low"), Seq: seq}
		default: // low:trig:seq
			trig := rapid.Uint64Range(2, maxVal).Draw(t, "trig")
			return SequenceID{TriggeredBy: trig, LowSeq: rapid.Uint64Range(1, trig-1).Draw(t, "low"), Seq: rapid.Uint64Range(1, trig-1).Draw(t, "seq")}
		}
	})
}

// vfC17GenFeed draws candidate tokens and keeps those that extend a strict chain under Before.
func vfC17GenFeed(t *rapid.T, maxTokens int) []SequenceID {
	want := rapid.IntRange(1, maxTokens).Draw(t, "tokens")
	maxVal := uint64(rapid.SampledFrom([]int{4, 8, 20, 60}).Draw(t, "maxval"))
	var feed []SequenceID
	for tries := 0; len(feed) < want && tries < 3*want+6; tries++ {
		tok := vfC17GenToken(maxVal).Draw(t, "tok")
		if !vfC17WellFormed(tok) {
			continue
		}
		feed, _ = vfC17InsertChain(feed, tok)
	}
	if len(feed) == 0 {
		feed = []SequenceID{{Seq: 1}}
	}
	return feed
}

var vfC17RapidThresholds = []int{0, 1, 2, 5, 10, 100}

func vfC17Bits(mask uint64, n int) []int {
	var out []int
	for i := 0; i < n; i++ {
		if mask&(1<<uint(i)) != 0 {
			out = append(out, i)
		}
	}
	return out
}

func vfC17Names(feed []SequenceID, idx []int) string {
	parts := make([]string, len(idx))
	for k, i := range idx {
		parts[k] = feed[i].String()
	}
	return strings.Join(parts, ",")
}

func vfC17RunMachine(rt *rapid.T, rec *kit.Rec, test string, inOrder bool) {
	feed := vfC17GenFeed(rt, 40)
	n := len(feed)
	thr := rapid.SampledFrom(vfC17RapidThresholds).Draw(rt, "threshold")
	pull := rapid.Bool().Draw(rt, "pullAPI")
	s := vfC17NewSim(feed, thr, pull)
	ops := []string{fmt.Sprintf("%s threshold=%d api=%s", vfC17FeedString(feed), thr, map[bool]string{true: "pull", false: "push"}[pull])}
	render := func() string { return strings.Join(ops, "; ") }
	next := 0
	nontrivial, nonNil, ticks, early, compacted := false, 0, 0, 0, false

	drawBatch := func(cands []int, maxK int, label string) []int {
		k := rapid.IntRange(1, min(maxK, len(cands))).Draw(rt, label+"K")
		var batch []int
		if inOrder {
			batch = append(batch, cands[:k]...)
		} else {
			pool := append([]int(nil), cands...)
			for j := 0; j < k; j++ {
				p := rapid.IntRange(0, len(pool)-1).Draw(rt, label+"Pick")
				batch = append(batch, pool[p])
				pool = append(pool[:p], pool[p+1:]...)
			}
		}
		return rapid.Permutation(batch).Draw(rt, label+"Order")
	}
	unannounced := func() []int {
		if inOrder {
			var out []int
			for i := next; i < n; i++ {
				out = append(out, i)
			}
			return out
		}
		return vfC17Bits(^s.announced&(uint64(1)<<uint(n)-1), n)
	}

	actions := map[string]func(*rapid.T){
		"expect": func(rt *rapid.T) {
			cands := unannounced()
			if len(cands) == 0 {
				rt.Skip()
			}
			batch := drawBatch(cands, 3, "expect")
			ops = append(ops, "expect("+vfC17Names(feed, batch)+")")
			kit.Guard(rt, "C17", test, render, func() { s.expect(batch) })
			next += len(batch)
		},
		"known": func(rt *rapid.T) {
			cands := unannounced()
			if len(cands) == 0 {
				rt.Skip()
			}
			batch := drawBatch(cands, 3, "known")
			ops = append(ops, "known("+vfC17Names(feed, batch)+")")
			kit.Guard(rt, "C17", test, render, func() { s.alreadyKnown(batch) })
			next += len(batch)
		},
		"processed": func(rt *rapid.T) {
			cand := s.outstanding()
			if !inOrder && rapid.IntRange(0, 3).Draw(rt, "early") == 0 {
				// completion before the announcement (DESIGN §5a item 4); pull side resolves by doc/rev
				// only after the announcement, so deliver by sequence
				cand = ^s.announced &^ s.proc & (uint64(1)<<uint(n) - 1)
			}
			list := vfC17Bits(cand, n)
			if len(list) == 0 {
				rt.Skip()
			}
			i := list[rapid.IntRange(0, len(list)-1).Draw(rt, "tok")]
			bySeq := true
			if pull && s.announced&(1<<uint(i)) != 0 {
				bySeq = rapid.Bool().Draw(rt, "bySeq")
			}
			if s.announced&(1<<uint(i)) == 0 {
				early++
			}
			ops = append(ops, fmt.Sprintf("processed(%s%s)", feed[i].String(), map[bool]string{true: "", false: " via doc/rev"}[bySeq]))
			kit.Guard(rt, "C17", test, render, func() { s.processed(i, bySeq) })
		},
		"dup": func(rt *rapid.T) {
			list := vfC17Bits(s.proc&s.announced, n)
			if len(list) == 0 {
				rt.Skip()
			}
			i := list[rapid.IntRange(0, len(list)-1).Draw(rt, "tok")]
			ops = append(ops, "dup-processed("+feed[i].String()+")")
			kit.Guard(rt, "C17", test, render, func() { s.processed(i, true) })
		},
		"tick": func(rt *rapid.T) {
			nt := s.nontrivialNow()
			ops = append(ops, "tick")
			var cp *SequenceID
			var bad string
			kit.Guard(rt, "C17", test, render, func() { cp, bad = s.tick(inOrder) })
			if cp != nil {
				ops[len(ops)-1] = "tick->" + cp.String()
				nonNil++
			}
			if bad != "" {
				kit.Violation(rt, "C17", test, render(), "%s", bad)
			}
			ticks++
			if nt {
				nontrivial = true
			}
			if s.compacted {
				compacted = true
			}
		},
	}
	rt.Repeat(actions)
	// closing tick: whatever the history, the value persisted at shutdown obeys the same clauses
	actions["tick"](rt)

	classes := []string{fmt.Sprintf("threshold=%d", thr), fmt.Sprintf("api=%s", map[bool]string{true: "pull", false: "push"}[pull])}
	switch {
	case n <= 5:
		classes = append(classes, "tokens<=5")
	case n <= 15:
		classes = append(classes, "tokens=6..15")
	default:
		classes = append(classes, "tokens=16..40")
	}
	if nonNil > 0 {
		classes = append(classes, "returned_checkpoint")
	}
	if compacted {
		classes = append(classes, "compaction_removed_entries")
	}
	if vfC17FormMixed(feed) {
		classes = append(classes, "mixed_forms")
	}
	if s.backwards > 0 {
		classes = append(classes, "checkpoint_moved_backwards(allowed in relaxed)")
	}
	if early > 0 {
		classes = append(classes, "processed_before_expected")
	}
	if s.announced == uint64(1)<<uint(n)-1 && s.outstanding() == 0 {
		classes = append(classes, "ran_to_completion")
	}
	rec.Case(render(), nontrivial, classes...)
}

// TestVerif_C17_InOrder: announcements follow the feed order (any order inside a batch); asserts
// no-run-ahead, expected-only and monotone checkpoints.
func TestVerif_C17_InOrder(t *testing.T) {
	rec := kit.New("C17", "InOrder")
	defer rec.Flush()
	rapid.Check(t, func(rt *rapid.T) { vfC17RunMachine(rt, rec, "InOrder", true) })
}

// TestVerif_C17_Relaxed: announcements in any order and completions that overtake their
// announcement (schedules the push path can produce, DESIGN §5a item 4); asserts no-run-ahead only.
func TestVerif_C17_Relaxed(t *testing.T) {
	rec := kit.New("C17", "Relaxed")
	defer rec.Flush()
	rapid.Check(t, func(rt *rapid.T) { vfC17RunMachine(rt, rec, "Relaxed", false) })
}
