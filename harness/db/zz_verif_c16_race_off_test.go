//go:build !race

package db

const vfC16RaceBuild = false

func vfC16RaceErrors() int { return 0 }
