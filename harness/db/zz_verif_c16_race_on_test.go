//go:build race

package db

import "runtime"

// race-detector builds: number of data races reported so far in this process
const vfC16RaceBuild = true

func vfC16RaceErrors() int { return runtime.RaceErrors() }
