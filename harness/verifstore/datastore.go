package verifstore

import (
	"context"
	"errors"
	"fmt"

	sgbucket "github.com/couchbase/sg-bucket"
	"github.com/couchbaselabs/rosmar"
)

// DataStore is the intercepting data store. The embedded *rosmar.Collection supplies everything that
// is not a key/value primitive (names, views, queries, range scan, design documents, ...).
type DataStore struct {
	*rosmar.Collection
	b    *Bucket
	name string
}

var (
	_ sgbucket.DataStore      = &DataStore{}
	_ sgbucket.ViewStore      = &DataStore{}
	_ sgbucket.QueryableStore = &DataStore{}
	_ sgbucket.RangeScanStore = &DataStore{}
)

// Bucket returns the owning wrapper.
func (d *DataStore) Bucket() *Bucket { return d.b }

// Raw returns the un-intercepted rosmar collection (for "external", SDK-style writes of a harness).
func (d *DataStore) Raw() *rosmar.Collection { return d.Collection }

// StoreName is "scope.collection".
func (d *DataStore) StoreName() string { return d.name }

func (d *DataStore) begin(ctx context.Context, t OpType, key, via string, cas uint64) *opHandle {
	return d.b.begin(ctx, t, d.name, key, via, cas)
}

// ---------------------------------------------------------------------------------------------
// reads

func (d *DataStore) Get(ctx context.Context, k string, rv any) (cas uint64, err error) {
	h := d.begin(ctx, OpGet, k, "", 0)
	if err := h.pre(); err != nil {
		return 0, err
	}
	cas, err = d.Collection.Get(ctx, k, rv)
	if err, inj := h.post(err); inj {
		return 0, err
	}
	return cas, err
}

func (d *DataStore) GetRaw(ctx context.Context, k string) (v []byte, cas uint64, err error) {
	return d.getRaw(ctx, k, "")
}

func (d *DataStore) getRaw(ctx context.Context, k, via string) (v []byte, cas uint64, err error) {
	h := d.begin(ctx, OpGetRaw, k, via, 0)
	if err := h.pre(); err != nil {
		return nil, 0, err
	}
	v, cas, err = d.Collection.GetRaw(ctx, k)
	if err, inj := h.post(err); inj {
		return nil, 0, err
	}
	return v, cas, err
}

func (d *DataStore) GetWithXattrs(ctx context.Context, k string, xattrKeys []string) (v []byte, xattrs map[string][]byte, cas uint64, err error) {
	h := d.begin(ctx, OpGetWithXattrs, k, "", 0)
	if err := h.pre(); err != nil {
		return nil, nil, 0, err
	}
	v, xattrs, cas, err = d.Collection.GetWithXattrs(ctx, k, xattrKeys)
	if err, inj := h.post(err); inj {
		return nil, nil, 0, err
	}
	return v, xattrs, cas, err
}

func (d *DataStore) GetXattrs(ctx context.Context, k string, xattrKeys []string) (xattrs map[string][]byte, cas uint64, err error) {
	h := d.begin(ctx, OpGetXattrs, k, "", 0)
	if err := h.pre(); err != nil {
		return nil, 0, err
	}
	xattrs, cas, err = d.Collection.GetXattrs(ctx, k, xattrKeys)
	if err, inj := h.post(err); inj {
		return nil, 0, err
	}
	return xattrs, cas, err
}

func (d *DataStore) GetSubDocRaw(ctx context.Context, k string, subdocKey string) (v []byte, cas uint64, err error) {
	h := d.begin(ctx, OpGetSubDocRaw, k, "", 0)
	if err := h.pre(); err != nil {
		return nil, 0, err
	}
	v, cas, err = d.Collection.GetSubDocRaw(ctx, k, subdocKey)
	if err, inj := h.post(err); inj {
		return nil, 0, err
	}
	return v, cas, err
}

func (d *DataStore) Exists(ctx context.Context, k string) (exists bool, err error) {
	h := d.begin(ctx, OpExists, k, "", 0)
	if err := h.pre(); err != nil {
		return false, err
	}
	exists, err = d.Collection.Exists(ctx, k)
	if err, inj := h.post(err); inj {
		return false, err
	}
	return exists, err
}

func (d *DataStore) GetExpiry(ctx context.Context, k string) (exp uint32, err error) {
	h := d.begin(ctx, OpGetExpiry, k, "", 0)
	if err := h.pre(); err != nil {
		return 0, err
	}
	exp, err = d.Collection.GetExpiry(ctx, k)
	if err, inj := h.post(err); inj {
		return 0, err
	}
	return exp, err
}

// ---------------------------------------------------------------------------------------------
// writes

func (d *DataStore) GetAndTouchRaw(ctx context.Context, k string, exp uint32) (v []byte, cas uint64, err error) {
	h := d.begin(ctx, OpGetAndTouchRaw, k, "", 0)
	if err := h.pre(); err != nil {
		return nil, 0, err
	}
	v, cas, err = d.Collection.GetAndTouchRaw(ctx, k, exp)
	if err, inj := h.post(err); inj {
		return nil, 0, err
	}
	return v, cas, err
}

func (d *DataStore) Touch(ctx context.Context, k string, exp uint32) (cas uint64, err error) {
	h := d.begin(ctx, OpTouch, k, "", 0)
	if err := h.pre(); err != nil {
		return 0, err
	}
	cas, err = d.Collection.Touch(ctx, k, exp)
	if err, inj := h.post(err); inj {
		return 0, err
	}
	return cas, err
}

func (d *DataStore) Add(ctx context.Context, k string, exp uint32, v any) (added bool, err error) {
	h := d.begin(ctx, OpAdd, k, "", 0)
	if err := h.pre(); err != nil {
		return false, err
	}
	added, err = d.Collection.Add(ctx, k, exp, v)
	if err, inj := h.post(err); inj {
		return false, err
	}
	return added, err
}

func (d *DataStore) AddRaw(ctx context.Context, k string, exp uint32, v []byte) (added bool, err error) {
	h := d.begin(ctx, OpAddRaw, k, "", 0)
	if err := h.pre(); err != nil {
		return false, err
	}
	added, err = d.Collection.AddRaw(ctx, k, exp, v)
	if err, inj := h.post(err); inj {
		return false, err
	}
	return added, err
}

func (d *DataStore) Set(ctx context.Context, k string, exp uint32, opts *sgbucket.UpsertOptions, v any) error {
	h := d.begin(ctx, OpSet, k, "", 0)
	if err := h.pre(); err != nil {
		return err
	}
	err, _ := h.post(d.Collection.Set(ctx, k, exp, opts, v))
	return err
}

func (d *DataStore) SetRaw(ctx context.Context, k string, exp uint32, opts *sgbucket.UpsertOptions, v []byte) error {
	h := d.begin(ctx, OpSetRaw, k, "", 0)
	if err := h.pre(); err != nil {
		return err
	}
	err, _ := h.post(d.Collection.SetRaw(ctx, k, exp, opts, v))
	return err
}

// Delete has Couchbase Server semantics by default: a missing or already deleted key fails with
// sgbucket.MissingError (rosmar alone succeeds again on a tombstone row). The live check and the delete
// are atomic with respect to every other Delete through this wrapper.
func (d *DataStore) Delete(ctx context.Context, k string) error {
	h := d.begin(ctx, OpDelete, k, "", 0)
	if err := h.pre(); err != nil {
		return err
	}
	var err error
	if d.b.rawRosmarDelete.Load() {
		err = d.Collection.Delete(ctx, k)
	} else {
		d.b.delMu.Lock()
		var live bool
		live, err = d.Collection.Exists(ctx, k) // value NOT NULL
		if err == nil {
			if !live {
				err = sgbucket.MissingError{Key: k}
			} else {
				err = d.Collection.Delete(ctx, k)
			}
		}
		d.b.delMu.Unlock()
	}
	err, _ = h.post(err)
	return err
}

func (d *DataStore) Remove(ctx context.Context, k string, cas uint64) (casOut uint64, err error) {
	h := d.begin(ctx, OpRemove, k, "", cas)
	if err := h.pre(); err != nil {
		return 0, err
	}
	casOut, err = d.Collection.Remove(ctx, k, cas)
	if err, inj := h.post(err); inj {
		return 0, err
	}
	return casOut, err
}

func (d *DataStore) WriteCas(ctx context.Context, k string, exp uint32, cas uint64, v any, opt sgbucket.WriteOptions) (casOut uint64, err error) {
	return d.writeCas(ctx, k, exp, cas, v, opt, "")
}

func (d *DataStore) writeCas(ctx context.Context, k string, exp uint32, cas uint64, v any, opt sgbucket.WriteOptions, via string) (casOut uint64, err error) {
	h := d.begin(ctx, OpWriteCas, k, via, cas)
	if err := h.pre(); err != nil {
		return 0, err
	}
	casOut, err = d.Collection.WriteCas(ctx, k, exp, cas, v, opt)
	if err, inj := h.post(err); inj {
		return 0, err
	}
	return casOut, err
}

func (d *DataStore) Incr(ctx context.Context, k string, amt, def uint64, exp uint32) (result uint64, err error) {
	h := d.begin(ctx, OpIncr, k, "", 0)
	if err := h.pre(); err != nil {
		return 0, err
	}
	result, err = d.Collection.Incr(ctx, k, amt, def, exp)
	if err, inj := h.post(err); inj {
		return 0, err
	}
	return result, err
}

func (d *DataStore) WriteWithXattrs(ctx context.Context, k string, exp uint32, cas uint64, value []byte, xattrs map[string][]byte, xattrsToDelete []string, opts *sgbucket.MutateInOptions) (casOut uint64, err error) {
	return d.writeWithXattrs(ctx, k, exp, cas, value, xattrs, xattrsToDelete, opts, "")
}

func (d *DataStore) writeWithXattrs(ctx context.Context, k string, exp uint32, cas uint64, value []byte, xattrs map[string][]byte, xattrsToDelete []string, opts *sgbucket.MutateInOptions, via string) (casOut uint64, err error) {
	h := d.begin(ctx, OpWriteWithXattrs, k, via, cas)
	if err := h.pre(); err != nil {
		return 0, err
	}
	casOut, err = d.Collection.WriteWithXattrs(ctx, k, exp, cas, value, xattrs, xattrsToDelete, opts)
	if err, inj := h.post(err); inj {
		return 0, err
	}
	return casOut, err
}

func (d *DataStore) WriteTombstoneWithXattrs(ctx context.Context, k string, exp uint32, cas uint64, xv map[string][]byte, xattrsToDelete []string, deleteBody bool, opts *sgbucket.MutateInOptions) (casOut uint64, err error) {
	return d.writeTombstoneWithXattrs(ctx, k, exp, cas, xv, xattrsToDelete, deleteBody, opts, "")
}

func (d *DataStore) writeTombstoneWithXattrs(ctx context.Context, k string, exp uint32, cas uint64, xv map[string][]byte, xattrsToDelete []string, deleteBody bool, opts *sgbucket.MutateInOptions, via string) (casOut uint64, err error) {
	h := d.begin(ctx, OpWriteTombstoneWithXattrs, k, via, cas)
	if err := h.pre(); err != nil {
		return 0, err
	}
	casOut, err = d.Collection.WriteTombstoneWithXattrs(ctx, k, exp, cas, xv, xattrsToDelete, deleteBody, opts)
	if err, inj := h.post(err); inj {
		return 0, err
	}
	return casOut, err
}

func (d *DataStore) WriteResurrectionWithXattrs(ctx context.Context, k string, exp uint32, body []byte, xv map[string][]byte, opts *sgbucket.MutateInOptions) (casOut uint64, err error) {
	return d.writeResurrectionWithXattrs(ctx, k, exp, body, xv, opts, "")
}

func (d *DataStore) writeResurrectionWithXattrs(ctx context.Context, k string, exp uint32, body []byte, xv map[string][]byte, opts *sgbucket.MutateInOptions, via string) (casOut uint64, err error) {
	h := d.begin(ctx, OpWriteResurrectionWithXattrs, k, via, 0)
	if err := h.pre(); err != nil {
		return 0, err
	}
	casOut, err = d.Collection.WriteResurrectionWithXattrs(ctx, k, exp, body, xv, opts)
	if err, inj := h.post(err); inj {
		return 0, err
	}
	return casOut, err
}

func (d *DataStore) SetXattrs(ctx context.Context, k string, xattrs map[string][]byte) (casOut uint64, err error) {
	h := d.begin(ctx, OpSetXattrs, k, "", 0)
	if err := h.pre(); err != nil {
		return 0, err
	}
	casOut, err = d.Collection.SetXattrs(ctx, k, xattrs)
	if err, inj := h.post(err); inj {
		return 0, err
	}
	return casOut, err
}

func (d *DataStore) UpdateXattrs(ctx context.Context, k string, exp uint32, cas uint64, xv map[string][]byte, opts *sgbucket.MutateInOptions) (casOut uint64, err error) {
	h := d.begin(ctx, OpUpdateXattrs, k, "", cas)
	if err := h.pre(); err != nil {
		return 0, err
	}
	casOut, err = d.Collection.UpdateXattrs(ctx, k, exp, cas, xv, opts)
	if err, inj := h.post(err); inj {
		return 0, err
	}
	return casOut, err
}

func (d *DataStore) RemoveXattrs(ctx context.Context, k string, xattrKeys []string, cas uint64) error {
	h := d.begin(ctx, OpRemoveXattrs, k, "", cas)
	if err := h.pre(); err != nil {
		return err
	}
	err, _ := h.post(d.Collection.RemoveXattrs(ctx, k, xattrKeys, cas))
	return err
}

func (d *DataStore) DeleteSubDocPaths(ctx context.Context, k string, paths ...string) error {
	h := d.begin(ctx, OpDeleteSubDocPaths, k, "", 0)
	if err := h.pre(); err != nil {
		return err
	}
	err, _ := h.post(d.Collection.DeleteSubDocPaths(ctx, k, paths...))
	return err
}

func (d *DataStore) DeleteWithXattrs(ctx context.Context, k string, xattrKeys []string) error {
	h := d.begin(ctx, OpDeleteWithXattrs, k, "", 0)
	if err := h.pre(); err != nil {
		return err
	}
	err, _ := h.post(d.Collection.DeleteWithXattrs(ctx, k, xattrKeys))
	return err
}

func (d *DataStore) SubdocInsert(ctx context.Context, k string, subdocPath string, cas uint64, value any) error {
	h := d.begin(ctx, OpSubdocInsert, k, "", cas)
	if err := h.pre(); err != nil {
		return err
	}
	err, _ := h.post(d.Collection.SubdocInsert(ctx, k, subdocPath, cas, value))
	return err
}

func (d *DataStore) WriteSubDoc(ctx context.Context, k string, subdocPath string, cas uint64, value []byte) (casOut uint64, err error) {
	h := d.begin(ctx, OpWriteSubDoc, k, "", cas)
	if err := h.pre(); err != nil {
		return 0, err
	}
	casOut, err = d.Collection.WriteSubDoc(ctx, k, subdocPath, cas, value)
	if err, inj := h.post(err); inj {
		return 0, err
	}
	return casOut, err
}

// ---------------------------------------------------------------------------------------------
// composites, re-implemented over the primitives above

const (
	ViaUpdate                = "Update"
	ViaWriteUpdateWithXattrs = "WriteUpdateWithXattrs"
)

// Update mirrors rosmar's (*Collection).Update: GetRaw -> callback -> WriteCas, retried on CAS
// mismatch and on sgbucket.ErrCasFailureShouldRetry from the callback.
func (d *DataStore) Update(ctx context.Context, key string, exp uint32, callback sgbucket.UpdateFunc) (casOut uint64, err error) {
	for {
		// rosmar reads with its internal getRaw; the exported GetRaw returns the same (value, cas,
		// error) triple, including the tombstone's CAS together with a MissingError.
		raw, cas, err := d.getRaw(ctx, key, ViaUpdate)
		var missingError sgbucket.MissingError
		if err != nil && !errors.As(err, &missingError) {
			return 0, err
		}

		var newRaw []byte
		var newExp *uint32
		var del bool
		newRaw, newExp, del, err = callback(raw)
		if err != nil {
			if err == sgbucket.ErrCasFailureShouldRetry {
				continue // Callback wants us to retry
			}
			return cas, err
		}
		if newRaw == nil && newExp == nil && !del {
			return 0, nil // Callback canceled
		}
		if newRaw != nil || del {
			raw = newRaw
		}
		if newExp != nil {
			exp = *newExp
		}

		var opt sgbucket.WriteOptions = 0
		casOut, err = d.writeCas(ctx, key, exp, cas, raw, opt, ViaUpdate)
		if err == nil {
			break
		} else if _, ok := err.(sgbucket.CasMismatchErr); !ok {
			return 0, err // fatal error
		}
	}
	return casOut, err
}

// getForUpdate is the read step of WriteUpdateWithXattrs: rosmar's internal getRawWithXattrs,
// reconstructed from the exported GetWithXattrs plus the row's tombstone flag. It is one traced
// operation of type GetWithXattrs.
func (d *DataStore) getForUpdate(ctx context.Context, key string, xattrKeys []string) (sgbucket.BucketDocument, error) {
	h := d.begin(ctx, OpGetWithXattrs, key, ViaWriteUpdateWithXattrs, 0)
	if err := h.pre(); err != nil {
		return sgbucket.BucketDocument{}, err
	}
	doc, err := d.rawDocument(ctx, key, xattrKeys)
	if err, inj := h.post(err); inj {
		return sgbucket.BucketDocument{}, err
	}
	return doc, err
}

// rawDocument returns what rosmar's getRawWithXattrs returns: the document (with IsTombstone) and
// nil, or a zero document and sgbucket.MissingError when there is no row, or another error.
func (d *DataStore) rawDocument(ctx context.Context, key string, xattrKeys []string) (sgbucket.BucketDocument, error) {
	for attempt := 0; attempt < 1000; attempt++ {
		body, xattrs, cas, err := d.Collection.GetWithXattrs(ctx, key, xattrKeys)
		if err != nil {
			var missing sgbucket.MissingError
			if !errors.As(err, &missing) {
				return sgbucket.BucketDocument{}, err
			}
			if cas == 0 {
				return sgbucket.BucketDocument{}, err // no row at all
			}
			// a row without body and without any of the requested xattrs
			body, xattrs = nil, make(map[string][]byte, len(xattrKeys))
		}
		tombstone, cas2, found, err := d.rowFlags(ctx, key)
		if err != nil {
			return sgbucket.BucketDocument{}, err
		}
		if !found || cas2 != cas {
			continue // changed between the two statements: read again
		}
		return sgbucket.BucketDocument{Body: body, Xattrs: xattrs, Cas: cas, IsTombstone: tombstone}, nil
	}
	return sgbucket.BucketDocument{}, fmt.Errorf("verifstore: document %q kept changing while being read", key)
}

// WriteUpdateWithXattrs mirrors rosmar's (*Collection).WriteUpdateWithXattrs statement by statement,
// with the read and the three kinds of write going through the intercepted primitives.
func (d *DataStore) WriteUpdateWithXattrs(ctx context.Context, key string, xattrKeys []string, exp uint32, previous *sgbucket.BucketDocument, opts *sgbucket.MutateInOptions, callback sgbucket.WriteUpdateWithXattrsFunc) (casOut uint64, err error) {
	for {
		if previous == nil {
			// Get current doc if no previous doc was provided:
			prevDoc, err := d.getForUpdate(ctx, key, xattrKeys)
			if err != nil {
				if _, ok := err.(sgbucket.MissingError); !ok {
					return 0, err
				}
			}
			previous = &prevDoc
		}

		// Invoke the callback:
		updatedDoc, err := callback(previous.Body, previous.Xattrs, previous.Cas)
		if err != nil {
			if err == sgbucket.ErrCasFailureShouldRetry {
				// Callback wants us to retry:
				previous = nil
				continue
			}
			return previous.Cas, err
		}
		// (rosmar shadows the exp parameter here: only an expiry returned by the callback is used)
		var exp uint32
		if updatedDoc.Expiry != nil {
			exp = *updatedDoc.Expiry
		}
		// update the mutate in options if necessary
		if updatedDoc.Spec != nil {
			if opts == nil {
				opts = &sgbucket.MutateInOptions{}
			}
			opts.MacroExpansion = append(opts.MacroExpansion, updatedDoc.Spec...)
		}
		if updatedDoc.IsTombstone {
			deleteBody := previous.Body != nil
			casOut, err = d.writeTombstoneWithXattrs(ctx, key, exp, previous.Cas, updatedDoc.Xattrs, updatedDoc.XattrsToDelete, deleteBody, opts, ViaWriteUpdateWithXattrs)
		} else {
			cas := previous.Cas
			if previous.IsTombstone {
				if len(updatedDoc.XattrsToDelete) > 0 {
					return 0, sgbucket.ErrDeleteXattrOnTombstone
				}
				casOut, err = d.writeResurrectionWithXattrs(ctx, key, exp, updatedDoc.Doc, updatedDoc.Xattrs, opts, ViaWriteUpdateWithXattrs)
			} else {
				// Update body and/or xattr:
				casOut, err = d.writeWithXattrs(ctx, key, exp, cas, updatedDoc.Doc, updatedDoc.Xattrs, updatedDoc.XattrsToDelete, opts, ViaWriteUpdateWithXattrs)
			}
		}

		if _, ok := err.(sgbucket.CasMismatchErr); !ok && !errors.Is(err, sgbucket.ErrKeyExists) {
			// Exit loop on success or failure
			return casOut, err
		}

		// ...else retry. Clear `previous` to force a Get this time.
		previous = nil
	}
}
