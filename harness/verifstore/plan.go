package verifstore

import (
	"context"
	"errors"
	"fmt"
	"strings"

	sgbucket "github.com/couchbase/sg-bucket"
	"github.com/couchbase/sync_gateway/base"
)

// OpType names a storage primitive.
type OpType string

const (
	OpGet                         OpType = "Get"
	OpGetRaw                      OpType = "GetRaw"
	OpGetWithXattrs               OpType = "GetWithXattrs"
	OpGetXattrs                   OpType = "GetXattrs"
	OpGetSubDocRaw                OpType = "GetSubDocRaw"
	OpExists                      OpType = "Exists"
	OpGetExpiry                   OpType = "GetExpiry"
	OpGetAndTouchRaw              OpType = "GetAndTouchRaw"
	OpTouch                       OpType = "Touch"
	OpAdd                         OpType = "Add"
	OpAddRaw                      OpType = "AddRaw"
	OpSet                         OpType = "Set"
	OpSetRaw                      OpType = "SetRaw"
	OpDelete                      OpType = "Delete"
	OpRemove                      OpType = "Remove"
	OpWriteCas                    OpType = "WriteCas"
	OpIncr                        OpType = "Incr"
	OpWriteWithXattrs             OpType = "WriteWithXattrs"
	OpWriteTombstoneWithXattrs    OpType = "WriteTombstoneWithXattrs"
	OpWriteResurrectionWithXattrs OpType = "WriteResurrectionWithXattrs"
	OpSetXattrs                   OpType = "SetXattrs"
	OpUpdateXattrs                OpType = "UpdateXattrs"
	OpRemoveXattrs                OpType = "RemoveXattrs"
	OpDeleteSubDocPaths           OpType = "DeleteSubDocPaths"
	OpDeleteWithXattrs            OpType = "DeleteWithXattrs"
	OpSubdocInsert                OpType = "SubdocInsert"
	OpWriteSubDoc                 OpType = "WriteSubDoc"
)

// IsWrite reports whether the primitive can change the bucket.
func IsWrite(t OpType) bool {
	switch t {
	case OpGet, OpGetRaw, OpGetWithXattrs, OpGetXattrs, OpGetSubDocRaw, OpExists, OpGetExpiry:
		return false
	}
	return true
}

// CasTaking reports whether the primitive is a compare-and-swap style write, i.e. one that a
// concurrent change of the document makes fail with a CAS-mismatch (or key-exists) error:
// WriteCas, Remove, WriteWithXattrs, WriteTombstoneWithXattrs, WriteResurrectionWithXattrs (insert
// semantics), UpdateXattrs, RemoveXattrs, SubdocInsert, WriteSubDoc.
func CasTaking(t OpType) bool {
	switch t {
	case OpWriteCas, OpRemove, OpWriteWithXattrs, OpWriteTombstoneWithXattrs, OpWriteResurrectionWithXattrs,
		OpUpdateXattrs, OpRemoveXattrs, OpSubdocInsert, OpWriteSubDoc:
		return true
	}
	return false
}

// Action is what the plan does to an operation.
type Action int

const (
	Pass          Action = iota // apply normally
	FailBefore                  // not applied, ErrInjected
	FailCas                     // not applied, sgbucket.CasMismatchErr (CAS-taking operations only)
	TimeoutBefore               // not applied, base.ErrTimeout
	TimeoutAfter                // applied, then base.ErrTimeout (write operations only)
)

func (a Action) String() string {
	switch a {
	case Pass:
		return "Pass"
	case FailBefore:
		return "FailBefore"
	case FailCas:
		return "FailCas"
	case TimeoutBefore:
		return "TimeoutBefore"
	case TimeoutAfter:
		return "TimeoutAfter"
	}
	return fmt.Sprintf("Action(%d)", int(a))
}

// Actions lists the injectable failure kinds (everything except Pass).
var Actions = []Action{FailBefore, FailCas, TimeoutBefore, TimeoutAfter}

// Applicable reports whether the action makes sense on a primitive of the given type. Inapplicable
// actions in a plan are ignored (Op.Ignored).
func Applicable(t OpType, a Action) bool {
	switch a {
	case Pass, FailBefore, TimeoutBefore:
		return true
	case FailCas:
		return CasTaking(t)
	case TimeoutAfter:
		return IsWrite(t)
	}
	return false
}

// ApplicableOp is Applicable for a concrete recorded operation: in addition to the type rule, a CAS
// mismatch cannot happen to SubdocInsert / WriteSubDoc called with cas == 0 ("ignore CAS").
func ApplicableOp(o Op, a Action) bool { return applicable(o.Type, o.Cas, a) }

func applicable(t OpType, cas uint64, a Action) bool {
	if !Applicable(t, a) {
		return false
	}
	if a == FailCas && cas == 0 && (t == OpSubdocInsert || t == OpWriteSubDoc) {
		return false
	}
	return true
}

// ErrInjected is the generic storage error returned for FailBefore.
var ErrInjected = errors.New("verifstore: injected storage failure")

// IsInjected reports whether err is (or wraps) an error produced by this package's fault plan:
// ErrInjected, an injected base.ErrTimeout or an injected CAS mismatch cannot be told apart from real
// ones by type, so this only recognises ErrInjected; use the trace for the other kinds.
func IsInjected(err error) bool { return errors.Is(err, ErrInjected) }

// Fault is what happens to one operation. Hook (if any) runs first, without wrapper locks held, then
// Action is carried out.
type Fault struct {
	Action Action
	Hook   func()
}

// Rule addresses an operation by predicate: the Nth (1-based, 0 means 1) marked operation since Arm
// whose type, key and label match. Empty Type / Key / Label match anything; KeyPrefix, if set, must
// be a prefix of the key.
type Rule struct {
	Type      OpType
	Key       string
	KeyPrefix string
	Label     string
	Nth       int
	Fault     Fault
}

// Plan maps marked-operation indices (and predicates) to faults. At wins over Rules; the first
// matching rule wins among rules.
type Plan struct {
	At    map[int]Fault
	Rules []Rule
}

// Op is one recorded storage operation.
type Op struct {
	Seq     int    // position in the complete trace (marked and unmarked), from 1
	Index   int    // 1-based index among marked operations since Arm / ResetTrace; 0 if unmarked
	Type    OpType // primitive
	Store   string // "scope.collection"
	Key     string
	Marked  bool
	Label   string // label given to MarkAs ("" for Mark)
	Via     string // "Update" / "WriteUpdateWithXattrs" when issued by a re-implemented composite
	Cas     uint64 // CAS argument of CAS-taking operations
	Action  Action // injected action (Pass if none)
	Hooked  bool   // a hook ran before the operation
	Ignored bool   // the plan named an action that is not applicable to this operation type
	Applied bool   // forwarded to rosmar and rosmar reported success
	Done    bool   // the operation has returned
	Err     error  // what the caller got back (nil on success)
}

func (o Op) String() string {
	var sb strings.Builder
	if o.Marked {
		fmt.Fprintf(&sb, "%d:", o.Index)
	} else {
		sb.WriteString("-:")
	}
	sb.WriteString(string(o.Type))
	sb.WriteByte(' ')
	sb.WriteString(o.Key)
	if o.Hooked {
		sb.WriteString(" [hook]")
	}
	if o.Action != Pass {
		sb.WriteString(" [" + o.Action.String() + "]")
	}
	if o.Err != nil {
		sb.WriteString(" !" + errClass(o.Err))
	}
	return sb.String()
}

func errClass(err error) string {
	var missing sgbucket.MissingError
	var xmissing sgbucket.XattrMissingError
	switch {
	case errors.Is(err, ErrInjected):
		return "injected"
	case base.IsTimeoutError(err):
		return "timeout"
	case base.IsCasMismatch(err):
		return "cas"
	case errors.As(err, &missing):
		return "missing"
	case errors.As(err, &xmissing):
		return "xattr-missing"
	case errors.Is(err, sgbucket.ErrKeyExists):
		return "exists"
	case errors.Is(err, sgbucket.ErrPathExists):
		return "path-exists"
	case errors.Is(err, sgbucket.ErrPathNotFound):
		return "path-missing"
	}
	return "err"
}

// Render gives the canonical one-line rendering of a list of operations.
func Render(ops []Op) string {
	parts := make([]string, len(ops))
	for i, o := range ops {
		parts[i] = o.String()
	}
	return strings.Join(parts, "; ")
}

// Shape renders only type and key of each operation ("GetWithXattrs d1, Incr _sync:seq, ...").
func Shape(ops []Op) string {
	parts := make([]string, len(ops))
	for i, o := range ops {
		parts[i] = string(o.Type) + " " + o.Key
	}
	return strings.Join(parts, ", ")
}

// ---------------------------------------------------------------------------------------------
// context marker

type markerKey struct{}

type marker struct{ label string }

// Mark returns a context whose storage operations are numbered and subject to the fault plan.
func Mark(ctx context.Context) context.Context { return MarkAs(ctx, "") }

// MarkAs is Mark with a label that is recorded in Op.Label and can be matched by Rule.Label.
func MarkAs(ctx context.Context, label string) context.Context {
	return context.WithValue(ctx, markerKey{}, &marker{label: label})
}

// Unmark returns a context derived from ctx whose operations are NOT numbered (for work a hook does
// on behalf of somebody else while holding a marked context).
func Unmark(ctx context.Context) context.Context {
	return context.WithValue(ctx, markerKey{}, (*marker)(nil))
}

// IsMarked reports whether ctx carries the marker.
func IsMarked(ctx context.Context) bool {
	m, _ := ctx.Value(markerKey{}).(*marker)
	return m != nil
}

func markerOf(ctx context.Context) *marker {
	if ctx == nil {
		return nil
	}
	m, _ := ctx.Value(markerKey{}).(*marker)
	return m
}

// ---------------------------------------------------------------------------------------------
// plan / trace state (lives on the Bucket)

// Arm installs a plan (nil = none), clears the trace and restarts the marked-operation counter.
func (b *Bucket) Arm(p *Plan) {
	b.mu.Lock()
	b.plan = p
	b.resetLocked()
	b.mu.Unlock()
}

// Disarm removes the plan; trace and counter are kept.
func (b *Bucket) Disarm() {
	b.mu.Lock()
	b.plan = nil
	b.mu.Unlock()
}

// ResetTrace clears the trace and restarts the marked-operation counter; the plan stays.
func (b *Bucket) ResetTrace() {
	b.mu.Lock()
	b.resetLocked()
	b.mu.Unlock()
}

func (b *Bucket) resetLocked() {
	b.trace = nil
	b.nMarked = 0
	b.ruleHits = nil
	b.gen++
}

// Trace returns a copy of every operation recorded since the last Arm / ResetTrace.
func (b *Bucket) Trace() []Op {
	b.mu.Lock()
	defer b.mu.Unlock()
	out := make([]Op, len(b.trace))
	for i, o := range b.trace {
		out[i] = *o
	}
	return out
}

// MarkedTrace returns only the marked operations (Index 1..n).
func (b *Bucket) MarkedTrace() []Op {
	b.mu.Lock()
	defer b.mu.Unlock()
	var out []Op
	for _, o := range b.trace {
		if o.Marked {
			out = append(out, *o)
		}
	}
	return out
}

// MarkedCount is the number of marked operations started since the last Arm / ResetTrace.
func (b *Bucket) MarkedCount() int {
	b.mu.Lock()
	defer b.mu.Unlock()
	return b.nMarked
}

// SetTraceUnmarked switches recording of unmarked operations (default on). Marked operations are
// always recorded.
func (b *Bucket) SetTraceUnmarked(on bool) {
	b.mu.Lock()
	b.noUnmarked = !on
	b.mu.Unlock()
}

// opHandle is the in-flight state of one operation.
type opHandle struct {
	b     *Bucket
	rec   *Op // nil when not recorded
	gen   uint64
	fault Fault
	typ   OpType
	cas   uint64
}

func matchRule(r *Rule, t OpType, key, label string) bool {
	if r.Type != "" && r.Type != t {
		return false
	}
	if r.Key != "" && r.Key != key {
		return false
	}
	if r.KeyPrefix != "" && !strings.HasPrefix(key, r.KeyPrefix) {
		return false
	}
	if r.Label != "" && r.Label != label {
		return false
	}
	return true
}

// begin registers the operation, assigns its index and looks up its fault. No lock is held on return.
func (b *Bucket) begin(ctx context.Context, t OpType, store, key, via string, cas uint64) *opHandle {
	m := markerOf(ctx)
	h := &opHandle{b: b, typ: t, cas: cas}
	b.mu.Lock()
	defer b.mu.Unlock()
	h.gen = b.gen
	if m == nil {
		if b.noUnmarked {
			return h
		}
		h.rec = &Op{Seq: len(b.trace) + 1, Type: t, Store: store, Key: key, Via: via, Cas: cas}
		b.trace = append(b.trace, h.rec)
		return h
	}
	b.nMarked++
	rec := &Op{Seq: len(b.trace) + 1, Index: b.nMarked, Type: t, Store: store, Key: key, Marked: true, Label: m.label, Via: via, Cas: cas}
	b.trace = append(b.trace, rec)
	h.rec = rec
	if p := b.plan; p != nil {
		if f, ok := p.At[rec.Index]; ok {
			h.fault = f
		} else {
			// every rule counts all of its own matches; the first rule that reaches its Nth match wins
			assigned := false
			for i := range p.Rules {
				r := &p.Rules[i]
				if !matchRule(r, t, key, m.label) {
					continue
				}
				if b.ruleHits == nil {
					b.ruleHits = map[int]int{}
				}
				b.ruleHits[i]++
				n := r.Nth
				if n <= 0 {
					n = 1
				}
				if b.ruleHits[i] == n && !assigned {
					h.fault = r.Fault
					assigned = true
				}
			}
		}
		if h.fault.Action != Pass && !applicable(t, cas, h.fault.Action) {
			rec.Ignored = true
			h.fault.Action = Pass
		}
		rec.Action = h.fault.Action
		rec.Hooked = h.fault.Hook != nil
	}
	return h
}

// update mutates the record under the lock, unless the trace was reset meanwhile.
func (h *opHandle) update(f func(o *Op)) {
	if h.rec == nil {
		return
	}
	h.b.mu.Lock()
	if h.gen == h.b.gen {
		f(h.rec)
	}
	h.b.mu.Unlock()
}

// pre runs the hook (no locks held) and returns the injected error of a not-applied failure kind.
func (h *opHandle) pre() error {
	if h.fault.Hook != nil {
		h.fault.Hook()
	}
	var err error
	switch h.fault.Action {
	case FailBefore:
		err = ErrInjected
	case FailCas:
		err = sgbucket.CasMismatchErr{Expected: h.cas, Actual: 0}
	case TimeoutBefore:
		err = base.ErrTimeout
	default:
		return nil
	}
	h.update(func(o *Op) { o.Err = err; o.Done = true })
	return err
}

// post records the outcome of the forwarded call and turns it into a timeout for TimeoutAfter.
// injected is true when the caller must discard the real results.
func (h *opHandle) post(err error) (out error, injected bool) {
	out = err
	if h.fault.Action == TimeoutAfter {
		out = base.ErrTimeout
		injected = true
	}
	h.update(func(o *Op) { o.Applied = err == nil; o.Err = out; o.Done = true })
	return out, injected
}
