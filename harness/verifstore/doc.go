// Package verifstore is the shared fault-injecting, tracing bucket wrapper of the /verif harnesses
// (DESIGN §3.2). It exists only in the build overlay (mounted at /repo/verifstore); it is never part
// of /repo. It may be imported from the injected db / auth / rest test files:
//
//	import vs "github.com/couchbase/sync_gateway/verifstore"
//
// # What it is
//
// Wrap(b) returns a *Bucket that implements base.Bucket and base.WrappingBucket around a rosmar
// backed bucket (normally the *base.TestBucket of the bucket pool) - the same mechanism as the
// repository's base.LeakyBucket, so db.NewDatabaseContext, the DCP caching feed, views, queries and
// base.GetBaseBucket / base.AsRosmarBucket unwrapping keep working when the wrapper is handed over as
// "the bucket" (e.g. through vfDBConfig.WrapBucket). Its data stores (*DataStore) embed the concrete
// *rosmar.Collection, so every optional interface (views, queries, range scan, ...) stays
// satisfied, and override EVERY read and write primitive of sgbucket.DataStore:
//
//	reads : Get GetRaw GetWithXattrs GetXattrs GetSubDocRaw Exists GetExpiry
//	writes: GetAndTouchRaw Touch Add AddRaw Set SetRaw Delete Remove WriteCas Incr WriteWithXattrs
//	        WriteTombstoneWithXattrs WriteResurrectionWithXattrs SetXattrs UpdateXattrs RemoveXattrs
//	        DeleteSubDocPaths DeleteWithXattrs SubdocInsert WriteSubDoc
//
// Update and WriteUpdateWithXattrs are NOT forwarded: rosmar runs their read -> callback ->
// compare-and-swap-write loops internally where nothing can be intercepted. They are re-implemented
// here as explicit loops over the primitives above, mirroring rosmar's implementation line by line
// (CAS-retry on CasMismatchErr / ErrKeyExists, sgbucket.ErrCasFailureShouldRetry from the callback,
// "cancel" results, the `previous` document short-cut, tombstone / resurrection dispatch on the row's
// tombstone flag, rosmar's expiry handling, the append to opts.MacroExpansion). Each iteration
// therefore shows up in the trace as its primitives (`GetRaw k; WriteCas k` resp.
// `GetWithXattrs k; WriteWithXattrs|WriteTombstoneWithXattrs|WriteResurrectionWithXattrs k`) with
// Op.Via naming the composite, and each of them can be failed or hooked individually.
//
// # Only the request under test is numbered
//
// Mark(ctx) (or MarkAs(ctx, label)) returns a context carrying a marker value. Only operations whose
// context carries the marker are *marked*: they get a 1-based Index (counted from the last
// Arm / ResetTrace) and only they are subject to the fault plan. Everything else - the caching
// feed's own reads, background tasks, other clients run by a hook through an un-marked context -
// passes through untouched and is traced with Marked=false, Index=0. (The product propagates the
// request context to every storage call of the request, including db.Authenticator(ctx).)
//
// # Fault plan
//
// Arm(&Plan{At: map[int]Fault{k: {...}}, Rules: []Rule{...}}) installs a plan and resets trace
// and counters. A Fault has an Action and/or a Hook:
//
//	FailBefore     do not apply, return ErrInjected (a generic error)
//	FailCas        do not apply, return sgbucket.CasMismatchErr (what base.IsCasMismatch recognises);
//	               only applicable to CAS-taking operations (see CasTaking)
//	TimeoutBefore  do not apply, return base.ErrTimeout (what base.IsTimeoutError recognises)
//	TimeoutAfter   apply, then return base.ErrTimeout ("outcome unknown"); write operations only
//	Hook func()    runs immediately before the operation is applied - for a CAS write this is exactly
//	               the read -> compare-and-swap window. It is called WITHOUT any wrapper lock held and
//	               may run arbitrary harness code (another client's complete write through an un-marked
//	               context, an external write on the underlying store, ...). Hook and Action combine
//	               (hook first).
//
// Rules address an operation by predicate instead of index ("the Nth marked operation of type T on
// key K [by label L]"). An action that is not applicable to the operation it lands on is ignored
// (Op.Ignored is set) - use Applicable(op.Type, action) / ApplicableOp(op, action) when enumerating
// (FailCas is not applicable to SubdocInsert / WriteSubDoc issued with cas == 0).
//
// # Trace
//
// Trace() returns every recorded operation (marked and unmarked) in start order; MarkedTrace() only
// the marked ones; Render gives the canonical one-line form `1:GetWithXattrs d1; 2:Incr _sync:seq;
// 3:WriteWithXattrs d1`. Op.Applied says the operation reached rosmar and rosmar reported success.
//
// # Snapshot
//
// Snapshot(ctx) lists every row of every data store of the bucket (including tombstones, the
// _system._mobile collection and rows whose value is NULL) with raw body, every xattr (user and system:
// _sync, _vv, _mou, _globalSync, ...), rosmar's tombstone flag, expiry, CAS. It is one SQL statement
// run through rosmar's exported Query API, i.e. atomic for the whole bucket. Doc.Same compares
// everything except CAS / revSeqNo (compare those separately if wanted); DiffSnapshots lists the
// differences.
//
// # Test-double fidelity corrections (list them as assumptions in checks.d/<ID>.json)
//
//   - Server-faithful Delete (on by default, SetServerFaithfulDelete(false) switches it off):
//     Delete of a missing OR ALREADY DELETED key fails with sgbucket.MissingError as on Couchbase
//     Server. Raw rosmar finds the tombstone row and succeeds again. Implemented as an atomic
//     "has a live value" check + delete under a wrapper lock that serialises all Deletes of the bucket.
//     It applies to marked and unmarked callers alike.
//   - WriteUpdateWithXattrs needs the row's tombstone flag, which rosmar's public GetWithXattrs does
//     not return. It is read with a second statement (exported Query API) and the pair is accepted only
//     when both saw the same CAS, so the result equals rosmar's single internal read.
//   - SubdocInsert / WriteSubDoc are single operations here, as on the server (rosmar implements them
//     as an internal get + WriteCas loop).
//   - A FailCas injection does not change the document, so the retry re-reads the same CAS; rosmar's
//     loops retry happily (the gocb loop in base/collection_xattr_common.go would give up with
//     "no change in document CAS"). Combine FailCas with a Hook that really changes the document when
//     that distinction matters.
//
// Everything is safe for concurrent use (the caching feed runs concurrently), reads no clock and is
// deterministic given the plan and the sequence of marked operations.
package verifstore
