package verifstore

import (
	"context"
	"expvar"
	"fmt"
	"sync"
	"sync/atomic"

	sgbucket "github.com/couchbase/sg-bucket"
	"github.com/couchbase/sync_gateway/base"
	"github.com/couchbaselabs/rosmar"
)

// Bucket is the intercepting wrapper. It implements base.Bucket (sgbucket.BucketStore),
// base.WrappingBucket and sgbucket.DynamicDataStoreBucket.
type Bucket struct {
	under  base.Bucket    // what was handed to Wrap (normally *base.TestBucket)
	rosmar *rosmar.Bucket // base.GetBaseBucket(under)

	storeMu sync.Mutex
	stores  map[*rosmar.Collection]*DataStore

	mu         sync.Mutex // protects plan / trace state below; never held while calling out
	plan       *Plan
	trace      []*Op
	nMarked    int
	ruleHits   map[int]int
	gen        uint64
	noUnmarked bool

	delMu          sync.Mutex // serialises Deletes (server-faithful Delete)
	rawRosmarDelete atomic.Bool
}

var (
	_ base.Bucket                     = &Bucket{}
	_ base.WrappingBucket             = &Bucket{}
	_ sgbucket.DynamicDataStoreBucket = &Bucket{}
	_ sgbucket.DeleteableStore        = &Bucket{}
)

// Wrap returns the intercepting bucket around b. b must (after unwrapping base.WrappingBuckets)
// be a rosmar bucket; Wrap panics otherwise - the harnesses only run offline on rosmar. Data stores
// are taken from the rosmar bucket itself, so other wrappers between b and rosmar are bypassed for
// key/value traffic.
func Wrap(b base.Bucket) *Bucket {
	rb, err := base.AsRosmarBucket(b)
	if err != nil {
		panic(fmt.Sprintf("verifstore.Wrap: %v", err))
	}
	return &Bucket{under: b, rosmar: rb, stores: map[*rosmar.Collection]*DataStore{}}
}

// AsBucket finds the verifstore wrapper in a chain of wrapping buckets (nil if there is none).
func AsBucket(b base.Bucket) *Bucket {
	for b != nil {
		if vb, ok := b.(*Bucket); ok {
			return vb
		}
		wb, ok := b.(base.WrappingBucket)
		if !ok {
			return nil
		}
		b = wb.GetUnderlyingBucket()
	}
	return nil
}

// SetServerFaithfulDelete switches the Couchbase-Server Delete semantics (key-not-found for a missing
// or already deleted key) on or off. Default: on.
func (b *Bucket) SetServerFaithfulDelete(on bool) { b.rawRosmarDelete.Store(!on) }

// GetUnderlyingBucket implements base.WrappingBucket.
func (b *Bucket) GetUnderlyingBucket() base.Bucket { return b.under }

// Rosmar returns the rosmar bucket at the bottom.
func (b *Bucket) Rosmar() *rosmar.Bucket { return b.rosmar }

func (b *Bucket) GetName() string { return b.under.GetName() }

func (b *Bucket) UUID(ctx context.Context) (string, error) { return b.under.UUID(ctx) }

func (b *Bucket) Close(ctx context.Context) { b.under.Close(ctx) }

func (b *Bucket) CloseAndDelete(ctx context.Context) error {
	if d, ok := b.under.(sgbucket.DeleteableStore); ok {
		return d.CloseAndDelete(ctx)
	}
	return b.rosmar.CloseAndDelete(ctx)
}

func (b *Bucket) IsSupported(feature sgbucket.BucketStoreFeature) bool {
	return b.under.IsSupported(feature)
}

func (b *Bucket) GetMaxVbno(ctx context.Context) (uint16, error) { return b.under.GetMaxVbno(ctx) }

func (b *Bucket) StartDCPFeed(ctx context.Context, args sgbucket.FeedArguments, callback sgbucket.FeedEventCallbackFunc, dbStats *expvar.Map) error {
	return b.under.StartDCPFeed(ctx, args, callback, dbStats)
}

func (b *Bucket) ListDataStores(ctx context.Context) ([]sgbucket.DataStoreName, error) {
	return b.under.ListDataStores(ctx)
}

func (b *Bucket) CreateDataStore(ctx context.Context, name sgbucket.DataStoreName) error {
	return b.rosmar.CreateDataStore(ctx, name)
}

func (b *Bucket) DropDataStore(ctx context.Context, name sgbucket.DataStoreName) error {
	return b.rosmar.DropDataStore(ctx, name)
}

func (b *Bucket) DefaultDataStore(ctx context.Context) sgbucket.DataStore {
	ds := b.rosmar.DefaultDataStore(ctx)
	if ds == nil {
		return nil
	}
	return b.wrap(ds)
}

func (b *Bucket) NamedDataStore(ctx context.Context, name sgbucket.DataStoreName) (sgbucket.DataStore, error) {
	ds, err := b.rosmar.NamedDataStore(ctx, name)
	if err != nil {
		return nil, err
	}
	return b.wrap(ds), nil
}

// Store returns the wrapped data store for scope.collection ("_default._default" for the default one).
func (b *Bucket) Store(ctx context.Context, scope, collection string) (*DataStore, error) {
	ds, err := b.NamedDataStore(ctx, sgbucket.DataStoreNameImpl{Scope: scope, Collection: collection})
	if err != nil {
		return nil, err
	}
	return ds.(*DataStore), nil
}

func (b *Bucket) wrap(ds sgbucket.DataStore) *DataStore {
	c, ok := ds.(*rosmar.Collection)
	if !ok {
		panic(fmt.Sprintf("verifstore: data store is %T, want *rosmar.Collection", ds))
	}
	b.storeMu.Lock()
	defer b.storeMu.Unlock()
	if w, ok := b.stores[c]; ok {
		return w
	}
	w := &DataStore{Collection: c, b: b, name: c.ScopeName() + "." + c.CollectionName()}
	b.stores[c] = w
	return w
}
